//! Small expression language for user functions (C17, C18, C19): prefix tokens, evaluated here by
//! a Rust closure and by the Lean model with the same operation order (bit-identical results).
//!   v <i> | k <const> | + a b | - a b | * a b | / a b | neg a | sin a | cos a | exp a | abs a
use crate::wire::*;
use ohsl::Cmplx;

#[derive(Clone, Debug)]
pub enum Expr<T> { Var(usize), Const(T), Add(Box<Expr<T>>, Box<Expr<T>>), Sub(Box<Expr<T>>, Box<Expr<T>>), Mul(Box<Expr<T>>, Box<Expr<T>>), Div(Box<Expr<T>>, Box<Expr<T>>),
    Neg(Box<Expr<T>>), Sin(Box<Expr<T>>), Cos(Box<Expr<T>>), Exp(Box<Expr<T>>), Abs(Box<Expr<T>>) }

pub trait Ev: Copy + W + core::ops::Add<Output = Self> + core::ops::Sub<Output = Self> + core::ops::Mul<Output = Self> + core::ops::Div<Output = Self> + core::ops::Neg<Output = Self> {
    fn esin(self) -> Self; fn ecos(self) -> Self; fn eexp(self) -> Self; fn eabs(self) -> Self; fn from_f(x: f64) -> Self;
}
impl Ev for f64 { fn esin(self) -> f64 { self.sin() } fn ecos(self) -> f64 { self.cos() } fn eexp(self) -> f64 { self.exp() } fn eabs(self) -> f64 { self.abs() } fn from_f(x: f64) -> f64 { x } }
impl Ev for Cmplx { fn esin(self) -> Cmplx { self.sin() } fn ecos(self) -> Cmplx { self.cos() } fn eexp(self) -> Cmplx { self.exp() } fn eabs(self) -> Cmplx { Cmplx::new(self.abs(), 0.0) } fn from_f(x: f64) -> Cmplx { Cmplx::new(x, 0.0) } }

impl<T: Ev> Expr<T> {
    pub fn parse(t: &mut Toks) -> Expr<T> {
        let b = |t: &mut Toks| Box::new(Expr::parse(t));
        match t.next() {
            "v" => Expr::Var(t.usize()), "k" => Expr::Const(t.get()),
            "+" => { let a = b(t); Expr::Add(a, b(t)) } "-" => { let a = b(t); Expr::Sub(a, b(t)) }
            "*" => { let a = b(t); Expr::Mul(a, b(t)) } "/" => { let a = b(t); Expr::Div(a, b(t)) }
            "neg" => Expr::Neg(b(t)), "sin" => Expr::Sin(b(t)), "cos" => Expr::Cos(b(t)), "exp" => Expr::Exp(b(t)), "abs" => Expr::Abs(b(t)),
            x => panic!("HARNESS: bad expression token {}", x),
        }
    }
    pub fn show(&self) -> String {
        match self {
            Expr::Var(i) => format!("v {}", i), Expr::Const(c) => format!("k {}", c.wr()),
            Expr::Add(a, b) => format!("+ {} {}", a.show(), b.show()), Expr::Sub(a, b) => format!("- {} {}", a.show(), b.show()),
            Expr::Mul(a, b) => format!("* {} {}", a.show(), b.show()), Expr::Div(a, b) => format!("/ {} {}", a.show(), b.show()),
            Expr::Neg(a) => format!("neg {}", a.show()), Expr::Sin(a) => format!("sin {}", a.show()), Expr::Cos(a) => format!("cos {}", a.show()),
            Expr::Exp(a) => format!("exp {}", a.show()), Expr::Abs(a) => format!("abs {}", a.show()),
        }
    }
    pub fn eval(&self, x: &[T]) -> T {
        match self {
            Expr::Var(i) => x[*i], Expr::Const(c) => *c,
            Expr::Add(a, b) => a.eval(x) + b.eval(x), Expr::Sub(a, b) => a.eval(x) - b.eval(x),
            Expr::Mul(a, b) => a.eval(x) * b.eval(x), Expr::Div(a, b) => a.eval(x) / b.eval(x),
            Expr::Neg(a) => -a.eval(x), Expr::Sin(a) => a.eval(x).esin(), Expr::Cos(a) => a.eval(x).ecos(), Expr::Exp(a) => a.eval(x).eexp(), Expr::Abs(a) => a.eval(x).eabs(),
        }
    }
    /// largest magnitude of any intermediate value of the evaluation at `x` (the rounding error of the computed value is
    /// proportional to it, not to the final value, which may be small by cancellation)
    pub fn peak(&self, x: &[T], mag: &dyn Fn(&T) -> f64) -> f64 {
        let here = mag(&self.eval(x));
        let sub = match self {
            Expr::Var(_) | Expr::Const(_) => 0.0,
            Expr::Add(a, b) | Expr::Sub(a, b) | Expr::Mul(a, b) | Expr::Div(a, b) => a.peak(x, mag).max(b.peak(x, mag)),
            Expr::Neg(a) | Expr::Sin(a) | Expr::Cos(a) | Expr::Exp(a) | Expr::Abs(a) => a.peak(x, mag),
        };
        here.max(sub)
    }
    /// symbolic partial derivative (oracle only; `abs` is treated as non-differentiable → None)
    pub fn diff(&self, j: usize) -> Option<Expr<T>> {
        let bx = |e: Expr<T>| Box::new(e);
        Some(match self {
            Expr::Var(i) => Expr::Const(T::from_f(if *i == j { 1.0 } else { 0.0 })), Expr::Const(_) => Expr::Const(T::from_f(0.0)),
            Expr::Add(a, b) => Expr::Add(bx(a.diff(j)?), bx(b.diff(j)?)), Expr::Sub(a, b) => Expr::Sub(bx(a.diff(j)?), bx(b.diff(j)?)),
            Expr::Mul(a, b) => Expr::Add(bx(Expr::Mul(bx(a.diff(j)?), b.clone())), bx(Expr::Mul(a.clone(), bx(b.diff(j)?)))),
            Expr::Div(a, b) => Expr::Div(bx(Expr::Sub(bx(Expr::Mul(bx(a.diff(j)?), b.clone())), bx(Expr::Mul(a.clone(), bx(b.diff(j)?))))), bx(Expr::Mul(b.clone(), b.clone()))),
            Expr::Neg(a) => Expr::Neg(bx(a.diff(j)?)),
            Expr::Sin(a) => Expr::Mul(bx(Expr::Cos(a.clone())), bx(a.diff(j)?)),
            Expr::Cos(a) => Expr::Neg(bx(Expr::Mul(bx(Expr::Sin(a.clone())), bx(a.diff(j)?)))),
            Expr::Exp(a) => Expr::Mul(bx(Expr::Exp(a.clone())), bx(a.diff(j)?)),
            Expr::Abs(_) => return None,
        })
    }
}

/// a vector-valued user function: `m` component expressions; optionally one extra component
/// when `x[0] > threshold` (a map whose output size changes: must be rejected by the callers)
#[derive(Clone)]
pub struct VFn<T> { pub comps: Vec<Expr<T>>, pub ext: Option<f64> }
impl<T: Ev> VFn<T> {
    pub fn parse(t: &mut Toks) -> VFn<T> {
        let m = t.usize();
        let comps = (0..m).map(|_| Expr::parse(t)).collect();
        let ext = match t.next() { "ext" => Some(t.get::<f64>()), _ => None };
        VFn { comps, ext }
    }
    pub fn show(&self) -> String {
        let mut s = format!("{}", self.comps.len());
        for c in &self.comps { s.push(' '); s.push_str(&c.show()); }
        match self.ext { Some(c) => s.push_str(&format!(" ext {}", c.wr())), None => s.push_str(" noext") }
        s
    }
}
