//! ohsl-harness: drives the real ohsl code (path dependency on /repo) for the correspondence
//! check with the Lean model, and evaluates independent oracles on the implementation's
//! outputs.
//!
//!   ohsl-harness gen <prop> <quick|thorough> <seed> <cases-file>
//!   ohsl-harness run <cases-file> <impl-out> <oracle-out> <meta-out>
//!
//! `gen` writes one request per line (`<id> <op> <args…>`); `run` executes every request
//! against the implementation in-process under catch_unwind and writes
//!   impl-out   : `<id> <response>`         (diffed byte-wise with the model's output)
//!   oracle-out : `<id> ok` | `<id> FAIL <what>` | `<id> skip <why>`
//!   meta-out   : `<id> key=value …`        (branch / distribution statistics)
#![allow(dead_code)]
mod q;
mod wire;
mod sc;
mod c13;
mod c03;
mod c01;
mod c15;
mod c11;
mod c05;
mod c04;
mod c06;
mod c08;
mod c10;
mod c14;
mod c16;
mod expr;
mod c17;
mod c19;
mod c20;

use std::io::Write;
use wire::{Rng, Toks};

#[derive(Clone, Copy, PartialEq)]
pub enum Tier { Quick, Thorough }

/// Per-case context filled by the executors.
#[derive(Default)]
pub struct Ctx {
    pub fails: Vec<String>,
    pub meta: Vec<(String, String)>,
    pub skip: Option<String>,
}
impl Ctx {
    pub fn fail(&mut self, what: impl Into<String>) { self.fails.push(what.into()); }
    pub fn check(&mut self, cond: bool, what: &str) { if !cond { self.fails.push(what.to_string()); } }
    pub fn meta(&mut self, k: &str, v: impl ToString) { self.meta.push((k.to_string(), v.to_string())); }
}

type GenFn = fn(&mut Rng, Tier, &mut Vec<String>);
type ExecFn = fn(&str, &mut Toks, &mut Ctx) -> Option<String>;

fn gens() -> Vec<(&'static str, GenFn)> {
    vec![("C13", c13::gen as GenFn), ("C03", c03::gen as GenFn), ("C01", c01::gen as GenFn), ("C02", c01::gen_c02 as GenFn), ("C15", c15::gen as GenFn), ("C11", c11::gen as GenFn), ("C12", c11::gen_c12 as GenFn), ("C05", c05::gen as GenFn), ("C04", c04::gen as GenFn), ("C06", c06::gen as GenFn), ("C07", c06::gen_c07 as GenFn), ("C08", c08::gen as GenFn), ("C09", c08::gen_c09 as GenFn), ("C10", c10::gen as GenFn), ("C14", c14::gen as GenFn), ("C16", c16::gen as GenFn), ("C17", c17::gen as GenFn), ("C18", c17::gen_c18 as GenFn), ("C19", c19::gen as GenFn), ("C20", c20::gen as GenFn)]
}
fn execs() -> Vec<ExecFn> {
    vec![c13::exec as ExecFn, c03::exec as ExecFn, c01::exec as ExecFn, c15::exec as ExecFn, c11::exec as ExecFn, c05::exec as ExecFn, c04::exec as ExecFn, c06::exec as ExecFn, c08::exec as ExecFn, c10::exec as ExecFn, c14::exec as ExecFn, c16::exec as ExecFn, c17::exec as ExecFn, c19::exec as ExecFn, c20::exec as ExecFn]
}

fn main() {
    let args: Vec<String> = std::env::args().collect();
    if std::env::var("OHSL_HARNESS_SHOW_PANICS").is_err() { std::panic::set_hook(Box::new(|_| {})); }
    match args.get(1).map(|s| s.as_str()) {
        Some("gen") => {
            let prop = &args[2];
            let tier = if args[3] == "thorough" { Tier::Thorough } else { Tier::Quick };
            let seed: u64 = args[4].parse().expect("seed");
            let mut rng = Rng(seed ^ 0xC0FFEE_u64.wrapping_mul(prop.bytes().map(|b| b as u64).sum::<u64>()));
            let mut lines = Vec::new();
            let g = gens().into_iter().find(|(p, _)| p == prop).unwrap_or_else(|| { eprintln!("unknown property {}", prop); std::process::exit(2) }).1;
            g(&mut rng, tier, &mut lines);
            let mut f = std::io::BufWriter::new(std::fs::File::create(&args[5]).expect("create cases"));
            for (i, l) in lines.iter().enumerate() {
                writeln!(f, "{}.{} {}", prop, i, l).unwrap();
            }
        }
        Some("run") => {
            let data = std::fs::read_to_string(&args[2]).expect("read cases");
            let mut fi = std::io::BufWriter::new(std::fs::File::create(&args[3]).unwrap());
            let mut fo = std::io::BufWriter::new(std::fs::File::create(&args[4]).unwrap());
            let mut fm = std::io::BufWriter::new(std::fs::File::create(&args[5]).unwrap());
            // progress file (unbuffered, one short line per case BEFORE it is executed): if the implementation does not
            // terminate on some input, the driver script finds the case that was running
            let mut fp = std::fs::File::create(format!("{}.progress", &args[3])).unwrap();
            let ex = execs();
            for line in data.lines() {
                let line = line.trim();
                if line.is_empty() || line.starts_with('#') { continue; }
                let mut t = Toks::new(line);
                let id = t.next();
                let op = t.next();
                let mut cx = Ctx::default();
                let mut resp: Option<String> = None;
                // the executor itself runs under catch_unwind: a panic escaping an executor
                // is a harness bug or an i128 overflow in an oracle, never an agreement
                let _ = writeln!(fp, "{}", id);
                let r = wire::guarded(|| {
                    for e in &ex {
                        let mut t2 = Toks::new(line);
                        t2.next();
                        t2.next();
                        if let Some(s) = e(op, &mut t2, &mut cx) { return Some(s); }
                    }
                    None
                });
                match r {
                    Ok(Some(s)) => resp = Some(s),
                    Ok(None) => { eprintln!("no executor for op {}", op); std::process::exit(2); }
                    Err("overflow") => { cx.skip = Some("overflow".into()); }
                    Err(c) => { resp = Some(format!("escaped-panic:{}", c)); cx.fail(format!("executor panicked ({})", c)); }
                }
                let _ = t;
                if let Some(why) = &cx.skip {
                    writeln!(fi, "{} skip", id).unwrap();
                    // (an overflow of the harness rationals voids the whole case, failures included: inner catch_unwind blocks turn
                    //  the overflow into 'panicked' verdicts that are artefacts of the harness arithmetic, not of the code under test)
                    writeln!(fo, "{} skip {}", id, why).unwrap();
                } else {
                    writeln!(fi, "{} {}", id, resp.unwrap()).unwrap();
                    if cx.fails.is_empty() { writeln!(fo, "{} ok", id).unwrap(); }
                    else { writeln!(fo, "{} FAIL {}", id, cx.fails.join(" ; ")).unwrap(); }
                }
                let m: Vec<String> = cx.meta.iter().map(|(k, v)| format!("{}={}", k, v)).collect();
                writeln!(fm, "{} {}", id, m.join(" ")).unwrap();
            }
        }
        _ => { eprintln!("usage: gen|run …"); std::process::exit(2); }
    }
}

/// Append one sub-result to a response: the value, or `!class` when the call panicked.
pub fn push_res(out: &mut String, r: Result<String, &'static str>, cx: &mut Ctx) {
    if !out.is_empty() { out.push(' '); }
    match r {
        Ok(s) => out.push_str(&s),
        Err("overflow") => { cx.skip = Some("overflow".into()); out.push_str("!overflow"); }
        Err(c) => { out.push('!'); out.push_str(c); }
    }
}
