//! C03 — dense matrix algebra / editing against a Vec<Vec<_>> reference, over histories.
//! Also used by C20 (rejections leave the state untouched; operands not mutated).
use crate::sc::*;
use crate::q::Q;
use crate::wire::*;
use crate::{Ctx, Tier};
use ohsl::{Matrix, Vector};

#[derive(Clone)]
pub struct RefM<T> { pub r: usize, pub c: usize, pub a: Rows<T> }
impl<T: Sc> RefM<T> {
    pub fn of(m: &Matrix<T>) -> Self { RefM { r: m.rows(), c: m.cols(), a: mat_rows(m) } }
    pub fn zeros(r: usize, c: usize) -> Self { RefM { r, c, a: vec![vec![T::zero(); c]; r] } }
    pub fn eq_mat(&self, m: &Matrix<T>) -> bool {
        self.r == m.rows() && self.c == m.cols() && (0..self.r).all(|i| (0..self.c).all(|j| self.a[i][j].same(&m[(i, j)])))
    }
    pub fn map(&self, f: impl Fn(T) -> T) -> Self { RefM { r: self.r, c: self.c, a: self.a.iter().map(|r| r.iter().map(|x| f(*x)).collect()).collect() } }
    pub fn zip(&self, o: &Self, f: impl Fn(T, T) -> T) -> Self {
        RefM { r: self.r, c: self.c, a: (0..self.r).map(|i| (0..self.c).map(|j| f(self.a[i][j], o.a[i][j])).collect()).collect() }
    }
}

enum Exp<T> { State(RefM<T>), Vec(Vec<T>), Reject }

fn outcome<T: Sc>(r: &Result<String, &'static str>) -> String {
    match r { Ok(s) if s.is_empty() => "ok".to_string(), Ok(s) => format!("ok {}", s), Err(c) => format!("!{}", c) }
}

/// one operation of a history. returns the response fragment.
fn apply<T: Sc>(m: &mut Matrix<T>, op: &str, t: &mut Toks, cx: &mut Ctx) -> String {
    let before = m.clone();
    let rf = RefM::of(&before);
    let zero = T::zero();
    let mut exp: Option<Exp<T>> = None;
    let res: Result<String, &'static str>;
    macro_rules! check_same { ($a:expr, $b:expr, $what:expr) => { match (&$a, &$b) {
        (Ok(x), Ok(y)) => cx.check(same_mat(x, y), $what), (Err(_), Err(_)) => {}, _ => cx.fail($what) } }; }
    match op {
        "add" | "sub" => {
            let b: Matrix<T> = rd_mat(t);
            let bsnap = b.clone();
            let plus = op == "add";
            let r1 = guarded(|| if plus { &*m + &b } else { &*m - &b });
            cx.check(same_mat(m, &before) && same_mat(&b, &bsnap), "by-reference operator mutated an operand");
            let r2 = guarded(|| if plus { m.clone() + b.clone() } else { m.clone() - b.clone() });
            let r3 = guarded(|| { let mut x = m.clone(); if plus { x += &b } else { x -= &b }; x });
            let r4 = guarded(|| { let mut x = m.clone(); if plus { x += b.clone() } else { x -= b.clone() }; x });
            check_same!(r1, r2, "owned and borrowed operator forms differ");
            check_same!(r1, r3, "compound assignment (&) differs from binary form");
            check_same!(r1, r4, "compound assignment differs from binary form");
            exp = Some(if rf.r != b.rows() || rf.c != b.cols() { Exp::Reject } else {
                let rb = RefM::of(&b);
                Exp::State(rf.zip(&rb, |x, y| if plus { x + y } else { x - y })) });
            res = r1.map(|x| { *m = x; String::new() });
        }
        "neg" => {
            let r1 = guarded(|| -&*m);
            cx.check(same_mat(m, &before), "by-reference operator mutated an operand");
            let r2 = guarded(|| -(m.clone()));
            check_same!(r1, r2, "owned and borrowed negation differ");
            exp = Some(Exp::State(rf.map(|x| -x)));
            res = r1.map(|x| { *m = x; String::new() });
        }
        "smul" | "sdiv" | "adds" | "subs" => {
            let s: T = t.get();
            let r1 = match op {
                "smul" => { let a = guarded(|| &*m * s); let b = guarded(|| m.clone() * s); let c = guarded(|| { let mut x = m.clone(); x *= s; x });
                            check_same!(a, b, "owned/borrowed scalar product differ"); check_same!(a, c, "*= differs from *"); a }
                "sdiv" => { let a = guarded(|| &*m / s); let b = guarded(|| m.clone() / s); let c = guarded(|| { let mut x = m.clone(); x /= s; x });
                            check_same!(a, b, "owned/borrowed scalar division differ"); check_same!(a, c, "/= differs from /"); a }
                "adds" => guarded(|| { let mut x = m.clone(); x += s; x }),
                _ => guarded(|| { let mut x = m.clone(); x -= s; x }),
            };
            cx.check(same_mat(m, &before), "by-reference operator mutated an operand");
            exp = Some(if op == "sdiv" && T::is_exact() && s == zero && rf.r * rf.c > 0 { Exp::Reject } else if op == "sdiv" && T::is_exact() && s == zero { Exp::State(rf.clone()) } else {
                Exp::State(rf.map(|x| match op { "smul" => x * s, "sdiv" => x / s, "adds" => x + s, _ => x - s })) });
            res = r1.map(|x| { *m = x; String::new() });
        }
        "mul" => {
            let b: Matrix<T> = rd_mat(t);
            let bsnap = b.clone();
            let r1 = guarded(|| &*m * &b);
            cx.check(same_mat(m, &before) && same_mat(&b, &bsnap), "by-reference operator mutated an operand");
            let r2 = guarded(|| m.clone() * b.clone());
            check_same!(r1, r2, "owned and borrowed matrix products differ");
            exp = Some(if rf.c != b.rows() { Exp::Reject } else {
                let rb = RefM::of(&b);
                let mut out = RefM::zeros(rf.r, rb.c);
                for i in 0..rf.r { for j in 0..rb.c { let mut s = zero; for k in 0..rf.c { s += rf.a[i][k] * rb.a[k][j]; } out.a[i][j] = s; } }
                Exp::State(out) });
            cx.meta("mulshape", format!("{}x{}x{}", rf.r, rf.c, b.cols()));
            res = r1.map(|x| { *m = x; String::new() });
        }
        "mulv" => {
            let v: Vector<T> = rd_vector(t);
            let vs = v.clone();
            let r1 = guarded(|| &*m * &v);
            cx.check(same_mat(m, &before) && same_vec(&v.vec, &vs.vec), "by-reference operator mutated an operand");
            let r2 = guarded(|| m.clone() * v.clone());
            let r3 = guarded(|| m.multiply(&v));
            match (&r1, &r2, &r3) { (Ok(a), Ok(b), Ok(c)) => cx.check(same_vec(&a.vec, &b.vec) && same_vec(&a.vec, &c.vec), "matrix*vector forms differ"), (Err(_), Err(_), Err(_)) => {}, _ => cx.fail("matrix*vector forms differ") }
            exp = Some(if v.size() != rf.c { Exp::Reject } else {
                Exp::Vec((0..rf.r).map(|i| { let mut s = zero; for k in 0..rf.c { s += rf.a[i][k] * v[k]; } s }).collect()) });
            res = r1.map(|x| wr_vector(&x));
        }
        "tr" | "trip" => {
            let r1 = if op == "tr" { guarded(|| m.transpose()) } else { guarded(|| { let mut x = m.clone(); x.transpose_in_place(); x }) };
            cx.check(same_mat(m, &before), "&self method mutated the matrix");
            let mut out = RefM::zeros(rf.c, rf.r);
            for i in 0..rf.r { for j in 0..rf.c { out.a[j][i] = rf.a[i][j]; } }
            exp = Some(Exp::State(out));
            res = r1.map(|x| { *m = x; String::new() });
        }
        "getrow" | "getcol" => {
            let i = t.usize();
            let r1 = guarded(|| if op == "getrow" { m.get_row(i) } else { m.get_col(i) });
            cx.check(same_mat(m, &before), "&self method mutated the matrix");
            exp = Some(if op == "getrow" { if i >= rf.r { Exp::Reject } else { Exp::Vec(rf.a[i].clone()) } }
                       else if i >= rf.c { Exp::Reject } else { Exp::Vec((0..rf.r).map(|k| rf.a[k][i]).collect()) });
            res = r1.map(|x| wr_vector(&x));
        }
        "setrow" | "setcol" => {
            let i = t.usize();
            let v: Vector<T> = rd_vector(t);
            let r1 = guarded(|| if op == "setrow" { m.set_row(i, v.clone()) } else { m.set_col(i, v.clone()) });
            let mut out = rf.clone();
            exp = Some(if op == "setrow" { if v.size() != rf.c || i >= rf.r { Exp::Reject } else { out.a[i] = v.vec.clone(); Exp::State(out) } }
                       else if v.size() != rf.r || i >= rf.c { Exp::Reject } else { for k in 0..rf.r { out.a[k][i] = v[k]; } Exp::State(out) });
            res = r1.map(|_| String::new());
        }
        "swaprows" => {
            let (i, j) = (t.usize(), t.usize());
            let r1 = guarded(|| m.swap_rows(i, j));
            let mut out = rf.clone();
            exp = Some(if i >= rf.r || j >= rf.r { Exp::Reject } else { out.a.swap(i, j); Exp::State(out) });
            res = r1.map(|_| String::new());
        }
        "swapelem" => {
            // raw (row, col) addressing: the index operator checks the flat offset only
            let (i1, j1, i2, j2) = (t.usize(), t.usize(), t.usize(), t.usize());
            let r1 = guarded(|| m.swap_elem(i1, j1, i2, j2));
            let (f1, f2) = (i1 * rf.c + j1, i2 * rf.c + j2);
            let mut out = rf.clone();
            exp = Some(if f1 >= rf.r * rf.c || f2 >= rf.r * rf.c { Exp::Reject } else {
                let (a, b) = (out.a[f1 / rf.c][f1 % rf.c], out.a[f2 / rf.c][f2 % rf.c]); out.a[f1 / rf.c][f1 % rf.c] = b; out.a[f2 / rf.c][f2 % rf.c] = a; Exp::State(out) });
            res = r1.map(|_| String::new());
        }
        "empty" => {
            let r1 = guarded(|| Matrix::<T>::empty());
            exp = Some(Exp::State(RefM::zeros(0, 0)));
            res = r1.map(|y| { *m = y; String::new() });
        }
        "delrow" => {
            let i = t.usize();
            let r1 = guarded(|| m.delete_row(i));
            let mut out = rf.clone();
            exp = Some(if i >= rf.r { Exp::Reject } else { out.a.remove(i); out.r -= 1; Exp::State(out) });
            res = r1.map(|_| String::new());
        }
        "fill" | "filldiag" => {
            let x: T = t.get();
            let r1 = guarded(|| if op == "fill" { m.fill(x) } else { m.fill_diag(x) });
            let mut out = rf.clone();
            for i in 0..rf.r { for j in 0..rf.c { if op == "fill" || i == j { out.a[i][j] = x; } } }
            exp = Some(Exp::State(out));
            res = r1.map(|_| String::new());
        }
        "fillband" => {
            let off = t.isize();
            let x: T = t.get();
            let r1 = guarded(|| m.fill_band(off, x));
            let mut out = rf.clone();
            for i in 0..rf.r { for j in 0..rf.c { if j as isize - i as isize == off { out.a[i][j] = x; } } }
            exp = Some(Exp::State(out));
            res = r1.map(|_| String::new());
        }
        "filltri" => {
            let (a, b, c): (T, T, T) = (t.get(), t.get(), t.get());
            let r1 = guarded(|| m.fill_tridiag(a, b, c));
            let mut out = rf.clone();
            for i in 0..rf.r { for j in 0..rf.c {
                if j + 1 == i { out.a[i][j] = a; } else if i == j { out.a[i][j] = b; } else if j == i + 1 { out.a[i][j] = c; } } }
            exp = Some(Exp::State(out));
            res = r1.map(|_| String::new());
        }
        "fillrow" | "fillcol" => {
            let i = t.usize();
            let x: T = t.get();
            let r1 = guarded(|| if op == "fillrow" { m.fill_row(i, x) } else { m.fill_col(i, x) });
            let mut out = rf.clone();
            exp = Some(if op == "fillrow" { if i >= rf.r { Exp::Reject } else { for j in 0..rf.c { out.a[i][j] = x; } Exp::State(out) } }
                       else if i >= rf.c { Exp::Reject } else { for k in 0..rf.r { out.a[k][i] = x; } Exp::State(out) });
            res = r1.map(|_| String::new());
        }
        "resize" => {
            let (r, c) = (t.usize(), t.usize());
            let r1 = guarded(|| m.resize(r, c));
            let mut out = RefM::zeros(r, c);
            for i in 0..r.min(rf.r) { for j in 0..c.min(rf.c) { out.a[i][j] = rf.a[i][j]; } }
            exp = Some(Exp::State(out));
            res = r1.map(|_| String::new());
        }
        "eye" => {
            let n = t.usize();
            let r1 = guarded(|| Matrix::<T>::eye(n));
            let mut out = RefM::zeros(n, n);
            for i in 0..n { out.a[i][i] = T::one(); }
            exp = Some(Exp::State(out));
            res = r1.map(|x| { *m = x; String::new() });
        }
        "new" => {
            let (r, c) = (t.usize(), t.usize());
            let x: T = t.get();
            let r1 = guarded(|| Matrix::<T>::new(r, c, x));
            exp = Some(Exp::State(RefM::zeros(r, c).map(|_| x)));
            res = r1.map(|y| { *m = y; String::new() });
        }
        "clear" => {
            let r1 = guarded(|| m.clear());
            exp = Some(Exp::State(RefM::zeros(0, 0)));
            res = r1.map(|_| String::new());
        }
        "clonemut" => {
            // clone independence: mutate the clone, the original must not change (and vice versa)
            let x: T = t.get();
            let mut c = m.clone();
            let r1 = guarded(|| { c.fill(x); if c.rows() > 0 { c.delete_row(0); } });
            cx.check(same_mat(m, &before), "mutating a clone changed the original");
            let c2 = m.clone();
            let _ = guarded(|| m.fill_diag(x));
            cx.check(same_mat(&c2, &before), "mutating the original changed its clone");
            let mut out = rf.clone();
            for i in 0..rf.r.min(rf.c) { out.a[i][i] = x; }
            exp = Some(Exp::State(out));
            res = r1.map(|_| String::new());
        }
        _ => panic!("HARNESS: unknown matrix op {}", op),
    }
    // oracle: compare with the reference
    match (exp.unwrap(), &res) {
        (Exp::Reject, Ok(_)) => cx.fail(format!("{}: mismatched/out-of-range argument was not rejected", op)),
        (Exp::Reject, Err(_)) => cx.check(same_mat(m, &before), &format!("{}: rejected call modified the matrix", op)),
        (Exp::State(s), Ok(_)) => cx.check(s.eq_mat(m), &format!("{}: result differs from the reference model", op)),
        (Exp::Vec(v), Ok(_)) => {
            cx.check(same_mat(m, &before), "value-returning op changed the matrix");
            let got = res.as_ref().unwrap();
            cx.check(*got == wr_vec(&v), &format!("{}: returned vector differs from the reference", op));
        }
        (_, Err(c)) => cx.fail(format!("{}: panicked ({}) on valid arguments", op, c)),
    }
    cx.check(m.numel() == m.rows() * m.cols(), "numel != rows*cols");
    outcome::<T>(&res)
}

fn hist<T: Sc>(t: &mut Toks, cx: &mut Ctx) -> String {
    let mut m: Matrix<T> = rd_mat(t);
    let n = t.usize();
    let mut out = String::new();
    for k in 0..n {
        let op = t.next();
        if k > 0 { out.push_str(" ; "); }
        out.push_str(op);
        out.push(' ');
        if op == "norms" {
            // read-only view: the five norms of the CURRENT state (after whatever edits came before) against the
            // entrywise definitions evaluated through the index operator
            let p: f64 = t.get();
            let snap = m.clone();
            match T::mat_norms_view(&m, p) { Some((s, fails)) => { out.push_str(&s); for f in fails { cx.fail(f); } } None => out.push_str("n/a") }
            cx.check(same_mat(&m, &snap), "norm mutated the matrix");
            out.push_str(" | "); out.push_str(&wr_mat(&m));
            continue;
        }
        out.push_str(&apply(&mut m, op, t, cx));
        out.push_str(" | ");
        out.push_str(&wr_mat(&m));
        if cx.skip.is_some() { break; }
    }
    cx.meta("ops", n);
    cx.meta("tag", T::TAG);
    out
}

fn norms(t: &mut Toks, cx: &mut Ctx) -> String {
    let m: Matrix<f64> = rd_mat(t);
    let p: f64 = t.get();
    let s = m.clone();
    let vals = [guarded(|| m.norm_1()), guarded(|| m.norm_inf()), guarded(|| m.norm_p(p)), guarded(|| m.norm_frob()), guarded(|| m.norm_max())];
    cx.check(same_mat(&m, &s), "norm mutated the matrix");
    let lm = guarded(|| p * m.clone());
    // oracle (data are dyadic, so column/row sums are exact)
    let (r, c) = (m.rows(), m.cols());
    let n1 = (0..c).map(|j| (0..r).map(|i| m[(i, j)].abs()).sum::<f64>()).fold(0.0, f64::max);
    let ni = (0..r).map(|i| (0..c).map(|j| m[(i, j)].abs()).sum::<f64>()).fold(0.0, f64::max);
    let nm = (0..r).flat_map(|i| (0..c).map(move |j| (i, j))).map(|(i, j)| m[(i, j)].abs()).fold(0.0, f64::max);
    let fr = (0..r).flat_map(|i| (0..c).map(move |j| (i, j))).map(|(i, j)| m[(i, j)] * m[(i, j)]).sum::<f64>().sqrt();
    cx.check(matches!(vals[0], Ok(x) if x == n1), "norm_1 != max column sum");
    cx.check(matches!(vals[1], Ok(x) if x == ni), "norm_inf != max row sum");
    cx.check(matches!(vals[4], Ok(x) if x == nm), "norm_max != max |a_ij|");
    cx.check(matches!(vals[3], Ok(x) if (x - fr).abs() <= 1e-12 * fr.max(1.0)), "norm_frob");
    if let (Ok(np), Ok(n1v)) = (&vals[2], &vals[0]) { if r * c > 0 && p >= 1.0 { cx.check(*np >= nm * (1.0 - 1e-12) && *np <= (r * c) as f64 * n1v.max(nm) + 1e-12, "norm_p out of bounds"); } }
    let mut out: Vec<String> = vals.iter().map(|v| match v { Ok(x) => f64_hex(*x), Err(c) => format!("!{}", c) }).collect();
    out.push(match &lm { Ok(x) => wr_mat(x), Err(c) => format!("!{}", c) });
    if let Ok(x) = &lm { cx.check((0..r).all(|i| (0..c).all(|j| x[(i, j)] == m[(i, j)] * p)), "f64 * matrix"); }
    cx.meta("tag", "f");
    out.join(" ")
}

pub fn exec(op: &str, t: &mut Toks, cx: &mut Ctx) -> Option<String> {
    match op {
        "mat_hist" => {
            let tag = t.next();
            Some(match tag { "q" => hist::<Q>(t, cx), "f" => hist::<f64>(t, cx), _ => hist::<ohsl::Cmplx>(t, cx) })
        }
        "mat_norms" => Some(norms(t, cx)),
        _ => None,
    }
}

/// one random operation (mostly valid; `bad_pct` % deliberately malformed)
pub fn gen_op<T: Sc>(rng: &mut Rng, r: &mut usize, c: &mut usize, bad_pct: usize) -> String {
    let bad = rng.chance(bad_pct);
    let k = rng.below(27);
    let dim = |rng: &mut Rng| { let d = DIM.with(|d| d.get()); if d <= 9 { rng.below(9) } else if rng.chance(50) { big(rng, d) } else { rng.below(d + 1) } };
    let sc = |rng: &mut Rng| T::gen(rng, 15, 0).wr();
    let idx = |rng: &mut Rng, n: usize, bad: bool| if bad || n == 0 { n + rng.below(3) } else { rng.below(n) };
    match k {
        0 | 1 => { let (br, bc) = if bad { (dim(rng), dim(rng)) } else { (*r, *c) }; format!("{} {}", if k == 0 { "add" } else { "sub" }, gen_mat_str::<T>(rng, br, bc, 20, 0)) }
        2 => "neg".into(),
        3 => format!("smul {}", sc(rng)),
        4 => format!("sdiv {}", if bad { T::zero().wr() } else { T::gen(rng, 0, 0).wr() }),
        5 => format!("adds {}", sc(rng)),
        6 => format!("subs {}", sc(rng)),
        7 | 8 => { let br = if bad { dim(rng) } else { *c }; let bc = dim(rng); let s = format!("mul {}", gen_mat_str::<T>(rng, br, bc, 20, 0)); if br == *c { *c = bc; } s }
        9 => { let n = if bad { dim(rng) } else { *c }; format!("mulv {}", gen_vec_str::<T>(rng, n, 20, 0)) }
        10 => { std::mem::swap(r, c); "tr".into() }
        11 => { std::mem::swap(r, c); "trip".into() }
        12 => format!("getrow {}", idx(rng, *r, bad)),
        13 => format!("getcol {}", idx(rng, *c, bad)),
        14 => { let n = if bad && rng.chance(50) { dim(rng) } else { *c }; format!("setrow {} {}", idx(rng, *r, bad), gen_vec_str::<T>(rng, n, 20, 0)) }
        15 | 16 => { let n = if bad && rng.chance(50) { dim(rng) } else { *r }; format!("setcol {} {}", idx(rng, *c, bad), gen_vec_str::<T>(rng, n, 20, 0)) }
        17 => format!("swaprows {} {}", idx(rng, *r, bad), idx(rng, *r, false)),
        18 => { let i = idx(rng, *r, bad); if i < *r { *r -= 1; } format!("delrow {}", i) }
        19 => format!("fill {}", sc(rng)),
        20 => format!("filldiag {}", sc(rng)),
        21 => format!("fillband {} {}", rng.range(-9, 9), sc(rng)),
        22 => format!("filltri {} {} {}", sc(rng), sc(rng), sc(rng)),
        23 => format!("fillrow {} {}", idx(rng, *r, bad), sc(rng)),
        24 => format!("fillcol {} {}", idx(rng, *c, bad), sc(rng)),
        25 => { match rng.below(4) { 0 => { *r = dim(rng); } 1 => { *c = dim(rng); } _ => { *r = dim(rng); *c = dim(rng); } } // half of the resizes keep one dimension (storage could be reused: S10-C03)
                format!("resize {} {}", *r, *c) }
        _ => match rng.below(4) { 0 => { let n = rng.below(7); *r = n; *c = n; format!("eye {}", n) }
                                  1 => format!("clonemut {}", sc(rng)),
                                  2 => { *r = dim(rng); *c = dim(rng); format!("new {} {} {}", *r, *c, sc(rng)) }
                                  _ => if rng.chance(15) { *r = 0; *c = 0; if rng.chance(50) { "clear".into() } else { "empty".into() } }
                                       else { let b2 = bad && rng.chance(50); format!("swapelem {} {} {} {}", idx(rng, *r, bad), idx(rng, *c, false), idx(rng, *r, false), idx(rng, *c, b2)) } },
    }
}

thread_local! { static DIM: std::cell::Cell<usize> = std::cell::Cell::new(9); }
/// a history on LARGER shapes (dimensions up to `cap`, half of them from the list `BIG`)
pub fn gen_hist_big<T: Sc>(rng: &mut Rng, nops: usize, bad_pct: usize, cap: usize) -> String {
    DIM.with(|d| d.set(cap));
    let (mut r, mut c) = (big(rng, cap), if rng.chance(50) { big(rng, cap) } else { 1 + rng.below(cap) });
    if rng.chance(30) { c = r; }
    let mut s = format!("mat_hist {} {} {}", T::TAG, gen_mat_str::<T>(rng, r, c, 20, 0), nops);
    for _ in 0..nops { s.push(' '); s.push_str(&gen_op::<T>(rng, &mut r, &mut c, bad_pct)); }
    DIM.with(|d| d.set(9));
    s
}

pub fn gen_hist<T: Sc>(rng: &mut Rng, nops: usize, bad_pct: usize) -> String {
    let (mut r, mut c) = (rng.below(9), rng.below(9));
    let mut s = format!("mat_hist {} {} {}", T::TAG, gen_mat_str::<T>(rng, r, c, 20, 0), nops);
    for _ in 0..nops { s.push(' '); s.push_str(&gen_op::<T>(rng, &mut r, &mut c, bad_pct)); }
    s
}

pub fn gen(rng: &mut Rng, tier: Tier, out: &mut Vec<String>) {
    // (1) every conformable product shape r x k * k x c with 0 <= r,k,c <= 8 (exhaustive), plus mat*vec
    for r in 0..9 { for k in 0..9 { for c in 0..9 {
        out.push(format!("mat_hist q {} 2 mul {} mulv {}", gen_mat_str::<Q>(rng, r, k, 15, 0), gen_mat_str::<Q>(rng, k, c, 15, 0), gen_vec_str::<Q>(rng, c, 10, 0)));
    } } }
    // (2) every shape for the unary / same-shape operations and transposes
    for r in 0..9 { for c in 0..9 {
        out.push(format!("mat_hist q {} 6 add {} trip sub {} tr neg smul {}", gen_mat_str::<Q>(rng, r, c, 15, 0), gen_mat_str::<Q>(rng, r, c, 15, 0), gen_mat_str::<Q>(rng, c, r, 15, 0), Q::gen(rng, 0, 0).wr()));
    } }
    // (2b) shrink then regrow along ONE dimension with the other unchanged (the storage could be reused: seeded change S10-C03),
    //      rows and columns, every starting shape 1..6 x 1..6, exact and f64
    for r in 1..7usize { for c in 1..7usize {
        let (r1, c1) = (rng.below(r), rng.below(c)); let (r2, c2) = (r1 + 1 + rng.below(4), c1 + 1 + rng.below(4));
        out.push(format!("mat_hist q {} 3 resize {} {} resize {} {} trip", gen_mat_str::<Q>(rng, r, c, 15, 0), r1, c, r2, c));
        out.push(format!("mat_hist q {} 3 resize {} {} resize {} {} trip", gen_mat_str::<Q>(rng, r, c, 15, 0), r, c1, r, c2));
        out.push(format!("mat_hist f {} 4 resize {} {} resize {} {} norms 2 resize {} {}", gen_mat_str::<f64>(rng, r, c, 15, 0), r1, c, r2, c, r2, c2));
    } }
    // (3) random histories
    let (nh, maxops) = if tier == Tier::Quick { (300, 40) } else { (5000, 40) };
    for i in 0..nh {
        let nops = 1 + rng.below(maxops);
        out.push(gen_hist::<Q>(rng, nops, if i % 4 == 0 { 25 } else { 5 }));
    }
    for _ in 0..nh / 5 { let nops = 1 + rng.below(15); out.push(gen_hist::<f64>(rng, nops, 5)); }
    // f64 histories in which every edit is followed by the norm view: an edit that leaves the internal buffer / a cached
    // length stale (delete_row, resize, transposes, clear ...) shows in a norm that walks the buffer
    for _ in 0..nh / 3 {
        let nops = 2 + rng.below(8);
        let (mut r, mut c) = (1 + rng.below(6), 1 + rng.below(6));
        let m0 = gen_mat_str::<f64>(rng, r, c, 15, 0);
        let mut ops = String::new(); let mut cnt = 0;
        for _ in 0..nops {
            let op = match rng.below(6) { 0 | 1 => { let i = if r == 0 { 0 } else { rng.below(r) }; if i < r { r -= 1; } format!("delrow {}", i) }
                                          2 => { r = rng.below(7); c = rng.below(7); format!("resize {} {}", r, c) }
                                          3 => { std::mem::swap(&mut r, &mut c); "trip".to_string() }
                                          _ => gen_op::<f64>(rng, &mut r, &mut c, 0) };
            let p = *rng.pick(&[1.0f64, 2.0, 3.0, 1.5]);
            ops.push_str(&format!(" {} norms {}", op, p.wr())); cnt += 2;
        }
        out.push(format!("mat_hist f {} {}{}", m0, cnt, ops));
    }
    for _ in 0..nh / 10 { let nops = 1 + rng.below(10); out.push(gen_hist::<ohsl::Cmplx>(rng, nops, 5)); }
    // (4) norms on dyadic f64 data, all shapes up to 6x6
    for r in 0..7 { for c in 0..7 { for _ in 0..(if tier == Tier::Quick { 1 } else { 10 }) {
        let p = *rng.pick(&[1.0f64, 2.0, 3.0, 1.5, 8.0]);
        out.push(format!("mat_norms {} {}", gen_mat_str::<f64>(rng, r, c, 15, 0), p.wr()));
    } } }

    // (5) LARGER SHAPES (up to 40 x 40): transposes of every square order in BIG, products, row / column edits and the
    // norm view; f64 on dyadic data (bit-exact against the reference), a few short exact histories
    for &n in BIG.iter().filter(|n| **n <= 40) {
        out.push(format!("mat_hist f {} 4 trip tr swaprows {} {} mulv {}", gen_mat_str::<f64>(rng, n, n, 15, 0), rng.below(n), n - 1, gen_vec_str::<f64>(rng, n, 10, 0)));
        let c = 1 + rng.below(n + 3);
        out.push(format!("mat_hist f {} 5 tr trip mul {} norms {} getcol {}", gen_mat_str::<f64>(rng, n, c, 15, 0), gen_mat_str::<f64>(rng, c, 1 + n / 2, 15, 0), (2.0f64).wr(), n / 2));
        if n <= 25 { out.push(format!("mat_hist q {} 3 trip mul {} tr", gen_mat_str::<Q>(rng, n, n, 40, 0), gen_mat_str::<Q>(rng, n, 2, 40, 0))); }
    }
    for i in 0..(if tier == Tier::Quick { 12 } else { 300 }) {
        let nops = 1 + rng.below(8);
        out.push(gen_hist_big::<f64>(rng, nops, 5, 40));
        if i % 3 == 0 { let k = 1 + rng.below(3); out.push(gen_hist_big::<Q>(rng, k, 5, 24)); }
        if i % 4 == 0 { let k = 1 + rng.below(4); out.push(gen_hist_big::<ohsl::Cmplx>(rng, k, 5, 24)); }
    }
}
