//! C08 (success ⇒ solved to tolerance) and C09 (convergence on well-posed systems,
//! degenerate starts) for Sparse<f64>::{solve_cg, solve_bicg, solve_bicgstab, solve_qmr}.
use crate::sc::*;
use crate::wire::*;
use crate::{Ctx, Tier};
use ohsl::{Matrix, Sparse, Vector};

fn krylov(t: &mut Toks, cx: &mut Ctx, c09: bool) -> String {
    let solver = t.next().to_string();
    let class = t.next().to_string();
    let (rows, cols) = (t.usize(), t.usize());
    let nt = t.usize();
    let mut trips: Vec<(usize, usize, f64)> = (0..nt).map(|_| (t.usize(), t.usize(), t.get())).collect();
    let b: Vector<f64> = rd_vector(t);
    let x0: Vector<f64> = rd_vector(t);
    let max_iter = t.usize();
    let tol: f64 = t.get();
    let itol = t.usize();
    cx.meta("solver", &solver); cx.meta("class", &class); cx.meta("n", rows); cx.meta("budget", if max_iter == 0 { "0".to_string() } else if max_iter < rows { "<n".into() } else if max_iter <= 5 * rows + 20 { "~n".into() } else { ">>n".into() });
    let mut dense = vec![vec![0.0f64; cols]; rows];
    for (r, c, v) in &trips { if *r < rows && *c < cols { dense[*r][*c] = *v; } }
    let s = match guarded(|| Sparse::from_triplets(rows, cols, &mut trips)) { Ok(s) => s, Err(c) => return format!("!{}", c) };
    let mut x = x0.clone();
    let bs = b.clone();
    let r = guarded(|| match solver.as_str() {
        "cg" => s.solve_cg(&b, &mut x, max_iter, tol),
        "bicg" => s.solve_bicg(&b, &mut x, max_iter, tol, itol),
        "bicgstab" => s.solve_bicgstab(&b, &mut x, max_iter, tol),
        _ => s.solve_qmr(&b, &mut x, max_iter, tol),
    });
    cx.check(same_vec(&b.vec, &bs.vec), "solver mutated the right-hand side");
    let n = rows;
    let valid = rows == cols && b.size() == rows && x0.size() == rows && (solver != "bicg" || itol == 1 || itol == 2);
    let out = match &r {
        Err(c) => { cx.check(!valid, &format!("solver panicked ({}) on a well-formed call", c)); cx.meta("result", "panic"); format!("!{}", c) }
        Ok(Ok(it)) => { cx.meta("result", "ok"); format!("ok {} | {}", it, wr_vector(&x)) }
        Ok(Err(e)) => { cx.meta("result", "err"); format!("err {} | {}", f64_hex(*e), wr_vector(&x)) }
    };
    if !valid { if let Ok(_) = &r { cx.fail("mismatched sizes / bad itol were not rejected"); } return out; }
    // ---- C08 oracle: whenever the solver answers Ok ----
    let mulv = |v: &Vector<f64>| -> Vec<f64> { (0..n).map(|i| (0..n).map(|j| dense[i][j] * v[j]).sum::<f64>()).collect() };
    let nrm = |v: &[f64]| v.iter().map(|z| z * z).sum::<f64>().sqrt();
    let an: f64 = (0..n).map(|i| (0..n).map(|j| dense[i][j].abs()).sum::<f64>()).fold(0.0, f64::max);
    if max_iter == 0 { cx.check(same_vec(&x.vec, &x0.vec), "iteration budget 0 but x was modified"); }
    if let Ok(Ok(it)) = &r {
        cx.check(*it <= max_iter, "reported iteration count exceeds the budget");
        // class tags for failures of the implication (decided by the harness, not by the code under test): a (near-)breakdown of the
        // two-sided Lanczos process the three non-symmetric solvers are built on, and structural singularity (an empty column)
        let c08_tag = |solver: &str| -> String {
            let mut tag = String::new();
            if solver == "qmr" || solver == "bicg" || solver == "bicgstab" {
                let lm = lanczos_min(&dense, &b.vec, &x0.vec, n + 2);
                if lm < 5e-2 { tag.push_str(&format!(" [two-sided Lanczos near-breakdown: min |<w,v>|/(|w||v|) = {:e}]", lm)); }
                if (0..n).any(|j| (0..n).all(|i| dense[i][j] == 0.0)) { tag.push_str(" [structurally singular: an empty column — the corresponding component of the search directions is seen by no residual]"); }
            }
            tag };
        if !x.vec.iter().all(|z| z.is_finite()) { let t = c08_tag(&solver); cx.fail(format!("success reported but x is not finite{}", t)); }
        let ax = mulv(&x);
        let res: Vec<f64> = (0..n).map(|i| b[i] - ax[i]).collect();
        let bn = nrm(&b.vec);
        let div = if bn == 0.0 { 1.0 } else { bn };
        let xm = x.vec.iter().chain(x0.vec.iter()).map(|z| z.abs()).fold(0.0, f64::max);
        let drift = 1e3 * f64::EPSILON * ((*it + 1) as f64) * (an * xm + bn) * (n as f64).sqrt() / div;
        let rel = nrm(&res) / div;
        cx.meta("iters", if *it == 0 { "0".to_string() } else if *it <= n { "<=n".into() } else if *it <= 3 * n + 10 { "<=3n+10".into() } else { ">3n+10".into() });
        if x.vec.iter().all(|z| z.is_finite()) {
            let itol2 = solver == "bicg" && itol == 2; let _ = itol2;
            if !(rel <= tol * (1.0 + 1e-9) + drift) {
                // the property allows a drift proportional to the LARGEST iterate of the run: re-run the (deterministic)
                // solver with budgets 1..it to observe every intermediate iterate
                let mut xmax = xm;
                for kbud in 1..*it {
                    let mut xk = x0.clone();
                    let _ = guarded(|| match solver.as_str() { "cg" => s.solve_cg(&b, &mut xk, kbud, tol), "bicg" => s.solve_bicg(&b, &mut xk, kbud, tol, itol), "bicgstab" => s.solve_bicgstab(&b, &mut xk, kbud, tol), _ => s.solve_qmr(&b, &mut xk, kbud, tol) });
                    xmax = xmax.max(xk.vec.iter().map(|z| if z.is_finite() { z.abs() } else { f64::INFINITY }).fold(0.0, f64::max));
                }
                let drift2 = 1e3 * f64::EPSILON * ((*it + 1) as f64) * (an * xmax + bn) * (n as f64).sqrt() / div;
                cx.meta("largest_iterate_drift", 1);
                if !(rel <= tol * (1.0 + 1e-9) + drift2) { let t = c08_tag(&solver); cx.fail(format!("success reported but true relative residual {:e} exceeds tol {:e} (+drift {:e} for the largest iterate {:e}){}", rel, tol, drift2, xmax, t)); }
            }
        }
    }
    // ---- C09 oracle: well-posed classes ----
    let near = class.starts_with("near-");
    let class = class.trim_start_matches("near-").to_string();
    // C09 claims convergence for CG on SPD systems and for BiCG / BiCGSTAB / QMR on strictly diagonally dominant ones
    // (SPD systems given to the other three are compared with the model only)
    let wellposed = (class == "spd" && solver == "cg") || (class == "dd" && solver != "cg");
    let degenerate = class.starts_with("exact-") || class.starts_with("zero-");
    if near && c09 && n > 0 {
        // a guess whose true relative residual is a thousand times below the tolerance already solves
        // the system: it is accepted as it stands (no iteration) and left alone
        let ax0 = mulv(&x0); let r0: Vec<f64> = (0..n).map(|i| b[i] - ax0[i]).collect();
        let bn = nrm(&b.vec);
        if bn > 0.0 && nrm(&r0) / bn <= 1e-3 * tol {
            cx.meta("near_exact_guess", 1);
            // ("accepted as solved and x stays finite": the property does not say after how many iterations, nor that x is left alone)
            cx.check(matches!(&r, Ok(Ok(_))), &format!("an initial guess that already solves the system (relative residual {:e}, tol {:e}) was not accepted as solved: {:?}", nrm(&r0) / bn, tol, r.as_ref().map_err(|c| *c)));
            cx.check(x.vec.iter().all(|z| z.is_finite()), "an initial guess that already solves the system: x does not stay finite");
        }
    }
    let class = class.trim_start_matches("near-").to_string();
    if degenerate && c09 {
        // exact initial guess / zero rhs with zero guess: accepted as solved, x stays finite
        cx.check(matches!(&r, Ok(Ok(_))), "degenerate start (already solved) was not accepted as solved");
        cx.check(x.vec.iter().all(|z| z.is_finite()), "degenerate start: x is not finite");
    }
    if c09 && (class == "spd" || class == "dd") && wellposed && max_iter >= 5 * n + 20 && tol >= 1e-12 {
        match &r {
            Ok(Ok(it)) => {
                if *it > 3 * n + 10 {
                    let lm = if solver == "qmr" || solver == "bicg" || solver == "bicgstab" { lanczos_min(&dense, &b.vec, &x0.vec, n + 2) } else { 1.0 };
                    let tag = if lm < 5e-2 { format!(" [two-sided Lanczos near-breakdown: min |<w,v>|/(|w||v|) = {:e}]", lm) } else if lm < 1.0 { format!(" [min |<w,v>|/(|w||v|) = {:e}]", lm) } else { String::new() };
                    cx.fail(format!("needed {} iterations for order {}{}", it, n, tag)); }
                // compare with the direct dense solution
                let mut dm = Matrix::<f64>::new(n, n, 0.0); for i in 0..n { for j in 0..n { dm[(i, j)] = dense[i][j]; } }
                if n > 0 { if let (Ok(xd), Ok(inv)) = (guarded(|| dm.clone().solve_basic(&b)), guarded(|| dm.inverse())) {
                    let kappa = dm.norm_inf() * inv.norm_inf();
                    let diff: Vec<f64> = (0..n).map(|i| x[i] - xd[i]).collect();
                    // forward error <= kappa * (relative residual): tol plus the rounding drift of the recurrence
                    let drift = 1e4 * f64::EPSILON * ((*it + 1) as f64) * (n as f64).sqrt();
                    // (with a zero right-hand side the residual is measured absolutely: |x| <= |A^-1| * tol)
                    let zero_rhs_slack = if nrm(&b.vec) == 0.0 { (10.0 * tol + drift) * inv.norm_inf() * (n as f64).sqrt() } else { 0.0 };
                    // (the recurrence residual drifts from the true one in proportion to the largest iterate, here at least the guess)
                    let guess_slack = drift * kappa * nrm(&x0.vec);
                    if !(nrm(&diff) <= (10.0 * tol + drift) * kappa * nrm(&xd.vec) + zero_rhs_slack + guess_slack + 1e-300) {
                        // (a near-breakdown of the two-sided Lanczos process — a denominator that is 0 in exact arithmetic and 1e-16 in f64 — blows an
                        //  iterate up to 1e15; the recurrence residual then "converges" while x has lost its digits: same class as the Err outcomes)
                        let lm = if solver == "qmr" || solver == "bicg" || solver == "bicgstab" { lanczos_min(&dense, &b.vec, &x0.vec, n + 2) } else { 1.0 };
                        let tag = if lm < 5e-2 { format!(" [two-sided Lanczos near-breakdown: min |<w,v>|/(|w||v|) = {:e}]", lm) } else if lm < 1.0 { format!(" [min |<w,v>|/(|w||v|) = {:e}]", lm) } else { String::new() };
                        cx.fail(format!("answer differs from the direct dense solution by more than tol * condition number (|x - x_direct| = {:e}, bound {:e}, kappa {:e}){}", nrm(&diff), (10.0 * tol + drift) * kappa * nrm(&xd.vec), kappa, tag)); }
                } }
            }
            Ok(Err(_)) => {
                let lm = if solver == "qmr" || solver == "bicg" || solver == "bicgstab" { lanczos_min(&dense, &b.vec, &x0.vec, n + 2) } else { 1.0 };
                let tag = if lm < 5e-2 { format!(" [two-sided Lanczos near-breakdown: min |<w,v>|/(|w||v|) = {:e}]", lm) } else if lm < 1.0 { format!(" [min |<w,v>|/(|w||v|) = {:e}]", lm) } else { String::new() };
                cx.fail(format!("no convergence within {} iterations on a well-posed system of order {}{}", max_iter, n, tag)) }
            Err(_) => {}
        }
    }
    out
}


/// Independent re-run of the two-sided Lanczos recurrences (dense A) that QMR and BiCG are built on,
/// returning the smallest normalised inner product |<w, v>| / (|w| |v|) met in the first steps.
/// A value near zero is a (near) "serious breakdown": without look-ahead the method cannot proceed.
fn lanczos_min(dense: &Vec<Vec<f64>>, b: &[f64], x0: &[f64], steps: usize) -> f64 {
    let n = b.len();
    let mv = |v: &[f64]| -> Vec<f64> { (0..n).map(|i| (0..n).map(|j| dense[i][j] * v[j]).sum::<f64>()).collect() };
    let mtv = |v: &[f64]| -> Vec<f64> { (0..n).map(|j| (0..n).map(|i| dense[i][j] * v[i]).sum::<f64>()).collect() };
    let dot = |a: &[f64], c: &[f64]| a.iter().zip(c).map(|(p, q)| p * q).sum::<f64>();
    let nrm = |a: &[f64]| dot(a, a).sqrt();
    let ax = mv(x0);
    let r: Vec<f64> = (0..n).map(|i| b[i] - ax[i]).collect();
    // BiCG form: r, rr, p, pp
    let (mut r, mut rr) = (r.clone(), r);
    let (mut p, mut pp) = (r.clone(), rr.clone());
    let mut rho_old = 1.0;
    let mut m = f64::INFINITY;
    for it in 0..steps {
        let (nr, nrr) = (nrm(&r), nrm(&rr));
        if nr <= 1e-14 * nrm(b).max(1e-300) || nr == 0.0 { break; }
        if nrr <= 1e-14 * nr { return 0.0; }   // the shadow (left) sequence terminated before the residual did
        let rho = dot(&r, &rr);
        m = m.min(rho.abs() / (nr * nrr));
        if it > 0 { let beta = rho / rho_old; for i in 0..n { p[i] = r[i] + beta * p[i]; pp[i] = rr[i] + beta * pp[i]; } }
        let ap = mv(&p);
        let den = dot(&ap, &pp);
        let (na, npp) = (nrm(&ap), nrm(&pp));
        if na == 0.0 || npp == 0.0 { break; }
        m = m.min(den.abs() / (na * npp));
        if den == 0.0 || rho == 0.0 { return 0.0; }
        let alpha = rho / den;
        let atpp = mtv(&pp);
        for i in 0..n { r[i] -= alpha * ap[i]; rr[i] -= alpha * atpp[i]; }
        rho_old = rho;
    }
    m
}

/// the solvers as methods of a storage built from RAW arrays (`from_vecs` validates nothing): inconsistent arrays make
/// the first sparse product panic. Correspondence only (outside the claim of C08); keeps the storage guard of the model
/// (`Sp.solveIter`) honest.
fn krylov_vecs(t: &mut Toks, cx: &mut Ctx) -> String {
    let solver = t.next().to_string();
    let (rows, cols) = (t.usize(), t.usize());
    let val: Vec<f64> = t.vec();
    let ri = t.uvec();
    let cs = t.uvec();
    let b: Vector<f64> = rd_vector(t);
    let x0: Vector<f64> = rd_vector(t);
    let max_iter = t.usize();
    let tol: f64 = t.get();
    let itol = t.usize();
    cx.meta("solver", &solver); cx.meta("class", "raw-arrays");
    let s = match guarded(|| Sparse::from_vecs(rows, cols, val.clone(), ri.clone(), cs.clone())) { Ok(s) => s, Err(c) => return format!("!{}", c) };
    let mut x = x0.clone();
    let r = guarded(|| match solver.as_str() {
        "cg" => s.solve_cg(&b, &mut x, max_iter, tol),
        "bicg" => s.solve_bicg(&b, &mut x, max_iter, tol, itol),
        "bicgstab" => s.solve_bicgstab(&b, &mut x, max_iter, tol),
        _ => s.solve_qmr(&b, &mut x, max_iter, tol),
    });
    match &r {
        Err(c) => { cx.meta("result", "panic"); format!("!{}", c) }
        Ok(Ok(it)) => { cx.meta("result", "ok"); format!("ok {} | {}", it, wr_vector(&x)) }
        Ok(Err(e)) => { cx.meta("result", "err"); format!("err {} | {}", f64_hex(*e), wr_vector(&x)) }
    }
}

pub fn exec(op: &str, t: &mut Toks, cx: &mut Ctx) -> Option<String> {
    match op { "krylov" => Some(krylov(t, cx, false)), "krylov9" => Some(krylov(t, cx, true)), "krylovv" => Some(krylov_vecs(t, cx)), _ => None }
}

thread_local! { static DENS: std::cell::Cell<Option<usize>> = std::cell::Cell::new(None); static DOM: std::cell::Cell<f64> = std::cell::Cell::new(1.0); }
/// dense system of one of the quantified kinds, returned as rows
fn system(rng: &mut Rng, n: usize, class: &str) -> Vec<Vec<f64>> {
    let dens = *rng.pick(&[10usize, 25, 50]);
    let dens = DENS.with(|d| d.get()).unwrap_or(dens);
    let off = |rng: &mut Rng| if rng.chance(dens) { rng.range(-8, 8) as f64 / 4.0 } else { 0.0 };
    let mut a = vec![vec![0.0f64; n]; n];
    match class {
        "spd" => { // M^T M + I with sparse M
            let m: Vec<Vec<f64>> = (0..n).map(|_| (0..n).map(|_| off(rng)).collect()).collect();
            for i in 0..n { for j in 0..n { let mut s = 0.0; for k in 0..n { s += m[k][i] * m[k][j]; } a[i][j] = s + if i == j { 1.0 } else { 0.0 }; } } }
        "dd" => { let neg = rng.chance(25); for i in 0..n { let mut s = 0.0; for j in 0..n { if i != j { a[i][j] = off(rng); s += a[i][j].abs(); } } a[i][i] = (s * DOM.with(|d| d.get()) + 1.0 + rng.below(3) as f64) * if neg { -1.0 } else { 1.0 }; } }
        "nonsym" => { for i in 0..n { for j in 0..n { a[i][j] = off(rng); } a[i][i] += 3.0; } }
        "indef" => { for i in 0..n { for j in 0..=i { let v = off(rng); a[i][j] = v; a[j][i] = v; } a[i][i] += if i % 2 == 0 { 4.0 } else { -4.0 }; } }
        "illcond" => { for i in 0..n { for j in 0..n { a[i][j] = 1.0 / ((i + j + 1) as f64); } } }        // Hilbert
        "singular" => { for i in 0..n { for j in 0..n { a[i][j] = off(rng); } } if n > 0 { let r = rng.below(n); for j in 0..n { a[r][j] = 0.0; } } }
        _ => { for i in 0..n { a[i][i] = 1.0 + rng.below(4) as f64; } }
    }
    a
}
fn trips_of(rng: &mut Rng, a: &Vec<Vec<f64>>) -> String {
    let n = a.len();
    let mut v: Vec<(usize, usize, f64)> = Vec::new();
    for i in 0..n { for j in 0..n { if a[i][j] != 0.0 { v.push((i, j, a[i][j])); } } }
    for i in (1..v.len()).rev() { let j = rng.below(i + 1); v.swap(i, j); }
    let mut s = format!("{}", v.len()); for (r, c, x) in &v { s.push_str(&format!(" {} {} {}", r, c, x.wr())); } s
}
fn vstr(v: &[f64]) -> String { wr_vec(v) }

fn one(rng: &mut Rng, op: &str, solver: &str, class: &str, n: usize, guess: usize, budget: usize, tol: f64, rhs_scale: f64, itol: usize) -> String {
    let a = system(rng, n, class);
    let xs: Vec<f64> = (0..n).map(|_| rng.range(-8, 8) as f64 / 2.0).collect();
    let mut b: Vec<f64> = (0..n).map(|i| (0..n).map(|j| a[i][j] * xs[j]).sum::<f64>() * rhs_scale).collect();
    if rhs_scale == 0.0 { b = vec![0.0; n]; }
    let (x0, cls): (Vec<f64>, String) = match guess {
        0 => (vec![0.0; n], if rhs_scale == 0.0 { format!("zero-{}", class) } else { class.to_string() }),
        1 => ((0..n).map(|_| rng.range(-8, 8) as f64 / 2.0 * if rhs_scale == 0.0 { 1.0 } else { rhs_scale }).collect(), class.to_string()),   // random guess of the scale of the solution (of scale 1 for a zero right-hand side)
        2 => (xs.iter().map(|z| z * rhs_scale).collect(), if rhs_scale == 1.0 { format!("exact-{}", class) } else { class.to_string() }),   // exact solution (data are dyadic: A x0 = b exactly)
        3 | 5 => { let far = if guess == 3 { 1048576.0 } else { 1024.0 };      // a guess far from the solution: |b - A x0| >> |b|
               ((0..n).map(|_| (rng.range(-8, 8) as f64 + 0.5) * far * if rhs_scale == 0.0 { 1.0 } else { rhs_scale }).collect(), class.to_string()) }
        _ => { // a guess that solves the system up to rounding: the exact solution with last-bit perturbations
               let mut x0: Vec<f64> = xs.iter().map(|z| z * rhs_scale).collect();
               for z in x0.iter_mut() { if rng.chance(50) { *z *= 1.0 + f64::EPSILON * (1 + rng.below(3)) as f64; } }
               if n > 0 { let k = rng.below(n); x0[k] = if x0[k] == 0.0 { 1e-17 * rhs_scale } else { x0[k] * (1.0 - f64::EPSILON) }; }
               (x0, if rhs_scale != 0.0 { format!("near-{}", class) } else { class.to_string() }) }
    };
    format!("{} {} {} {} {} {} {} {} {} {} {}", op, solver, cls, n, n, trips_of(rng, &a), vstr(&b), vstr(&x0), budget, tol.wr(), itol)
}

const SOLVERS: [&str; 4] = ["cg", "bicg", "bicgstab", "qmr"];

pub fn gen(rng: &mut Rng, tier: Tier, out: &mut Vec<String>) {
    let nsys = if tier == Tier::Quick { 70 } else { 1500 };
    let classes = ["spd", "dd", "nonsym", "indef", "illcond", "singular", "diag"];
    for i in 0..nsys {
        let n = if rng.chance(15) { 1 + rng.below(60) } else { 1 + rng.below(14) };   // (drawn independently of the class: every kind reaches order 60)
        let class = classes[i % classes.len()];
        for (k, solver) in SOLVERS.iter().enumerate() {
            let budget = *rng.pick(&[0usize, 1, 2, n, 1000, 1000]);
            let tol = *rng.pick(&[1e-12, 1e-10, 1e-8, 1e-6, 1e-4, 1e-2]);
            let guess = rng.below(5);
            let scale = if rng.chance(8) { 0.0 } else { 1.0 };
            out.push(one(rng, "krylov", solver, class, n, guess, budget, tol, scale, 1));
            if k == 1 { out.push(one(rng, "krylov", "bicg", class, n, guess, budget, tol, scale, 2)); }
        }
    }
    // zero right-hand side with a NON-zero guess (the divisor of the relative residual is then 1, not ||b||): the solvers
    // must drive A x to zero in the absolute sense
    for i in 0..(if tier == Tier::Quick { 16 } else { 200 }) {
        let n = 1 + rng.below(12);
        let class = if i % 2 == 0 { "spd" } else { "dd" };
        for solver in SOLVERS { let tol = *rng.pick(&[1e-10, 1e-8, 1e-6, 1e-4, 1e-2]);
            out.push(one(rng, "krylov", solver, class, n, 1, 1000, tol, 0.0, 1 + i % 2)); }
    }
    // weakly coupled "point source" systems: a scaled identity off column k, a full column k, a coupling eps = 10^[-9.3,-7]
    // on the super-diagonal, right-hand side e_k (and the 2x2 version [[c, eps],[d, lam]], b = e_1). One stabilised step
    // reduces the residual by 8-9 orders of magnitude: a residual norm that is not recomputed from r itself (or an update
    // that cancels) reports success on an unsolved system here.
    for i in 0..(if tier == Tier::Quick { 24 } else { 300 }) {
        let eps = 10f64.powf(-9.3 + 2.3 * rng.unit());
        let (n, k) = if i % 2 == 0 { (2usize, 0usize) } else { let n = 5 + rng.below(36); (n, rng.below(n)) };
        let mut a = vec![vec![0.0f64; n]; n];
        if n == 2 { a[0][0] = 0.2 + 2.8 * rng.unit(); a[1][0] = 1.0 + 149.0 * rng.unit(); a[0][1] = eps; a[1][1] = 0.5 + 3.0 * rng.unit(); }
        else { let dg = 1.0 + 2.0 * rng.unit(); for r in 0..n { if r != k { a[r][r] = dg; } a[r][k] = if r == k { 0.3 + 0.7 * rng.unit() } else { 1.0 + 14.0 * rng.unit() }; if r + 1 < n && r + 1 != k { a[r][r + 1] = eps; } } }
        let mut b = vec![0.0f64; n]; b[k] = 1.0;
        for solver in SOLVERS { let tol = *rng.pick(&[1e-12, 1e-10, 1e-9, 1e-8]);
            out.push(format!("krylov {} nonsym {} {} {} {} {} {} {} 1", solver, n, n, trips_of(rng, &a), vstr(&b), vstr(&vec![0.0; n]), *rng.pick(&[50usize, 200]), tol.wr())); }
    }
    // storages built from raw arrays: well-formed ones and ones with perturbed column starts / short arrays / rows out of range
    for i in 0..(if tier == Tier::Quick { 40 } else { 600 }) {
        let n = 1 + rng.below(4);
        let a = system(rng, n, if i % 2 == 0 { "dd" } else { "spd" });
        let mut val: Vec<f64> = Vec::new(); let mut ri: Vec<usize> = Vec::new(); let mut cs = vec![0usize; n + 1];
        for j in 0..n { for r in 0..n { if a[r][j] != 0.0 { val.push(a[r][j]); ri.push(r); } } cs[j + 1] = val.len(); }
        if i % 4 != 0 { match rng.below(6) {
            0 => { let k = rng.below(cs.len()); cs[k] += 1; }
            1 => { cs[0] += 1; }
            2 => { if !val.is_empty() { val.pop(); } }
            3 => { if !ri.is_empty() { let k = rng.below(ri.len()); ri[k] = n + rng.below(2); } }
            4 => { if !ri.is_empty() { ri.pop(); } }
            _ => { let k = rng.below(cs.len()); cs[k] = cs[k].saturating_sub(1); }
        } }
        let b: Vec<f64> = (0..n).map(|_| rng.range(-8, 8) as f64 / 2.0).collect();
        for solver in SOLVERS { out.push(format!("krylovv {} {} {} {} {} {} {} {} {} {} {}", solver, n, n, wr_vec(&val), wr_vec(&ri), wr_vec(&cs), vstr(&b), vstr(&vec![0.0; n]), 30, (1e-8f64).wr(), 1 + i % 3)); }
    }
    // malformed calls
    let a = system(rng, 3, "dd");
    for (rows, cols, bl, xl, itol) in [(3usize, 3usize, 2usize, 3usize, 1usize), (3, 3, 3, 2, 1), (3, 3, 3, 3, 3), (3, 3, 3, 3, 0)] {
        for solver in SOLVERS { out.push(format!("krylov {} bad {} {} {} {} {} 10 {} {}", solver, rows, cols, trips_of(rng, &a), vstr(&vec![1.0; bl]), vstr(&vec![0.0; xl]), (1e-8f64).wr(), itol)); }
    }
    for solver in SOLVERS { out.push(format!("krylov {} bad 2 3 2 0 0 {} 1 2 {} {} {} 10 {} 1", solver, (1.0f64).wr(), (2.0f64).wr(), vstr(&[1.0, 1.0]), vstr(&[0.0, 0.0]), (1e-8f64).wr())); }
    // FULL (or nearly full) matrices of order 9 .. 24: columns with 9, 10, 11, 13 ... stored entries (a product kernel that is
    // unrolled or blocked over the entries of a column has its remainder loop exercised only here)
    for i in 0..(if tier == Tier::Quick { 6 } else { 120 }) {
        let n = 9 + rng.below(16);
        DENS.with(|d| d.set(Some(if i % 2 == 0 { 100 } else { 85 }))); DOM.with(|d| d.set(3.0));   // strongly dominant: the two-sided Lanczos process is benign here
        for solver in SOLVERS {
            let class = if solver == "cg" { "spd" } else { "dd" };
            let tol: f64 = *rng.pick(&[1e-10, 1e-8, 1e-6]);
            out.push(one(rng, "krylov", solver, class, n, i % 2, 1000, tol, 1.0, 1));
        }
        DENS.with(|d| d.set(None)); DOM.with(|d| d.set(1.0));
    }
    // (NEAR-)BREAKDOWNS of the two-sided Lanczos process with SMALL iterates: matrices with entries in {-1, 0, 1} (exact breakdowns
    // are common there), a unit right-hand side, and a guess or right-hand-side perturbation of 2^-48 .. 2^-30 that turns the exact
    // zero denominator into a rounding-level one. Huge internal vectors then cancel, the recurrence residual converges and x does
    // not follow (QMR answers Ok with a residual 1e10 times the tolerance). Known finding of C08 (class decided by lanczos_min).
    for i in 0..(if tier == Tier::Quick { 40 } else { 800 }) {
        let n = 2 + rng.below(4);
        let mut a = vec![vec![0.0f64; n]; n];
        for r in 0..n { for c in 0..n { a[r][c] = if rng.chance(55) { 0.0 } else if rng.chance(50) { 1.0 } else { -1.0 }; } }
        if i % 4 == 0 && n == 3 { a = vec![vec![0.0, 1.0, 1.0], vec![1.0, 1.0, 0.0], vec![1.0, 0.0, 0.0]]; }
        let k = rng.below(n);
        let eps = 2f64.powi(-(30 + rng.below(19) as i32));
        let mut b = vec![0.0f64; n]; b[k] = 1.0;
        let mut x0 = vec![0.0f64; n];
        if i % 2 == 0 { for z in x0.iter_mut() { if rng.chance(60) { *z = -eps; } } } else { for (j, z) in b.iter_mut().enumerate() { if j != k && rng.chance(60) { *z = eps * (1.0 + j as f64); } } }
        for solver in ["qmr", "bicg", "bicgstab"] { let tol = *rng.pick(&[1e-12, 1e-10, 1e-8]);
            out.push(format!("krylov {} nonsym {} {} {} {} {} 50 {} 1", solver, n, n, trips_of(rng, &a), vstr(&b), vstr(&x0), tol.wr())); }
    }
    // STRUCTURALLY SINGULAR systems with an EMPTY COLUMN (and an inconsistent right-hand side): the component of the search
    // directions in that column is seen by no residual and can grow until it overflows
    for _ in 0..(if tier == Tier::Quick { 20 } else { 400 }) {
        let n = 3 + rng.below(3);
        let mut a = vec![vec![0.0f64; n]; n];
        for r in 0..n { for c in 0..n { a[r][c] = if rng.chance(45) { 0.0 } else { rng.range(-3, 3) as f64 }; } }
        let e = rng.below(n); for r in 0..n { a[r][e] = 0.0; }
        let b: Vec<f64> = (0..n).map(|_| rng.range(-2, 2) as f64).collect();
        for solver in SOLVERS { out.push(format!("krylov {} singular {} {} {} {} {} {} {} 1", solver, n, n, trips_of(rng, &a), vstr(&b), vstr(&vec![0.0; n]), *rng.pick(&[40usize, 100]), (1e-10f64).wr())); }
    }
}

pub fn gen_c09(rng: &mut Rng, tier: Tier, out: &mut Vec<String>) {
    let nsys = if tier == Tier::Quick { 60 } else { 1200 };
    for i in 0..nsys {
        let n = if i % 6 == 0 { 1 + rng.below(60) } else { 1 + rng.below(16) };
        for solver in SOLVERS {
            let class = if solver == "cg" || rng.chance(30) { "spd" } else { "dd" };
            let tol: f64 = *rng.pick(&[1e-12, 1e-10, 1e-8, 1e-6, 1e-3]);
            let scale = *rng.pick(&[1.0, 1.0, 1.0 / 1048576.0, 1048576.0]);
            let guess = *rng.pick(&[0usize, 1, 1, 5]);
            // (a guess 2^10 times larger than the solution limits the attainable relative residual to about
            //  eps * 2^10 * |A|: tolerances below 1e-9 are not attainable from there, whatever the method)
            let tol_g = if guess == 5 { tol.max(1e-9) } else { tol };
            out.push(one(rng, "krylov9", solver, class, n, guess, 1000, tol_g, scale, 1 + (i % 2)));
            if i % 3 == 2 { out.push(one(rng, "krylov9", solver, class, n, 4, 1000, tol.max(1e-10), scale, 1 + (i % 2))); }
            // degenerate starts
            if i % 3 == 0 { out.push(one(rng, "krylov9", solver, class, n, 2, 1000, tol, 1.0, 1 + (i % 2))); }
            if i % 3 == 1 { out.push(one(rng, "krylov9", solver, class, n, 0, 1000, tol, 0.0, 1 + (i % 2))); }
            // zero right-hand side with a NON-zero guess: the dense solution is the zero vector, the solver must get there
            if i % 6 == 4 { out.push(one(rng, "krylov9", solver, class, n, 1, 1000, tol.max(1e-10), 0.0, 1 + (i % 2))); }
        }
    }
    // FULL (or nearly full) matrices of order 9 .. 24: columns with 9, 10, 11, 13 ... stored entries (a product kernel that is
    // unrolled or blocked over the entries of a column has its remainder loop exercised only here)
    for i in 0..(if tier == Tier::Quick { 6 } else { 120 }) {
        let n = 9 + rng.below(16);
        DENS.with(|d| d.set(Some(if i % 2 == 0 { 100 } else { 85 }))); DOM.with(|d| d.set(3.0));   // strongly dominant: the two-sided Lanczos process is benign here
        for solver in SOLVERS {
            let class = if solver == "cg" { "spd" } else { "dd" };
            let tol: f64 = *rng.pick(&[1e-10, 1e-8, 1e-6]);
            out.push(one(rng, "krylov9", solver, class, n, i % 2, 1000, tol, 1.0, 1));
        }
        DENS.with(|d| d.set(None)); DOM.with(|d| d.set(1.0));
    }
}
