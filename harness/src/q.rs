//! Exact rational scalar for running the *real, generic* ohsl code in exact arithmetic.
//! i128 numerator/denominator, every operation overflow-checked: an overflow panics with
//! the marker "QOVERFLOW" and the whole case is dropped (and counted), never compared.
use core::ops::{Add, AddAssign, Div, DivAssign, Mul, MulAssign, Neg, Sub, SubAssign};
use ohsl::traits::{Number, One, Signed, Zero};
use std::cmp::Ordering;

#[derive(Clone, Copy, Debug)]
pub struct Q {
    pub n: i128,
    pub d: i128, // > 0, gcd(n, d) = 1
}

fn gcd(mut a: i128, mut b: i128) -> i128 {
    // (i128::MIN has no negation: that is an overflow of the harness arithmetic like any other, not a panic of its own)
    if a < 0 { a = a.checked_neg().unwrap_or_else(|| ovf()); }
    if b < 0 { b = b.checked_neg().unwrap_or_else(|| ovf()); }
    while b != 0 {
        let t = a % b;
        a = b;
        b = t;
    }
    a
}

fn ovf() -> ! {
    panic!("QOVERFLOW")
}

impl Q {
    pub fn new(n: i128, d: i128) -> Q {
        if d == 0 { panic!("Q division by zero"); }
        let g = gcd(n, d);
        let (mut n, mut d) = if g == 0 { (0, 1) } else { (n / g, d / g) };
        if d < 0 {
            n = n.checked_neg().unwrap_or_else(|| ovf());
            d = d.checked_neg().unwrap_or_else(|| ovf());
        }
        Q { n, d }
    }
    pub fn int(n: i128) -> Q { Q { n, d: 1 } }
    pub fn is_zero(&self) -> bool { self.n == 0 }
    pub fn to_f64(&self) -> f64 { self.n as f64 / self.d as f64 }
    pub fn parse(s: &str) -> Q {
        if let Some((a, b)) = s.split_once('/') {
            Q::new(a.parse().expect("Q num"), b.parse().expect("Q den"))
        } else {
            Q::int(s.parse().expect("Q int"))
        }
    }
    pub fn show(&self) -> String {
        if self.d == 1 { format!("{}", self.n) } else { format!("{}/{}", self.n, self.d) }
    }
}

fn cm(a: i128, b: i128) -> i128 { a.checked_mul(b).unwrap_or_else(|| ovf()) }
fn ca(a: i128, b: i128) -> i128 { a.checked_add(b).unwrap_or_else(|| ovf()) }
fn cs(a: i128, b: i128) -> i128 { a.checked_sub(b).unwrap_or_else(|| ovf()) }

impl PartialEq for Q {
    fn eq(&self, o: &Q) -> bool { self.n == o.n && self.d == o.d }
}
impl Eq for Q {}
impl PartialOrd for Q {
    fn partial_cmp(&self, o: &Q) -> Option<Ordering> { Some(self.cmp(o)) }
}
impl Ord for Q {
    fn cmp(&self, o: &Q) -> Ordering { cm(self.n, o.d).cmp(&cm(o.n, self.d)) }
}
impl Add for Q {
    type Output = Q;
    fn add(self, o: Q) -> Q {
        let g = gcd(self.d, o.d);
        let (da, db) = (self.d / g, o.d / g);
        Q::new(ca(cm(self.n, db), cm(o.n, da)), cm(self.d, db))
    }
}
impl Sub for Q {
    type Output = Q;
    fn sub(self, o: Q) -> Q {
        let g = gcd(self.d, o.d);
        let (da, db) = (self.d / g, o.d / g);
        Q::new(cs(cm(self.n, db), cm(o.n, da)), cm(self.d, db))
    }
}
impl Mul for Q {
    type Output = Q;
    fn mul(self, o: Q) -> Q {
        let g1 = gcd(self.n, o.d);
        let g2 = gcd(o.n, self.d);
        let (g1, g2) = (if g1 == 0 { 1 } else { g1 }, if g2 == 0 { 1 } else { g2 });
        Q::new(cm(self.n / g1, o.n / g2), cm(self.d / g2, o.d / g1))
    }
}
impl Div for Q {
    type Output = Q;
    fn div(self, o: Q) -> Q {
        if o.n == 0 { panic!("Q division by zero"); }
        let inv = if o.n < 0 {
            Q { n: o.d.checked_neg().unwrap_or_else(|| ovf()), d: o.n.checked_neg().unwrap_or_else(|| ovf()) }
        } else {
            Q { n: o.d, d: o.n }
        };
        self * inv
    }
}
impl Neg for Q {
    type Output = Q;
    fn neg(self) -> Q { Q { n: self.n.checked_neg().unwrap_or_else(|| ovf()), d: self.d } }
}
impl AddAssign for Q { fn add_assign(&mut self, o: Q) { *self = *self + o; } }
impl SubAssign for Q { fn sub_assign(&mut self, o: Q) { *self = *self - o; } }
impl MulAssign for Q { fn mul_assign(&mut self, o: Q) { *self = *self * o; } }
impl DivAssign for Q { fn div_assign(&mut self, o: Q) { *self = *self / o; } }
impl Default for Q { fn default() -> Q { Q::int(0) } }
impl Zero for Q { fn zero() -> Q { Q::int(0) } }
impl One for Q { fn one() -> Q { Q::int(1) } }
impl Number for Q {}
impl Signed for Q {
    // same definition as ohsl's impl_signed! macro
    fn abs(&self) -> Q { if *self < Q::int(0) { -*self } else { *self } }
}
