//! C13 — complex arithmetic: Complex<Q> (exact) and Complex<f64> (bit-exact).
use crate::q::Q;
use crate::wire::*;
use crate::{push_res, Ctx, Tier};
use ohsl::traits::{Number, One, Signed, Zero};
use ohsl::{Cmplx, Complex};

fn gen_q(rng: &mut Rng) -> Complex<Q> {
    // zero real / imaginary parts and purely real / imaginary operands are over-represented
    let kind = rng.below(10);
    let a = rng.q_small(0);
    let b = rng.q_small(0);
    match kind {
        0 => Complex::new(Q::int(0), b),
        1 => Complex::new(a, Q::int(0)),
        2 => Complex::new(Q::int(0), Q::int(0)),
        3 => Complex::new(Q::int(1), Q::int(0)),
        _ => Complex::new(a, b),
    }
}
fn gen_f(rng: &mut Rng) -> Cmplx {
    let kind = rng.below(12);
    let e = *rng.pick(&[0.5f64, 3.0, 30.0, 100.0]);
    let a = rng.f_general(e);
    let b = rng.f_general(e);
    match kind {
        0 => Cmplx::new(0.0, b),
        1 => Cmplx::new(a, 0.0),
        2 => Cmplx::new(0.0, 0.0),
        3 => Cmplx::new(rng.f_dyadic(20), rng.f_dyadic(20)),
        4 => Cmplx::new(-0.0, b),
        _ => Cmplx::new(a, b),
    }
}

pub fn gen(rng: &mut Rng, tier: Tier, out: &mut Vec<String>) {
    let n = if tier == Tier::Quick { 1500 } else { 30000 };
    for _ in 0..n {
        let (a, b, r) = (gen_q(rng), gen_q(rng), rng.q_small(10));
        out.push(format!("cx_all q {} {} {}", a.wr(), b.wr(), r.wr()));
        let (a, b) = (gen_f(rng), gen_f(rng));
        let r = if rng.chance(10) { 0.0 } else { rng.f_general(3.0) };
        out.push(format!("cx_all f {} {} {}", a.wr(), b.wr(), r.wr()));
    }
    for _ in 0..n / 3 {
        // ordering triples: components drawn from a tiny pool so that ties are frequent
        let pool = [-1i128, 0, 1, 2];
        let mut z = || Complex::new(Q::int(*rng.pick(&pool)), Q::int(*rng.pick(&pool)));
        let (a, b, c) = (z(), z(), z());
        out.push(format!("cx_ord q {} {} {}", a.wr(), b.wr(), c.wr()));
        let poolf = [-1.5f64, -0.0, 0.0, 1.0, 2.5];
        let mut z = || Cmplx::new(*rng.pick(&poolf), *rng.pick(&poolf));
        let (a, b, c) = (z(), z(), z());
        out.push(format!("cx_ord f {} {} {}", a.wr(), b.wr(), c.wr()));
    }
}

fn cmp_code<T: PartialOrd>(a: &T, b: &T) -> usize {
    match a.partial_cmp(b) {
        Some(std::cmp::Ordering::Less) => 0,
        Some(std::cmp::Ordering::Equal) => 1,
        Some(std::cmp::Ordering::Greater) => 2,
        None => 3,
    }
}

/// All operator variants on one operand triple; generic in the component type.
fn all_variants<T>(a: &Complex<T>, b: &Complex<T>, r: &T, cx: &mut Ctx) -> (String, Vec<Result<Complex<T>, &'static str>>)
where
    T: Clone + Number + Signed + PartialOrd,
    Complex<T>: W,
    T: W,
{
    let mut res: Vec<Result<Complex<T>, &'static str>> = Vec::new();
    let (a0, b0, r0) = (a.clone(), b.clone(), r.clone());
    macro_rules! bin { ($e:expr) => {{ let (a, b, r) = (a0.clone(), b0.clone(), r0.clone()); let _ = (&a, &b, &r); res.push(guarded(move || $e(a, b, r))); }}; }
    bin!(|a: Complex<T>, b: Complex<T>, _r| a + b);
    bin!(|a: Complex<T>, b: Complex<T>, _r| a - b);
    bin!(|a: Complex<T>, b: Complex<T>, _r| a * b);
    bin!(|a: Complex<T>, b: Complex<T>, _r| a / b);
    bin!(|mut a: Complex<T>, b: Complex<T>, _r| { a += b; a });
    bin!(|mut a: Complex<T>, b: Complex<T>, _r| { a -= b; a });
    bin!(|mut a: Complex<T>, b: Complex<T>, _r| { a *= b; a });
    bin!(|mut a: Complex<T>, b: Complex<T>, _r| { a /= b; a });
    bin!(|a: Complex<T>, _b, r: T| a + r);
    bin!(|a: Complex<T>, _b, r: T| a - r);
    bin!(|a: Complex<T>, _b, r: T| a * r);
    bin!(|a: Complex<T>, _b, r: T| a / r);
    bin!(|mut a: Complex<T>, _b, r: T| { a += r; a });
    bin!(|mut a: Complex<T>, _b, r: T| { a -= r; a });
    bin!(|mut a: Complex<T>, _b, r: T| { a *= r; a });
    bin!(|mut a: Complex<T>, _b, r: T| { a /= r; a });
    bin!(|a: Complex<T>, _b, _r| -a);
    bin!(|a: Complex<T>, _b, _r| a.conj());
    bin!(|a: Complex<T>, _b, _r| a + Complex::<T>::zero());
    bin!(|a: Complex<T>, _b, _r| a * Complex::<T>::one());
    let mut out = String::new();
    for x in &res { push_res(&mut out, x.clone().map(|z| z.wr()), cx); }
    push_res(&mut out, guarded(|| a.abs_sqr().wr()), cx);
    out.push_str(&format!(" {} {}", (a == b) as usize, cmp_code(a, b)));
    // the operator forms (each of them can be overridden separately in a PartialEq / PartialOrd impl)
    let (ne, lt, le, gt, ge) = (a != b, a < b, a <= b, a > b, a >= b);
    let c = cmp_code(a, b);
    cx.check(ne == !(a == b), "a != b is not the negation of a == b");
    cx.check(lt == (c == 0) && gt == (c == 2) && le == (c == 0 || c == 1) && ge == (c == 2 || c == 1), "<, <=, >, >= disagree with partial_cmp");
    out.push_str(&format!(" {} {} {} {} {}", ne as usize, lt as usize, le as usize, gt as usize, ge as usize));
    (out, res)
}

fn same_q(x: &Result<Complex<Q>, &'static str>, y: &Result<Complex<Q>, &'static str>) -> bool {
    match (x, y) { (Ok(a), Ok(b)) => a == b, (Err(a), Err(b)) => a == b, _ => false }
}
fn same_bits(x: &Result<Cmplx, &'static str>, y: &Result<Cmplx, &'static str>) -> bool {
    let eq = |a: f64, b: f64| a.to_bits() == b.to_bits() || (a.is_nan() && b.is_nan());
    match (x, y) { (Ok(a), Ok(b)) => eq(a.real, b.real) && eq(a.imag, b.imag), (Err(a), Err(b)) => a == b, _ => false }
}

pub fn exec(op: &str, t: &mut Toks, cx: &mut Ctx) -> Option<String> {
    match op {
        "cx_all" => {
            let tag = t.next();
            if tag == "q" {
                let a: Complex<Q> = t.get();
                let b: Complex<Q> = t.get();
                let r: Q = t.get();
                let (out, res) = all_variants(&a, &b, &r, cx);
                // oracle: independently coded field formulae over Q (pairs of rationals)
                let (ar, ai, br, bi) = (a.real, a.imag, b.real, b.imag);
                let o = guarded(|| {
                    let mut v: Vec<Option<(Q, Q)>> = Vec::new();
                    v.push(Some((ar + br, ai + bi)));
                    v.push(Some((ar - br, ai - bi)));
                    v.push(Some((ar * br - ai * bi, ar * bi + ai * br)));
                    let n2 = br * br + bi * bi;
                    // a / b = a * conj(b) / |b|^2
                    v.push(if n2.is_zero() { None } else { Some(((ar * br + ai * bi) / n2, (ai * br - ar * bi) / n2)) });
                    v.push(Some((ar + r, ai)));
                    v.push(Some((ar - r, ai)));
                    v.push(Some((ar * r, ai * r)));
                    v.push(if r.is_zero() { None } else { Some((ar / r, ai / r)) });
                    v
                });
                match o {
                    Err(_) => cx.skip = Some("overflow".into()),
                    Ok(v) => {
                        let chk = |cx: &mut Ctx, i: usize, e: &Option<(Q, Q)>, name: &str| match (&res[i], e) {
                            (Ok(z), Some((x, y))) => cx.check(z.real == *x && z.imag == *y, &format!("{} differs from the field formula", name)),
                            (Err(c), None) => cx.check(*c == "arith", &format!("{}: zero divisor gave panic class {}", name, c)),
                            (Ok(_), None) => cx.fail(format!("{}: zero divisor returned a value", name)),
                            (Err(c), Some(_)) => cx.fail(format!("{}: panicked ({}) on a valid operand", name, c)),
                        };
                        let names = ["add", "sub", "mul", "div", "add_real", "sub_real", "mul_real", "div_real"];
                        for k in 0..4 { chk(cx, k, &v[k], names[k]); }
                        for k in 0..4 { chk(cx, 8 + k, &v[4 + k], names[4 + k]); }
                        for k in 0..4 { cx.check(same_q(&res[k], &res[4 + k]), &format!("{}_assign != binary {}", names[k], names[k])); }
                        for k in 0..4 { cx.check(same_q(&res[8 + k], &res[12 + k]), &format!("{}_assign != binary", names[4 + k])); }
                        cx.check(matches!(&res[16], Ok(z) if z.real == -ar && z.imag == -ai), "neg");
                        cx.check(matches!(&res[17], Ok(z) if z.real == ar && z.imag == -ai), "conj");
                        cx.check(matches!(&res[18], Ok(z) if *z == a), "a + 0 != a");
                        cx.check(matches!(&res[19], Ok(z) if *z == a), "a * 1 != a");
                        cx.check(a.abs_sqr() == ar * ar + ai * ai, "abs_sqr");
                        // (a/b)*b == a whenever b != 0
                        if let Ok(qt) = &res[3] { cx.check(qt.clone() * b.clone() == a, "(a/b)*b != a"); }
                        let c = cmp_code(&a, &b);
                        cx.check((c == 1) == (a == b), "== disagrees with partial_cmp");
                        cx.check(c != 3, "partial_cmp returned None on NaN-free data");
                        cx.check(cmp_code(&b, &a) == 2 - c, "ordering is not antisymmetric");
                    }
                }
                cx.meta("tag", "q");
                cx.meta("bzero", (b.real.is_zero() && b.imag.is_zero()) as usize);
                Some(out)
            } else {
                let a: Cmplx = t.get();
                let b: Cmplx = t.get();
                let r: f64 = t.get();
                let (mut out, res) = all_variants(&a, &b, &r, cx);
                out.push_str(&format!(" {} {} {}", (r * a).wr(), f64_hex(a.abs()), f64_hex(a.arg())));
                // real scalar on the LEFT: r * a is the componentwise product (one rounding per component), hence bit-identical to a * r
                { let l = r * a; let rr = a * r; let eqb = |x: f64, y: f64| x.to_bits() == y.to_bits() || (x.is_nan() && y.is_nan());
                  cx.check(eqb(l.real, rr.real) && eqb(l.imag, rr.imag) && eqb(l.real, r * a.real) && eqb(l.imag, r * a.imag), "real * complex is not the componentwise product / differs from complex * real"); }
                let names = ["add", "sub", "mul", "div"];
                for k in 0..4 { cx.check(same_bits(&res[k], &res[4 + k]), &format!("{}_assign not bit-identical to binary {}", names[k], names[k])); }
                for k in 0..4 { cx.check(same_bits(&res[8 + k], &res[12 + k]), &format!("{}_real_assign not bit-identical to binary", names[k])); }
                // a few ulps against a fused-multiply-add reference, in the non-overflowing range
                let fin = |x: f64| x.is_finite() && x.abs() < 1e150 && (x == 0.0 || x.abs() > 1e-150);
                if [a.real, a.imag, b.real, b.imag].iter().all(|x| fin(*x)) {
                    let eps = f64::EPSILON;
                    if let Ok(m) = &res[2] {
                        let re = a.real.mul_add(b.real, -(a.imag * b.imag));
                        let im = a.real.mul_add(b.imag, a.imag * b.real);
                        let sc_re = (a.real * b.real).abs() + (a.imag * b.imag).abs();
                        let sc_im = (a.real * b.imag).abs() + (a.imag * b.real).abs();
                        cx.check((m.real - re).abs() <= 4.0 * eps * sc_re + f64::MIN_POSITIVE, "mul real part off by more than a few ulps");
                        cx.check((m.imag - im).abs() <= 4.0 * eps * sc_im + f64::MIN_POSITIVE, "mul imag part off by more than a few ulps");
                    }
                    if let Ok(d) = &res[3] {
                        let n2 = b.real * b.real + b.imag * b.imag;
                        if n2 > 0.0 && n2.is_finite() {
                            // back-multiplication: (a/b)*b ≈ a normwise
                            let back = *d * b;
                            let err = ((back.real - a.real).powi(2) + (back.imag - a.imag).powi(2)).sqrt();
                            cx.check(err <= 16.0 * eps * a.abs().max(f64::MIN_POSITIVE) + 1e-300, "(a/b)*b far from a");
                        }
                    }
                    if let Ok(s) = &res[0] { cx.check(s.real == a.real + b.real && s.imag == a.imag + b.imag, "add"); }
                    if let Ok(s) = &res[1] { cx.check(s.real == a.real - b.real && s.imag == a.imag - b.imag, "sub"); }
                    if let Ok(s) = &res[16] { cx.check(s.real == -a.real && s.imag == -a.imag, "neg"); }
                    if let Ok(s) = &res[17] { cx.check(s.real == a.real && s.imag.to_bits() == (-a.imag).to_bits(), "conj"); }
                    let c = cmp_code(&a, &b);
                    cx.check((c == 1) == (a == b), "== disagrees with partial_cmp");
                    cx.check(c != 3, "partial_cmp None on NaN-free data");
                    cx.check(cmp_code(&b, &a) == 2 - c, "ordering is not antisymmetric");
                }
                cx.meta("tag", "f");
                Some(out)
            }
        }
        "cx_ord" => {
            let tag = t.next();
            let (c1, c2, c3) = if tag == "q" {
                let (a, b, c): (Complex<Q>, Complex<Q>, Complex<Q>) = (t.get(), t.get(), t.get());
                (cmp_code(&a, &b), cmp_code(&b, &c), cmp_code(&a, &c))
            } else {
                let (a, b, c): (Cmplx, Cmplx, Cmplx) = (t.get(), t.get(), t.get());
                (cmp_code(&a, &b), cmp_code(&b, &c), cmp_code(&a, &c))
            };
            // transitivity of <, and of ≤ through equality
            if c1 == 0 && c2 == 0 { cx.check(c3 == 0, "a<b, b<c but not a<c"); }
            if c1 == 2 && c2 == 2 { cx.check(c3 == 2, "a>b, b>c but not a>c"); }
            if c1 == 1 { cx.check(c3 == c2, "a=b but cmp(a,c) != cmp(b,c)"); }
            if c2 == 1 { cx.check(c3 == c1, "b=c but cmp(a,c) != cmp(a,b)"); }
            cx.check(c1 != 3 && c2 != 3 && c3 != 3, "incomparable NaN-free values");
            cx.meta("tag", tag);
            cx.meta("ties", (c1 == 1) as usize + (c2 == 1) as usize);
            Some(format!("{} {} {}", c1, c2, c3))
        }
        _ => None,
    }
}
