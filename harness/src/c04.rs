//! C04 — banded matrix vs the dense matrix with the same band; padding never matters.
use crate::c01::{exact_det_rank, exact_solve};
use crate::q::Q;
use crate::sc::*;
use crate::wire::*;
use crate::{push_res, Ctx, Tier};
use ohsl::{Banded, Cmplx, Matrix, Vector};

/// build a Banded from full compact storage; slots that no (i, j) index reaches (top-left
/// corner) take the fill value `pad`
fn build<T: Sc>(n: usize, m1: usize, m2: usize, pad: T, compact: &Matrix<T>) -> Banded<T> {
    let mut b = Banded::new(n, m1, m2, pad);
    for i in 0..n { for c in 0..m1 + m2 + 1 { if i + c >= m1 { let j = i + c - m1; b[(i, j)] = compact[(i, c)]; } } }
    b
}
fn dense<T: Sc>(n: usize, m1: usize, m2: usize, compact: &Matrix<T>) -> Rows<T> {
    let mut d = vec![vec![T::zero(); n]; n];
    for i in 0..n { for j in 0..n { if j <= i + m2 && i <= j + m1 { d[i][j] = compact[(i, m1 + j - i)]; } } }
    d
}
fn wr_band<T: Sc>(b: &Banded<T>) -> String { format!("{} {} {} {}", b.size(), b.size_below(), b.size_above(), wr_mat(b.compact())) }
fn fq(x: &f64) -> Option<Q> { let s = x * 1024.0; if s.fract() == 0.0 && s.abs() < 1e12 { Some(Q::new(s as i128, 1024)) } else { None } }

fn band<T: Sc>(t: &mut Toks, cx: &mut Ctx, to_q: Option<fn(&T) -> Option<Q>>) -> String {
    let (n, m1, m2) = (t.usize(), t.usize(), t.usize());
    let pad: T = t.get();
    let c1: Matrix<T> = rd_mat(t);
    let pad2: T = t.get();
    let c2: Matrix<T> = rd_mat(t);
    let rhs: Vector<T> = rd_vector(t);
    let v: Vector<T> = rd_vector(t);
    let s: T = t.get();
    let (i, j) = (t.usize(), t.usize());
    let bandno = t.isize();
    let x: T = t.get();
    cx.meta("tag", T::TAG); cx.meta("shape", format!("{},{},{}", n, m1, m2));
    let a = build(n, m1, m2, pad, &c1);
    let a2 = build(n, m1, m2, pad2, &c2);
    let snap = a.clone();
    let d = dense(n, m1, m2, &c1);
    let mut out = String::new();
    // element access (in-matrix indices only are compared with the dense twin)
    let g = guarded(|| a[(i, j)]);
    push_res(&mut out, g.as_ref().map(|z| z.wr()).map_err(|c| *c), cx);
    if i < n && j < n { let inband = j <= i + m2 && i <= j + m1;
        match &g { Ok(z) => cx.check(inband && z.same(&d[i][j]), "index: wrong element / out-of-band index accepted"), Err(_) => cx.check(!inband, "index: in-band element rejected") } }
    let run = |a: &Banded<T>| (guarded(|| a * &v), guarded(|| a.det()), guarded(|| a.solve(&rhs)));
    let (mv, dt, sv) = run(&a);
    let (mv2, dt2, sv2) = run(&a2);
    let mvo = guarded(|| a.clone() * v.clone());
    match (&mv, &mvo) { (Ok(p), Ok(q)) => cx.check(same_vec(&p.vec, &q.vec), "owned and borrowed products differ"), (Err(_), Err(_)) => {}, _ => cx.fail("owned and borrowed products differ") }
    for (m_, d_, s_) in [(&mv, &dt, &sv), (&mv2, &dt2, &sv2)] {
        push_res(&mut out, m_.as_ref().map(|z| wr_vector(z)).map_err(|c| *c), cx);
        push_res(&mut out, d_.as_ref().map(|z| z.wr()).map_err(|c| *c), cx);
        push_res(&mut out, s_.as_ref().map(|z| wr_vector(z)).map_err(|c| *c), cx);
    }
    // padding independence
    let eqv = |p: &Result<Vector<T>, &'static str>, q: &Result<Vector<T>, &'static str>| match (p, q) { (Ok(a), Ok(b)) => same_vec(&a.vec, &b.vec), (Err(a), Err(b)) => a == b, _ => false };
    cx.check(eqv(&mv, &mv2), "product depends on storage slots outside the matrix");
    cx.check(eqv(&sv, &sv2), "solution depends on storage slots outside the matrix");
    cx.check(match (&dt, &dt2) { (Ok(a), Ok(b)) => a.same(b), (Err(a), Err(b)) => a == b, _ => false }, "determinant depends on storage slots outside the matrix");
    // product vs dense
    match &mv { Ok(p) => { cx.check(v.size() == n, "product accepted a vector of the wrong length");
                    if v.size() == n { let e: Vec<T> = (0..n).map(|r| { let mut acc = T::zero(); for c in 0..n { if c <= r + m2 && r <= c + m1 { acc += d[r][c] * v[c]; } } acc }).collect();
                        cx.check(same_vec(&p.vec, &e), "B*v differs from the dense product"); } }
                Err(c) => cx.check(v.size() != n, &format!("product panicked ({}) on a vector of the right length", c)) }
    // arithmetic
    let ar: Vec<Result<Banded<T>, &'static str>> = vec![
        guarded(|| -&a), guarded(|| &a + &a2), guarded(|| &a - &a2), guarded(|| &a * s), guarded(|| &a / s),
        guarded(|| { let mut z = a.clone(); z += &a2; z }), guarded(|| { let mut z = a.clone(); z -= &a2; z }),
        guarded(|| { let mut z = a.clone(); z *= s; z }), guarded(|| { let mut z = a.clone(); z /= s; z }),
        guarded(|| { let mut z = a.clone(); z += s; z }), guarded(|| { let mut z = a.clone(); z -= s; z }),
        guarded(|| { let mut z = a.clone(); z.fill_band(bandno, x); z })];
    let owned: Vec<Result<Banded<T>, &'static str>> = vec![guarded(|| -(a.clone())), guarded(|| a.clone() + a2.clone()), guarded(|| a.clone() - a2.clone()), guarded(|| a.clone() * s), guarded(|| a.clone() / s)];
    for k in 0..5 { match (&ar[k], &owned[k]) { (Ok(p), Ok(q)) => cx.check(p == q || !T::is_exact(), "owned and borrowed operator forms differ"), (Err(_), Err(_)) => {}, _ => cx.fail("owned and borrowed operator forms differ") } }
    for z in &ar { push_res(&mut out, z.as_ref().map(|b| wr_band(b)).map_err(|c| *c), cx); }
    // more entry points: indexed write, fill, resize
    let extra: Vec<Result<Banded<T>, &'static str>> = vec![
        guarded(|| { let mut z = a.clone(); z[(i, j)] = x; z }),
        guarded(|| { let mut z = a.clone(); z.fill(x); z }),
        guarded(|| { let mut z = a.clone(); z.resize(n + (i % 2), (m1 + j) % (n + 1), m2); z })];
    for z in &extra { push_res(&mut out, z.as_ref().map(|b| wr_band(b)).map_err(|c| *c), cx); }
    if i < n && j < n { match &extra[0] { Ok(z) => { let inb = j <= i + m2 && i <= j + m1; cx.check(inb, "indexed write outside the band succeeded");
                if inb { cx.check((0..n).all(|r| (0..n).all(|c| !(c <= r + m2 && r <= c + m1) || z[(r, c)].same(&(if r == i && c == j { x } else { d[r][c] })))), "indexed write changed another in-band entry"); } }
            Err(_) => cx.check(!(j <= i + m2 && i <= j + m1), "in-band indexed write rejected") } }
    if let Ok(z) = &extra[1] { cx.check((0..n).all(|r| (0..n).all(|c| !(c <= r + m2 && r <= c + m1) || z[(r, c)].same(&x))), "fill"); }
    if let Ok(z) = &extra[2] { cx.check(z.size() == n + (i % 2) && z.size_below() == (m1 + j) % (n + 1) && z.size_above() == m2 && z.compact().rows() == z.size() && z.compact().cols() == z.size_below() + z.size_above() + 1, "resize: shape"); }
    cx.check(same_mat(a.compact(), snap.compact()), "a by-reference call mutated the matrix");
    let d2 = dense(n, m1, m2, &c2);
    let f: [&dyn Fn(T, T) -> T; 11] = [&|p, _| -p, &|p, q| p + q, &|p, q| p - q, &|p, _| p * s, &|p, _| p / s, &|p, q| p + q, &|p, q| p - q, &|p, _| p * s, &|p, _| p / s, &|p, _| p + s, &|p, _| p - s];
    for k in 0..11 { let divz = (k == 4 || k == 8) && T::is_exact() && s == T::zero();
        match &ar[k] { Ok(z) => { let ok = !divz && (0..n).all(|r| (0..n).all(|c| !(c <= r + m2 && r <= c + m1) || z[(r, c)].same(&f[k](d[r][c], d2[r][c]))));
                                   cx.check(ok, &format!("arithmetic variant {} differs from the entrywise definition on the band", k)); }
                       Err(c) => cx.check(divz && n > 0, &format!("arithmetic variant {} panicked ({})", k, c)) } }
    match &ar[11] { Ok(z) => { let inr = bandno >= -(m1 as isize) && bandno <= m2 as isize; cx.check(inr, "fill_band accepted a band outside the matrix");
                        if inr { cx.check((0..n).all(|r| (0..n).all(|c| !(c <= r + m2 && r <= c + m1) || z[(r, c)].same(&(if c as isize - r as isize == bandno { x } else { d[r][c] })))), "fill_band"); } }
                    Err(_) => cx.check(bandno < -(m1 as isize) || bandno > m2 as isize, "fill_band rejected a band of the matrix") }
    // exact oracles
    let conv = |z: &T| -> Option<Q> { match to_q { Some(f) => f(z), None => None } };
    let dq: Option<Rows<Q>> = d.iter().map(|row| row.iter().map(|z| conv(z)).collect::<Option<Vec<Q>>>()).collect();
    let bq: Option<Vec<Q>> = rhs.vec.iter().map(|z| conv(z)).collect();
    if let (Some(dq), Some(bq)) = (dq, bq) {
        if let Ok((det, _)) = guarded(|| exact_det_rank(&dq)) {
            cx.meta("singular", det.is_zero() as usize);
            if T::is_exact() {
                match &dt { Ok(z) => cx.check(conv(z) == Some(det), "det differs from the exact determinant of the dense matrix"), Err(c) => cx.fail(format!("det panicked ({})", c)) }
            } else if let Ok(z) = &dt { let zf = z.mag64(); let df = det.to_f64().abs(); let scale: f64 = (0..n).map(|r| (0..n).map(|c| d[r][c].mag64()).fold(0.0, f64::max).max(1e-300)).product();
                cx.check((zf - df).abs() <= 1e-10 * scale.max(df), "det far from the exact determinant of the dense matrix"); }
            if rhs.size() == n && !det.is_zero() {
                match &sv {
                    Ok(u) => { cx.check(u.size() == n, "solve: wrong length");
                        if T::is_exact() { if let Ok(Some(xs)) = guarded(|| exact_solve(&dq, &bq)) { cx.check(u.vec.iter().map(|z| conv(z).unwrap()).collect::<Vec<_>>() == xs, "solve differs from the exact solution of the dense system"); } }
                        else { let numsing = guarded(|| { let mut dm = Matrix::<T>::new(n, n, T::zero()); for r in 0..n { for c in 0..n { dm[(r, c)] = d[r][c]; } } crate::c01::ref_zero_pivot_column(&dm) }).unwrap_or(false);
                            cx.meta("numerically_singular", numsing as usize);
                            cx.check(u.vec.iter().all(|z| z.finite()), &format!("nonsingular system: non-finite solution{}", if numsing { " [numerically singular to working precision: a computed pivot sub-column of the dense twin is exactly zero, Gaussian elimination cannot proceed in this arithmetic]" } else { "" }));
                            let an = (0..n).map(|r| (0..n).map(|c| d[r][c].mag64()).sum::<f64>()).fold(0.0, f64::max); let un = u.vec.iter().map(|z| z.mag64()).fold(0.0, f64::max);
                            let mut rn = 0.0f64; for r in 0..n { let mut acc = T::zero(); for c in 0..n { acc += d[r][c] * u[c]; } rn = rn.max((acc - rhs[r]).mag64()); }
                            cx.check(rn <= 1e-11 * (an * un + rhs.vec.iter().map(|z| z.mag64()).fold(0.0, f64::max)) + 1e-300 || !rn.is_finite(), "backward error too large"); } }
                    Err(c) => cx.fail(format!("nonsingular system not solved ({})", c)),
                }
            }
        }
    }
    if rhs.size() != n { cx.check(matches!(&sv, Err("size")), "solve accepted a right-hand side of the wrong length"); }
    // floats without an exact oracle (Complex<f64>, general-magnitude f64): if an independent reference elimination with
    // partial pivoting on the dense twin meets a non-zero pivot at every step, the system is one elimination can solve in this
    // arithmetic: the banded solver must return a finite vector with a normwise backward error of the order of machine epsilon
    let exact_available = d.iter().all(|row| row.iter().all(|z| conv(z).is_some())) && rhs.vec.iter().all(|z| conv(z).is_some());
    if !T::is_exact() && !exact_available && rhs.size() == n && n > 0 {
        let mags: Vec<f64> = d.iter().flat_map(|r| r.iter().map(|z| z.mag64())).chain(rhs.vec.iter().map(|z| z.mag64())).collect();
        let window = mags.iter().all(|m| m.is_finite() && (*m == 0.0 || (*m >= 1e-100 && *m <= 1e100)));
        let solvable = window && !guarded(|| { let mut dm = Matrix::<T>::new(n, n, T::zero()); for r in 0..n { for c in 0..n { dm[(r, c)] = d[r][c]; } } crate::c01::ref_zero_pivot_column(&dm) }).unwrap_or(true);
        if solvable {
            match &sv {
                Err(c) => cx.fail(format!("solve panicked ({}) on a system the reference elimination solves", c)),
                Ok(u) => { let fin = u.vec.iter().all(|z| z.finite());
                    cx.check(fin, "solve: non-finite solution on a system the reference elimination solves");
                    if fin && u.size() == n {
                        let an = (0..n).map(|r| (0..n).map(|c| d[r][c].mag64()).sum::<f64>()).fold(0.0, f64::max); let un = u.vec.iter().map(|z| z.mag64()).fold(0.0, f64::max);
                        let mut rn = 0.0f64; for r in 0..n { let mut acc = T::zero(); for c in 0..n { acc += d[r][c] * u[c]; } rn = rn.max((acc - rhs[r]).mag64()); }
                        let bn = rhs.vec.iter().map(|z| z.mag64()).fold(0.0, f64::max);
                        if rn.is_finite() && (an * un + bn).is_finite() { cx.check(rn <= 1e-11 * (an * un + bn) + 1e-300, &format!("solve: backward error {:e} too large (no exact oracle: reference elimination solvable)", rn / (an * un + bn + 1e-300))); } } }
            }
        }
    }
    out
}

/// history of edits of ONE banded matrix (new, then resize / indexed write / fill / fill_band in any order); after every
/// step the whole object is dumped (n, m1, m2 and the compact storage as the accessor returns it) and compared with a
/// reference compact array maintained with the semantics of `Matrix::resize` (overlapping top-left block kept, new
/// cells zero); views: every in-band element, the product with the all-ones vector, `==` with a freshly built twin
fn band_hist<T: Sc>(t: &mut Toks, cx: &mut Ctx) -> String {
    let (n0, m10, m20) = (t.usize(), t.usize(), t.usize());
    let x0: T = t.get();
    let nops = t.usize();
    cx.meta("tag", T::TAG); cx.meta("ops", nops);
    let mut b = Banded::<T>::new(n0, m10, m20, x0);
    let (mut n, mut m1, mut m2) = (n0, m10, m20);
    let mut rf: Vec<Vec<T>> = vec![vec![x0; m10 + m20 + 1]; n0];
    let mut out = wr_band(&b);
    for _ in 0..nops {
        let op = t.next();
        let before = wr_band(&b);
        let r: Result<(), &'static str> = match op {
            "resize" => { let (a, c, d) = (t.usize(), t.usize(), t.usize()); let r = guarded(|| b.resize(a, c, d));
                if r.is_ok() { let w = c + d + 1; let mut nr = vec![vec![T::zero(); w]; a]; for i in 0..a.min(n) { for k in 0..w.min(m1 + m2 + 1) { nr[i][k] = rf[i][k]; } } rf = nr; n = a; m1 = c; m2 = d; }
                r }
            "set" => { let (i, j) = (t.usize(), t.usize()); let x: T = t.get(); let r = guarded(|| { b[(i, j)] = x; });
                let inband = j <= i + m2 && i <= j + m1;
                if inband && i < n && j < n { cx.check(r.is_ok(), "in-band indexed write panicked"); if r.is_ok() { rf[i][m1 + j - i] = x; } }
                else if !inband { cx.check(r.is_err(), "out-of-band indexed write was accepted"); }
                else if r.is_ok() { let k = m1 + j - i; if i < n && k < m1 + m2 + 1 { rf[i][k] = x; } }   // raw index beyond the matrix: a padding slot (outside the claim)
                if r.is_err() { cx.check(wr_band(&b) == before, "a rejected indexed write modified the matrix"); }
                r }
            "fill" => { let x: T = t.get(); let r = guarded(|| b.fill(x)); if r.is_ok() { for row in rf.iter_mut() { for v in row.iter_mut() { *v = x; } } } r }
            "fillband" => { let k = t.isize(); let x: T = t.get(); let r = guarded(|| b.fill_band(k, x));
                let ok = k >= -(m1 as isize) && k <= m2 as isize;
                cx.check(r.is_ok() == ok || n == 0, "fill_band: acceptance differs from the band range");
                if r.is_ok() && ok { let c = (m1 as isize + k) as usize; for row in rf.iter_mut() { row[c] = x; } }
                r }
            _ => panic!("HARNESS: unknown banded op {}", op),
        };
        out.push_str(&format!(" ; {} {} | {}", op, match &r { Ok(_) => "ok".to_string(), Err(c) => format!("!{}", c) }, wr_band(&b)));
        // the object is exactly the reference: shape fields, storage shape, every stored cell
        let c = b.compact();
        cx.check(b.size() == n && b.size_below() == m1 && b.size_above() == m2, "n / m1 / m2 differ from the reference after the history");
        cx.check(c.rows() == n && c.cols() == m1 + m2 + 1, "compact storage is not n x (m1+m2+1) after the history");
        if c.rows() == n && c.cols() == m1 + m2 + 1 { cx.check((0..n).all(|i| (0..m1 + m2 + 1).all(|k| c[(i, k)].same(&rf[i][k]))), "compact storage differs from the reference after the history"); }
        // views
        let twin = guarded(|| { let mut z = Banded::<T>::new(n, m1, m2, T::zero()); for i in 0..n { for k in 0..m1 + m2 + 1 { if i + k >= m1 && i + k - m1 < n { z[(i, i + k - m1)] = rf[i][k]; } } } z });
        if let Ok(z) = &twin {
            let same_inband = (0..n).all(|i| (0..n).all(|j| !(j <= i + m2 && i <= j + m1) || guarded(|| b[(i, j)]).map(|v| v.same(&z[(i, j)])).unwrap_or(false)));
            cx.check(same_inband, "an in-band element differs from the freshly built twin");
            let ones = Vector::new(n, T::one());
            let (p1, p2) = (guarded(|| &b * &ones), guarded(|| z * &ones));
            match (&p1, &p2) { (Ok(u), Ok(w)) => cx.check(same_vec(&u.vec, &w.vec), "product with the ones vector differs from the freshly built twin"), (Err(_), Err(_)) => {}, _ => cx.fail("product with the ones vector: one of history / twin panicked") }
            out.push_str(&format!(" | {}", match &p1 { Ok(u) => wr_vector(u), Err(c) => format!("!{}", c) }));
        }
        if cx.skip.is_some() { break; }
    }
    out
}

pub fn exec(op: &str, t: &mut Toks, cx: &mut Ctx) -> Option<String> {
    match op {
        "band_hist" => { let tag = t.next(); Some(match tag { "q" => band_hist::<Q>(t, cx), "f" => band_hist::<f64>(t, cx), _ => band_hist::<Cmplx>(t, cx) }) }
        "band" => { let tag = t.next(); Some(match tag { "q" => band::<Q>(t, cx, Some(|x: &Q| Some(*x))), "f" => band::<f64>(t, cx, Some(fq)), _ => band::<Cmplx>(t, cx, None) }) }
        _ => None,
    }
}

fn one<T: Sc>(rng: &mut Rng, n: usize, m1: usize, m2: usize, class: usize) -> String { one_k::<T>(rng, n, m1, m2, class, 0) }
fn one_k<T: Sc>(rng: &mut Rng, n: usize, m1: usize, m2: usize, class: usize, wide: usize) -> String {
    let mm = m1 + m2 + 1;
    let neg1 = T::from_i(-1);
    let mut comp: Vec<Vec<T>> = (0..n).map(|_| (0..mm).map(|_| T::gen(rng, 15, 0)).collect()).collect();
    let positive = |x: T| if x < T::zero() { -x } else { x };
    match class {
        0 => {}                                                                       // random signs / zeros
        1 => { for i in 0..n { comp[i][m1] = -positive(T::gen(rng, 0, 0)); } }       // negative diagonal
        2 => { for i in 0..n { comp[i][m1] = T::zero(); if m1 > 0 { comp[i][m1 - 1] = T::gen(rng, 0, 0); } if m2 > 0 { comp[i][m1 + 1] = T::gen(rng, 0, 0); } } } // zero diagonal, non-zero neighbours
        3 => { for i in 0..n { if m1 > 0 { comp[i][m1 - 1] = T::from_i(1) / T::from_i(1024); } comp[i][m1] = neg1 * positive(T::gen(rng, 0, 0)) * T::from_i(4); } }  // tiny positive sub-diagonal, large negative diagonal
        4 => { for i in 0..n { for c in 0..mm { comp[i][c] = if (i + c) % 2 == 0 { positive(comp[i][c]) } else { -positive(comp[i][c]) }; } } }  // alternating signs
        5 => { if n > 1 { let r = rng.below(n); for c in 0..mm { comp[r][c] = T::zero(); } } }   // singular: zero row
        _ => { for i in 0..n { for c in 0..mm { comp[i][c] = positive(comp[i][c]); } comp[i][m1] = comp[i][m1] + T::from_i(20); } } // positive, dominant (the tested regime)
    }
    // general magnitudes: every stored value is scaled by a factor 10^[-3,3] / 10^[-12,12] (rounding, cancellation and
    // the order of summation become visible; the exact oracles do not apply, the bitwise dense-twin ones do)
    if wide > 0 && !T::is_exact() { for r in comp.iter_mut() { for z in r.iter_mut() { *z = *z * T::gen(rng, 0, wide); } } }
    // second copy: same in-matrix band, different padding
    let mut comp2 = comp.clone();
    let (pad, pad2) = (T::gen(rng, 0, 0), T::gen(rng, 0, 0) + T::from_i(7));
    for i in 0..n { for c in 0..mm { let jj = i as isize + c as isize - m1 as isize; if jj < 0 { comp[i][c] = pad; comp2[i][c] = pad2; } else if jj as usize >= n { comp2[i][c] = T::gen(rng, 0, 0) + T::from_i(3); } } }
    let flat = |cm: &Vec<Vec<T>>| { let mut s = format!("{} {}", n, mm); for r in cm { for z in r { s.push(' '); s.push_str(&z.wr()); } } s };
    let rl = if rng.chance(5) { n + 1 } else { n };
    let vl = if rng.chance(5) { n + 1 } else { n };
    format!("band {} {} {} {} {} {} {} {} {} {} {} {} {} {} {}", T::TAG, n, m1, m2, pad.wr(), flat(&comp), pad2.wr(), flat(&comp2),
        gen_vec_str::<T>(rng, rl, 10, if T::is_exact() { 0 } else { wide }), gen_vec_str::<T>(rng, vl, 10, if T::is_exact() { 0 } else { wide }), T::gen(rng, 8, 0).wr(), rng.below(n + 1), rng.below(n + 1),
        rng.range(-(m1 as i64) - 1, m2 as i64 + 1), T::gen(rng, 0, 0).wr())
}

pub fn gen(rng: &mut Rng, tier: Tier, out: &mut Vec<String>) {
    let passes = if tier == Tier::Quick { 1 } else { 12 };
    for _ in 0..passes {
        // all (n, m1, m2) with 1 <= n <= 10, 0 <= m1, m2 < n : 385 shapes, exhaustively
        for n in 1..=10usize { for m1 in 0..n { for m2 in 0..n {
            let class = rng.below(7);
            out.push(one::<Q>(rng, n, m1, m2, class));
            let class = rng.below(7);
            out.push(one::<f64>(rng, n, m1, m2, class));
            if (n + m1 + m2) % 3 == 0 { let class = rng.below(5); out.push(one::<Cmplx>(rng, n, m1, m2, class)); }
            if (n + 2 * m1 + m2) % 3 == 1 { let class = *rng.pick(&[0usize, 1, 3, 4, 6]); let w = 2 + rng.below(2); out.push(one_k::<f64>(rng, n, m1, m2, class, w)); }
            if (n + m1 + 2 * m2) % 7 == 2 { let class = *rng.pick(&[0usize, 4, 6]); out.push(one_k::<Cmplx>(rng, n, m1, m2, class, 2)); }
        } } }
        // histories of one banded matrix: resize (shrink / grow / change of bandwidths), indexed writes, fills
        for _ in 0..(if tier == Tier::Quick { 150 } else { 250 }) {
            let (mut n, mut m1, mut m2) = (1 + rng.below(5), rng.below(3), rng.below(3));
            let mut s = format!("band_hist q {} {} {} {}", n, m1, m2, Q::gen(rng, 0, 0).wr());
            let nops = 2 + rng.below(7); let mut ops = String::new();
            for _ in 0..nops { match rng.below(6) {
                0 | 1 | 2 => { // resize: mostly the same total width (so that storage could be reused), shrinking and growing n
                    let nn = rng.below(7); let (a, c) = if rng.chance(60) { (m1, m2) } else if rng.chance(50) && m1 + m2 > 0 { let a = rng.below(m1 + m2 + 1); (a, m1 + m2 - a) } else { (rng.below(3), rng.below(3)) };
                    n = nn; m1 = a; m2 = c; ops.push_str(&format!(" resize {} {} {}", n, m1, m2)); }
                3 => { let (i, j) = (rng.below(n + 1), rng.below(n + 1)); ops.push_str(&format!(" set {} {} {}", i, j, Q::gen(rng, 0, 0).wr())); }
                4 => { ops.push_str(&format!(" fill {}", Q::gen(rng, 0, 0).wr())); }
                _ => { ops.push_str(&format!(" fillband {} {}", rng.range(-3, 3), Q::gen(rng, 0, 0).wr())); }
            } }
            s.push_str(&format!(" {}{}", nops, ops)); out.push(s);
        }
        // every value class on a few shapes
        for class in 0..7 { for (n, m1, m2) in [(2usize, 1usize, 1usize), (3, 1, 1), (4, 2, 1), (5, 1, 2), (6, 2, 2), (3, 2, 0), (3, 0, 2)] {
            out.push(one::<Q>(rng, n, m1, m2, class)); out.push(one::<f64>(rng, n, m1, m2, class)); } }
    }

    // LARGER ORDERS (11 .. 65) with narrow, wide and one-sided bands
    for _ in 0..(if tier == Tier::Quick { 10 } else { 200 }) {
        let n = big(rng, 65);
        let (m1, m2) = match rng.below(7) { 0 => (0, 0), 1 => (1, 1), 2 => (2, 1), 3 => (1, 3), 4 => (rng.below(6), rng.below(6)), 5 => (if n <= 25 { n - 1 } else { 7 }, 0), _ => (0, if n <= 25 { n - 1 } else { 9 }) };
        let class = rng.below(7);
        out.push(one::<f64>(rng, n, m1, m2, class));
        out.push(one::<f64>(rng, n, m1, m2, 6));
        if n <= 33 { out.push(one::<Q>(rng, n, m1.min(2), m2.min(2), 6)); let cl = rng.below(5); out.push(one::<Cmplx>(rng, n, m1, m2, cl)); }
        if n <= 40 { let cl = *rng.pick(&[0usize, 4, 6]); out.push(one_k::<f64>(rng, n, m1, m2, cl, 2)); }
    }
}
