//! C11 (polynomial arithmetic / evaluation / differentiation) and C12 (division).
use crate::q::Q;
use crate::sc::*;
use crate::wire::*;
use crate::{push_res, Ctx, Tier};
use ohsl::{Cmplx, Polynomial};

fn coeffs<T: Sc>(p: &Polynomial<T>) -> Vec<T> { (0..p.size()).map(|i| p[i]).collect() }
fn wr_poly<T: Sc>(p: &Polynomial<T>) -> String { wr_vec(&coeffs(p)) }
fn same_poly<T: Sc>(a: &Polynomial<T>, b: &Polynomial<T>) -> bool { same_vec(&coeffs(a), &coeffs(b)) }

// independent coefficient-list reference
fn r_add<T: Sc>(a: &[T], b: &[T], minus: bool) -> Vec<T> {
    let n = a.len().max(b.len());
    (0..n).map(|i| { let x = if i < a.len() { a[i] } else { T::zero() }; let y = if i < b.len() { b[i] } else { T::zero() }; if minus { x - y } else { x + y } }).collect()
}
fn r_mul<T: Sc>(a: &[T], b: &[T]) -> Vec<T> {
    if a.is_empty() || b.is_empty() { return vec![]; }
    let mut c = vec![T::zero(); a.len() + b.len() - 1];
    for k in 0..c.len() { let mut s = T::zero(); for i in 0..a.len() { if k >= i && k - i < b.len() { s += a[i] * b[k - i]; } } c[k] = s; }
    c
}
fn r_eval<T: Sc>(a: &[T], x: T) -> T { let mut s = T::zero(); let mut pw = T::one(); for c in a { s += *c * pw; pw *= x; } s }
fn r_deriv<T: Sc>(a: &[T]) -> Vec<T> { (1..a.len()).map(|i| a[i] * T::from_i(i as i64)).collect() }
fn zero_pad_eq<T: Sc>(a: &[T], b: &[T]) -> bool {
    let n = a.len().max(b.len());
    (0..n).all(|i| (if i < a.len() { a[i] } else { T::zero() }) == (if i < b.len() { b[i] } else { T::zero() }))
}

fn ops<T: Sc>(t: &mut Toks, cx: &mut Ctx) -> String {
    let pc: Vec<T> = t.vec();
    let qc: Vec<T> = t.vec();
    let x: T = t.get();
    let s: T = t.get();
    let n = t.usize();
    let p = Polynomial::new(pc.clone());
    let q = Polynomial::new(qc.clone());
    let mut out = String::new();
    macro_rules! polyres { ($e:expr) => {{ let r = guarded(|| $e); push_res(&mut out, r.as_ref().map(|x| wr_poly(x)).map_err(|c| *c), cx); r }}; }
    macro_rules! valres { ($e:expr) => {{ let r = guarded(|| $e); push_res(&mut out, r.as_ref().map(|x| x.wr()).map_err(|c| *c), cx); r }}; }
    let sum = polyres!(&p + &q);
    let dif = polyres!(&p - &q);
    let ng = polyres!(-&p);
    let prd = polyres!(&p * &q);
    let sm = polyres!(&p * s);
    cx.check(same_vec(&coeffs(&p), &pc) && same_vec(&coeffs(&q), &qc), "by-reference operator mutated an operand");
    // owned forms
    for (a, b, what) in [(&sum, guarded(|| p.clone() + q.clone()), "+"), (&dif, guarded(|| p.clone() - q.clone()), "-"), (&ng, guarded(|| -(p.clone())), "neg"),
                         (&prd, guarded(|| p.clone() * q.clone()), "*"), (&sm, guarded(|| p.clone() * s), "* scalar")] {
        match (a, &b) { (Ok(x), Ok(y)) => cx.check(same_poly(x, y), &format!("owned and borrowed {} differ", what)), (Err(_), Err(_)) => {}, _ => cx.fail(format!("owned and borrowed {} differ", what)) }
    }
    let ep = valres!(p.eval(x));
    let eq = valres!(q.eval(x));
    let es = match &sum { Ok(z) => valres!(z.eval(x)), Err(_) => { out.push_str(" -"); Err("other") } };
    let em = match &prd { Ok(z) => valres!(z.eval(x)), Err(_) => { out.push_str(" -"); Err("other") } };
    let d1 = polyres!(p.derivative());
    let dn = polyres!(p.derivative_n(n));
    let da = valres!(p.derivative_at(x, n));
    out.push_str(&format!(" {} {} {}", match p.degree() { Ok(d) => d.to_string(), Err(_) => "E".into() }, p.is_zero() as usize, p.size()));
    let tr = polyres!({ let mut z = p.clone(); z.trim(); z });
    let ix = valres!(p[n]);
    let sx = polyres!({ let mut z = p.clone(); z[n] = s; z });
    // constructors by degree and the mutable coefficient accessor
    let qd = polyres!(Polynomial::quadratic(x, s, x + s));
    let cb = polyres!(Polynomial::cubic(x, s, x + s, x * s));
    let cm = polyres!({ let mut z = p.clone(); z.coeffs().push(s); z });
    if let Ok(z) = &qd { cx.check(same_vec(&coeffs(z), &[x + s, s, x]), "quadratic(a, b, c) is not c + b x + a x^2"); }
    if let Ok(z) = &cb { cx.check(same_vec(&coeffs(z), &[x * s, x + s, s, x]), "cubic(a, b, c, d) is not d + c x + b x^2 + a x^3"); }
    if let Ok(z) = &cm { let mut e = pc.clone(); e.push(s); cx.check(same_vec(&coeffs(z), &e), "coeffs() is not the coefficient vector"); }
    match &sx { Ok(z) => { let mut e = pc.clone(); if n < e.len() { e[n] = s; } cx.check(n < pc.len() && same_vec(&coeffs(z), &e), "indexed write"); } Err(_) => cx.check(n >= pc.len(), "indexed write panicked in range") }
    // ---- oracle ----
    if T::is_exact() || T::TAG == "f" || T::TAG == "c" {
        let exact = T::is_exact() || cx_small(&pc) && cx_small(&qc);
        if exact {
            if let Ok(z) = &sum { cx.check(zero_pad_eq(&coeffs(z), &r_add(&pc, &qc, false)) && coeffs(z).len() == if pc.is_empty() { qc.len() } else if qc.is_empty() { pc.len() } else { pc.len().max(qc.len()) }, "sum: coefficients/size"); } else { cx.fail("sum panicked"); }
            if let Ok(z) = &dif { cx.check(zero_pad_eq(&coeffs(z), &r_add(&pc, &qc, true)) && coeffs(z).len() == if pc.is_empty() { qc.len() } else if qc.is_empty() { pc.len() } else { pc.len().max(qc.len()) }, "difference: coefficients/size"); } else { cx.fail("difference panicked"); }
            if let Ok(z) = &ng { cx.check(same_vec(&coeffs(z), &pc.iter().map(|c| -*c).collect::<Vec<_>>()), "negation"); } else { cx.fail("negation panicked"); }
            if let Ok(z) = &prd { cx.check(same_vec(&coeffs(z), &r_mul(&pc, &qc)), "product: not the convolution / wrong size"); } else { cx.fail("product panicked"); }
            if let Ok(z) = &sm { cx.check(same_vec(&coeffs(z), &pc.iter().map(|c| *c * s).collect::<Vec<_>>()), "scalar multiple"); } else { cx.fail("scalar multiple panicked"); }
            if T::is_exact() {
                match &ep { Ok(v) => cx.check(!pc.is_empty() && *v == r_eval(&pc, x), "eval != sum a_k x^k"), Err(_) => cx.check(pc.is_empty(), "eval panicked on a non-empty polynomial") }
                if let (Ok(a), Ok(b), Ok(c)) = (&ep, &eq, &es) { cx.check(*a + *b == *c, "eval(p+q) != eval p + eval q"); }
                if let (Ok(a), Ok(b), Ok(c)) = (&ep, &eq, &em) { cx.check(*a * *b == *c, "eval(p*q) != eval p * eval q"); }
                if let Ok(d) = &d1 { cx.check(same_vec(&coeffs(d), &r_deriv(&pc)), "derivative coefficients"); } else { cx.check(pc.is_empty(), "derivative panicked on a non-empty polynomial"); }
                // linearity and product rule (on non-empty operands)
                if !pc.is_empty() && !qc.is_empty() {
                    let (dp, dq) = (r_deriv(&pc), r_deriv(&qc));
                    if let Ok(z) = &sum { if let Ok(dz) = guarded(|| z.derivative()) { cx.check(zero_pad_eq(&coeffs(&dz), &r_add(&dp, &dq, false)), "derivative is not additive"); } }
                    if let Ok(z) = &prd { if let Ok(dz) = guarded(|| z.derivative()) { cx.check(zero_pad_eq(&coeffs(&dz), &r_add(&r_mul(&dp, &qc), &r_mul(&pc, &dq), false)), "product rule violated"); } }
                }
                // repeated differentiation
                let mut rd = pc.clone(); let mut ok = true;
                for _ in 0..n { if rd.is_empty() { ok = false; break; } rd = r_deriv(&rd); }
                match &dn { Ok(z) => cx.check(ok && same_vec(&coeffs(z), &rd), "derivative_n"), Err(_) => cx.check(!ok, "derivative_n panicked within the admissible orders") }
                // (order = degree + 1 is inside the quantified orders: the derivative is the empty = zero polynomial and its value is 0)
                match &da { Ok(v) => cx.check(ok && *v == (if rd.is_empty() { T::zero() } else { r_eval(&rd, x) }), "derivative_at"), Err(_) => cx.check(!ok, "derivative_at panicked within the admissible orders 0..degree+1") }
            }
        }
    }
    match &ix { Ok(v) => cx.check(n < pc.len() && v.same(&pc[n]), "index"), Err(_) => cx.check(n >= pc.len(), "index panicked in range") }
    if let Ok(z) = &tr { let c = coeffs(z); cx.check(c.len() >= 1 && (c.len() == 1 || c[c.len() - 1] != T::zero()) && zero_pad_eq(&c, &pc), "trim"); } else { cx.check(pc.is_empty(), "trim panicked on a non-empty polynomial"); }
    cx.meta("tag", T::TAG); cx.meta("lens", format!("{}x{}", pc.len(), qc.len()));
    if pc.iter().all(|c| *c == T::zero()) && qc.iter().all(|c| *c == T::zero()) { cx.meta("trivial", 1); }
    out
}
/// small dyadic values (multiples of 1/8 up to 64 in each component): sums and products of a few of them are exact in f64
fn cx_small<T: Sc>(v: &[T]) -> bool { let ok = |m: f64| m == 0.0 || (m.abs() <= 64.0 && (m * 8.0).fract() == 0.0); v.iter().all(|c| { let (re, im) = c.parts64(); ok(re) && ok(im) }) }

fn polydiv<T: Sc>(t: &mut Toks, cx: &mut Ctx) -> String {
    let uc: Vec<T> = t.vec();
    let vc: Vec<T> = t.vec();
    let u = Polynomial::new(uc.clone());
    let v = Polynomial::new(vc.clone());
    let r = guarded(|| u.polydiv(&v));
    cx.check(same_vec(&coeffs(&u), &uc) && same_vec(&coeffs(&v), &vc), "polydiv mutated an operand");
    let vzero = vc.iter().all(|c| *c == T::zero());
    let lead_ok = !vc.is_empty() && vc[vc.len() - 1] != T::zero() && vc.iter().all(|c| c.finite()) && uc.iter().all(|c| c.finite());
    cx.meta("tag", T::TAG); cx.meta("degs", format!("{}/{}", uc.len(), vc.len()));
    match &r {
        Err(c) => { if vzero || lead_ok { cx.fail(format!("polydiv panicked ({})", c)); } format!("!{}", c) }
        Ok(Err(_)) => { cx.check(!lead_ok, "division by a polynomial with non-zero leading coefficient returned Err"); cx.meta("result", "err"); "err".to_string() }
        Ok(Ok((q, rm))) => {
            cx.meta("result", "ok");
            cx.check(!vzero, "division by the empty/zero polynomial did not return Err");
            let (qc, rc) = (coeffs(q), coeffs(rm));
            if lead_ok {
                let rz = rc.iter().all(|c| *c == T::zero());
                cx.check(rz || rc.len() < vc.len(), "deg r >= deg v");
                let back = r_add(&r_mul(&qc, &vc), &rc, false);
                if T::is_exact() { cx.check(zero_pad_eq(&back, &uc), "u != q*v + r"); }
                else {
                    // coefficientwise residual relative to the size of the terms that were combined
                    let qa: Vec<f64> = qc.iter().map(|c| c.mag64()).collect(); let va: Vec<f64> = vc.iter().map(|c| c.mag64()).collect();
                    let n = back.len().max(uc.len());
                    for k in 0..n {
                        let b = if k < back.len() { back[k] } else { T::zero() }; let uu = if k < uc.len() { uc[k] } else { T::zero() };
                        let mut scale = uu.mag64() + if k < rc.len() { rc[k].mag64() } else { 0.0 };
                        for i in 0..qa.len() { if k >= i && k - i < va.len() { scale += qa[i] * va[k - i]; } }
                        let err = (b - uu).mag64();
                        if !(err <= 1e-9 * scale + 1e-290) { cx.fail(format!("u != q*v + r at x^{} (residual {:e}, scale {:e})", k, err, scale)); break; }
                    }
                }
            }
            format!("ok {} ; {}", wr_vec(&qc), wr_vec(&rc))
        }
    }
}

pub fn exec(op: &str, t: &mut Toks, cx: &mut Ctx) -> Option<String> {
    match op {
        "poly_ops" => { let tag = t.next(); Some(match tag { "q" => ops::<Q>(t, cx), "f" => ops::<f64>(t, cx), _ => ops::<Cmplx>(t, cx) }) }
        "polydiv" => { let tag = t.next(); Some(match tag { "q" => polydiv::<Q>(t, cx), "f" => polydiv::<f64>(t, cx), _ => polydiv::<Cmplx>(t, cx) }) }
        _ => None,
    }
}

fn gen_poly<T: Sc>(rng: &mut Rng, len: usize, kind: usize, lead_nonzero: bool) -> Vec<T> {
    let mut v: Vec<T> = (0..len).map(|_| T::gen(rng, 20, kind)).collect();
    if lead_nonzero && len > 0 { v[len - 1] = T::gen(rng, 0, kind); }
    v
}

pub fn gen(rng: &mut Rng, tier: Tier, out: &mut Vec<String>) {
    let reps = if tier == Tier::Quick { 4 } else { 80 };
    for lp in 0..10usize { for lq in 0..10usize { for r in 0..reps {
        let n = rng.below(lp + 3);
        let (p, q) = (gen_poly::<Q>(rng, lp, 0, r % 2 == 0), gen_poly::<Q>(rng, lq, 0, r % 2 == 0));
        out.push(format!("poly_ops q {} {} {} {} {}", wr_vec(&p), wr_vec(&q), Q::gen(rng, 10, 0).wr(), Q::gen(rng, 10, 0).wr(), n));
        if r < reps / 2 {
            let (p, q) = (gen_poly::<f64>(rng, lp, 0, true), gen_poly::<f64>(rng, lq, 0, true));
            out.push(format!("poly_ops f {} {} {} {} {}", wr_vec(&p), wr_vec(&q), f64::gen(rng, 10, 0).wr(), f64::gen(rng, 10, 0).wr(), n));
            let (p, q) = (gen_poly::<Cmplx>(rng, lp, 0, true), gen_poly::<Cmplx>(rng, lq, 0, true));
            out.push(format!("poly_ops c {} {} {} {} {}", wr_vec(&p), wr_vec(&q), Cmplx::gen(rng, 10, 0).wr(), Cmplx::gen(rng, 10, 0).wr(), n));
        }
    } } }

    // HIGHER DEGREES (lengths 11 .. 48)
    for i in 0..(if tier == Tier::Quick { 12 } else { 300 }) {
        let (lp, lq) = (big(rng, 48), if rng.chance(50) { big(rng, 33) } else { rng.below(12) });
        let n = rng.below(lp + 3);
        if i % 3 == 0 { let (p, q) = (gen_poly::<Q>(rng, lp.min(20), 0, true), gen_poly::<Q>(rng, lq.min(12), 0, true));
            out.push(format!("poly_ops q {} {} {} {} {}", wr_vec(&p), wr_vec(&q), Q::int(rng.range(-2, 2) as i128).wr(), Q::int(rng.range(-1, 1) as i128).wr(), n.min(22))); }
        let (p, q) = (gen_poly::<f64>(rng, lp, 0, true), gen_poly::<f64>(rng, lq, 0, true));
        out.push(format!("poly_ops f {} {} {} {} {}", wr_vec(&p), wr_vec(&q), (rng.range(-4, 4) as f64 / 4.0).wr(), (rng.range(-4, 4) as f64 / 4.0).wr(), n));
        if i % 2 == 0 { let (p, q) = (gen_poly::<Cmplx>(rng, lp.min(33), 0, true), gen_poly::<Cmplx>(rng, lq.min(20), 0, true));
            out.push(format!("poly_ops c {} {} {} {} {}", wr_vec(&p), wr_vec(&q), Cmplx::new(0.5, -0.25).wr(), Cmplx::new(0.0, 1.0).wr(), n)); }
    }
}

pub fn gen_c12(rng: &mut Rng, tier: Tier, out: &mut Vec<String>) {
    let reps = if tier == Tier::Quick { 4 } else { 80 };
    for lu in 0..12usize { for lv in 0..8usize { for r in 0..reps {
        let lead = lv > 0 && r % 4 != 3;   // a quarter of the divisors are arbitrary (zero leading coefficient, all-zero, …)
        out.push(format!("polydiv q {} {}", wr_vec(&gen_poly::<Q>(rng, lu, 0, r % 2 == 0)), wr_vec(&gen_poly::<Q>(rng, lv, 0, lead))));
        out.push(format!("polydiv f {} {}", wr_vec(&gen_poly::<f64>(rng, lu, 0, true)), wr_vec(&gen_poly::<f64>(rng, lv, 0, lead))));
        // general floats: coefficient ratios up to 1e6 — the leading terms do not cancel exactly
        out.push(format!("polydiv f {} {}", wr_vec(&gen_poly::<f64>(rng, lu, 2, true)), wr_vec(&gen_poly::<f64>(rng, lv, 2, lead))));
        out.push(format!("polydiv f {} {}", wr_vec(&gen_poly::<f64>(rng, lu, 1, true)), wr_vec(&gen_poly::<f64>(rng, lv, 1, lead))));
        out.push(format!("polydiv c {} {}", wr_vec(&gen_poly::<Cmplx>(rng, lu, r % 3, true)), wr_vec(&gen_poly::<Cmplx>(rng, lv, r % 3, lead))));
    } } }
    for lv in 0..5usize { out.push(format!("polydiv q {} {}", wr_vec(&gen_poly::<Q>(rng, 4, 0, true)), wr_vec(&vec![Q::int(0); lv]))); out.push(format!("polydiv f {} {}", wr_vec(&gen_poly::<f64>(rng, 4, 0, true)), wr_vec(&vec![0.0f64; lv]))); }

    // HIGHER DEGREES
    for i in 0..(if tier == Tier::Quick { 12 } else { 300 }) {
        let lu = big(rng, 48); let lv = if rng.chance(40) { big(rng, lu.max(11)) } else { 1 + rng.below(8) };
        if i % 2 == 0 { let mut v = gen_poly::<Q>(rng, lv.min(9), 0, true); if let Some(l) = v.last_mut() { *l = Q::int(if rng.chance(50) { 1 } else { -1 }); }   // monic divisor: the quotient stays integral
            let u: Vec<Q> = (0..lu.min(24)).map(|_| Q::int(rng.range(-3, 3) as i128)).collect();
            out.push(format!("polydiv q {} {}", wr_vec(&u), wr_vec(&v))); }
        out.push(format!("polydiv f {} {}", wr_vec(&gen_poly::<f64>(rng, lu, 0, true)), wr_vec(&gen_poly::<f64>(rng, lv, 0, true))));
        out.push(format!("polydiv f {} {}", wr_vec(&gen_poly::<f64>(rng, lu, 1, true)), wr_vec(&gen_poly::<f64>(rng, lv.min(12), 1, true))));
        if i % 3 == 0 { out.push(format!("polydiv c {} {}", wr_vec(&gen_poly::<Cmplx>(rng, lu.min(33), 0, true)), wr_vec(&gen_poly::<Cmplx>(rng, lv.min(10), 0, true)))); }
    }
}
