//! C05 — tridiagonal matrix vs its dense twin; solve exact or refuses.
use crate::c01::exact_det_rank;
use crate::q::Q;
use crate::sc::*;
use crate::wire::*;
use crate::{push_res, Ctx, Tier};
use ohsl::{Cmplx, Tridiagonal, Vector};

fn dense<T: Sc>(sub: &[T], main: &[T], sup: &[T]) -> Rows<T> {
    let n = main.len();
    let mut a = vec![vec![T::zero(); n]; n];
    for i in 0..n { a[i][i] = main[i]; if i + 1 < n { a[i][i + 1] = sup[i]; a[i + 1][i] = sub[i]; } }
    a
}
fn wr_tri<T: Sc>(t: &Tridiagonal<T>) -> String {
    format!("{} {} {} {}", t.size(), wr_vector(t.subdiagonal()), wr_vector(t.maindiagonal()), wr_vector(t.superdiagonal()))
}
fn same_tri<T: Sc>(a: &Tridiagonal<T>, b: &Tridiagonal<T>) -> bool {
    a.size() == b.size() && same_vec(&a.subdiagonal().vec, &b.subdiagonal().vec) && same_vec(&a.maindiagonal().vec, &b.maindiagonal().vec) && same_vec(&a.superdiagonal().vec, &b.superdiagonal().vec)
}

fn tri<T: Sc>(t: &mut Toks, cx: &mut Ctx, to_q: Option<fn(&T) -> Option<Q>>) -> String {
    let sub: Vec<T> = t.vec();
    let main: Vec<T> = t.vec();
    let sup: Vec<T> = t.vec();
    let r: Vector<T> = rd_vector(t);
    let v: Vector<T> = rd_vector(t);
    let s: T = t.get();
    let (i, j) = (t.usize(), t.usize());
    cx.meta("tag", T::TAG); cx.meta("n", main.len());
    let built = guarded(|| Tridiagonal::with_vecs(sub.clone(), main.clone(), sup.clone()));
    let n = main.len();
    let sizes_ok = n >= 1 && sub.len() == n - 1 && sup.len() == n - 1;
    let tm = match built {
        Err(c) => { cx.check(!sizes_ok, "constructor rejected valid diagonals");
            // the Vector-based constructor has its own guard: it must reject the same diagonals
            let b2 = guarded(|| Tridiagonal::with_vectors(Vector::create(sub.clone()), Vector::create(main.clone()), Vector::create(sup.clone())));
            cx.check(b2.is_err(), "with_vectors accepted diagonals of the wrong lengths");
            return format!("!{} {}", c, match b2 { Ok(_) => "accepted".to_string(), Err(c2) => format!("!{}", c2) }); }
        Ok(x) => { cx.check(sizes_ok, "constructor accepted diagonals of the wrong lengths"); x }
    };
    let snap = tm.clone();
    let mut out = String::new();
    let d = dense(&sub, &main, &sup);
    // element access
    let g = guarded(|| tm[(i, j)]);
    push_res(&mut out, g.as_ref().map(|x| x.wr()).map_err(|c| *c), cx);
    let inband = i < n && j < n && (i == j || i == j + 1 || i + 1 == j);
    match &g { Ok(x) => cx.check(inband && x.same(&d[i][j]), "index: wrong element / out-of-band index accepted"), Err(_) => cx.check(!inband, "index: in-band element rejected") }
    // convert
    let cv = guarded(|| tm.convert());
    push_res(&mut out, cv.as_ref().map(|m| wr_mat(m)).map_err(|c| *c), cx);
    match &cv { Ok(m) => cx.check(m.rows() == n && m.cols() == n && (0..n).all(|a| (0..n).all(|b| m[(a, b)].same(&d[a][b]))), "convert differs from the dense twin"), Err(c) => cx.fail(format!("convert panicked ({})", c)) }
    // transpose
    let tr = guarded(|| tm.transpose());
    push_res(&mut out, tr.as_ref().map(|x| wr_tri(x)).map_err(|c| *c), cx);
    if let Ok(x) = &tr { cx.check(same_vec(&x.subdiagonal().vec, &sup) && same_vec(&x.superdiagonal().vec, &sub) && same_vec(&x.maindiagonal().vec, &main), "transpose"); } else { cx.fail("transpose panicked"); }
    // determinant
    let dt = guarded(|| tm.det());
    push_res(&mut out, dt.as_ref().map(|x| x.wr()).map_err(|c| *c), cx);
    // solve
    let sv = guarded(|| tm.solve(&r));
    push_res(&mut out, sv.as_ref().map(|x| wr_vector(x)).map_err(|c| *c), cx);
    cx.meta("solve", match &sv { Ok(_) => "ok", Err(c) => c });
    // product, both forms
    let mv = guarded(|| &tm * &v);
    push_res(&mut out, mv.as_ref().map(|x| wr_vector(x)).map_err(|c| *c), cx);
    let mv2 = guarded(|| tm.clone() * v.clone());
    match (&mv, &mv2) { (Ok(a), Ok(b)) => cx.check(same_vec(&a.vec, &b.vec), "owned and borrowed products differ"), (Err(_), Err(_)) => {}, _ => cx.fail("owned and borrowed products differ") }
    match &mv { Ok(x) => { cx.check(v.size() == n, "product accepted a vector of the wrong length");
                    if v.size() == n { let exp: Vec<T> = (0..n).map(|a| { let mut acc: Option<T> = None; for b in 0..n { if a == b || a == b + 1 || a + 1 == b { let term = d[a][b] * v[b]; acc = Some(match acc { None => term, Some(z) => z + term }); } } acc.unwrap() }).collect();
                        cx.check(same_vec(&x.vec, &exp), "T*v differs from the dense product"); } }
                Err(c) => cx.check(v.size() != n, &format!("product panicked ({}) on a vector of the right length", c)) }
    // arithmetic
    let other = guarded(|| tm.transpose()).ok();
    let ar: Vec<Result<Tridiagonal<T>, &'static str>> = vec![
        guarded(|| -(tm.clone())), guarded(|| tm.clone() + other.clone().unwrap()), guarded(|| tm.clone() - other.clone().unwrap()),
        guarded(|| tm.clone() * s), guarded(|| tm.clone() / s),
        guarded(|| { let mut x = tm.clone(); x += s; x }), guarded(|| { let mut x = tm.clone(); x -= s; x }),
        guarded(|| { let mut x = tm.clone(); x *= s; x }), guarded(|| { let mut x = tm.clone(); x /= s; x })];
    for a in &ar { push_res(&mut out, a.as_ref().map(|x| wr_tri(x)).map_err(|c| *c), cx); }
    // more entry points: indexed write, constructors, resize, transpose_in_place
    let extra: Vec<Result<Tridiagonal<T>, &'static str>> = vec![
        guarded(|| { let mut z = tm.clone(); z[(i, j)] = s; z }),
        guarded(|| Tridiagonal::<T>::with_elements(s, s + T::one(), s - T::one(), i)),
        guarded(|| Tridiagonal::<T>::new(j)),
        guarded(|| { let mut z = tm.clone(); z.resize(i); z }),
        guarded(|| { let mut z = tm.clone(); z.transpose_in_place(); z }),
        guarded(|| Tridiagonal::with_vectors(Vector::create(sub.clone()), Vector::create(main.clone()), Vector::create(sup.clone())))];
    for a in &extra { push_res(&mut out, a.as_ref().map(|x| wr_tri(x)).map_err(|c| *c), cx); }
    match &extra[0] { Ok(z) => { cx.check(inband, "indexed write outside the band succeeded");
            if inband { let mut dd = d.clone(); dd[i][j] = s; let zd = dense(&z.subdiagonal().vec, &z.maindiagonal().vec, &z.superdiagonal().vec); cx.check((0..n).all(|a| (0..n).all(|b| zd[a][b].same(&dd[a][b]))), "indexed write changed something else than the addressed entry"); } }
        Err(_) => cx.check(!inband, "in-band indexed write rejected") }
    if let Ok(z) = &extra[1] { cx.check(i >= 1 && z.size() == i && (0..i).all(|a| z.maindiagonal()[a].same(&(s + T::one()))) && (0..i - 1).all(|a| z.subdiagonal()[a].same(&s) && z.superdiagonal()[a].same(&(s - T::one()))), "with_elements"); } else { cx.check(i == 0, "with_elements panicked for a positive size"); }
    if let Ok(z) = &extra[2] { cx.check(j >= 1 && z.size() == j && z.maindiagonal().vec.iter().all(|a| *a == T::zero()) && z.subdiagonal().size() == j - 1 && z.superdiagonal().size() == j - 1
            && z.subdiagonal().vec.iter().chain(z.superdiagonal().vec.iter()).all(|a| *a == T::zero()), "new(n) is not the zero matrix of order n"); } else { cx.check(j == 0, "new panicked for a positive size"); }
    if let Ok(z) = &extra[3] { cx.check(i >= 1 && z.size() == i && z.maindiagonal().size() == i && z.subdiagonal().size() == i - 1 && z.superdiagonal().size() == i - 1
            && z.subdiagonal().vec.iter().chain(z.maindiagonal().vec.iter()).chain(z.superdiagonal().vec.iter()).all(|a| *a == T::zero()), "resize(n) is not the zero matrix of order n"); } else { cx.check(i == 0, "resize panicked for a positive size"); }
    if let (Ok(z), Ok(t2)) = (&extra[4], &tr) { cx.check(same_tri(z, t2), "transpose_in_place differs from transpose"); }
    if let Ok(z) = &extra[5] { cx.check(same_tri(z, &tm), "with_vectors differs from with_vecs"); }
    cx.check(same_tri(&tm, &snap), "a by-reference call mutated the matrix");
    // entrywise oracle for the arithmetic
    let f: [&dyn Fn(T, T) -> T; 9] = [&|a, _| -a, &|a, b| a + b, &|a, b| a - b, &|a, _| a * s, &|a, _| a / s, &|a, _| a + s, &|a, _| a - s, &|a, _| a * s, &|a, _| a / s];
    for (k, a) in ar.iter().enumerate() {
        let divz = (k == 4 || k == 8) && T::is_exact() && s == T::zero();
        match a { Ok(x) => { let ok = !divz && (0..n).all(|p| x.maindiagonal()[p].same(&f[k](main[p], main[p]))) && (0..n.saturating_sub(1)).all(|p| x.subdiagonal()[p].same(&f[k](sub[p], sup[p])) && x.superdiagonal()[p].same(&f[k](sup[p], sub[p])));
                             cx.check(ok, &format!("arithmetic variant {} differs from the entrywise definition", k)); }
                  Err(c) => cx.check(divz, &format!("arithmetic variant {} panicked ({})", k, c)) }
    }
    if (k_all_zero(&sub) && k_all_zero(&sup)) && k_all_zero(&main) { cx.meta("trivial", 1); }
    // exact oracles (Q, or floats that convert exactly)
    let conv = |x: &T| -> Option<Q> { match to_q { Some(f) => f(x), None => None } };
    let dq: Option<Rows<Q>> = d.iter().map(|row| row.iter().map(|x| conv(x)).collect::<Option<Vec<Q>>>()).collect();
    if let Some(dq) = dq {
        if let Ok((det, _)) = guarded(|| exact_det_rank(&dq)) {
            if T::is_exact() { match &dt { Ok(x) => cx.check(conv(x) == Some(det), "det differs from the exact determinant of the dense twin"), Err(c) => cx.fail(format!("det panicked ({})", c)) } }
            else if T::TAG == "f" { // floats on exactly convertible data: the determinant against the exact one, relative to the Hadamard-type scale
                match &dt { Ok(x) => { let scale: f64 = (0..n).map(|a| (0..n).map(|b| d[a][b].mag64()).fold(0.0, f64::max).max(1e-300)).product();
                        let (xf, df) = (x.parts64().0, det.to_f64());
                        cx.check(!xf.is_finite() || !scale.is_finite() || (xf - df).abs() <= 1e-10 * scale.max(df.abs()), "det far from the exact determinant of the dense twin (sign included)"); }
                    Err(c) => cx.fail(format!("det panicked ({})", c)) } }
            if r.size() == n && T::is_exact() {
                // independent forward elimination without pivoting: does a zero pivot occur?
                let rq: Vec<Q> = r.vec.iter().map(|x| conv(x).unwrap()).collect();
                let zero_pivot = guarded(|| { let mut beta = dq[0][0]; if beta.is_zero() { return true; } for k in 1..n { beta = dq[k][k] - dq[k][k - 1] * dq[k - 1][k] / beta; if beta.is_zero() { return true; } } false });
                if let Ok(zp) = zero_pivot {
                    cx.meta("zero_pivot", zp as usize);
                    match &sv {
                        Ok(u) => { cx.check(!zp, "solve returned a vector although elimination meets a zero pivot");
                            let uq: Vec<Q> = u.vec.iter().map(|x| conv(x).unwrap()).collect();
                            let ok = (0..n).all(|a| { let mut acc = Q::int(0); for b in 0..n { acc += dq[a][b] * uq[b]; } acc == rq[a] });
                            cx.check(u.size() == n && ok, "T u != r (exact)"); }
                        Err(c) => cx.check(zp && *c == "zero-pivot", &format!("solve refused ({}) although no pivot vanishes / wrong message", c)),
                    }
                }
            } else if r.size() != n { cx.check(matches!(&sv, Err("size")), "solve accepted a right-hand side of the wrong length"); }
        }
    }
    if !T::is_exact() && T::TAG == "f" && r.size() == n {   // the property claims backward stability for diagonally dominant f64 systems
        if let Ok(u) = &sv { if u.vec.iter().all(|x| x.finite()) {
            // diagonally dominant systems: backward stable
            let dom = (0..n).all(|a| d[a][a].mag64() > (0..n).filter(|b| *b != a).map(|b| d[a][b].mag64()).sum::<f64>());
            if dom { let an = (0..n).map(|a| (0..n).map(|b| d[a][b].mag64()).sum::<f64>()).fold(0.0, f64::max); let un = u.vec.iter().map(|x| x.mag64()).fold(0.0, f64::max);
                let mut rn = 0.0f64; for a in 0..n { let mut acc = T::zero(); for b in 0..n { acc += d[a][b] * u[b]; } rn = rn.max((acc - r[a]).mag64()); }
                cx.meta("dominant", 1);
                cx.check(rn <= 1e-12 * (an * un + r.vec.iter().map(|x| x.mag64()).fold(0.0, f64::max)) + 1e-300, "diagonally dominant system: backward error too large");
                // the componentwise bound of theorem C05F.solve_backward_stable_dd evaluated on this run (standard model,
                // u = 2^-53, 8u for Complex<f64>): |r - T x|_i <= ddConst (|T||x|)_i with ddConst = 12u(1+u)/(1-3u), under row
                // dominance with the rounding margin (1+u)(|a|+|c|) < (1-u)|b|; plus the rounding of this evaluation, 4u(|T||x|+|r|)_i
                let uu = f64::EPSILON / 2.0 * if T::TAG == "c" { 8.0 } else { 1.0 };
                let margin = (0..n).all(|a| (1.0 + uu) * (0..n).filter(|b| *b != a).map(|b| d[a][b].mag64()).sum::<f64>() < (1.0 - uu) * d[a][a].mag64());
                if margin {
                    let dd = 12.0 * uu * (1.0 + uu) / (1.0 - 3.0 * uu);
                    let mut worst = 0.0f64; let mut ok = true;
                    for a in 0..n { let mut acc = T::zero(); let mut ab = 0.0; for b in 0..n { acc += d[a][b] * u[b]; ab += d[a][b].mag64() * u[b].mag64(); }
                        let res = (acc - r[a]).mag64(); let bound = dd * ab + 4.04 * uu * (ab + r[a].mag64());
                        if bound.is_finite() && !(res <= bound) { ok = false; worst = worst.max(res / bound.max(1e-300)); } }
                    cx.meta("thomas_dd_bound_checked", 1);
                    cx.check(ok, &format!("row diagonally dominant system: componentwise residual exceeds the backward-stability bound 12u|T||x| of theorem solve_backward_stable_dd by a factor {:e}", worst));
                } } } }
    }
    out
}
fn k_all_zero<T: Sc>(v: &[T]) -> bool { v.iter().all(|x| *x == T::zero()) }
fn fq(x: &f64) -> Option<Q> { let s = x * 1024.0; if s.fract() == 0.0 && s.abs() < 1e12 { Some(Q::new(s as i128, 1024)) } else { None } }

/// history of edits of ONE tridiagonal matrix; after every step the whole object (n and the three diagonals as the
/// accessors return them) is dumped and compared with three reference vectors; views: dense conversion, product with
/// the ones vector and `==` against a twin freshly built from the reference
fn tri_hist<T: Sc>(t: &mut Toks, cx: &mut Ctx) -> String {
    let sub: Vec<T> = t.vec(); let main: Vec<T> = t.vec(); let sup: Vec<T> = t.vec();
    let nops = t.usize();
    cx.meta("tag", T::TAG); cx.meta("ops", nops);
    let mut m = match guarded(|| Tridiagonal::with_vecs(sub.clone(), main.clone(), sup.clone())) { Ok(m) => m, Err(c) => return format!("!{}", c) };
    let (mut rs, mut rm, mut ru) = (sub, main, sup);
    let mut out = wr_tri(&m);
    for _ in 0..nops {
        let op = t.next();
        let before = wr_tri(&m);
        let r: Result<(), &'static str> = match op {
            "resize" => { let n = t.usize(); let r = guarded(|| m.resize(n));
                if r.is_ok() { // the property does not say which values resize leaves: only the sizes are demanded, the values are adopted
                    cx.check(m.size() == n && m.maindiagonal().size() == n && m.subdiagonal().size() == n.saturating_sub(1) && m.superdiagonal().size() == n.saturating_sub(1), "resize: the diagonals do not have lengths n-1, n, n-1");
                    rs = m.subdiagonal().vec.clone(); rm = m.maindiagonal().vec.clone(); ru = m.superdiagonal().vec.clone(); }
                else { cx.check(n == 0, "resize panicked for a positive size"); } r }
            "set" => { let (i, j) = (t.usize(), t.usize()); let x: T = t.get(); let r = guarded(|| { m[(i, j)] = x; });
                let n = rm.len(); let ok = i < n && j < n && (i == j || i == j + 1 || j == i + 1);
                cx.check(r.is_ok() == ok, "indexed write: acceptance differs from the three-diagonal range");
                if r.is_ok() && ok { if i == j { rm[i] = x; } else if i == j + 1 { rs[j] = x; } else { ru[i] = x; } }
                if r.is_err() { cx.check(wr_tri(&m) == before, "a rejected indexed write modified the matrix"); }
                r }
            "trip" => { let r = guarded(|| m.transpose_in_place()); if r.is_ok() { std::mem::swap(&mut rs, &mut ru); } r }
            "muls" | "divs" | "adds" | "subs" => { let x: T = t.get();
                let r = guarded(|| match op { "muls" => m *= x, "divs" => m /= x, "adds" => m += x, _ => m -= x });
                if r.is_ok() { for v in rs.iter_mut().chain(rm.iter_mut()).chain(ru.iter_mut()) { *v = match op { "muls" => *v * x, "divs" => *v / x, "adds" => *v + x, _ => *v - x }; } }
                else { cx.check(op == "divs" && T::is_exact() && x == T::zero(), "a compound scalar operation panicked"); }
                r }
            _ => panic!("HARNESS: unknown tridiagonal op {}", op),
        };
        out.push_str(&format!(" ; {} {} | {}", op, match &r { Ok(_) => "ok".to_string(), Err(c) => format!("!{}", c) }, wr_tri(&m)));
        if r.is_err() && cx.skip.is_none() && op == "divs" { /* state after a division panic is whatever the code left: compared with the model only */ continue; }
        let n = rm.len();
        cx.check(m.size() == n && same_vec(&m.subdiagonal().vec, &rs) && same_vec(&m.maindiagonal().vec, &rm) && same_vec(&m.superdiagonal().vec, &ru), "the three diagonals differ from the reference after the history");
        if n >= 1 {
            let twin = guarded(|| Tridiagonal::with_vecs(rs.clone(), rm.clone(), ru.clone()));
            if let Ok(z) = &twin {
                let d = guarded(|| m.convert()); let dz = guarded(|| z.convert());
                match (&d, &dz) { (Ok(a), Ok(b)) => cx.check(same_mat(a, b), "dense conversion after the history differs from the twin's"), (Err(_), Err(_)) => {}, _ => cx.fail("dense conversion: one of history / twin panicked") }
                let ones = Vector::new(n, T::one());
                let (p1, p2) = (guarded(|| &m * &ones), guarded(|| z * &ones));
                match (&p1, &p2) { (Ok(u), Ok(w)) => cx.check(same_vec(&u.vec, &w.vec), "product with the ones vector differs from the twin's"), (Err(_), Err(_)) => {}, _ => cx.fail("product with the ones vector: one of history / twin panicked") }
                out.push_str(&format!(" | {}", match &p1 { Ok(u) => wr_vector(u), Err(c) => format!("!{}", c) }));
            }
        }
        if cx.skip.is_some() { break; }
    }
    out
}

pub fn exec(op: &str, t: &mut Toks, cx: &mut Ctx) -> Option<String> {
    match op {
        "tri_hist" => { let tag = t.next(); Some(match tag { "q" => tri_hist::<Q>(t, cx), "f" => tri_hist::<f64>(t, cx), _ => tri_hist::<Cmplx>(t, cx) }) }
        "tri" => { let tag = t.next(); Some(match tag { "q" => tri::<Q>(t, cx, Some(|x: &Q| Some(*x))), "f" => tri::<f64>(t, cx, Some(fq)), _ => tri::<Cmplx>(t, cx, None) }) }
        _ => None,
    }
}

fn one<T: Sc>(rng: &mut Rng, n: usize, class: usize, bad: bool) -> String { one_k::<T>(rng, n, class, bad, 0) }
/// `wide` > 0: every stored value and vector component is multiplied by a factor of general magnitude
/// (10^[-3,3] for 2, 10^[-12,12] for 3): rounding, cancellation and summation order become visible
fn one_k<T: Sc>(rng: &mut Rng, n: usize, class: usize, bad: bool, wide: usize) -> String {
    let n1 = n.saturating_sub(1);
    let (mut sub, mut main, mut sup): (Vec<T>, Vec<T>, Vec<T>) = match class {
        0 => { let (a, b, c) = (T::gen(rng, 0, 0), T::gen(rng, 0, 0), T::gen(rng, 0, 0)); (vec![a; n1], vec![b; n], vec![c; n1]) }   // constant diagonals
        1 => ((0..n1).map(|_| T::gen(rng, 10, 0)).collect(), (0..n).map(|_| T::gen(rng, 5, 0)).collect(), (0..n1).map(|_| T::gen(rng, 10, 0)).collect()),
        2 => (vec![T::zero(); n1], (0..n).map(|_| T::gen(rng, 0, 0)).collect(), (0..n1).map(|_| T::gen(rng, 10, 0)).collect()),  // zero sub-diagonal
        3 => ((0..n1).map(|_| T::gen(rng, 10, 0)).collect(), (0..n).map(|_| T::gen(rng, 0, 0)).collect(), vec![T::zero(); n1]),  // zero super-diagonal
        4 => ((0..n1).map(|_| T::from_i(1)).collect(), (0..n).map(|_| T::from_i(4) + T::gen(rng, 0, 0) / T::from_i(8)).collect(), (0..n1).map(|_| T::from_i(-1)).collect()), // diagonally dominant
        _ => ((0..n1).map(|_| T::gen(rng, 0, 0)).collect(), (0..n).map(|_| T::gen(rng, 0, 0)).collect(), (0..n1).map(|_| T::gen(rng, 0, 0)).collect()),
    };
    if class == 5 && n >= 1 {
        // plant a zero pivot at step k: main[k] = sub[k-1]*gamma_k with exact data only when k = 0 or via 2x2 block
        let k = rng.below(n);
        if k == 0 { main[0] = T::zero(); } else { main[k - 1] = T::from_i(1); main[k] = sub[k - 1] * sup[k - 1]; if k >= 2 { sub[k - 2] = T::zero(); } }
    }
    if wide > 0 && !T::is_exact() { for x in sub.iter_mut().chain(main.iter_mut()).chain(sup.iter_mut()) { *x = *x * T::gen(rng, 0, wide); } }
    if bad { match rng.below(3) { 0 => { sub.push(T::from_i(1)); } 1 => { sup.pop(); } _ => { main.push(T::from_i(2)); } } }
    let rl = if bad && rng.chance(50) { n + 1 } else { n };
    let vl = if rng.chance(8) { n + 1 + rng.below(2) } else { n };
    let vk = if T::is_exact() { 0 } else { wide };
    format!("tri {} {} {} {} {} {} {} {} {}", T::TAG, wr_vec(&sub), wr_vec(&main), wr_vec(&sup), gen_vec_str::<T>(rng, rl, 10, vk), gen_vec_str::<T>(rng, vl, 10, vk),
        T::gen(rng, 8, 0).wr(), rng.below(n + 2), rng.below(n + 2))
}

pub fn gen(rng: &mut Rng, tier: Tier, out: &mut Vec<String>) {
    // histories of one tridiagonal matrix
    for k in 0..(if tier == Tier::Quick { 120 } else { 2500 }) {
        let mut n = 1 + rng.below(6);
        let mut s = if k % 4 == 3 { format!("tri_hist f {} {} {}", gen_vec_str::<f64>(rng, n - 1, 10, 0), gen_vec_str::<f64>(rng, n, 10, 0), gen_vec_str::<f64>(rng, n - 1, 10, 0)) }
                    else { format!("tri_hist q {} {} {}", gen_vec_str::<Q>(rng, n - 1, 10, 0), gen_vec_str::<Q>(rng, n, 10, 0), gen_vec_str::<Q>(rng, n - 1, 10, 0)) };
        let isq = k % 4 != 3;
        let sc = |rng: &mut Rng, nz: bool| if isq { let mut q = Q::gen(rng, 0, 0); if nz && q == Q::int(0) { q = Q::int(2); } q.wr() } else { let mut x = f64::gen(rng, 0, 0); if nz && x == 0.0 { x = 2.0; } x.wr() };
        let nops = 2 + rng.below(7); let mut ops = String::new();
        for _ in 0..nops { match rng.below(7) {
            0 | 1 => { n = 1 + rng.below(6); ops.push_str(&format!(" resize {}", n)); }
            2 | 3 => { let i = rng.below(n + 1); let j = match rng.below(4) { 0 => i, 1 => i + 1, 2 => i.saturating_sub(1), _ => rng.below(n + 1) }; ops.push_str(&format!(" set {} {} {}", i, j, sc(rng, false))); }
            4 => ops.push_str(" trip"),
            _ => { let o = *rng.pick(&["muls", "divs", "adds", "subs"]); ops.push_str(&format!(" {} {}", o, sc(rng, o == "divs"))); }
        } }
        s.push_str(&format!(" {}{}", nops, ops)); out.push(s);
    }
    let reps = if tier == Tier::Quick { 3 } else { 60 };
    for n in 1..=12usize { for class in 0..6 { for r in 0..reps {
        out.push(one::<Q>(rng, n, class, r == 2 && class == 1));
        out.push(one::<f64>(rng, n, class, false));
        if class < 5 { out.push(one::<Cmplx>(rng, n, class, false)); }
        if class < 5 && r < reps.min(2).max(reps / 3) { out.push(one_k::<f64>(rng, n, class, false, 2 + r % 2)); if class % 2 == 1 { out.push(one_k::<Cmplx>(rng, n, class, false, 2)); } }
    } } }
    // every (i, j) index of small matrices, exhaustively
    for n in 1..=4usize { for i in 0..=n { for j in 0..=n {
        let s = one::<Q>(rng, n, 1, false);
        let mut toks: Vec<String> = s.split(' ').map(|x| x.to_string()).collect();
        let l = toks.len(); toks[l - 2] = i.to_string(); toks[l - 1] = j.to_string();
        out.push(toks.join(" "));
    } } }
    out.push(format!("tri q 0 0 0 0 0 1 0 0"));

    // LARGER ORDERS (11 .. 65)
    for _ in 0..(if tier == Tier::Quick { 8 } else { 160 }) {
        let n = big(rng, 65);
        for class in 0..6 {
            out.push(one::<f64>(rng, n, class, false));
            if n <= 33 { out.push(one::<Q>(rng, n, class, false)); }
            if class < 5 && n <= 40 { out.push(one::<Cmplx>(rng, n, class, false)); }
        }
        let cl = rng.below(5); out.push(one_k::<f64>(rng, n, cl, false, 2));
    }
}
