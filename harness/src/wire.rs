//! Line protocol shared with the Lean driver: whitespace-separated tokens.
//!   rational : `n` or `n/d` (lowest terms)      float : 16 hex digits of the bit pattern, or `nan`
//!   complex  : two scalars (re im)               array : length, then the elements
use crate::q::Q;
use ohsl::{Cmplx, Complex};

pub struct Toks<'a> {
    v: Vec<&'a str>,
    i: usize,
}
impl<'a> Toks<'a> {
    pub fn new(line: &'a str) -> Self { Toks { v: line.split_whitespace().collect(), i: 0 } }
    pub fn next(&mut self) -> &'a str {
        let t = self.v.get(self.i).unwrap_or_else(|| panic!("HARNESS: missing token"));
        self.i += 1;
        t
    }
    pub fn done(&self) -> bool { self.i >= self.v.len() }
    /// an independent cursor over the remaining tokens
    pub fn clone_rest(&self) -> Toks<'a> { Toks { v: self.v[self.i..].to_vec(), i: 0 } }
    pub fn usize(&mut self) -> usize { self.next().parse().expect("HARNESS: usize") }
    pub fn isize(&mut self) -> isize { self.next().parse().expect("HARNESS: isize") }
    pub fn get<T: W>(&mut self) -> T { T::rd(self) }
    pub fn vec<T: W>(&mut self) -> Vec<T> {
        let n = self.usize();
        (0..n).map(|_| T::rd(self)).collect()
    }
    pub fn uvec(&mut self) -> Vec<usize> {
        let n = self.usize();
        (0..n).map(|_| self.usize()).collect()
    }
}

/// A scalar that can travel over the wire.
pub trait W: Sized + Clone {
    fn rd(t: &mut Toks) -> Self;
    fn wr(&self) -> String;
}
impl W for Q {
    fn rd(t: &mut Toks) -> Q { Q::parse(t.next()) }
    fn wr(&self) -> String { self.show() }
}
pub fn f64_hex(x: f64) -> String {
    if x.is_nan() { "nan".to_string() } else { format!("{:016x}", x.to_bits()) }
}
pub fn hex_f64(s: &str) -> f64 {
    if s == "nan" { f64::NAN } else { f64::from_bits(u64::from_str_radix(s, 16).expect("HARNESS: hex")) }
}
impl W for f64 {
    fn rd(t: &mut Toks) -> f64 { hex_f64(t.next()) }
    fn wr(&self) -> String { f64_hex(*self) }
}
impl W for Cmplx {
    fn rd(t: &mut Toks) -> Cmplx {
        let re = f64::rd(t);
        let im = f64::rd(t);
        Cmplx::new(re, im)
    }
    fn wr(&self) -> String { format!("{} {}", f64_hex(self.real), f64_hex(self.imag)) }
}
impl W for Complex<Q> {
    fn rd(t: &mut Toks) -> Complex<Q> {
        let re = Q::rd(t);
        let im = Q::rd(t);
        Complex::new(re, im)
    }
    fn wr(&self) -> String { format!("{} {}", self.real.show(), self.imag.show()) }
}
impl W for usize {
    fn rd(t: &mut Toks) -> usize { t.usize() }
    fn wr(&self) -> String { format!("{}", self) }
}

pub fn wr_vec<T: W>(v: &[T]) -> String {
    let mut s = format!("{}", v.len());
    for x in v {
        s.push(' ');
        s.push_str(&x.wr());
    }
    s
}

/// Classify a panic message into the small enum the model uses.
pub fn classify(msg: &str) -> &'static str {
    let m = msg;
    if m.contains("QOVERFLOW") { return "overflow"; }
    if m.contains("HARNESS") { return "harness"; }
    if m.contains("zero pivot") || m.contains("zero on leading diagonal") { return "zero-pivot"; }
    if m.contains("Q division by zero")
        || m.contains("attempt to subtract with overflow")
        || m.contains("attempt to divide by zero")
        || m.contains("attempt to calculate the remainder with a divisor of zero")
        || m.contains("attempt to add with overflow")
        || m.contains("attempt to multiply with overflow")
    {
        return "arith";
    }
    if m.contains("called `Option::unwrap()`") || m.contains("called `Result::unwrap()`") { return "unwrap"; }
    if m.contains("do not agree")
        || m.contains("size error")
        || m.contains("invalid vector sizes")
        || m.contains("rows != b.size")
        || m.contains("not square")
        || m.contains("b.size() != x.size()")
        || m.contains("nvars error")
    {
        return "size";
    }
    if m.contains("range error")
        || m.contains("out of bounds")
        || m.contains("out of range")
        || m.contains("band not in matrix")
        || m.contains("not in a band")
        || m.contains("start > end")
        || m.contains("insertion index")
        || m.contains("removal index")
        || m.contains("larger than # variables")
        || m.contains("Some columns have no entries")
        || m.contains("zero size matrix")
        || m.contains("degree must be at least one")
        || m.contains("itol must be")
    {
        return "range";
    }
    "other"
}

/// Run a closure under catch_unwind; Err carries the panic class.
pub fn guarded<R>(f: impl FnOnce() -> R) -> Result<R, &'static str> {
    match std::panic::catch_unwind(std::panic::AssertUnwindSafe(f)) {
        Ok(r) => Ok(r),
        Err(e) => {
            let msg = if let Some(s) = e.downcast_ref::<&str>() {
                (*s).to_string()
            } else if let Some(s) = e.downcast_ref::<String>() {
                s.clone()
            } else {
                "unknown".to_string()
            };
            Err(classify(&msg))
        }
    }
}

/// splitmix64 — every random choice in the harness derives from one of these.
#[derive(Clone)]
pub struct Rng(pub u64);
impl Rng {
    pub fn next(&mut self) -> u64 {
        self.0 = self.0.wrapping_add(0x9E3779B97F4A7C15);
        let mut z = self.0;
        z = (z ^ (z >> 30)).wrapping_mul(0xBF58476D1CE4E5B9);
        z = (z ^ (z >> 27)).wrapping_mul(0x94D049BB133111EB);
        z ^ (z >> 31)
    }
    pub fn below(&mut self, n: usize) -> usize { if n == 0 { 0 } else { (self.next() % n as u64) as usize } }
    pub fn range(&mut self, lo: i64, hi: i64) -> i64 { lo + (self.next() % ((hi - lo + 1) as u64)) as i64 }
    pub fn chance(&mut self, pct: usize) -> bool { self.below(100) < pct }
    pub fn unit(&mut self) -> f64 { (self.next() >> 11) as f64 / (1u64 << 53) as f64 }
    pub fn pick<'a, T>(&mut self, xs: &'a [T]) -> &'a T { &xs[self.below(xs.len())] }
    /// small rational from a pool with a controlled share of zeros and sign changes
    pub fn q_small(&mut self, zero_pct: usize) -> Q {
        if self.chance(zero_pct) { return Q::int(0); }
        let n = self.range(-6, 6) as i128;
        let d = *self.pick(&[1i128, 1, 1, 2, 3, 4]);
        Q::new(if n == 0 { 1 } else { n }, d)
    }
    /// dyadic / small-integer float (exact arithmetic in moderate ranges)
    pub fn f_dyadic(&mut self, zero_pct: usize) -> f64 {
        if self.chance(zero_pct) { return 0.0; }
        let n = self.range(-16, 16) as f64;
        let k = self.range(0, 3) as i32;
        (if n == 0.0 { 1.0 } else { n }) / (2f64.powi(k))
    }
    /// general float with magnitude spread `10^[-e, e]` and random sign
    pub fn f_general(&mut self, e: f64) -> f64 {
        let m = 1.0 + self.unit();
        let ex = (self.unit() * 2.0 - 1.0) * e;
        let s = if self.chance(50) { -1.0 } else { 1.0 };
        s * m * 10f64.powf(ex)
    }
}
