//! C06 (sparse views / CSC well-formedness under histories) and C07 (sparse products).
use crate::q::Q;
use crate::sc::*;
use crate::wire::*;
use crate::{push_res, Ctx, Tier};
use ohsl::{Sparse, Vector};
use std::collections::BTreeMap;

fn dump<T: Sc>(s: &Sparse<T>) -> String {
    format!("{} {} {} {} {} {}", s.rows, s.cols, s.nonzero, wr_vec(&s.val), wr_vec(&s.row_index), wr_vec(&s.col_start))
}
type Map<T> = BTreeMap<(usize, usize), T>;

/// structural invariants on the public fields
fn check_wf<T: Sc>(s: &Sparse<T>, cx: &mut Ctx) {
    cx.check(s.col_start.len() == s.cols + 1, "col_start does not have cols+1 entries");
    cx.check(s.col_start.first() == Some(&0), "col_start does not start at 0");
    cx.check(s.col_start.windows(2).all(|w| w[0] <= w[1]), "col_start is not non-decreasing");
    cx.check(s.col_start.last() == Some(&s.nonzero), "col_start does not end at the entry count");
    cx.check(s.val.len() == s.nonzero && s.row_index.len() == s.nonzero, "val / row_index length differs from the entry count");
    cx.check(s.row_index.iter().all(|r| *r < s.rows), "row index out of range");
}

/// all views against the reference map (duplicate-free matrices only)
fn check_views<T: Sc>(s: &Sparse<T>, m: &Map<T>, rows: usize, cols: usize, cx: &mut Ctx) {
    cx.check(s.rows == rows && s.cols == cols, "shape differs from the reference");
    cx.check(s.nonzero == m.len(), "entry count differs from the reference");
    let tr = guarded(|| s.to_triplets());
    match &tr { Ok(ts) => { let mut mm: Map<T> = BTreeMap::new(); let mut dup = false; for (r, c, v) in ts { if mm.insert((*r, *c), *v).is_some() { dup = true; } }
                  cx.check(!dup && mm.len() == m.len() && mm.iter().zip(m.iter()).all(|(a, b)| a.0 == b.0 && a.1.same(b.1)), "to_triplets differs from the reference matrix");
                  cx.check(ts.windows(2).all(|w| w[0].1 <= w[1].1), "to_triplets not in column order"); }
                Err(c) => cx.fail(format!("to_triplets panicked ({})", c)) }
    match guarded(|| s.to_dense()) { Ok(d) => cx.check(d.rows() == rows && d.cols() == cols && (0..rows).all(|i| (0..cols).all(|j| d[(i, j)].same(m.get(&(i, j)).unwrap_or(&T::zero())))), "to_dense differs from the reference matrix"),
                                      Err(c) => cx.fail(format!("to_dense panicked ({})", c)) }
    for i in 0..rows { for j in 0..cols { match guarded(|| s.get(i, j)) {
        Ok(g) => { let e = m.get(&(i, j)); cx.check(match (g, e) { (Some(a), Some(b)) => a.same(b), (None, None) => true, _ => false }, "get differs from the reference matrix"); }
        Err(c) => { cx.fail(format!("get panicked ({})", c)); } } } }
    match guarded(|| s.col_index()) { Ok(ci) => { let exp: Vec<usize> = m.keys().map(|k| k.1).collect::<Vec<_>>(); let mut e2 = exp.clone(); e2.sort();
                                        cx.check(ci.vec == e2, "col_index is not the expansion of the column starts"); }
                                      Err(c) => cx.fail(format!("col_index panicked ({})", c)) }
}

fn views<T: Sc>(s: &Sparse<T>, gi: usize, gj: usize, cx: &mut Ctx) -> String {
    let mut out = String::new();
    push_res(&mut out, guarded(|| s.get(gi, gj)).map(|g| match g { Some(v) => format!("some {}", v.wr()), None => "none".into() }), cx);
    push_res(&mut out, guarded(|| s.to_triplets()).map(|ts| { let mut z = format!("{}", ts.len()); for (r, c, v) in ts { z.push_str(&format!(" {} {} {}", r, c, v.wr())); } z }), cx);
    push_res(&mut out, guarded(|| s.to_dense()).map(|d| wr_mat(&d)), cx);
    push_res(&mut out, guarded(|| s.col_index()).map(|c| wr_vec(&c.vec)), cx);
    // the public inverse of the expansion: column starts recomputed from the expanded column index
    let back = guarded(|| { let ci = s.col_index(); s.col_start_from_index(&ci) });
    if let Ok(cs) = &back { if s.col_start.len() == s.cols + 1 && s.col_start.windows(2).all(|w| w[0] <= w[1]) && s.col_start.last() == Some(&s.nonzero) && s.col_start.first() == Some(&0) {
        cx.check(*cs == s.col_start, "col_start_from_index(col_index()) != col_start"); } }
    push_res(&mut out, back.map(|c| wr_vec(&c)), cx);
    out
}

fn rd_trips<T: Sc>(t: &mut Toks) -> Vec<(usize, usize, T)> { let n = t.usize(); (0..n).map(|_| (t.usize(), t.usize(), t.get())).collect() }

fn hist<T: Sc>(t: &mut Toks, cx: &mut Ctx) -> String {
    let (rows, cols) = (t.usize(), t.usize());
    let trips: Vec<(usize, usize, T)> = rd_trips(t);
    let nops = t.usize();
    cx.meta("tag", T::TAG); cx.meta("shape", format!("{}x{}", rows, cols)); cx.meta("nnz", trips.len()); cx.meta("ops", nops);
    let in_range = trips.iter().all(|x| x.0 < rows && x.1 < cols);
    let mut m: Map<T> = BTreeMap::new();
    let mut dupfree = true;
    for (r, c, v) in &trips { if m.insert((*r, *c), *v).is_some() { dupfree = false; } }
    cx.meta("dup", (!dupfree) as usize);
    let mut tv = trips.clone();
    let built = guarded(|| Sparse::from_triplets(rows, cols, &mut tv));
    let mut s = match built {
        Err(c) => { cx.check(!in_range, "from_triplets rejected in-range triplets"); return format!("!{}", c); }
        Ok(s) => { cx.check(in_range, "from_triplets accepted an out-of-range triplet"); s }
    };
    check_wf(&s, cx);
    if dupfree { check_views(&s, &m, rows, cols, cx); }
    let out = format!("{} | {}", dump(&s), views(&s, rows / 2, cols / 2, cx));
    run_ops(t, cx, s, m, dupfree, nops, out)
}

/// the history part shared by `sp_hist` and `sp_vhist`
fn run_ops<T: Sc>(t: &mut Toks, cx: &mut Ctx, mut s: Sparse<T>, mut m: Map<T>, dupfree: bool, nops: usize, mut out: String) -> String {
    let (mut rr, mut cc) = (s.rows, s.cols);
    for _ in 0..nops {
        let op = t.next();
        out.push_str(" ; "); out.push_str(op); out.push(' ');
        let before = dump(&s);
        let r: Result<String, &'static str> = match op {
            "insert" => { let (i, j) = (t.usize(), t.usize()); let v: T = t.get();
                let r = guarded(|| s.insert(i, j, v));
                match &r { Ok(_) => { cx.check(i < rr && j < cc, "insert accepted an out-of-range position"); m.insert((i, j), v); }
                           Err(_) => { cx.check(!(i < rr && j < cc), "insert rejected an in-range position"); cx.check(dump(&s) == before, "rejected insert modified the matrix"); } }
                r.map(|_| String::new()) }
            "scale" => { let a: T = t.get(); let r = guarded(|| s.scale(&a)); for v in m.values_mut() { *v = *v * a; } r.map(|_| String::new()) }
            "transpose" => { let r = guarded(|| s.transpose());
                cx.check(dump(&s) == before, "transpose (&self) modified the matrix");
                match r { Ok(t2) => { s = t2; std::mem::swap(&mut rr, &mut cc); m = m.iter().map(|((i, j), v)| ((*j, *i), *v)).collect(); Ok(String::new()) } Err(c) => Err(c) } }
            "get" => { let (i, j) = (t.usize(), t.usize()); let r = guarded(|| s.get(i, j));
                match &r { Ok(_) => cx.check(i < rr && j < cc, "get accepted an out-of-range position"), Err(_) => cx.check(!(i < rr && j < cc), "get rejected an in-range position") }
                cx.check(dump(&s) == before, "get modified the matrix");
                r.map(|g| match g { Some(v) => format!("some {}", v.wr()), None => "none".into() }) }
            "prod" => { // read-only view: A x and A^T y of the CURRENT state against the reference map
                let x: Vector<T> = rd_vector(t); let y: Vector<T> = rd_vector(t);
                let ax = guarded(|| s.multiply(&x)); let aty = guarded(|| s.transpose_multiply(&y));
                cx.check(dump(&s) == before, "a product (&self) modified the matrix");
                if dupfree && T::is_exact() {
                    match &ax { Ok(v) => { cx.check(x.size() == cc, "multiply accepted a vector of the wrong length");
                            if x.size() == cc { let mut e = vec![T::zero(); rr]; for ((i, j), a) in &m { e[*i] += *a * x[*j]; } cx.check(same_vec(&v.vec, &e), "after the history: A x differs from the product with the reference matrix"); } }
                        Err(c) => cx.check(x.size() != cc, &format!("multiply panicked ({}) after a valid history", c)) }
                    match &aty { Ok(v) => { cx.check(y.size() == rr, "transpose_multiply accepted a vector of the wrong length");
                            if y.size() == rr { let mut e = vec![T::zero(); cc]; for ((i, j), a) in &m { e[*j] += *a * y[*i]; } cx.check(same_vec(&v.vec, &e), "after the history: A^T y differs from the product with the reference matrix"); } }
                        Err(c) => cx.check(y.size() != rr, &format!("transpose_multiply panicked ({}) after a valid history", c)) }
                }
                let w = |r: &Result<Vector<T>, &'static str>| match r { Ok(v) => wr_vector(v), Err(c) => format!("!{}", c) };
                Ok(format!("{} / {}", w(&ax), w(&aty))) }
            _ => panic!("HARNESS: unknown sparse op {}", op),
        };
        out.push_str(&match &r { Ok(z) if z.is_empty() => "ok".to_string(), Ok(z) => format!("ok {}", z), Err(c) => format!("!{}", c) });
        check_wf(&s, cx);
        if dupfree { check_views(&s, &m, rr, cc, cx); }
        out.push_str(&format!(" | {} | {}", dump(&s), views(&s, rr / 2, cc / 2, cx)));
        if cx.skip.is_some() { break; }
    }
    out
}

/// raw compressed-column arrays (rows inside a column in ANY order) followed by a history
fn vhist<T: Sc>(t: &mut Toks, cx: &mut Ctx) -> String {
    let (rows, cols) = (t.usize(), t.usize());
    let val: Vec<T> = t.vec();
    let ri = t.uvec();
    let cs = t.uvec();
    let nops = t.usize();
    cx.meta("tag", T::TAG); cx.meta("shape", format!("{}x{}", rows, cols)); cx.meta("nnz", val.len()); cx.meta("ops", nops);
    let wf = cs.len() == cols + 1 && cs.first() == Some(&0) && cs.windows(2).all(|w| w[0] <= w[1]) && cs.last() == Some(&val.len()) && ri.len() == val.len() && ri.iter().all(|r| *r < rows);
    cx.meta("wf", wf as usize);
    match guarded(|| Sparse::from_vecs(rows, cols, val.clone(), ri.clone(), cs.clone())) {
        Err(c) => format!("!{}", c),
        Ok(s) => {
            if !wf { return format!("{} | {}", dump(&s), views(&s, rows / 2, cols / 2, cx)); }
            check_wf(&s, cx);
            let mut m: Map<T> = BTreeMap::new(); let mut dup = false;
            for j in 0..cols { for k in cs[j]..cs[j + 1] { if m.insert((ri[k], j), val[k]).is_some() { dup = true; } } }
            let unsorted = (0..cols).any(|j| (cs[j]..cs[j + 1]).collect::<Vec<_>>().windows(2).any(|w| ri[w[0]] > ri[w[1]]));
            cx.meta("rows_unsorted_in_a_column", unsorted as usize);
            if !dup { check_views(&s, &m, rows, cols, cx); }
            let out = format!("{} | {}", dump(&s), views(&s, rows / 2, cols / 2, cx));
            run_ops(t, cx, s, m, !dup, nops, out)
        }
    }
}

/// raw compressed-column construction
fn from_vecs<T: Sc>(t: &mut Toks, cx: &mut Ctx) -> String {
    let (rows, cols) = (t.usize(), t.usize());
    let val: Vec<T> = t.vec();
    let ri = t.uvec();
    let cs = t.uvec();
    cx.meta("tag", T::TAG);
    let wf = cs.len() == cols + 1 && cs.first() == Some(&0) && cs.windows(2).all(|w| w[0] <= w[1]) && cs.last() == Some(&val.len()) && ri.len() == val.len() && ri.iter().all(|r| *r < rows);
    cx.meta("wf", wf as usize);
    match guarded(|| Sparse::from_vecs(rows, cols, val.clone(), ri.clone(), cs.clone())) {
        Err(c) => format!("!{}", c),
        Ok(s) => {
            if wf {
                check_wf(&s, cx);
                let mut m: Map<T> = BTreeMap::new(); let mut dup = false;
                for j in 0..cols { for k in cs[j]..cs[j + 1] { if m.insert((ri[k], j), val[k]).is_some() { dup = true; } } }
                if !dup { check_views(&s, &m, rows, cols, cx); }
            }
            format!("{} | {}", dump(&s), views(&s, rows / 2, cols / 2, cx))
        }
    }
}

/// C07: products
fn products<T: Sc>(t: &mut Toks, cx: &mut Ctx) -> String {
    let (rows, cols) = (t.usize(), t.usize());
    let trips: Vec<(usize, usize, T)> = rd_trips(t);
    let x: Vector<T> = rd_vector(t);
    let y: Vector<T> = rd_vector(t);
    let a: T = t.get();
    cx.meta("tag", T::TAG); cx.meta("shape", format!("{}x{}", rows, cols)); cx.meta("nnz", trips.len());
    let mut tv = trips.clone();
    let s = match guarded(|| Sparse::from_triplets(rows, cols, &mut tv)) { Ok(s) => s, Err(c) => return format!("!{}", c) };
    let before = dump(&s);
    let ax = guarded(|| s.multiply(&x));
    let aty = guarded(|| s.transpose_multiply(&y));
    let st = guarded(|| s.transpose());
    let aty2 = match &st { Ok(tt) => guarded(|| tt.multiply(&y)), Err(c) => Err(*c) };
    let sax = guarded(|| { let mut z = s.transpose().transpose(); z.scale(&a); z.multiply(&x) });
    cx.check(dump(&s) == before, "a &self product modified the matrix");
    let mut out = String::new();
    for r in [&ax, &aty, &aty2, &sax] { push_res(&mut out, r.as_ref().map(|v| wr_vector(v)).map_err(|c| *c), cx); }
    // dense reference
    let mut d = vec![vec![T::zero(); cols]; rows];
    let mut dupfree = true; let mut seen = std::collections::BTreeSet::new();
    for (r, c, v) in &trips { if !seen.insert((*r, *c)) { dupfree = false; } d[*r][*c] = *v; }
    if dupfree {
        match &ax { Ok(v) => { cx.check(x.size() == cols, "multiply accepted a vector of the wrong length");
                        if x.size() == cols { let e: Vec<T> = (0..rows).map(|i| { let mut acc = T::zero(); for j in 0..cols { if seen.contains(&(i, j)) { acc += d[i][j] * x[j]; } } acc }).collect();
                            cx.check(if T::is_exact() { same_vec(&v.vec, &e) } else { v.size() == rows && (0..rows).all(|i| (v[i] - e[i]).mag64() <= 2.02 * (cols as f64 + 1.0) * (f64::EPSILON / 2.0) * if T::TAG == "c" { 8.0 } else { 1.0 } * (0..cols).map(|j| (d[i][j] * x[j]).mag64()).sum::<f64>() + 1e-300) }, "A x differs from the dense product (exactly over Q; over floats by more than the bound (cols+1)u sum|a_ij x_j| of theorem C07F.multiply_rounding, doubled for the rounding of the reference sum)"); } }
                    Err(c) => cx.check(x.size() != cols, &format!("multiply panicked ({})", c)) }
        match &aty { Ok(v) => { cx.check(y.size() == rows, "transpose_multiply accepted a vector of the wrong length");
                        if y.size() == rows { let e: Vec<T> = (0..cols).map(|j| { let mut acc = T::zero(); for i in 0..rows { if seen.contains(&(i, j)) { acc += d[i][j] * y[i]; } } acc }).collect();
                            cx.check(if T::is_exact() { same_vec(&v.vec, &e) } else { v.size() == cols && (0..cols).all(|j| (v[j] - e[j]).mag64() <= 2.02 * (rows as f64 + 1.0) * (f64::EPSILON / 2.0) * if T::TAG == "c" { 8.0 } else { 1.0 } * (0..rows).map(|i| (d[i][j] * y[i]).mag64()).sum::<f64>() + 1e-300) }, "A^T y differs from the dense product"); } }
                     Err(c) => cx.check(y.size() != rows, &format!("transpose_multiply panicked ({})", c)) }
        if T::is_exact() {
            match (&aty, &aty2) { (Ok(p), Ok(q)) => cx.check(same_vec(&p.vec, &q.vec), "transpose().multiply(y) != transpose_multiply(y)"), (Err(_), Err(_)) => {}, _ => cx.fail("transpose().multiply(y) and transpose_multiply(y) disagree on acceptance") }
            if let (Ok(p), Ok(q)) = (&ax, &aty) { cx.check(y.dot(p) == q.dot(&x), "<y, A x> != <A^T y, x>"); }
            if let (Ok(p), Ok(q)) = (&ax, &sax) { cx.check(same_vec(&(p.clone() * a).vec, &q.vec), "scale(a) then multiply != a * multiply"); }
        } else if let (Ok(_), Ok(q)) = (&ax, &sax) {
            // floats: (a A) x against the dense reference with entries fl(a_ij * a) (scale is ONE rounded product per stored value)
            if x.size() == cols && q.size() == rows && a.finite() {
                let uu = f64::EPSILON / 2.0 * if T::TAG == "c" { 8.0 } else { 1.0 };
                let ok = (0..rows).all(|i| { let mut acc = T::zero(); let mut ab = 0.0; for j in 0..cols { if seen.contains(&(i, j)) { let e = d[i][j] * a; acc += e * x[j]; ab += (e * x[j]).mag64(); } }
                    !(ab.is_finite()) || (q[i] - acc).mag64() <= 2.02 * (cols as f64 + 1.0) * uu * ab + 1e-300 });
                cx.check(ok, "scale(a) then multiply differs from the product with the once-rounded entries fl(a_ij * a) by more than the rounding bound (scale_rounding + multiply_rounding)");
            }
        }
    }
    out
}

pub fn exec(op: &str, t: &mut Toks, cx: &mut Ctx) -> Option<String> {
    match op {
        "sp_hist" => { let tag = t.next(); Some(match tag { "q" => hist::<Q>(t, cx), _ => hist::<f64>(t, cx) }) }
        "sp_vhist" => { let tag = t.next(); Some(match tag { "q" => vhist::<Q>(t, cx), _ => vhist::<f64>(t, cx) }) }
        "sp_vecs" => { let tag = t.next(); Some(match tag { "q" => from_vecs::<Q>(t, cx), _ => from_vecs::<f64>(t, cx) }) }
        "sp_prod" => { let tag = t.next(); Some(match tag { "q" => products::<Q>(t, cx), _ => products::<f64>(t, cx) }) }
        _ => None,
    }
}

pub fn gen_pattern<T: Sc>(rng: &mut Rng, rows: usize, cols: usize, density: usize) -> Vec<(usize, usize, T)> { gen_pattern_k::<T>(rng, rows, cols, density, 0) }
/// `kind` as in `Sc::gen`: 0 small exact values, 2 / 3 general magnitudes
pub fn gen_pattern_k<T: Sc>(rng: &mut Rng, rows: usize, cols: usize, density: usize, kind: usize) -> Vec<(usize, usize, T)> {
    let mut v = Vec::new();
    for j in 0..cols { for i in 0..rows { if rng.chance(density) { v.push((i, j, T::gen(rng, 0, kind))); } } }
    // random order
    for i in (1..v.len()).rev() { let j = rng.below(i + 1); v.swap(i, j); }
    v
}
fn trips_str<T: Sc>(v: &[(usize, usize, T)]) -> String { let mut s = format!("{}", v.len()); for (r, c, x) in v { s.push_str(&format!(" {} {} {}", r, c, x.wr())); } s }

fn gen_ops<T: Sc>(rng: &mut Rng, rows: usize, cols: usize, nops: usize) -> String { gen_ops_k::<T>(rng, rows, cols, nops, 0) }
fn gen_ops_k<T: Sc>(rng: &mut Rng, rows: usize, cols: usize, nops: usize, kind: usize) -> String {
    let (mut r, mut c) = (rows, cols);
    let mut s = format!("{}", nops);
    for _ in 0..nops {
        match rng.below(10) {
            0..=4 => { let bad = rng.chance(6); let (i, j) = (if bad || r == 0 { r + rng.below(2) } else { rng.below(r) }, if c == 0 { rng.below(2) } else { rng.below(c) }); s.push_str(&format!(" insert {} {} {}", i, j, T::gen(rng, 5, kind).wr())); }
            5 | 6 => s.push_str(&format!(" scale {}", T::gen(rng, 5, kind).wr())),
            7 | 8 => { s.push_str(" transpose"); std::mem::swap(&mut r, &mut c); }
            _ => { let (i, j) = (if r == 0 { 0 } else { rng.below(r + 1) }, if c == 0 { 0 } else { rng.below(c + 1) }); s.push_str(&format!(" get {} {}", i, j)); }
        }
    }
    s
}

fn permutations(n: usize) -> Vec<Vec<usize>> {
    if n == 0 { return vec![vec![]]; }
    let mut out = Vec::new();
    for p in permutations(n - 1) { for k in 0..n { let mut q = p.clone(); q.insert(k, n - 1); out.push(q); } }
    out
}

pub fn gen(rng: &mut Rng, tier: Tier, out: &mut Vec<String>) {
    // all patterns for shapes <= 3x3 (incl. empty matrix / empty rows and columns)
    for rows in 0..=3usize { for cols in 0..=3usize { let cells = rows * cols; for pat in 0..(1usize << cells) {
        if tier == Tier::Quick && cells == 9 && pat % 8 != 3 { continue; }
        let mut v: Vec<(usize, usize, Q)> = Vec::new();
        for k in 0..cells { if pat >> k & 1 == 1 { v.push((k / cols, k % cols, Q::gen(rng, 0, 0))); } }
        for i in (1..v.len()).rev() { let j = rng.below(i + 1); v.swap(i, j); }
        out.push(format!("sp_hist q {} {} {} {}", rows, cols, trips_str(&v), gen_ops::<Q>(rng, rows, cols, 2)));
    } } }
    // every permutation of the triplet order for <= 4 entries
    for n in 0..=4usize { let (rows, cols) = (3usize, 3usize);
        let mut cells: Vec<usize> = (0..9).collect(); for i in (1..9).rev() { let j = rng.below(i + 1); cells.swap(i, j); }
        let base: Vec<(usize, usize, Q)> = cells[..n].iter().map(|k| (k / 3, k % 3, Q::gen(rng, 0, 0))).collect();
        for p in permutations(n) { let v: Vec<_> = p.iter().map(|i| base[*i]).collect(); out.push(format!("sp_hist q {} {} {} 1 transpose", rows, cols, trips_str(&v))); } }
    // random histories, shapes up to 8x8
    let nh = if tier == Tier::Quick { 500 } else { 10000 };
    for i in 0..nh {
        let (rows, cols) = (rng.below(9), rng.below(9));
        let density = *rng.pick(&[0usize, 10, 30, 60, 100]);
        let mut v = gen_pattern::<Q>(rng, rows, cols, density);
        if i % 25 == 0 && !v.is_empty() { let d = v[0]; v.push((d.0, d.1, Q::gen(rng, 0, 0))); }          // duplicate entry (outside the claim; model correspondence only)
        if i % 40 == 1 { v.push((rows + rng.below(2), rng.below(cols + 1), Q::int(1))); }                  // out-of-range triplet
        let nops = 1 + rng.below(25);
        out.push(format!("sp_hist q {} {} {} {}", rows, cols, trips_str(&v), gen_ops::<Q>(rng, rows, cols, nops)));
        if i % 5 == 0 { let v = gen_pattern::<f64>(rng, rows, cols, density); out.push(format!("sp_hist f {} {} {} {}", rows, cols, trips_str(&v), gen_ops::<f64>(rng, rows, cols, nops.min(6)))); }
        // general magnitudes (values, inserted values and scale factors 10^[-3,3] / 10^[-12,12]): a scaling must be ONE rounded product
        if i % 5 == 2 { let k = 2 + rng.below(2); let v = gen_pattern_k::<f64>(rng, rows, cols, density, k); out.push(format!("sp_hist f {} {} {} {}", rows, cols, trips_str(&v), gen_ops_k::<f64>(rng, rows, cols, nops.min(8), k))); }
    }
    // raw compressed-column arrays (well-formed by construction)
    for _ in 0..nh / 5 {
        let (rows, cols) = (1 + rng.below(8), rng.below(9));
        let v = gen_pattern::<Q>(rng, rows, cols, 35);
        let mut sorted = v.clone(); sorted.sort_by_key(|x| (x.1, x.0));
        let val: Vec<Q> = sorted.iter().map(|x| x.2).collect(); let ri: Vec<usize> = sorted.iter().map(|x| x.0).collect();
        let mut cs = vec![0usize; cols + 1]; for x in &sorted { cs[x.1 + 1] += 1; } for j in 0..cols { cs[j + 1] += cs[j]; }
        out.push(format!("sp_vecs q {} {} {} {} {}", rows, cols, wr_vec(&val), wr_vec(&ri), wr_vec(&cs)));
    }
    // ILL-FORMED raw arrays (public fields / from_vecs do no validation): perturbed column starts, short or long
    // value / row arrays, rows out of range. Outside the claim of C06 (no oracle verdict); they keep the MODEL honest on
    // the panic / value behaviour of every accessor (e.g. the short-circuit `&&` of get / insert)
    for _ in 0..nh {
        let (rows, cols) = (rng.below(4), rng.below(4));
        let v = gen_pattern::<Q>(rng, rows.max(1), cols, 50);
        let mut sorted = v.clone(); sorted.sort_by_key(|x| (x.1, x.0));
        let mut val: Vec<Q> = sorted.iter().map(|x| x.2).collect(); let mut ri: Vec<usize> = sorted.iter().map(|x| x.0).collect();
        let mut cs = vec![0usize; cols + 1]; for x in &sorted { cs[x.1 + 1] += 1; } for j in 0..cols { cs[j + 1] += cs[j]; }
        for _ in 0..1 + rng.below(2) { match rng.below(9) {
            0 => { if !cs.is_empty() { let k = rng.below(cs.len()); cs[k] += 1 + rng.below(2); } }
            1 => { if !cs.is_empty() { let k = rng.below(cs.len()); cs[k] = cs[k].saturating_sub(1 + rng.below(2)); } }
            2 => { if !cs.is_empty() && rng.below(2) == 0 { cs.pop(); } else { cs.push(rng.below(5)); } }
            3 => { if !val.is_empty() && rng.below(2) == 0 { val.pop(); } else { val.push(Q::int(7)); } }
            4 => { if !ri.is_empty() && rng.below(2) == 0 { ri.pop(); } else { ri.push(rng.below(rows + 2)); } }
            5 => { if !ri.is_empty() { let k = rng.below(ri.len()); ri[k] = rows + rng.below(2); } }
            6 => { if cs.len() >= 2 { let k = rng.below(cs.len() - 1); cs.swap(k, k + 1); } }
            _ => { if !cs.is_empty() { cs[0] += 1; } }                                   // col_index() shorter than nonzero
        } }
        out.push(format!("sp_vecs q {} {} {} {} {}", rows, cols, wr_vec(&val), wr_vec(&ri), wr_vec(&cs)));
    }
    // raw compressed-column arrays whose rows are in ANY order inside a column, followed by a history
    // of overwrites / insertions / scalings / transpositions
    for i in 0..nh / 2 {
        let (rows, cols) = (1 + rng.below(8), 1 + rng.below(8));
        let dens = *rng.pick(&[35usize, 60, 100]);
        let v = gen_pattern::<Q>(rng, rows, cols, dens);   // random order
        let mut byc = v.clone(); byc.sort_by_key(|x| x.1);                          // stable: rows stay shuffled inside a column
        if i % 3 == 0 { byc.sort_by_key(|x| (x.1, std::cmp::Reverse(x.0))); }          // rows descending
        let val: Vec<Q> = byc.iter().map(|x| x.2).collect(); let ri: Vec<usize> = byc.iter().map(|x| x.0).collect();
        let mut cs = vec![0usize; cols + 1]; for x in &byc { cs[x.1 + 1] += 1; } for j in 0..cols { cs[j + 1] += cs[j]; }
        let pos: Vec<(usize, usize)> = byc.iter().map(|x| (x.0, x.1)).collect();
        let nops = 1 + rng.below(8);
        out.push(format!("sp_vhist q {} {} {} {} {} {}", rows, cols, wr_vec(&val), wr_vec(&ri), wr_vec(&cs), gen_ops_overwrite::<Q>(rng, rows, cols, &pos, nops)));
    }

    // LARGER SHAPES (11 .. 48 rows / columns, up to a few hundred stored entries): stored-entry counts and column counts
    // across the thresholds of a blocked loop
    for i in 0..(if tier == Tier::Quick { 16 } else { 400 }) {
        let (rows, cols) = (big(rng, 48), if rng.chance(50) { big(rng, 48) } else { 1 + rng.below(48) });
        let density = *rng.pick(&[3usize, 8, 20, 50]);
        let nops = 1 + rng.below(8);
        if i % 2 == 0 { let v = gen_pattern::<Q>(rng, rows, cols, density); out.push(format!("sp_hist q {} {} {} {}", rows, cols, trips_str(&v), gen_ops::<Q>(rng, rows, cols, nops))); }
        else { let v = gen_pattern::<f64>(rng, rows, cols, density); out.push(format!("sp_hist f {} {} {} {}", rows, cols, trips_str(&v), gen_ops::<f64>(rng, rows, cols, nops))); }
    }
    // exactly k stored entries for every k in 0..=70 (one scaling, one transposition, reads)
    for k in 0..=70usize { if tier == Tier::Quick && k % 3 == 1 && k > 20 { continue; }
        let (rows, cols) = (3 + rng.below(9), 6 + rng.below(7));
        let mut cells: Vec<usize> = (0..rows * cols).collect(); for i in (1..cells.len()).rev() { let j = rng.below(i + 1); cells.swap(i, j); }
        let v: Vec<(usize, usize, Q)> = cells.iter().take(k.min(rows * cols)).map(|c| (c / cols, c % cols, { let mut q = Q::gen(rng, 0, 0); if q == Q::int(0) { q = Q::int(3); } q })).collect();
        out.push(format!("sp_hist q {} {} {} 4 scale {} get {} {} transpose get {} {}", rows, cols, trips_str(&v), Q::int(2 + (k % 3) as i128).wr(), rng.below(rows), cols - 1, cols - 1, rng.below(rows)));
    }
}

/// history that mostly overwrites EXISTING entries (positions taken from `pos`), with a few new ones
fn gen_ops_overwrite<T: Sc>(rng: &mut Rng, rows: usize, cols: usize, pos: &[(usize, usize)], nops: usize) -> String {
    let (mut r, mut c) = (rows, cols); let mut tr = false;
    let mut s = format!("{}", nops);
    for _ in 0..nops {
        match rng.below(10) {
            0..=6 => { let (i, j) = if !pos.is_empty() && rng.chance(75) { let p = *rng.pick(pos); if tr { (p.1, p.0) } else { p } } else { (if r == 0 { 0 } else { rng.below(r) }, if c == 0 { 0 } else { rng.below(c) }) };
                       s.push_str(&format!(" insert {} {} {}", i, j, T::gen(rng, 5, 0).wr())); }
            7 => s.push_str(&format!(" scale {}", T::gen(rng, 5, 0).wr())),
            8 => { s.push_str(" transpose"); std::mem::swap(&mut r, &mut c); tr = !tr; }
            _ => { let (i, j) = (if r == 0 { 0 } else { rng.below(r + 1) }, if c == 0 { 0 } else { rng.below(c + 1) }); s.push_str(&format!(" get {} {}", i, j)); }
        }
    }
    s
}

/// histories of edits in which products are taken after every few edits (C07 on matrices that HAVE a history)
fn gen_hist_prod(rng: &mut Rng, out: &mut Vec<String>, count: usize) {
    for _ in 0..count {
        let (mut rows, mut cols) = (1 + rng.below(6), 1 + rng.below(6));
        let dens0 = *rng.pick(&[20usize, 50, 80]);
        let (r0, c0) = (rows, cols);
        let v = gen_pattern::<Q>(rng, rows, cols, dens0);
        let mut ops = String::new(); let mut n = 0;
        let mut prod = |rng: &mut Rng, rows: usize, cols: usize, ops: &mut String, n: &mut usize| { ops.push_str(&format!(" prod {} {}", gen_vec_str::<Q>(rng, cols, 10, 0), gen_vec_str::<Q>(rng, rows, 10, 0))); *n += 1; };
        for _ in 0..2 + rng.below(5) {
            match rng.below(5) {
                0 | 1 => { // new entries, biased to the LAST and first column / row
                    let j = match rng.below(3) { 0 => cols - 1, 1 => 0, _ => rng.below(cols) }; let i = match rng.below(3) { 0 => rows - 1, 1 => 0, _ => rng.below(rows) };
                    ops.push_str(&format!(" insert {} {} {}", i, j, Q::gen(rng, 0, 0).wr())); n += 1; }
                2 => { ops.push_str(&format!(" scale {}", Q::gen(rng, 0, 0).wr())); n += 1; }
                3 => { ops.push_str(" transpose"); n += 1; std::mem::swap(&mut rows, &mut cols); }
                _ => { ops.push_str(&format!(" get {} {}", rng.below(rows), rng.below(cols))); n += 1; }
            }
            if rng.chance(60) { prod(rng, rows, cols, &mut ops, &mut n); }
        }
        prod(rng, rows, cols, &mut ops, &mut n);
        out.push(format!("sp_hist q {} {} {} {}{}", r0, c0, trips_str(&v), n, ops));
    }
}

pub fn gen_c07(rng: &mut Rng, tier: Tier, out: &mut Vec<String>) {
    gen_hist_prod(rng, out, if tier == Tier::Quick { 150 } else { 3000 });
    let n = if tier == Tier::Quick { 1000 } else { 20000 };
    for i in 0..n {
        let (rows, cols) = (rng.below(11), rng.below(11));
        let density = *rng.pick(&[0usize, 10, 30, 60, 100]);
        let v = gen_pattern::<Q>(rng, rows, cols, density);
        let (xl, yl) = (if rng.chance(4) { cols + 1 } else { cols }, if rng.chance(4) { rows + 1 } else { rows });
        out.push(format!("sp_prod q {} {} {} {} {} {}", rows, cols, trips_str(&v), gen_vec_str::<Q>(rng, xl, 10, 0), gen_vec_str::<Q>(rng, yl, 10, 0), Q::gen(rng, 5, 0).wr()));
        if i % 3 == 0 {
            let v = gen_pattern::<f64>(rng, rows, cols, density);
            out.push(format!("sp_prod f {} {} {} {} {} {}", rows, cols, trips_str(&v), gen_vec_str::<f64>(rng, cols, 10, 1), gen_vec_str::<f64>(rng, rows, 10, 1), f64::gen(rng, 5, 1).wr()));
            let k = 2 + rng.below(2); let v = gen_pattern_k::<f64>(rng, rows, cols, density, k);
            out.push(format!("sp_prod f {} {} {} {} {} {}", rows, cols, trips_str(&v), gen_vec_str::<f64>(rng, cols, 10, k), gen_vec_str::<f64>(rng, rows, 10, k), f64::gen(rng, 0, 3).wr()));
        }
    }

    // LARGER SHAPES
    for i in 0..(if tier == Tier::Quick { 24 } else { 500 }) {
        let (rows, cols) = (big(rng, 65), if rng.chance(50) { big(rng, 65) } else { 1 + rng.below(65) });
        let density = *rng.pick(&[2usize, 6, 15, 40]);
        if i % 2 == 0 { let v = gen_pattern::<Q>(rng, rows, cols, density);
            out.push(format!("sp_prod q {} {} {} {} {} {}", rows, cols, trips_str(&v), gen_vec_str::<Q>(rng, cols, 10, 0), gen_vec_str::<Q>(rng, rows, 10, 0), Q::gen(rng, 5, 0).wr())); }
        else { let v = gen_pattern::<f64>(rng, rows, cols, density);
            out.push(format!("sp_prod f {} {} {} {} {} {}", rows, cols, trips_str(&v), gen_vec_str::<f64>(rng, cols, 10, 1), gen_vec_str::<f64>(rng, rows, 10, 1), f64::gen(rng, 5, 1).wr())); }
    }
}
