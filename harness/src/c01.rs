//! C01 (dense direct solvers) and C02 (determinant / inverse).
use crate::q::Q;
use crate::sc::*;
use crate::wire::*;
use crate::{Ctx, Tier};
use ohsl::{Cmplx, Matrix, Vector};

/// independent exact elimination over Q on plain rows: returns (det, rank)
pub fn exact_det_rank(a: &Rows<Q>) -> (Q, usize) {
    let n = a.len();
    let mut m = a.clone();
    let mut det = Q::int(1);
    let mut rank = 0;
    let mut row = 0;
    for col in 0..n {
        let mut piv = None;
        for r in row..n { if !m[r][col].is_zero() { piv = Some(r); break; } }
        match piv {
            None => { det = Q::int(0); }
            Some(p) => {
                if p != row { m.swap(p, row); det = -det; }
                det = det * m[row][col];
                for r in row + 1..n {
                    let f = m[r][col] / m[row][col];
                    for c in col..n { let t = m[row][c]; m[r][c] = m[r][c] - f * t; }
                }
                row += 1;
                rank += 1;
            }
        }
    }
    (det, rank)
}

fn to_q(x: f64) -> Option<Q> {
    // exact conversion of small dyadic floats
    let s = x * 1024.0;
    if s.fract() == 0.0 && s.abs() < 1e12 { return Some(Q::new(s as i128, 1024)); }
    // dyadic values with up to 24 fractional bits and magnitude below 2^20 (numerators below 2^44)
    let s = x * 16777216.0;
    if s.fract() == 0.0 && x.abs() < 1048576.0 { Some(Q::new(s as i128, 16777216)) } else { None }
}

fn res_vec<T: Sc>(r: &Result<Vector<T>, &'static str>) -> String {
    match r { Ok(v) => wr_vector(v), Err(c) => format!("!{}", c) }
}

fn solve<T: Sc>(t: &mut Toks, cx: &mut Ctx) -> String {
    let a: Matrix<T> = rd_mat(t);
    let b: Vector<T> = rd_vector(t);
    let bs = b.clone();
    let r1 = guarded(|| { let mut m = a.clone(); m.solve_basic(&b) });
    let r2 = guarded(|| { let mut m = a.clone(); m.solve_lu(&b) });
    cx.check(same_vec(&b.vec, &bs.vec), "solver mutated the right-hand side");
    let n = a.rows();
    cx.meta("n", n);
    cx.meta("tag", T::TAG);
    let square = a.rows() == a.cols() && b.size() == n;
    if !square {
        cx.check(r1.is_err() && r2.is_err(), "non-square system or wrong rhs length was not rejected");
    } else if n > 0 {
        // count row exchanges a partial-pivoting elimination needs: leading entry of column k is not the max
        let rows = mat_rows(&a);
        for (name, r) in [("solve_basic", &r1), ("solve_lu", &r2)] {
            if let Ok(x) = r {
                cx.check(x.size() == n, &format!("{}: wrong length", name));
                if x.size() == n {
                    if T::is_exact() {
                        let ok = (0..n).all(|i| { let mut s = T::zero(); for j in 0..n { s += rows[i][j] * x[j]; } s == b[i] });
                        cx.check(ok, &format!("{}: A x != b (exact)", name));
                    } else if x.vec.iter().all(|v| v.finite()) {
                        let an = (0..n).map(|i| (0..n).map(|j| rows[i][j].mag64()).sum::<f64>()).fold(0.0, f64::max);
                        let xn = x.vec.iter().map(|v| v.mag64()).fold(0.0, f64::max);
                        let bn = b.vec.iter().map(|v| v.mag64()).fold(0.0, f64::max);
                        let mut rn = 0.0f64;
                        for i in 0..n { let mut s = T::zero(); for j in 0..n { s += rows[i][j] * x[j]; } rn = rn.max((s - b[i]).mag64()); }
                        // (an oracle evaluation that itself overflows decides nothing)
                        if !(rn.is_finite() && (an * xn + bn).is_finite()) { cx.meta("oracle_overflow", 1); continue; }
                        cx.check(rn <= 1e-11 * (an * xn + bn) + 1e-300, &format!("{}: backward error {:e} too large", name, rn / (an * xn + bn + 1e-300)));
                        // the bound of theorem C01F.solveLU_backward, evaluated on this run (standard model, u = 2^-53; for
                        // Complex<f64> the operations are composite: 8u): |b - A x|_i <= (g_n + g_3n) (P^T |L||U| |x|)_i, plus the
                        // rounding of this residual evaluation itself, g_(n+2) (|A||x| + |b|)_i
                        let mut lu = a.clone();
                        if let Ok((_, perm)) = guarded(|| lu.lu_decomp_in_place()) {
                            let u = f64::EPSILON / 2.0 * if T::TAG == "c" { 8.0 } else { 1.0 };
                            let g = |k: usize| 1.01 * (k as f64) * u;
                            let xa: Vec<f64> = x.vec.iter().map(|v| v.mag64()).collect();
                            // w = |L||U||x|
                            let ux: Vec<f64> = (0..n).map(|r| (r..n).map(|c| lu[(r, c)].mag64() * xa[c]).sum::<f64>()).collect();
                            let w: Vec<f64> = (0..n).map(|r| (0..r).map(|k| lu[(r, k)].mag64() * ux[k]).sum::<f64>() + ux[r]).collect();
                            // solve_lu: g_n + g_3n (C01F.solveLU_backward); solve_basic: g_(n-1) + g_(2n-1) (C01G.solveBasic_backward; the
                            // elimination performs the same operations in the same order, so its multipliers and U are those of the LU)
                            let cst = if name == "solve_lu" { g(n) + g(3 * n) } else { g(n.saturating_sub(1)) + g((2 * n).saturating_sub(1)) };
                            let mut worst = 0.0f64; let mut ok = true;
                            for i in 0..n {
                                let row_of = (0..n).find(|r| perm[(*r, i)].mag64() == 1.0).unwrap_or(i);
                                let mut s = T::zero(); let mut absum = b[i].mag64();
                                for j in 0..n { s += rows[i][j] * x[j]; absum += rows[i][j].mag64() * xa[j]; }
                                let res = (s - b[i]).mag64();
                                let bound = cst * w[row_of] + g(n + 2) * absum + (n as f64 + 2.0) * f64::MIN_POSITIVE;   // + underflow slack (subnormal products are not relatively accurate)
                                if bound.is_finite() && !(res <= bound) { ok = false; worst = worst.max(res / bound.max(1e-300)); }
                            }
                            cx.meta("lu_backward_bound_checked", 1);
                            cx.check(ok, &format!("{}: componentwise residual exceeds the LU backward-error bound (g_n + g_3n) P^T|L||U||x| of theorem solveLU_backward by a factor {:e} (solve_basic: the bound of solveBasic_backward)", name, worst));
                        }
                    }
                }
            }
        }
        // floats (f64 and complex, any magnitudes in the non-overflowing window): a system on which an independent reference
        // elimination with partial pivoting (ref_zero_pivot_column) meets a non-zero pivot at every step is one Gaussian
        // elimination can solve in this arithmetic: a panic or a non-finite result there is a failure of the solver
        // (systems singular to working precision are judged in solve_ns / solve_f, where nonsingularity is known)
        if !T::is_exact() {
            let mags: Vec<f64> = (0..n).flat_map(|i| (0..n).map(move |j| (i, j))).map(|(i, j)| a[(i, j)].mag64()).chain(b.vec.iter().map(|v| v.mag64())).collect();
            let window = mags.iter().all(|m| m.is_finite() && (*m == 0.0 || (*m >= 1e-100 && *m <= 1e100)));
            if window && !guarded(|| ref_zero_pivot_column(&a)).unwrap_or(true) {
                for (name, r) in [("solve_basic", &r1), ("solve_lu", &r2)] {
                    match r { Err(c) => cx.fail(format!("{}: panicked ({}) on a system the reference elimination solves", name, c)),
                              Ok(x) => cx.check(x.vec.iter().all(|v| v.finite()), &format!("{}: non-finite result on a system the reference elimination solves", name)) }
                }
            }
        }
    }
    format!("basic {} lu {}", res_vec(&r1), res_vec(&r2))
}

/// exact facts about the system (only for tags whose entries convert to Q)
fn solve_exact_oracle(line_a: &Rows<Q>, r1_ok: bool, r2_ok: bool, finite: bool, cx: &mut Ctx) {
    let (det, _) = exact_det_rank(line_a);
    cx.meta("singular", det.is_zero() as usize);
    if !det.is_zero() {
        cx.check(r1_ok && r2_ok && finite, "nonsingular system was not solved (panic or non-finite result)");
    }
}

fn solve_q(t: &mut Toks, cx: &mut Ctx) -> String {
    let mut t2 = Toks::new("");
    std::mem::swap(t, &mut t2);
    let mut t3 = t2.clone_rest();
    let out = solve::<Q>(&mut t2, cx);
    let a: Matrix<Q> = rd_mat(&mut t3);
    let b: Vector<Q> = rd_vector(&mut t3);
    if a.rows() == a.cols() && a.rows() > 0 && b.size() == a.rows() {
        let ok1 = out.contains("basic ") && !out.starts_with("basic !");
        let ok2 = !out.contains("lu !");
        let rows = mat_rows(&a);
        solve_exact_oracle(&rows, ok1, ok2, true, cx);
        // agreement of the two solvers
        if ok1 && ok2 {
            let p = out.find(" lu ").unwrap();
            cx.check(out[6..p] == out[p + 4..], "solve_basic and solve_lu disagree");
        }
    }
    out
}

fn solve_f<T: Sc>(t: &mut Toks, cx: &mut Ctx, conv: impl Fn(&T) -> Option<(Q, Q)>) -> String {
    let mut t2 = Toks::new("");
    std::mem::swap(t, &mut t2);
    let mut t3 = t2.clone_rest();
    let out = solve::<T>(&mut t2, cx);
    let a: Matrix<T> = rd_mat(&mut t3);
    let b: Vector<T> = rd_vector(&mut t3);
    let n = a.rows();
    if n == a.cols() && n > 0 && T::TAG == "f" && b.size() == n {
        let mut rows: Rows<Q> = Vec::new();
        let mut exact = true;
        for i in 0..n { let mut r = Vec::new(); for j in 0..n { match conv(&a[(i, j)]) { Some((re, _)) => r.push(re), None => { exact = false; r.push(Q::int(0)); } } } rows.push(r); }
        if exact {
            let ok1 = !out.starts_with("basic !");
            let ok2 = !out.contains("lu !");
            let finite = !out.contains("nan") && !out.contains("7ff0000000000000") && !out.contains("fff0000000000000");
            let r = guarded(|| exact_det_rank(&rows));
            if let Ok((det, _)) = r {
                cx.meta("singular", det.is_zero() as usize);
                if !det.is_zero() {
                    // (the same class as in solve_ns: nonsingular in exact arithmetic, but a computed pivot sub-column is exactly zero)
                    let numsing = guarded(|| ref_zero_pivot_column(&a)).unwrap_or(false);
                    cx.meta("numerically_singular", numsing as usize);
                    let tag = if numsing { " [numerically singular to working precision: a computed pivot sub-column is exactly zero, Gaussian elimination cannot proceed in this arithmetic]" } else { "" };
                    cx.check(ok1 && ok2 && finite, &format!("nonsingular system was not solved (panic or non-finite result){}", tag)); }
            }
        }
    }
    out
}

fn detinv<T: Sc>(t: &mut Toks, cx: &mut Ctx) -> String {
    let a: Matrix<T> = rd_mat(t);
    let snap = a.clone();
    let d = guarded(|| a.determinant());
    let inv = guarded(|| a.inverse());
    cx.check(same_mat(&a, &snap), "determinant/inverse modified the matrix");
    let n = a.rows();
    cx.meta("n", n);
    cx.meta("tag", T::TAG);
    if a.rows() != a.cols() { cx.check(d.is_err() && inv.is_err(), "non-square matrix not rejected"); }
    // the public in-place LU: factors stored in the matrix, permutation matrix and exchange count returned
    let mut lu = a.clone();
    let f = guarded(|| lu.lu_decomp_in_place());
    if a.rows() != a.cols() { cx.check(f.is_err(), "lu_decomp_in_place: non-square matrix not rejected"); }
    let lus = match &f { Ok((p, perm)) => {
            if T::is_exact() && n > 0 {
                // P A = L U exactly (L unit lower, U upper, both read from the overwritten matrix)
                let ok = (0..n).all(|i| (0..n).all(|j| { let mut pa = T::zero(); let mut l_u = T::zero();
                    for k in 0..n { pa += perm[(i, k)] * a[(k, j)]; let l = if k < i { lu[(i, k)] } else if k == i { T::one() } else { T::zero() }; let u = if k <= j { lu[(k, j)] } else { T::zero() }; l_u += l * u; }
                    pa.same(&l_u) }));
                cx.check(ok, "lu_decomp_in_place: P A != L U");
                let isperm = (0..n).all(|i| (0..n).filter(|j| !perm[(i, *j)].same(&T::zero())).count() == 1 && (0..n).filter(|j| perm[(i, *j)].same(&T::one())).count() == 1) && (0..n).all(|j| (0..n).filter(|i| perm[(*i, j)].same(&T::one())).count() == 1);
                cx.check(isperm, "lu_decomp_in_place: the returned matrix is not a permutation matrix");
            }
            format!("{} {} {}", p, wr_mat(&lu), wr_mat(perm)) }
        Err(c) => format!("!{}", c) };
    format!("det {} inv {} lu {}", match &d { Ok(x) => x.wr(), Err(c) => format!("!{}", c) }, match &inv { Ok(m) => wr_mat(m), Err(c) => format!("!{}", c) }, lus)
}

fn detinv_q(t: &mut Toks, cx: &mut Ctx) -> String {
    let mut t3 = t.clone_rest();
    let out = detinv::<Q>(t, cx);
    let a: Matrix<Q> = rd_mat(&mut t3);
    let n = a.rows();
    if n == a.cols() {
        let rows = mat_rows(&a);
        let (det, rank) = exact_det_rank(&rows);
        cx.meta("rank_deficiency", n - rank);
        let d = guarded(|| a.determinant());
        match d { Ok(x) => cx.check(x == det, "determinant differs from the exact determinant"), Err(c) => cx.fail(format!("determinant panicked ({})", c)) }
        if !det.is_zero() {
            match guarded(|| a.inverse()) {
                Ok(inv) => {
                    let i1 = &a * &inv; let i2 = &inv * &a; let id = Matrix::<Q>::eye(n);
                    cx.check(same_mat(&i1, &id), "A * inv(A) != I");
                    cx.check(same_mat(&i2, &id), "inv(A) * A != I");
                }
                Err(c) => cx.fail(format!("inverse of a nonsingular matrix panicked ({})", c)),
            }
        }
    }
    out
}

fn detinv_f(t: &mut Toks, cx: &mut Ctx) -> String {
    let mut t3 = t.clone_rest();
    let out = detinv::<f64>(t, cx);
    let a: Matrix<f64> = rd_mat(&mut t3);
    let n = a.rows();
    if n == a.cols() {
        let mut rows: Rows<Q> = Vec::new();
        let mut exact = true;
        for i in 0..n { let mut r = Vec::new(); for j in 0..n { match to_q(a[(i, j)]) { Some(q) => r.push(q), None => { exact = false; r.push(Q::int(0)) } } } rows.push(r); }
        if exact {
            if let Ok((det, rank)) = guarded(|| exact_det_rank(&rows)) {
                cx.meta("rank_deficiency", n - rank);
                let scale: f64 = (0..n).map(|i| (0..n).map(|j| a[(i, j)].abs()).fold(0.0, f64::max).max(1e-300)).product();
                match guarded(|| a.determinant()) {
                    Ok(x) => { cx.check((x - det.to_f64()).abs() <= 1e-10 * scale.max(det.to_f64().abs()), &format!("determinant {} far from exact {}", x, det.to_f64()));
                        // the bound of theorem C02F.determinant_backward evaluated on this run: d = (1+theta) det(A + dA), |theta| <= g_n,
                        // |dA| <= g_(n-1) P^T|L||U|; to first order |det(A + dA) - det A| <= sum_ij |cof_ij(A)| |dA_ij| (exact cofactors over Q),
                        // doubled for the higher-order terms
                        if n <= 4 && x.is_finite() { if let Ok(Some(cof)) = guarded(|| exact_cofactors(&rows)) {
                            let mut lu = a.clone();
                            if let Ok((_, perm)) = guarded(|| lu.lu_decomp_in_place()) {
                                let uu = f64::EPSILON / 2.0; let g = |k: usize| 1.01 * (k as f64) * uu;
                                // W = |L||U| (rows of P A), un-permuted to rows of A
                                let w = |r: usize, c: usize| -> f64 { (0..n).map(|k| { let l = if k < r { lu[(r, k)].abs() } else if k == r { 1.0 } else { 0.0 }; let u_ = if k <= c { lu[(k, c)].abs() } else { 0.0 }; l * u_ }).sum() };
                                let mut sens = 0.0f64;
                                for i in 0..n { let r = (0..n).find(|r| perm[(*r, i)] == 1.0).unwrap_or(i); for j in 0..n { sens += cof[i][j].to_f64().abs() * w(r, j); } }
                                // terms of the determinant with two or more perturbed factors (they dominate when the rank is <= n - 2 and
                                // every cofactor vanishes): n! [ (a + e)^n - a^n - n a^(n-1) e ] with a = max|a_ij|, e = max|dA_ij|
                                let amax = (0..n).flat_map(|i| (0..n).map(move |j| (i, j))).map(|(i, j)| a[(i, j)].abs()).fold(0.0, f64::max);
                                let wmax = (0..n).flat_map(|r| (0..n).map(move |c| (r, c))).map(|(r, c)| w(r, c)).fold(0.0, f64::max);
                                let e = g(n.saturating_sub(1)) * wmax; let nf: f64 = (1..=n).map(|k| k as f64).product();
                                let second = if n < 2 { 0.0 } else { nf * (n as f64) * ((n as f64) - 1.0) / 2.0 * e * e * (amax + e).powi(n as i32 - 2) * 2.0 };
                                let bound = 2.0 * (g(n) * det.to_f64().abs() + (1.0 + g(n)) * g(n.saturating_sub(1)) * sens) + (1.0 + g(n)) * second + 1e-300;
                                cx.meta("det_backward_bound_checked", 1);
                                cx.check((x - det.to_f64()).abs() <= bound, &format!("determinant: |d - det A| = {:e} exceeds the backward-stability bound {:e} of theorem determinant_backward (g_n |det| + g_(n-1) sum |cof_ij| (P^T|L||U|)_ij + second-order terms)", (x - det.to_f64()).abs(), bound));
                            } } }
                    }
                    Err(c) => cx.fail(format!("determinant panicked ({})", c)),
                }
                if !det.is_zero() {
                    if let Ok(inv) = guarded(|| a.inverse()) {
                        let i1 = &a * &inv; let i2 = &inv * &a;
                        let cond = a.norm_inf() * inv.norm_inf();
                        let mut e = 0.0f64;
                        for i in 0..n { for j in 0..n { let id = if i == j { 1.0 } else { 0.0 }; e = e.max((i1[(i, j)] - id).abs()).max((i2[(i, j)] - id).abs()); } }
                        let allfin = (0..n).all(|i| (0..n).all(|j| inv[(i, j)].is_finite()));
                        cx.check(allfin, "inverse of a nonsingular matrix has non-finite entries");
                        cx.check(!allfin || e <= 1e-13 * cond.max(1.0) * n as f64, &format!("A*inv(A) off identity by {:e} (cond {:e})", e, cond));
                    } else { cx.fail("inverse of a nonsingular matrix panicked"); }
                }
            }
        }
    }
    out
}

/// Reference elimination with partial pivoting (independent of the code under test) in the arithmetic of `T`:
/// does some step meet a pivot sub-column (on and below the diagonal) that is EXACTLY zero?  Then the matrix
/// is singular to working precision: no elimination in this arithmetic can proceed.
pub fn ref_zero_pivot_column<T: Sc>(a: &Matrix<T>) -> bool {
    let n = a.rows();
    let mut m: Vec<Vec<T>> = mat_rows(a);
    for k in 0..n {
        let mut p = k; let mut best = 0.0f64;
        for i in k..n { let v = m[i][k].mag64(); if v > best { best = v; p = i; } }
        if best == 0.0 { return true; }
        m.swap(k, p);
        for i in k + 1..n { let f = m[i][k] / m[k][k]; for j in k..n { let t = f * m[k][j]; m[i][j] = m[i][j] - t; } }
    }
    false
}

/// systems that are NONSINGULAR BY CONSTRUCTION (the generator guarantees it; exact arithmetic on 53-bit
/// entries would overflow the harness rationals): whatever the solvers return must solve the system
fn solve_ns<T: Sc>(t: &mut Toks, cx: &mut Ctx) -> String {
    let mut t3 = t.clone_rest();
    let out = solve::<T>(t, cx);
    let a: Matrix<T> = rd_mat(&mut t3);
    let numsing = guarded(|| ref_zero_pivot_column(&a)).unwrap_or(false);
    cx.meta("numerically_singular", numsing as usize);
    let tag = if numsing { " [numerically singular to working precision: a computed pivot sub-column is exactly zero, Gaussian elimination cannot proceed in this arithmetic]" } else { "" };
    let p = out.find(" lu ").unwrap_or(out.len());
    for (name, part) in [("solve_basic", &out[..p]), ("solve_lu", &out[p..])] {
        if part.contains('!') { cx.fail(format!("{}: panicked on a nonsingular system{}", name, tag)); }
        else if part.contains("nan") || part.contains("7ff0000000000000") || part.contains("fff0000000000000") { cx.fail(format!("{}: non-finite result on a nonsingular system{}", name, tag)); }
    }
    out
}

/// exact cofactor matrix over Q (orders <= 4); None on overflow of the harness rationals
fn exact_cofactors(a: &Rows<Q>) -> Option<Vec<Vec<Q>>> {
    let n = a.len();
    let mut c = vec![vec![Q::int(0); n]; n];
    for i in 0..n { for j in 0..n {
        let minor: Rows<Q> = (0..n).filter(|r| *r != i).map(|r| (0..n).filter(|k| *k != j).map(|k| a[r][k]).collect()).collect();
        let d = if n == 1 { Q::int(1) } else { exact_det_rank(&minor).0 };
        c[i][j] = if (i + j) % 2 == 0 { d } else { -d };
    } }
    Some(c)
}

/// exact arithmetic in Q(i) for the complex oracle
type Qi = (Q, Q);
fn qi_mul(a: Qi, b: Qi) -> Qi { (a.0 * b.0 - a.1 * b.1, a.0 * b.1 + a.1 * b.0) }
fn qi_sub(a: Qi, b: Qi) -> Qi { (a.0 - b.0, a.1 - b.1) }
fn qi_div(a: Qi, b: Qi) -> Qi { let d = b.0 * b.0 + b.1 * b.1; let n = qi_mul(a, (b.0, -b.1)); (n.0 / d, n.1 / d) }
fn qi_zero(a: Qi) -> bool { a.0.is_zero() && a.1.is_zero() }
/// determinant over Q(i) by elimination with the first non-zero pivot
fn exact_det_qi(a: &Vec<Vec<Qi>>) -> Qi {
    let n = a.len(); let mut m = a.clone(); let mut det: Qi = (Q::int(1), Q::int(0));
    for c in 0..n {
        let p = match (c..n).find(|r| !qi_zero(m[*r][c])) { Some(p) => p, None => return (Q::int(0), Q::int(0)) };
        if p != c { m.swap(p, c); det = (-det.0, -det.1); }
        det = qi_mul(det, m[c][c]);
        for r in c + 1..n { let f = qi_div(m[r][c], m[c][c]); for k in c..n { let t = qi_mul(f, m[c][k]); m[r][k] = qi_sub(m[r][k], t); } }
    }
    det
}

fn detinv_c(t: &mut Toks, cx: &mut Ctx) -> String {
    let mut t3 = t.clone_rest();
    let out = detinv::<Cmplx>(t, cx);
    let a: Matrix<Cmplx> = rd_mat(&mut t3);
    let n = a.rows();
    if n == a.cols() && n > 0 {
        let mut rows: Vec<Vec<Qi>> = Vec::new(); let mut exact = true;
        for i in 0..n { let mut r = Vec::new(); for j in 0..n { match (to_q(a[(i, j)].real), to_q(a[(i, j)].imag)) { (Some(x), Some(y)) => r.push((x, y)), _ => { exact = false; r.push((Q::int(0), Q::int(0))) } } } rows.push(r); }
        if exact { if let Ok(det) = guarded(|| exact_det_qi(&rows)) {
            let (dr, di) = (det.0.to_f64(), det.1.to_f64());
            let scale: f64 = (0..n).map(|i| (0..n).map(|j| a[(i, j)].mag64()).fold(0.0, f64::max).max(1e-300)).product();
            match guarded(|| a.determinant()) {
                Ok(x) => cx.check(((x.real - dr).powi(2) + (x.imag - di).powi(2)).sqrt() <= 1e-10 * scale.max((dr * dr + di * di).sqrt()), &format!("complex determinant ({:e},{:e}) far from the exact value ({:e},{:e})", x.real, x.imag, dr, di)),
                Err(c) => cx.fail(format!("determinant panicked ({})", c)) }
            if !qi_zero(det) {
                if let Ok(inv) = guarded(|| a.inverse()) {
                    let i1 = &a * &inv; let i2 = &inv * &a;
                    let nrm = |m: &Matrix<Cmplx>| (0..n).map(|i| (0..n).map(|j| m[(i, j)].mag64()).sum::<f64>()).fold(0.0, f64::max);
                    let cond = nrm(&a) * nrm(&inv);
                    let mut e = 0.0f64;
                    for i in 0..n { for j in 0..n { let id = if i == j { 1.0 } else { 0.0 }; e = e.max(((i1[(i, j)].real - id).powi(2) + i1[(i, j)].imag.powi(2)).sqrt()).max(((i2[(i, j)].real - id).powi(2) + i2[(i, j)].imag.powi(2)).sqrt()); } }
                    cx.check(e <= 1e-13 * cond.max(1.0) * n as f64, &format!("complex A*inv(A) off identity by {:e} (cond {:e})", e, cond));
                } else { cx.fail("inverse of a nonsingular complex matrix panicked"); }
            }
        } }
    }
    out
}

pub fn exec(op: &str, t: &mut Toks, cx: &mut Ctx) -> Option<String> {
    match op {
        "solve_ns" => { let tag = t.next(); Some(if tag == "f" { solve_ns::<f64>(t, cx) } else { solve_ns::<Cmplx>(t, cx) }) }
        "solve" => { let tag = t.next(); Some(match tag {
            "q" => solve_q(t, cx),
            "f" => solve_f::<f64>(t, cx, |x| to_q(*x).map(|q| (q, Q::int(0)))),
            _ => solve_f::<Cmplx>(t, cx, |_| None) }) }
        "detinv" => { let tag = t.next(); Some(match tag { "q" => detinv_q(t, cx), "f" => detinv_f(t, cx), _ => detinv_c(t, cx) }) }
        _ => None,
    }
}

/// structured square matrices: classes from the quantifier
pub fn gen_square<T: Sc>(rng: &mut Rng, n: usize, class: usize) -> Vec<Vec<T>> {
    let z = T::zero();
    let mut a: Vec<Vec<T>> = (0..n).map(|_| (0..n).map(|_| T::gen(rng, 25, 0)).collect()).collect();
    match class {
        0 => {}                                                    // dense / sparse-patterned random
        1 => { let k = rng.below(n); for i in 0..=k { a[i][k] = z; } if k + 1 < n { a[n - 1][k] = T::gen(rng, 0, 0); } }  // zero on/above the diagonal in column k: forces an exchange at step k
        2 => { // permutation-like
            let mut p: Vec<usize> = (0..n).collect();
            for i in (1..n).rev() { let j = rng.below(i + 1); p.swap(i, j); }
            for i in 0..n { for j in 0..n { a[i][j] = if p[i] == j { T::gen(rng, 0, 0) } else { z }; } } }
        3 => { for i in 0..n { for j in 0..i { a[i][j] = z; } } }   // upper triangular
        4 => { for i in 0..n { for j in i + 1..n { a[i][j] = z; } } } // lower triangular
        5 => { if n > 1 { let (i, j) = (rng.below(n), rng.below(n)); if i != j { a[i] = a[j].clone(); } else { for c in 0..n { a[i][c] = z; } } } } // rank deficient
        6 => { let c = rng.below(n.max(1)); for i in 0..n { a[i][c] = z; } }   // zero column
        7 => { for i in 0..n { a[i][i] = z; } }                       // zero diagonal: exchange at every step
        _ => { if n > 1 { let i = rng.below(n); for c in 0..n { a[i][c] = z; } } }  // zero row
    }
    a
}
pub fn rows_str<T: Sc>(a: &Vec<Vec<T>>, r: usize, c: usize) -> String {
    let mut s = format!("{} {}", r, c);
    for row in a { for x in row { s.push(' '); s.push_str(&x.wr()); } }
    s
}

pub fn gen(rng: &mut Rng, tier: Tier, out: &mut Vec<String>) {
    let reps = if tier == Tier::Quick { 6 } else { 120 };
    for n in 1..=8usize { for class in 0..9 { for _ in 0..reps {
        let a = gen_square::<Q>(rng, n, class);
        out.push(format!("solve q {} {}", rows_str(&a, n, n), gen_vec_str::<Q>(rng, n, 10, 0)));
        let a = gen_square::<f64>(rng, n, class);
        out.push(format!("solve f {} {}", rows_str(&a, n, n), gen_vec_str::<f64>(rng, n, 10, 0)));
        if class < 5 {
            let mut a = gen_square::<f64>(rng, n, 0);
            // general magnitudes with a tiny leading pivot
            for i in 0..n { for j in 0..n { a[i][j] = rng.f_general(2.0); } }
            a[0][0] = 1e-14 * rng.f_general(0.3);
            out.push(format!("solve f {} {}", rows_str(&a, n, n), gen_vec_str::<f64>(rng, n, 0, 1)));
            let a = gen_square::<Cmplx>(rng, n, class);
            out.push(format!("solve c {} {}", rows_str(&a, n, n), gen_vec_str::<Cmplx>(rng, n, 10, 0)));
            // graded systems: dominant diagonal of either sign (or purely imaginary), tiny entries below it —
            // the pivot search must keep the diagonal; choosing a tiny sub-diagonal entry destroys the accuracy
            let mut g = gen_square::<f64>(rng, n, 0);
            for i in 0..n { for j in 0..n { g[i][j] = if i == j { -(1.0 + rng.unit()) * if rng.chance(70) { 1.0 } else { -1.0 } } else if i > j { 1e-18 * rng.f_general(1.0) } else { rng.f_general(0.5) }; } }
            out.push(format!("solve f {} {}", rows_str(&g, n, n), gen_vec_str::<f64>(rng, n, 0, 1)));
            let gc: Vec<Vec<Cmplx>> = g.iter().enumerate().map(|(i, r)| r.iter().enumerate().map(|(j, x)| if i == j { Cmplx::new(0.0, *x * 2.0) } else { Cmplx::new(*x, 0.0) }).collect()).collect();
            out.push(format!("solve c {} {}", rows_str(&gc, n, n), gen_vec_str::<Cmplx>(rng, n, 0, 1)));
        }
    } } }
    // "whatever the magnitudes": well-conditioned systems scaled as a whole by 10^k, k in [-80, 80] (matrix and right-hand side
    // independently), over f64 and Complex<f64>: the backward error is scale invariant; an absolute threshold, or a complex
    // modulus / division that over- or underflows inside this window, is not
    for i in 0..(if tier == Tier::Quick { 60 } else { 1500 }) {
        let n = 1 + rng.below(6);
        let (sa, sb) = (10f64.powf((rng.unit() - 0.5) * 160.0), 10f64.powf((rng.unit() - 0.5) * 160.0));
        if i % 2 == 0 {
            let a: Vec<Vec<f64>> = (0..n).map(|r| (0..n).map(|c| (rng.f_general(1.0) + if r == c { 3.0 * if rng.chance(50) { 1.0 } else { -1.0 } } else { 0.0 }) * sa).collect()).collect();
            let b: Vec<f64> = (0..n).map(|_| rng.f_general(1.0) * sb).collect();
            out.push(format!("solve f {} {}", rows_str(&a, n, n), wr_vec(&b)));
        } else {
            let a: Vec<Vec<Cmplx>> = (0..n).map(|r| (0..n).map(|c| { let d = if r == c { 3.0 } else { 0.0 }; Cmplx::new((rng.f_general(1.0) + d) * sa, if rng.chance(25) { 0.0 } else { rng.f_general(1.0) * sa }) }).collect()).collect();
            let b: Vec<Cmplx> = (0..n).map(|_| Cmplx::new(rng.f_general(1.0) * sb, rng.f_general(1.0) * sb)).collect();
            out.push(format!("solve c {} {}", rows_str(&a, n, n), wr_vec(&b)));
        }
    }
    // nearly singular systems with a consistent right-hand side of moderate solution: A = u v^T + d R with d = 10^[-9,-3],
    // b = A x0, |x0| = O(1). A backward-stable elimination leaves a residual of the order of eps |A||x| whatever the
    // conditioning; closed-form shortcuts (Cramer, adjugate) and dropped pivoting do not
    for _ in 0..(if tier == Tier::Quick { 40 } else { 600 }) {
        let n = 2 + rng.below(5);
        let u: Vec<f64> = (0..n).map(|_| rng.f_general(0.5)).collect(); let v: Vec<f64> = (0..n).map(|_| rng.f_general(0.5)).collect();
        let d = 10f64.powf(-3.0 - 6.0 * rng.unit());
        let a: Vec<Vec<f64>> = (0..n).map(|i| (0..n).map(|j| u[i] * v[j] + d * rng.f_general(0.3)).collect()).collect();
        let x0: Vec<f64> = (0..n).map(|_| (1.0 + rng.unit()) * if rng.chance(50) { -1.0 } else { 1.0 }).collect();
        let b: Vec<f64> = (0..n).map(|i| (0..n).map(|j| a[i][j] * x0[j]).sum()).collect();
        out.push(format!("solve f {} {}", rows_str(&a, n, n), wr_vec(&b)));
        if n <= 3 { let ac: Vec<Vec<Cmplx>> = a.iter().enumerate().map(|(i, r)| r.iter().enumerate().map(|(j, x)| Cmplx::new(*x, if (i + j) % 2 == 0 { 0.25 * *x } else { -0.5 * *x })).collect()).collect();
            let bc: Vec<Cmplx> = (0..n).map(|i| { let mut s = Cmplx::new(0.0, 0.0); for j in 0..n { s += ac[i][j] * Cmplx::new(x0[j], 0.5); } s }).collect();
            out.push(format!("solve c {} {}", rows_str(&ac, n, n), wr_vec(&bc))); }
    }
    // nonsingular but singular to working precision: the first row is (p, 1, 0, ...) and every later row starts
    // (1, fl(1/p), ...): the elimination of column 0 leaves fl(t - fl(fl(1/p) * 1)) = 0 in column 1 of EVERY later
    // row, although t = fl(1/p) != 1/p, so that exactly det != 0 (the other columns are the identity pattern plus noise).
    // No elimination can proceed in f64; a solver must not answer with a finite vector that does not solve the system.
    for _ in 0..(if tier == Tier::Quick { 12 } else { 200 }) {
        let n = 3 + rng.below(4);
        let p = *rng.pick(&[49.0f64, 98.0, 103.0, 107.0, 161.0, 187.0, 3.0, 7.0, 10.0]) * if rng.chance(30) { -1.0 } else { 1.0 };
        let t = 1.0 / p;
        let mut a = vec![vec![0.0f64; n]; n];
        a[0][0] = p; a[0][1] = 1.0;
        for i in 1..n { a[i][0] = 1.0; a[i][1] = t; for j in 2..n { a[i][j] = if j == i + 1 || (i == n - 1 && j == 2) { 1.0 + rng.below(3) as f64 } else if rng.chance(30) { rng.range(-2, 2) as f64 } else { 0.0 }; } }
        // make the trailing block (rows 1.., columns 2..) together with the rank-one coupling nonsingular: add i to a diagonal-like slot
        for i in 1..n { let j = 2 + (i - 1) % (n - 2); a[i][j] += (i + 1) as f64; }
        out.push(format!("solve_ns f {} {}", rows_str(&a, n, n), gen_vec_str::<f64>(rng, n, 0, 0)));
    }
    // malformed: non-square / wrong rhs length, order 0
    for r in 0..4usize { for c in 0..4usize { for bl in 0..4usize { if r != c || bl != r || r == 0 {
        out.push(format!("solve q {} {}", gen_mat_str::<Q>(rng, r, c, 10, 0), gen_vec_str::<Q>(rng, bl, 10, 0)));
    } } } }
    if tier == Tier::Thorough {
        // all {0, ±1} matrices of order ≤ 3 (3 + 81 + 19683)
        for n in 1..=3usize { let cells = n * n; let total = 3usize.pow(cells as u32);
            for code in 0..total { let mut c = code; let mut s = format!("{} {}", n, n);
                for _ in 0..cells { s.push_str(match c % 3 { 0 => " 0", 1 => " 1", _ => " -1" }); c /= 3; }
                out.push(format!("solve q {} {}", s, gen_vec_str::<Q>(rng, n, 10, 0))); } }
    }

    // LARGER ORDERS (11 .. 48): every size class a blocked / unrolled / buffered row operation would treat differently
    for _ in 0..(if tier == Tier::Quick { 14 } else { 300 }) {
        let n = big(rng, 48);
        let mut p: Vec<usize> = (0..n).collect(); for i in (1..n).rev() { let j = rng.below(i + 1); p.swap(i, j); }
        // f64 / complex: dense, with a dominant entry in position (i, p(i)): nonsingular, well conditioned, exchanges at most steps
        let a: Vec<Vec<f64>> = (0..n).map(|i| (0..n).map(|j| rng.f_general(1.0) * 0.25 + if p[i] == j { (n as f64) * if rng.chance(50) { 1.0 } else { -1.0 } } else { 0.0 }).collect()).collect();
        out.push(format!("solve_ns f {} {}", rows_str(&a, n, n), gen_vec_str::<f64>(rng, n, 0, 1)));
        if n <= 33 { let ac: Vec<Vec<Cmplx>> = a.iter().enumerate().map(|(i, r)| r.iter().enumerate().map(|(j, x)| if p[i] == j { Cmplx::new(0.0, *x) } else { Cmplx::new(*x, rng.f_general(1.0) * 0.25) }).collect()).collect();
            out.push(format!("solve_ns c {} {}", rows_str(&ac, n, n), gen_vec_str::<Cmplx>(rng, n, 0, 1))); }
        // exact: a row permutation of a lower bidiagonal matrix with diagonal +-1 (no fill-in, every number stays a small integer)
        let aq: Vec<Vec<Q>> = (0..n).map(|i| { let r = p[i]; (0..n).map(|j| if j == r { Q::int(if (r + j) % 3 == 0 { -1 } else { 1 }) } else if j + 1 == r { Q::int(rng.range(-2, 2) as i128) } else { Q::int(0) }).collect() }).collect();
        let bq: Vec<Q> = (0..n).map(|_| Q::int(rng.range(-3, 3) as i128)).collect();
        out.push(format!("solve q {} {}", rows_str(&aq, n, n), wr_vec(&bq)));
        // exact: scaled permutation matrix
        let aq: Vec<Vec<Q>> = (0..n).map(|i| (0..n).map(|j| if p[i] == j { Q::gen(rng, 0, 0) } else { Q::int(0) }).collect()).collect();
        out.push(format!("solve q {} {}", rows_str(&aq, n, n), gen_vec_str::<Q>(rng, n, 10, 0)));
    }
}

pub fn gen_c02(rng: &mut Rng, tier: Tier, out: &mut Vec<String>) {
    let reps = if tier == Tier::Quick { 5 } else { 100 };
    for n in 1..=8usize { for class in 0..9 { for _ in 0..reps {
        let a = gen_square::<Q>(rng, n, class);
        out.push(format!("detinv q {}", rows_str(&a, n, n)));
        let a = gen_square::<f64>(rng, n, class);
        out.push(format!("detinv f {}", rows_str(&a, n, n)));
        if class < 4 { let a = gen_square::<Cmplx>(rng, n, class); out.push(format!("detinv c {}", rows_str(&a, n, n))); }
    } } }
    // nearly rank-one matrices with dyadic entries (exact determinant and cofactors available): x y^T plus a perturbation of
    // relative size 2^-10 .. 2^-20; closed-form expansions cancel here, a pivoted elimination does not
    for _ in 0..(if tier == Tier::Quick { 40 } else { 600 }) {
        let n = 2 + rng.below(3);
        let (bits, top) = if n <= 3 { (*rng.pick(&[16i32, 20, 24]), 30i64) } else { (8, 12) };
        let x: Vec<f64> = (0..n).map(|_| rng.range(1, top) as f64).collect(); let y: Vec<f64> = (0..n).map(|_| rng.range(1, top) as f64 * if rng.chance(30) { -1.0 } else { 1.0 }).collect();
        let sc = 2f64.powi(bits);
        let a: Vec<Vec<f64>> = (0..n).map(|i| (0..n).map(|j| x[i] * y[j] + (rng.range(-900, 900) as f64) / sc).collect()).collect();
        out.push(format!("detinv f {}", rows_str(&a, n, n)));
    }
    // all-zero matrices and non-square shapes
    for n in 1..=4usize { out.push(format!("detinv q {}", rows_str(&vec![vec![Q::int(0); n]; n], n, n))); out.push(format!("detinv f {}", rows_str(&vec![vec![0.0f64; n]; n], n, n))); }
    for (r, c) in [(2usize, 3usize), (3, 2), (0, 0), (1, 2)] { out.push(format!("detinv q {}", gen_mat_str::<Q>(rng, r, c, 10, 0))); }
    if tier == Tier::Thorough {
        for n in 1..=3usize { let cells = n * n; let total = 3usize.pow(cells as u32);
            for code in 0..total { let mut c = code; let mut s = format!("{} {}", n, n);
                for _ in 0..cells { s.push_str(match c % 3 { 0 => " 0", 1 => " 1", _ => " -1" }); c /= 3; }
                out.push(format!("detinv q {}", s)); } }
    }

    // LARGER ORDERS: row permutations of upper-band triangular matrices with diagonal +-2 and a few entries in {-1, 0, 1}
    // above it (the exact determinant +-2^n and the exact inverse stay within the harness rationals)
    for _ in 0..(if tier == Tier::Quick { 10 } else { 200 }) {
        let n = big(rng, 33);
        let mut p: Vec<usize> = (0..n).collect(); for i in (1..n).rev() { let j = rng.below(i + 1); p.swap(i, j); }
        let u: Vec<Vec<i64>> = (0..n).map(|r| (0..n).map(|j| if j == r { if rng.chance(50) { 2 } else { -2 } } else if j > r && j <= r + 3 && rng.chance(40) { rng.range(-1, 1) } else { 0 }).collect()).collect();
        let af: Vec<Vec<f64>> = (0..n).map(|i| u[p[i]].iter().map(|x| *x as f64).collect()).collect();
        out.push(format!("detinv f {}", rows_str(&af, n, n)));
        let aq: Vec<Vec<Q>> = (0..n).map(|i| u[p[i]].iter().map(|x| Q::int(*x as i128)).collect()).collect();
        out.push(format!("detinv q {}", rows_str(&aq, n, n)));
        if n <= 25 { let ac: Vec<Vec<Cmplx>> = (0..n).map(|i| u[p[i]].iter().enumerate().map(|(j, x)| Cmplx::new(*x as f64, if j == p[i] { 1.0 } else { 0.0 })).collect()).collect();
            out.push(format!("detinv c {}", rows_str(&ac, n, n))); }
    }
}

/// independent exact solve over Q (first non-zero pivot); None when singular
pub fn exact_solve(a: &Rows<Q>, b: &[Q]) -> Option<Vec<Q>> {
    let n = a.len();
    let mut m: Vec<Vec<Q>> = a.iter().zip(b).map(|(r, x)| { let mut r = r.clone(); r.push(*x); r }).collect();
    for col in 0..n {
        let p = (col..n).find(|r| !m[*r][col].is_zero())?;
        m.swap(p, col);
        for r in 0..n { if r != col && !m[r][col].is_zero() {
            let f = m[r][col] / m[col][col];
            for c in col..=n { let t = m[col][c]; m[r][c] = m[r][c] - f * t; } } }
    }
    Some((0..n).map(|i| m[i][n] / m[i][i]).collect())
}
