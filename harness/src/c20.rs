//! C20 — mismatched shapes rejected; operands never mutated; clones independent.
//! The malformed stream re-uses the executors (and their reject/no-stray-write/operand-snapshot
//! oracles) of the other properties with exhaustively enumerated mismatched sizes, plus two
//! executors for binary operations between banded / tridiagonal matrices of different shapes.
use crate::c03;
use crate::c15;
use crate::q::Q;
use crate::sc::*;
use crate::wire::*;
use crate::{push_res, Ctx, Tier};
use ohsl::{Banded, Tridiagonal, Vector};

fn band_of(t: &mut Toks) -> (usize, usize, usize, Banded<Q>) {
    let (n, m1, m2) = (t.usize(), t.usize(), t.usize());
    let v: Q = t.get();
    (n, m1, m2, Banded::new(n, m1, m2, v))
}

fn band_mis(t: &mut Toks, cx: &mut Ctx) -> String {
    let (n, m1, m2, a) = band_of(t);
    let (n2, p1, p2, b) = band_of(t);
    let rhs: Vector<Q> = rd_vector(t);
    let bandno = t.isize();
    let (sa, sb) = (a.clone(), b.clone());
    let same = n == n2 && m1 == p1 && m2 == p2;
    let rs: Vec<Result<Banded<Q>, &'static str>> = vec![
        guarded(|| &a + &b), guarded(|| &a - &b), guarded(|| a.clone() + b.clone()), guarded(|| a.clone() - b.clone()),
        guarded(|| { let mut z = a.clone(); z += &b; z }), guarded(|| { let mut z = a.clone(); z -= &b; z }),
        guarded(|| { let mut z = a.clone(); z += b.clone(); z }), guarded(|| { let mut z = a.clone(); z -= b.clone(); z })];
    let mut out = String::new();
    for r in &rs {
        match r { Ok(_) => cx.check(same, "binary operation between banded matrices of different shapes returned a value"), Err(c) => cx.check(!same, &format!("banded operation rejected matching shapes ({})", c)) }
        push_res(&mut out, r.as_ref().map(|z| format!("{} {} {} {}", z.size(), z.size_below(), z.size_above(), wr_mat(z.compact()))).map_err(|c| *c), cx);
    }
    cx.check(a == sa && b == sb, "a by-reference banded operator mutated an operand");
    let sv = guarded(|| a.solve(&rhs)); let mv = guarded(|| &a * &rhs);
    if rhs.size() != n { cx.check(sv.is_err() && mv.is_err(), "solve / product accepted a vector of the wrong length"); }
    push_res(&mut out, sv.map(|z| wr_vector(&z)), cx); push_res(&mut out, mv.map(|z| wr_vector(&z)), cx);
    let fb = guarded(|| { let mut z = a.clone(); z.fill_band(bandno, Q::int(9)); z });
    let inr = bandno >= -(m1 as isize) && bandno <= m2 as isize;
    cx.check(fb.is_ok() == inr, "fill_band: band range check");
    push_res(&mut out, fb.map(|z| wr_mat(z.compact())), cx);
    cx.check(a == sa, "solve / product / clone mutation changed the matrix");
    cx.meta("shapes", format!("{}{}{}-{}{}{}", n, m1, m2, n2, p1, p2));
    out
}

fn tri_mis(t: &mut Toks, cx: &mut Ctx) -> String {
    let (n, n2) = (t.usize(), t.usize());
    let rhs: Vector<Q> = rd_vector(t);
    let (i, j) = (t.usize(), t.usize());
    let mk = |n: usize, s: i128| Tridiagonal::with_vecs(vec![Q::int(s); n - 1], vec![Q::int(s + 3); n], vec![Q::int(s + 1); n - 1]);
    let (a, b) = (mk(n, 1), mk(n2, 2));
    let rs = vec![guarded(|| a.clone() + b.clone()), guarded(|| a.clone() - b.clone())];
    let mut out = String::new();
    let w = |z: &Tridiagonal<Q>| format!("{} {} {} {}", z.size(), wr_vector(z.subdiagonal()), wr_vector(z.maindiagonal()), wr_vector(z.superdiagonal()));
    for r in &rs { match r { Ok(_) => cx.check(n == n2, "tridiagonal + / - of different sizes returned a value"), Err(_) => cx.check(n != n2, "tridiagonal + / - rejected equal sizes") }
        push_res(&mut out, r.as_ref().map(|z| w(z)).map_err(|c| *c), cx); }
    let sv = guarded(|| a.solve(&rhs)); let mv = guarded(|| &a * &rhs);
    if rhs.size() != n { cx.check(sv.is_err() && mv.is_err(), "solve / product accepted a vector of the wrong length"); }
    push_res(&mut out, sv.map(|z| wr_vector(&z)), cx); push_res(&mut out, mv.map(|z| wr_vector(&z)), cx);
    let g = guarded(|| a[(i, j)]);
    let inband = i < n && j < n && (i == j || i == j + 1 || i + 1 == j);
    cx.check(g.is_ok() == inband, "index: out-of-band / out-of-range access not rejected (or valid one rejected)");
    push_res(&mut out, g.map(|z| z.wr()), cx);
    // clone independence
    let mut c = a.clone(); c[(0, 0)] = Q::int(77);
    cx.check(a[(0, 0)] == Q::int(4), "mutating a clone changed the original");
    cx.meta("sizes", format!("{}-{}", n, n2));
    out
}

pub fn exec(op: &str, t: &mut Toks, cx: &mut Ctx) -> Option<String> {
    match op { "band_mis" => Some(band_mis(t, cx)), "tri_mis" => Some(tri_mis(t, cx)), _ => None }
}

pub fn gen(rng: &mut Rng, tier: Tier, out: &mut Vec<String>) {
    let mx = 6usize;
    // Vector: all pairs of sizes for every binary operation / checked accessor
    for a in 0..=mx { for b in 0..=mx {
        out.push(format!("vec_hist q {} 5 add {} sub {} dot {} index {} setindex {} 1", gen_vec_str::<Q>(rng, a, 10, 0), gen_vec_str::<Q>(rng, b, 10, 0), gen_vec_str::<Q>(rng, b, 10, 0), gen_vec_str::<Q>(rng, b, 10, 0), b, b));
        out.push(format!("vec_hist q {} 5 sumslice {} {} prodslice {} {} insert {} 1 swap {} {} clonemut 3", gen_vec_str::<Q>(rng, a, 10, 0), b, a, a, b, b, a, b));
        out.push(format!("vec_hist f {} 3 add {} sub {} dot {}", gen_vec_str::<f64>(rng, a, 10, 0), gen_vec_str::<f64>(rng, b, 10, 0), gen_vec_str::<f64>(rng, b, 10, 0), gen_vec_str::<f64>(rng, b, 10, 0)));
    } }
    out.push("vec_hist q 0 4 pop sum product find 1".to_string());
    // Matrix: all pairs of shapes (r,c) x (r2,c2) up to 3, and every row/column argument up to 6
    // (quick: all pairs up to 3 and a random sample of the pairs up to 6; thorough: all pairs up to 6, as the property quantifies)
    let ms = if tier == Tier::Quick { 3usize } else { 6usize };
    for r in 0..=ms { for c in 0..=ms { for r2 in 0..=ms { for c2 in 0..=ms {
        out.push(format!("mat_hist q {} 4 add {} sub {} mul {} mulv {}", gen_mat_str::<Q>(rng, r, c, 10, 0), gen_mat_str::<Q>(rng, r2, c2, 10, 0), gen_mat_str::<Q>(rng, r2, c2, 10, 0), gen_mat_str::<Q>(rng, r2, c2, 10, 0), gen_vec_str::<Q>(rng, c2, 10, 0)));
    } } } }
    if tier == Tier::Quick { for _ in 0..120 { let (r, c, r2, c2) = (rng.below(7), rng.below(7), rng.below(7), rng.below(7));
        out.push(format!("mat_hist q {} 4 add {} sub {} mul {} mulv {}", gen_mat_str::<Q>(rng, r, c, 10, 0), gen_mat_str::<Q>(rng, r2, c2, 10, 0), gen_mat_str::<Q>(rng, r2, c2, 10, 0), gen_mat_str::<Q>(rng, r2, c2, 10, 0), gen_vec_str::<Q>(rng, c2, 10, 0))); } }
    for r in 0..=mx { for c in 0..=mx { for k in 0..=mx {
        if (r + c + k) % 2 == 0 || tier == Tier::Thorough {
        out.push(format!("mat_hist q {} 9 getrow {} getcol {} setrow {} {} setcol {} {} swaprows {} {} fillrow {} 1 fillcol {} 1 delrow {} clonemut 5", gen_mat_str::<Q>(rng, r, c, 10, 0), k, k, k, gen_vec_str::<Q>(rng, c, 10, 0), k, gen_vec_str::<Q>(rng, r, 10, 0), k, r.saturating_sub(1), k, k, k));
        out.push(format!("mat_hist q {} 2 setrow 0 {} setcol 0 {}", gen_mat_str::<Q>(rng, r, c, 10, 0), gen_vec_str::<Q>(rng, k, 10, 0), gen_vec_str::<Q>(rng, k, 10, 0))); }
    } } }
    // solver entry points
    let sm = if tier == Tier::Quick { 4usize } else { 6usize };
    for r in 0..=sm { for c in 0..=sm { for bl in 0..=sm { if r != c || bl != r {
        out.push(format!("solve q {} {}", gen_mat_str::<Q>(rng, r, c, 10, 0), gen_vec_str::<Q>(rng, bl, 10, 0)));
        if bl == 0 { out.push(format!("detinv q {}", gen_mat_str::<Q>(rng, r, c, 10, 0))); }
    } } } }
    // Banded / Tridiagonal
    let bm = if tier == Tier::Quick { 4usize } else { 6usize };
    for n in 1..=bm { for m1 in 0..n.min(3) { for m2 in 0..n.min(3) { for n2 in 1..=bm { for p1 in 0..n2.min(3) { for p2 in 0..n2.min(3) {
        if tier == Tier::Quick && (n + m1 + m2 + n2 + p1 + p2) % 3 != 0 { continue; }
        out.push(format!("band_mis {} {} {} 2 {} {} {} 3 {} {}", n, m1, m2, n2, p1, p2, gen_vec_str::<Q>(rng, n2, 0, 0), rng.range(-(m1 as i64) - 2, m2 as i64 + 2)));
    } } } } } }
    for n in 1..=mx { for n2 in 1..=mx { out.push(format!("tri_mis {} {} {} {} {}", n, n2, gen_vec_str::<Q>(rng, n2, 0, 0), rng.below(n + 2), rng.below(n + 2))); } }
    // Sparse: products and accessors with every mismatched length up to 6
    for r in 0..=mx { for c in 0..=mx { for k in 0..=mx { if (r + c + k) % 3 == 0 || tier == Tier::Thorough {
        let v = crate::c06::gen_pattern::<Q>(rng, r, c, 40);
        let mut s = format!("{}", v.len()); for (i, j, x) in &v { s.push_str(&format!(" {} {} {}", i, j, x.wr())); }
        out.push(format!("sp_prod q {} {} {} {} {} 2", r, c, s, gen_vec_str::<Q>(rng, k, 0, 0), gen_vec_str::<Q>(rng, k, 0, 0)));
        out.push(format!("sp_hist q {} {} {} 3 get {} {} insert {} {} 5 get {} {}", r, c, s, k, 0, k, k, 0, k));
    } } } }
    // Sparse constructor: one out-of-range triplet (row or column) at EVERY position of the list and in every
    // column, among valid ones (the constructor sorts by column: the check must not depend on where it lands)
    for r in 1..=3usize { for c in 1..=3usize { for nvalid in 0..=3usize { for pos in 0..=nvalid { for badcol in 0..=c {
        if tier == Tier::Quick && (r + c + nvalid + pos + badcol) % 2 != 0 { continue; }
        let mut v: Vec<(usize, usize, Q)> = crate::c06::gen_pattern::<Q>(rng, r, c, 100); v.truncate(nvalid);
        let bad = if badcol == c { (rng.below(r), c + rng.below(2), Q::int(1)) } else { (r + rng.below(2), badcol, Q::int(1)) };
        v.insert(pos.min(v.len()), bad);
        let mut s = format!("{}", v.len()); for (i, j, x) in &v { s.push_str(&format!(" {} {} {}", i, j, x.wr())); }
        out.push(format!("sp_hist q {} {} {} 0", r, c, s));
    } } } } }
    // iterative solvers
    for (rows, cols, bl, xl) in [(3usize, 3usize, 2usize, 3usize), (3, 3, 3, 2), (2, 3, 2, 2), (3, 2, 3, 3), (3, 3, 4, 4)] {
        for solver in ["cg", "bicg", "bicgstab", "qmr"] {
            out.push(format!("krylov {} bad {} {} 2 0 0 {} 1 1 {} {} {} 5 {} 1", solver, rows, cols, (2.0f64).wr(), (3.0f64).wr(), wr_vec(&vec![1.0f64; bl]), wr_vec(&vec![0.0f64; xl]), (1e-8f64).wr())); } }
    // meshes
    for nn in 0..=4usize { for node in 0..=5usize { for l in 0..=3usize {
        out.push(format!("mesh1_hist {} 2 3 set {} {} get {} index {}", wr_vec(&(0..nn).map(|i| Q::int(i as i128)).collect::<Vec<_>>()), node, gen_vec_str::<Q>(rng, l, 0, 0), node, node));
    } } }
    for nx in 1..=3usize { for ny in 1..=3usize { for i in 0..=3usize { for j in 0..=3usize {
        let g = |n: usize| wr_vec(&(0..n).map(|k| k as f64).collect::<Vec<_>>());
        out.push(format!("mesh2_hist {} {} 2 5 set {} {} {} get {} {} xsec {} ysec {} varmat {}", g(nx), g(ny), i, j, gen_vec_str::<Q>(rng, 2 + (i + j) % 2, 0, 0), i, j, i, j, i));
    } } } }
    // 1-D mesh shrunk by reading a shorter file: the node numbers that no longer exist must be rejected (mesh1_num reads its
    // file into a larger, already filled receiver and probes beyond the new end)
    for nn in 1..=4usize { for nvars in 1..=2usize {
        let nodes: Vec<f64> = (0..nn).map(|i| i as f64 * 0.5).collect();
        let data: Vec<f64> = (0..nn * nvars).map(|k| (k as f64) - 1.0).collect();
        out.push(format!("mesh1_num {} {} {} {} 2 general", wr_vec(&nodes), nvars, wr_vec(&data), wr_vec(&[0.25f64])));
    } }
    // polynomials: index accessor
    for l in 0..=mx { for k in 0..=mx { out.push(format!("poly_ops q {} {} 1 1 {}", gen_vec_str::<Q>(rng, l, 10, 0), gen_vec_str::<Q>(rng, k, 10, 0), k)); } }
    // clone / mutation interleavings on random histories (the executors snapshot operands around every by-reference call)
    let nh = if tier == Tier::Quick { 150 } else { 3000 };
    for _ in 0..nh { let n1 = 1 + rng.below(20); out.push(c03::gen_hist::<Q>(rng, n1, 30)); let n2 = 1 + rng.below(20); out.push(c15::gen_hist::<Q>(rng, n2, 30, 8)); }

    // LARGER SIZES: off-by-one mismatches next to the thresholds of blocked / chunked loops (a guard that is only evaluated
    // on a fast path, or lost when a delegation is inlined, shows at these sizes only)
    for &n in BIG.iter().filter(|n| **n <= 40) { for d in [1usize, 2] {
        let (a, b) = if d == 1 { (n, n + 1) } else { (n, n - 1) };
        out.push(format!("vec_hist q {} 4 add {} sub {} dot {} add {}", gen_vec_str::<Q>(rng, a, 10, 0), gen_vec_str::<Q>(rng, b, 10, 0), gen_vec_str::<Q>(rng, b, 10, 0), gen_vec_str::<Q>(rng, b, 10, 0), gen_vec_str::<Q>(rng, a, 10, 0)));
        out.push(format!("vec_hist f {} 3 add {} sub {} dot {}", gen_vec_str::<f64>(rng, a, 10, 0), gen_vec_str::<f64>(rng, b, 10, 0), gen_vec_str::<f64>(rng, b, 10, 0), gen_vec_str::<f64>(rng, b, 10, 0)));
        if n <= 25 { let c = 2 + rng.below(3);
            out.push(format!("mat_hist q {} 4 add {} sub {} mul {} mulv {}", gen_mat_str::<Q>(rng, a, c, 30, 0), gen_mat_str::<Q>(rng, b, c, 30, 0), gen_mat_str::<Q>(rng, a, c + 1, 30, 0), gen_mat_str::<Q>(rng, c + 1, 2, 30, 0), gen_vec_str::<Q>(rng, c + 1, 10, 0)));
            out.push(format!("mat_hist q {} 3 mulv {} mul {} setcol 0 {}", gen_mat_str::<Q>(rng, c, a, 30, 0), gen_vec_str::<Q>(rng, b, 10, 0), gen_mat_str::<Q>(rng, b, 2, 30, 0), gen_vec_str::<Q>(rng, c + 1, 10, 0)));
            let v = crate::c06::gen_pattern::<Q>(rng, a, c, 30);
            let mut s = format!("{}", v.len()); for (i, j, x) in &v { s.push_str(&format!(" {} {} {}", i, j, x.wr())); }
            out.push(format!("sp_prod q {} {} {} {} {} 2", a, c, s, gen_vec_str::<Q>(rng, c + 1, 0, 0), gen_vec_str::<Q>(rng, b, 0, 0)));
            out.push(format!("tri_mis {} {} {} {} {}", a, b, gen_vec_str::<Q>(rng, b, 0, 0), rng.below(a + 2), rng.below(a + 2)));
            out.push(format!("band_mis {} {} {} 2 {} {} {} 3 {} {}", a, 1, 2, b, 1, 2, gen_vec_str::<Q>(rng, b, 0, 0), rng.range(-3, 4))); }
    } }
}
