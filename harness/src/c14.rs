//! C14 — Complex<f64> elementary / trigonometric / hyperbolic functions.
use crate::wire::*;
use crate::{Ctx, Tier};
use ohsl::Cmplx;
use std::f64::consts::PI;

fn cabs(z: Cmplx) -> f64 { z.real.hypot(z.imag) }
fn close(a: Cmplx, b: Cmplx, tol: f64) -> bool { cabs(a - b) <= tol * (1.0 + cabs(b)) }
/// Taylor series oracle
fn series(z: Cmplx, coef: impl Fn(usize) -> f64) -> Cmplx {
    let mut s = Cmplx::new(0.0, 0.0); let mut p = Cmplx::new(1.0, 0.0);
    for k in 0..120 { let c = coef(k); if c != 0.0 { s = s + p * c; } p = p * z; }
    s
}
fn fact(k: usize) -> f64 { (1..=k).map(|i| i as f64).product() }

fn cxfun(t: &mut Toks, cx: &mut Ctx) -> String {
    let kind = t.next().to_string();
    let z: Cmplx = t.get();
    let w: Cmplx = t.get();
    cx.meta("kind", &kind);
    cx.meta("quadrant", if z.imag == 0.0 { "real-axis" } else if z.real == 0.0 { "imag-axis" } else if z.real > 0.0 { if z.imag > 0.0 { "I" } else { "IV" } } else if z.imag > 0.0 { "II" } else { "III" });
    let one = Cmplx::new(1.0, 0.0);
    let vals: Vec<(&str, Cmplx)> = vec![
        ("sqrt", z.sqrt()), ("pow", z.pow(&w)), ("powf", z.powf(w.real)), ("exp", z.exp()), ("ln", z.ln()), ("log", z.log(w)),
        ("polar", Cmplx::polar(z.abs(), z.arg())),
        ("sin", z.sin()), ("cos", z.cos()), ("tan", z.tan()), ("sec", z.sec()), ("csc", z.csc()), ("cot", z.cot()),
        ("asin", z.asin()), ("acos", z.acos()), ("atan", z.atan()), ("asec", z.asec()), ("acsc", z.acsc()), ("acot", z.acot()),
        ("sinh", z.sinh()), ("cosh", z.cosh()), ("tanh", z.tanh()), ("sech", z.sech()), ("csch", z.csch()), ("coth", z.coth()),
        ("asinh", z.asinh()), ("acosh", z.acosh()), ("atanh", z.atanh()), ("asech", z.asech()), ("acsch", z.acsch()), ("acoth", z.acoth()),
        ("conj", z.conj()), ("abs_arg", Cmplx::new(z.abs(), z.arg())), ("abs_sqr", Cmplx::new(z.abs_sqr(), 0.0)),
    ];
    let get = |n: &str| vals.iter().find(|v| v.0 == n).unwrap().1;
    if kind == "special" {
        // the exported constants the formulae are written with (src/constant.rs) are the doubles nearest to their definitions
        use std::f64::consts as k;
        let c = ohsl::constant::I;
        cx.check(c.real == 0.0 && c.imag == 1.0, "constant I is not the imaginary unit");
        for (name, v, e) in [("PI", ohsl::constant::PI, k::PI), ("PI_2", ohsl::constant::PI_2, k::FRAC_PI_2), ("PI_4", ohsl::constant::PI_4, k::FRAC_PI_4),
            ("FRAC_1_PI", ohsl::constant::FRAC_1_PI, k::FRAC_1_PI), ("FRAC_2_PI", ohsl::constant::FRAC_2_PI, k::FRAC_2_PI), ("TAU", ohsl::constant::TAU, k::TAU),
            ("SQRTPI", ohsl::constant::SQRTPI, 1.772453850905516_f64), ("SQRT2", ohsl::constant::SQRT2, k::SQRT_2), ("SQRT1_2", ohsl::constant::SQRT1_2, k::FRAC_1_SQRT_2),
            ("E", ohsl::constant::E, k::E), ("EULER", ohsl::constant::EULER, 0.5772156649015329_f64)] {
            cx.check(v.to_bits() == e.to_bits(), &format!("constant {} = {:e} is not the double nearest to its definition ({:e})", name, v, e)); }
    }
    let r = cabs(z);
    let tol = 1e-9;
    let nonzero = r > 0.0;
    // distance from the branch points, used to exclude ill-conditioned neighbourhoods
    let d1 = cabs(z - one).min(cabs(z + one));
    let di = cabs(z - Cmplx::new(0.0, 1.0)).min(cabs(z + Cmplx::new(0.0, 1.0)));
    if nonzero {
        let s = get("sqrt");
        cx.check(close(s * s, z, tol), "sqrt(z)^2 != z");
        cx.check(s.real >= 0.0, "Re sqrt z < 0 (not the principal branch)");
        let l = get("ln");
        cx.check(l.imag > -PI - 1e-15 && l.imag <= PI + 1e-15, "Im ln z outside (-pi, pi]");
        cx.check(close(l.exp(), z, tol), "exp(ln z) != z");
        cx.check((l.real - r.ln()).abs() <= tol * (1.0 + r.ln().abs()), "Re ln z != ln |z|");
        cx.check(close(get("pow"), (w * l).exp(), 1e-8 * (1.0 + cabs(w * l))), "z^w != exp(w ln z)");
        cx.check(close(get("powf"), (l * w.real).exp(), 1e-8 * (1.0 + cabs(l * w.real))), "z^x != exp(x ln z)");
        cx.check(close(get("polar"), z, tol), "polar(|z|, arg z) != z");
        if cabs(w) > 0.0 && cabs(w.ln()) > 1e-3 { cx.check(close(get("log"), l / w.ln(), 1e-8), "log_b z != ln z / ln b"); }
    }
    // series
    let e = r.exp();
    cx.check(cabs(get("exp") - series(z, |k| 1.0 / fact(k))) <= 1e-11 * e, "exp differs from its series");
    cx.check(cabs(get("sin") - series(z, |k| if k % 2 == 1 { (if k % 4 == 1 { 1.0 } else { -1.0 }) / fact(k) } else { 0.0 })) <= 1e-11 * e, "sin differs from its series");
    cx.check(cabs(get("cos") - series(z, |k| if k % 2 == 0 { (if k % 4 == 0 { 1.0 } else { -1.0 }) / fact(k) } else { 0.0 })) <= 1e-11 * e, "cos differs from its series");
    cx.check(cabs(get("sinh") - series(z, |k| if k % 2 == 1 { 1.0 / fact(k) } else { 0.0 })) <= 1e-11 * e, "sinh differs from its series");
    cx.check(cabs(get("cosh") - series(z, |k| if k % 2 == 0 { 1.0 / fact(k) } else { 0.0 })) <= 1e-11 * e, "cosh differs from its series");
    // quotients and reciprocals
    let (s, c, sh, ch) = (get("sin"), get("cos"), get("sinh"), get("cosh"));
    let big = 1e-9 * e * e;
    cx.check(cabs(s * s + c * c - one) <= big, "sin^2 + cos^2 != 1");
    cx.check(cabs(ch * ch - sh * sh - one) <= big, "cosh^2 - sinh^2 != 1");
    if cabs(c) > 1e-6 { cx.check(close(get("tan") * c, s, 1e-9), "tan != sin / cos"); cx.check(close(get("sec") * c, one, 1e-9), "sec is not the reciprocal of cos"); }
    if cabs(s) > 1e-6 { cx.check(close(get("csc") * s, one, 1e-9), "csc is not the reciprocal of sin"); if cabs(c) > 1e-6 { cx.check(close(get("cot") * get("tan"), one, 1e-9), "cot is not the reciprocal of tan"); } }
    if cabs(ch) > 1e-6 { cx.check(close(get("tanh") * ch, sh, 1e-9), "tanh != sinh / cosh"); cx.check(close(get("sech") * ch, one, 1e-9), "sech is not the reciprocal of cosh"); }
    if cabs(sh) > 1e-6 { cx.check(close(get("csch") * sh, one, 1e-9), "csch is not the reciprocal of sinh"); if cabs(ch) > 1e-6 { cx.check(close(get("coth") * get("tanh"), one, 1e-9), "coth is not the reciprocal of tanh"); } }
    // right inverses and principal ranges (away from the branch points, where the maps are ill-conditioned)
    let cond = 1e-8 / d1.min(di).min(1.0).max(1e-3);
    let a = get("asin"); cx.check(close(a.sin(), z, cond), "sin(asin z) != z"); cx.check(a.real >= -PI / 2.0 - 1e-9 && a.real <= PI / 2.0 + 1e-9, "Re asin z outside [-pi/2, pi/2]");
    let a = get("acos"); cx.check(close(a.cos(), z, cond), "cos(acos z) != z"); cx.check(a.real >= -1e-9 && a.real <= PI + 1e-9, "Re acos z outside [0, pi]");
    if di > 1e-3 { let a = get("atan"); cx.check(close(a.tan(), z, cond), "tan(atan z) != z"); cx.check(a.real.abs() <= PI / 2.0 + 1e-9, "Re atan z outside [-pi/2, pi/2] (not the principal branch)"); }
    let a = get("asinh"); cx.check(close(a.sinh(), z, cond), "sinh(asinh z) != z"); cx.check(a.imag.abs() <= PI / 2.0 + 1e-9, "Im asinh z outside [-pi/2, pi/2] (not the principal branch)");
    let a = get("acosh"); cx.check(close(a.cosh(), z, cond), "cosh(acosh z) != z");
    // principal branch of acosh: Re >= 0, Im in (-pi, pi] (a right inverse alone does not fix the branch: -acosh z is one too)
    cx.check(a.real >= -1e-9 * (1.0 + r), "Re acosh z < 0 (not the principal branch)"); cx.check(a.imag > -PI - 1e-15 && a.imag <= PI + 1e-15, "Im acosh z outside (-pi, pi]");
    if d1 > 1e-3 { let a = get("atanh"); cx.check(close(a.tanh(), z, cond), "tanh(atanh z) != z"); cx.check(a.imag.abs() <= PI / 2.0 + 1e-9, "Im atanh z outside [-pi/2, pi/2] (not the principal branch)"); }
    // conjugate symmetry f(conj z) = conj f(z), which holds off the branch cuts (strictly inside a quadrant): it pins the
    // branch on both sides of every cut without knowing a closed form
    if z.real != 0.0 && z.imag != 0.0 && z.real.abs() > 1e-9 && z.imag.abs() > 1e-9 {
        let zc = Cmplx::new(z.real, -z.imag);
        for (name, v, vc) in [("asin", get("asin"), zc.asin()), ("acos", get("acos"), zc.acos()), ("atan", get("atan"), zc.atan()), ("asinh", get("asinh"), zc.asinh()), ("acosh", get("acosh"), zc.acosh()), ("atanh", get("atanh"), zc.atanh()), ("sqrt", get("sqrt"), zc.sqrt()), ("ln", get("ln"), zc.ln())] {
            if v.real.is_finite() && v.imag.is_finite() { cx.check(cabs(Cmplx::new(vc.real, -vc.imag) - v) <= 1e-9 * (1.0 + cabs(v)) / d1.min(di).min(1.0).max(1e-3), &format!("{}(conj z) != conj {}(z) off the branch cuts", name, name)); } }
    }
    // small arguments (1e-3 <= |z| <= 1/2): the odd functions f(z) = z + O(z^3) and their inverses are held to a
    // RELATIVE accuracy, against their Maclaurin series and as right inverses (an absolute tolerance would let an
    // error of relative size |z|^4 pass unseen near the origin)
    if r >= 1e-3 && r <= 0.5 {
        let odd = |k: usize, alt: bool| -> Option<(usize, f64)> { if k % 2 == 1 { Some(((k - 1) / 2, if alt && (k % 4 == 3) { -1.0 } else { 1.0 })) } else { None } };
        let binom = |m: usize| -> f64 { (1..=m).map(|j| (2 * j - 1) as f64 / (2 * j) as f64).product::<f64>() };   // (2m)! / (4^m m!^2)
        let rel = |cx: &mut Ctx, name: &str, v: Cmplx, e: Cmplx| cx.check(cabs(v - e) <= 1e-10 * cabs(e), &format!("{} differs from its series near the origin by more than 1e-10 relative", name));
        rel(cx, "atanh", get("atanh"), series(z, |k| odd(k, false).map(|(_, sg)| sg / k as f64).unwrap_or(0.0)));
        rel(cx, "atan", get("atan"), series(z, |k| odd(k, true).map(|(_, sg)| sg / k as f64).unwrap_or(0.0)));
        rel(cx, "asin", get("asin"), series(z, |k| odd(k, false).map(|(m, sg)| sg * binom(m) / k as f64).unwrap_or(0.0)));
        rel(cx, "asinh", get("asinh"), series(z, |k| odd(k, true).map(|(m, sg)| sg * binom(m) / k as f64).unwrap_or(0.0)));
        rel(cx, "sin", get("sin"), series(z, |k| odd(k, true).map(|(_, sg)| sg / fact(k)).unwrap_or(0.0)));
        rel(cx, "sinh", get("sinh"), series(z, |k| odd(k, false).map(|(_, sg)| sg / fact(k)).unwrap_or(0.0)));
        for (name, v) in [("tanh(atanh z)", get("atanh").tanh()), ("tan(atan z)", get("atan").tan()), ("sin(asin z)", get("asin").sin()), ("sinh(asinh z)", get("asinh").sinh())] {
            cx.check(cabs(v - z) <= 1e-10 * r, &format!("{} != z near the origin (relative error {:e})", name, cabs(v - z) / r)); }
    }
    // reciprocal-argument inverses: on the stated domain 1e-3 <= |z| (for smaller |z| the argument 1/z
    // exceeds 1e3 and sqrt(1 - w^2) + i w cancels: rounding, class F, outside the claim)
    if nonzero && r >= 1e-3 {
        let iz = one / z;
        let d1i = cabs(iz - one).min(cabs(iz + one)); let dii = cabs(iz - Cmplx::new(0.0, 1.0)).min(cabs(iz + Cmplx::new(0.0, 1.0)));
        let condi = 1e-8 / d1i.min(dii).min(1.0).max(1e-3);
        cx.check(close(get("asec").cos() * z, one, condi * (1.0 + r)), "sec(asec z) != z");
        cx.check(close(get("acsc").sin() * z, one, condi * (1.0 + r)), "csc(acsc z) != z");
        if dii > 1e-3 { cx.check(close(get("acot").tan() * z, one, condi * (1.0 + r)), "cot(acot z) != z"); }
        cx.check(close(get("asech").cosh() * z, one, condi * (1.0 + r)), "sech(asech z) != z");
        cx.check(get("asech").real >= -1e-9 * (1.0 + 1.0 / r), "Re asech z < 0 (not the principal branch)");
        // principal ranges of the reciprocal-argument inverses (f^-1(1/z) with the principal f^-1): a right inverse alone does not
        // fix the branch (pi - asin, atan + pi, acosh + 2 pi i ... are right inverses too)
        { let a = get("asec"); cx.check(a.real >= -1e-9 && a.real <= PI + 1e-9, "Re asec z outside [0, pi] (not the principal branch)"); }
        { let a = get("acsc"); cx.check(a.real.abs() <= PI / 2.0 + 1e-9, "Re acsc z outside [-pi/2, pi/2] (not the principal branch)"); }
        if dii > 1e-3 { let a = get("acot"); cx.check(a.real.abs() <= PI / 2.0 + 1e-9, "Re acot z outside [-pi/2, pi/2] (not the principal branch)"); }
        { let a = get("asech"); cx.check(a.imag > -PI - 1e-15 && a.imag <= PI + 1e-15, "Im asech z outside (-pi, pi]"); }
        { let a = get("acsch"); cx.check(a.imag.abs() <= PI / 2.0 + 1e-9, "Im acsch z outside [-pi/2, pi/2] (not the principal branch)"); }
        if d1i > 1e-3 { let a = get("acoth"); cx.check(a.imag.abs() <= PI / 2.0 + 1e-9, "Im acoth z outside [-pi/2, pi/2] (not the principal branch)"); }
        cx.check(close(get("acsch").sinh() * z, one, condi * (1.0 + r)), "csch(acsch z) != z");
        if d1i > 1e-3 { cx.check(close(get("acoth").tanh() * z, one, condi * (1.0 + r)), "coth(acoth z) != z"); }
    }
    // real-axis reduction
    if z.imag == 0.0 && !z.imag.is_sign_negative() {
        let x = z.real;
        for (n, f) in [("exp", x.exp()), ("sin", x.sin()), ("cos", x.cos()), ("sinh", x.sinh()), ("cosh", x.cosh())] {
            let v = get(n); cx.check(v.real == f && v.imag == 0.0, &format!("{} does not reduce to the real function on the real axis", n)); }
        if x > 0.0 { let v = get("ln"); cx.check((v.real - x.ln()).abs() <= 1e-15 * (1.0 + x.ln().abs()) && v.imag == 0.0, "ln does not reduce to the real logarithm"); let v = get("sqrt"); cx.check((v.real - x.sqrt()).abs() <= 1e-15 * x.sqrt() && v.imag == 0.0, "sqrt does not reduce to the real square root"); }
        if x.abs() <= 1.0 { let v = get("asin"); cx.check((v.real - x.asin()).abs() <= 1e-7 && v.imag.abs() <= 1e-7, "asin does not reduce to the real arcsine on [-1, 1]");
                            let v = get("acos"); cx.check((v.real - x.acos()).abs() <= 1e-7 && v.imag.abs() <= 1e-7, "acos does not reduce to the real arccosine on [-1, 1]"); }
        let v = get("atan"); cx.check((v.real - x.atan()).abs() <= 1e-9 && v.imag.abs() <= 1e-9, "atan does not reduce to the real arctangent");
    }
    vals.iter().map(|v| v.1.wr()).collect::<Vec<_>>().join(" ")
}

pub fn exec(op: &str, t: &mut Toks, cx: &mut Ctx) -> Option<String> {
    match op { "cxfun" => Some(cxfun(t, cx)), _ => None }
}

pub fn gen(rng: &mut Rng, tier: Tier, out: &mut Vec<String>) {
    let npts = if tier == Tier::Quick { 200 } else { 5000 };
    let wgen = |rng: &mut Rng| { let m = 3.0 * rng.unit(); let a = 2.0 * PI * rng.unit(); if rng.chance(30) { Cmplx::new(m * if rng.chance(50) { -1.0 } else { 1.0 }, 0.0) } else { Cmplx::new(m * a.cos(), m * a.sin()) } };
    let mut push = |out: &mut Vec<String>, rng: &mut Rng, kind: &str, z: Cmplx| { let w = wgen(rng); out.push(format!("cxfun {} {} {}", kind, z.wr(), w.wr())); };
    // every quadrant, log-uniform modulus in [1e-3, 10]
    for _ in 0..npts {
        let m = 10f64.powf(-3.0 + 4.0 * rng.unit()); let a = 2.0 * PI * rng.unit() - PI;
        push(out, rng, "plane", Cmplx::new(m * a.cos(), m * a.sin()));
    }
    // both axes, with +0.0 and -0.0 parts (both sides of the cuts that lie on the axes)
    for k in 0..npts / 4 {
        let m = 10f64.powf(-3.0 + 4.0 * rng.unit()) * if k % 2 == 0 { 1.0 } else { -1.0 };
        push(out, rng, "real-axis+0", Cmplx::new(m, 0.0));
        push(out, rng, "real-axis-0", Cmplx::new(m, -0.0));
        push(out, rng, "imag-axis+0", Cmplx::new(0.0, m));
        push(out, rng, "imag-axis-0", Cmplx::new(-0.0, m));
    }
    // points adjacent to the branch points +-1, +-i, 0 and on both sides of each cut
    for k in 0..npts / 4 {
        let eps = 10f64.powf(-8.0 + 6.0 * rng.unit());
        let a = 2.0 * PI * rng.unit();
        let c = [Cmplx::new(1.0, 0.0), Cmplx::new(-1.0, 0.0), Cmplx::new(0.0, 1.0), Cmplx::new(0.0, -1.0), Cmplx::new(0.0, 0.0)][k % 5];
        push(out, rng, "near-branch-point", c + Cmplx::new(eps * a.cos(), eps * a.sin()));
        // just above / below the real cuts |x| > 1 and the imaginary cuts |y| > 1
        let x = (1.0 + 9.0 * rng.unit()) * if k % 2 == 0 { 1.0 } else { -1.0 };
        let side = if k % 4 < 2 { eps } else { -eps };
        push(out, rng, "beside-real-cut", Cmplx::new(x, side));
        push(out, rng, "beside-imag-cut", Cmplx::new(side, x));
        let u = rng.unit(); push(out, rng, "beside-negative-real-axis", Cmplx::new(-x.abs() * u, side));
    }
    for z in [Cmplx::new(0.0, 0.0), Cmplx::new(1.0, 0.0), Cmplx::new(-1.0, 0.0), Cmplx::new(0.0, 1.0), Cmplx::new(0.0, -1.0), Cmplx::new(-0.0, 0.0), Cmplx::new(0.0, -0.0)] { push(out, rng, "special", z); }
}
