//! Scalar abstraction used by the generic executors: the three element types the
//! correspondence runs the generic ohsl code at.
use crate::q::Q;
use crate::wire::*;
use ohsl::traits::{Number, Signed};
use ohsl::{Cmplx, Matrix, Vector};
use std::fmt::Debug;

pub trait Sc: Number + Signed + Copy + PartialOrd + Debug + W + 'static {
    const TAG: &'static str;
    /// generator: `kind` 0 = small exact values (many zeros/sign changes), 1 = general magnitude
    fn gen(rng: &mut Rng, zero_pct: usize, kind: usize) -> Self;
    fn same(&self, o: &Self) -> bool;
    fn is_exact() -> bool;
    fn from_i(n: i64) -> Self;
    /// magnitude as f64 (for float oracles)
    fn mag64(&self) -> f64;
    /// (real part, imaginary part) as f64 (imaginary part 0 for the real types)
    fn parts64(&self) -> (f64, f64) { (self.mag64(), 0.0) }
    fn finite(&self) -> bool;
    /// read-only norm view of a matrix inside a history (`Matrix<f64>` only): (output text, oracle failures)
    fn mat_norms_view(_m: &ohsl::Matrix<Self>, _p: f64) -> Option<(String, Vec<String>)> { None }
}
impl Sc for Q {
    const TAG: &'static str = "q";
    fn gen(rng: &mut Rng, zero_pct: usize, _kind: usize) -> Q { rng.q_small(zero_pct) }
    fn same(&self, o: &Q) -> bool { self == o }
    fn is_exact() -> bool { true }
    fn from_i(n: i64) -> Q { Q::int(n as i128) }
    fn mag64(&self) -> f64 { self.to_f64().abs() }
    fn parts64(&self) -> (f64, f64) { (self.to_f64(), 0.0) }
    fn finite(&self) -> bool { true }
}
fn bits_eq(a: f64, b: f64) -> bool { a.to_bits() == b.to_bits() || (a.is_nan() && b.is_nan()) }
impl Sc for f64 {
    const TAG: &'static str = "f";
    fn gen(rng: &mut Rng, zero_pct: usize, kind: usize) -> f64 {
        if kind == 0 { rng.f_dyadic(zero_pct) } else if rng.chance(zero_pct) { 0.0 } else { rng.f_general(if kind == 1 { 1.0 } else if kind == 2 { 3.0 } else { 12.0 }) }
    }
    fn same(&self, o: &f64) -> bool { bits_eq(*self, *o) }
    fn is_exact() -> bool { false }
    fn from_i(n: i64) -> f64 { n as f64 }
    fn mag64(&self) -> f64 { self.abs() }
    fn parts64(&self) -> (f64, f64) { (*self, 0.0) }
    fn finite(&self) -> bool { self.is_finite() }
    fn mat_norms_view(m: &ohsl::Matrix<f64>, p: f64) -> Option<(String, Vec<String>)> {
        use crate::wire::guarded;
        let vals = [guarded(|| m.norm_1()), guarded(|| m.norm_inf()), guarded(|| m.norm_p(p)), guarded(|| m.norm_frob()), guarded(|| m.norm_max())];
        let (r, c) = (m.rows(), m.cols());
        let mut fails = Vec::new();
        // entrywise definitions through the index operator (what the matrix IS, whatever its buffer holds)
        let ent: Vec<f64> = (0..r).flat_map(|i| (0..c).map(move |j| (i, j))).map(|(i, j)| m[(i, j)]).collect();
        if ent.iter().all(|x| x.is_finite()) {
            let n1 = (0..c).map(|j| (0..r).map(|i| m[(i, j)].abs()).sum::<f64>()).fold(0.0, f64::max);
            let ni = (0..r).map(|i| (0..c).map(|j| m[(i, j)].abs()).sum::<f64>()).fold(0.0, f64::max);
            let nm = ent.iter().map(|x| x.abs()).fold(0.0, f64::max);
            let fr = ent.iter().map(|x| x * x).sum::<f64>().sqrt();
            let sp: f64 = ent.iter().map(|x| x.abs().powf(p)).sum::<f64>();
            let np = sp.powf(1.0 / p);
            let nn = (r * c) as f64 + 4.0;
            let close = |x: f64, y: f64| (x - y).abs() <= 4.0 * nn * f64::EPSILON * y.abs().max(f64::MIN_POSITIVE) || (x.is_nan() && y.is_nan()) || x == y;
            if !matches!(vals[0], Ok(x) if close(x, n1)) { fails.push("history: norm_1 != max column sum of the indexed entries".to_string()); }
            if !matches!(vals[1], Ok(x) if close(x, ni)) { fails.push("history: norm_inf != max row sum of the indexed entries".to_string()); }
            if !matches!(vals[4], Ok(x) if x == nm) { fails.push("history: norm_max != max |a_ij| of the indexed entries".to_string()); }
            if !matches!(vals[3], Ok(x) if close(x, fr)) { fails.push("history: norm_frob != sqrt(sum a_ij^2) of the indexed entries".to_string()); }
            if p >= 1.0 && np.is_finite() && sp.is_finite() { if !matches!(vals[2], Ok(x) if (x - np).abs() <= 64.0 * nn * f64::EPSILON * np.max(f64::MIN_POSITIVE) || x == np) { fails.push("history: norm_p != (sum |a_ij|^p)^(1/p) of the indexed entries".to_string()); } }
        }
        let out: Vec<String> = vals.iter().map(|v| match v { Ok(x) => crate::wire::f64_hex(*x), Err(c) => format!("!{}", c) }).collect();
        Some((out.join(" "), fails))
    }
}
impl Sc for Cmplx {
    const TAG: &'static str = "c";
    fn gen(rng: &mut Rng, zero_pct: usize, kind: usize) -> Cmplx {
        // purely real (25%) and purely imaginary (12%) values are over-represented: special-case paths of the
        // complex operators (axis-aligned divisors, ties in one component) live there
        let re = f64::gen(rng, zero_pct, kind);
        let im = if rng.chance(25) { 0.0 } else { f64::gen(rng, zero_pct, kind) };
        if im != 0.0 && rng.chance(12) { Cmplx::new(0.0, im) } else { Cmplx::new(re, im) }
    }
    fn same(&self, o: &Cmplx) -> bool { bits_eq(self.real, o.real) && bits_eq(self.imag, o.imag) }
    fn is_exact() -> bool { false }
    fn from_i(n: i64) -> Cmplx { Cmplx::new(n as f64, 0.0) }
    fn mag64(&self) -> f64 { self.real.hypot(self.imag) }   // hypot: no spurious overflow / underflow of re^2 + im^2
    fn parts64(&self) -> (f64, f64) { (self.real, self.imag) }
    fn finite(&self) -> bool { self.real.is_finite() && self.imag.is_finite() }
}

/// dense reference: plain rows of values
pub type Rows<T> = Vec<Vec<T>>;

pub fn rd_mat<T: Sc>(t: &mut Toks) -> Matrix<T> {
    let r = t.usize();
    let c = t.usize();
    let mut m = Matrix::<T>::new(r, c, T::zero());
    for i in 0..r { for j in 0..c { m[(i, j)] = t.get(); } }
    m
}
pub fn wr_mat<T: Sc>(m: &Matrix<T>) -> String {
    let mut s = format!("{} {}", m.rows(), m.cols());
    // numel() entries in storage order through the raw index operator
    for i in 0..m.rows() { for j in 0..m.cols() { s.push(' '); s.push_str(&m[(i, j)].wr()); } }
    s
}
pub fn mat_rows<T: Sc>(m: &Matrix<T>) -> Rows<T> {
    (0..m.rows()).map(|i| (0..m.cols()).map(|j| m[(i, j)]).collect()).collect()
}
pub fn rows_mat<T: Sc>(r: &Rows<T>, cols: usize) -> Matrix<T> {
    let mut m = Matrix::<T>::new(r.len(), cols, T::zero());
    for i in 0..r.len() { for j in 0..cols { m[(i, j)] = r[i][j]; } }
    m
}
pub fn gen_mat_str<T: Sc>(rng: &mut Rng, r: usize, c: usize, zero_pct: usize, kind: usize) -> String {
    let mut s = format!("{} {}", r, c);
    for _ in 0..r * c { s.push(' '); s.push_str(&T::gen(rng, zero_pct, kind).wr()); }
    s
}
pub fn gen_vec_str<T: Sc>(rng: &mut Rng, n: usize, zero_pct: usize, kind: usize) -> String {
    let mut s = format!("{}", n);
    for _ in 0..n { s.push(' '); s.push_str(&T::gen(rng, zero_pct, kind).wr()); }
    s
}
pub fn rd_vector<T: Sc>(t: &mut Toks) -> Vector<T> { Vector::create(t.vec::<T>()) }
pub fn wr_vector<T: Sc>(v: &Vector<T>) -> String { wr_vec(&v.vec) }
pub fn same_vec<T: Sc>(a: &[T], b: &[T]) -> bool { a.len() == b.len() && a.iter().zip(b).all(|(x, y)| x.same(y)) }
pub fn same_mat<T: Sc>(a: &Matrix<T>, b: &Matrix<T>) -> bool {
    a.rows() == b.rows() && a.cols() == b.cols() && (0..a.rows()).all(|i| (0..a.cols()).all(|j| a[(i, j)].same(&b[(i, j)])))
}

/// orders / lengths beyond the exhaustively covered small ones, straddling the thresholds a blocked, unrolled or chunked
/// implementation would introduce (multiples of 4, 8, 16, 32 and their neighbours)
pub const BIG: [usize; 14] = [11, 13, 15, 16, 17, 20, 24, 25, 31, 32, 33, 40, 48, 65];
pub fn big(rng: &mut Rng, cap: usize) -> usize { loop { let n = BIG[rng.below(BIG.len())]; if n <= cap { return n; } } }
