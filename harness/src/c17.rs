//! C17 (Newton iteration) and C18 (finite-difference Jacobian).
use crate::expr::*;
use crate::sc::*;
use crate::wire::*;
use crate::{Ctx, Tier};
use ohsl::{Cmplx, Matrix, Newton, Vector};
use std::cell::RefCell;

trait Re { fn re(&self) -> f64; fn mag(&self) -> f64; }
impl Re for f64 { fn re(&self) -> f64 { *self } fn mag(&self) -> f64 { self.abs() } }
impl Re for Cmplx { fn re(&self) -> f64 { self.real } fn mag(&self) -> f64 { self.real.hypot(self.imag) } }

fn vapply<T: Ev + Re>(f: &VFn<T>, x: &[T]) -> Vec<T> {
    let mut r: Vec<T> = f.comps.iter().map(|c| c.eval(x)).collect();
    if let Some(c) = f.ext { if x.len() > 0 && x[0].re() > c { r.push(T::from_f(1.0)); } }
    r
}
fn wr_out<T: W>(r: &Result<Result<T, T>, &'static str>) -> String {
    match r { Ok(Ok(x)) => format!("ok {}", x.wr()), Ok(Err(x)) => format!("err {}", x.wr()), Err(c) => format!("!{}", c) }
}
fn nearest<T: Re + Copy + core::ops::Sub<Output = T>>(x: T, roots: &[T]) -> f64 { roots.iter().map(|r| (x - *r).mag()).fold(f64::INFINITY, f64::min) }

/// scalar Newton, generic over f64 / Cmplx through small adaptor closures
fn newton_scalar<T: Ev + Re + Sc>(t: &mut Toks, cx: &mut Ctx, run: impl Fn(&Newton<T>, &dyn Fn(T) -> T) -> Result<T, T>) -> String {
    let guess: T = t.get();
    let tol: f64 = t.get();
    let delta: f64 = t.get();
    let max_iter = t.usize();
    let family = t.next().to_string();
    let roots: Vec<T> = t.vec();
    let e: Expr<T> = Expr::parse(t);
    cx.meta("tag", T::TAG); cx.meta("family", &family); cx.meta("max_iter", max_iter);
    // (constructed with another guess and then edited: covers both `new` and the `guess` setter)
    let mut nw = Newton::new(T::zero());
    nw.guess(guess);
    nw.tolerance(tol); nw.delta(delta); nw.iterations(max_iter);
    let before = nw.parameters();
    cx.check(before.3.same(&guess), "guess() did not replace the initial guess");
    let trace: RefCell<Vec<T>> = RefCell::new(Vec::new());
    let f = |x: T| { trace.borrow_mut().push(x); e.eval(&[x]) };
    let r1 = guarded(|| run(&nw, &f));
    let tr1 = trace.borrow().clone();
    trace.borrow_mut().clear();
    let r2 = guarded(|| run(&nw, &f));
    let after = nw.parameters();
    cx.check(before.0.to_bits() == after.0.to_bits() && before.1.to_bits() == after.1.to_bits() && before.2 == after.2 && before.3.same(&after.3), "solve changed the solver's configuration");
    cx.check(wr_out(&r1) == wr_out(&r2) && same_vec(&tr1, &trace.borrow()), "a repeated call gave a different result");
    let calls = tr1.len();
    // "bounded number of function evaluations": at most 3 per configured iteration (the exact pattern is compared with the model, not demanded here)
    cx.check(calls <= 3 * max_iter, "more than 3 function evaluations per configured iteration");
    cx.meta("iters", calls / 3);
    cx.meta("result", match &r1 { Ok(Ok(_)) => "ok", Ok(Err(_)) => "err", Err(_) => "panic" });
    match &r1 {
        Ok(Ok(x)) => { cx.check(calls >= 3, "success without any iteration");
            cx.check(x.finite(), "success reported with a non-finite point");
            if family == "rootfree" { cx.fail("success reported for a function that has no root"); }
            if family.starts_with("basin") { let d = nearest(*x, &roots); cx.check(d <= 100.0 * tol + 1e-12 * (1.0 + x.mag()), &format!("success reported at distance {:e} from the nearest root (tol {:e})", d, tol)); } }
        Ok(Err(xe)) => { cx.check(calls >= max_iter, "failure reported before the iteration limit was reached");
            // "failure carries the last iterate": the Newton update of the last evaluated base point c (the last of each triple
            // c+d, c-d, c), with the central difference quotient of the values the function returned; 1e-6 relative leaves room
            // for any reasonable derivative estimate from those values
            if calls >= 3 && calls % 3 == 0 { let (cp, cm, c0) = (tr1[calls - 3], tr1[calls - 2], tr1[calls - 1]);
                let (fp, fm, f0) = (e.eval(&[cp]), e.eval(&[cm]), e.eval(&[c0]));
                let upd = c0 - f0 / ((fp - fm) / (cp - cm));
                if upd.finite() && xe.finite() { cx.check((*xe - upd).mag() <= 1e-6 * (1.0 + upd.mag()), &format!("failure does not carry the last iterate (carried value {:e} away from the Newton update of the last evaluated point)", (*xe - upd).mag())); } }
            else if max_iter == 0 { cx.check(xe.same(&guess), "budget 0: failure does not carry the guess"); }
            if family.starts_with("basin") && max_iter >= 20 && tol >= 1e-12 { cx.fail("guess inside the basin of quadratic convergence but failure reported"); } }
        Err(c) => cx.fail(format!("solve panicked ({})", c)),
    }
    if r1.is_err() { return wr_out(&r1); }
    format!("{} | {} {}", wr_out(&r1), calls, wr_vec(&tr1))
}

/// system Newton: finite-difference or supplied Jacobian
fn newton_sys<T: Ev + Re + Sc>(t: &mut Toks, cx: &mut Ctx,
    run_fd: impl Fn(&Newton<Vector<T>>, &dyn Fn(Vector<T>) -> Vector<T>) -> Result<Vector<T>, Vector<T>>,
    run_ex: impl Fn(&Newton<Vector<T>>, &dyn Fn(Vector<T>) -> Vector<T>, &dyn Fn(Vector<T>) -> Matrix<T>) -> Result<Vector<T>, Vector<T>>) -> String {
    let guess: Vec<T> = t.vec();
    let tol: f64 = t.get();
    let delta: f64 = t.get();
    let max_iter = t.usize();
    let family = t.next().to_string();
    let root: Vec<T> = t.vec();
    let f: VFn<T> = VFn::parse(t);
    let mode = t.next().to_string();
    let n = guess.len();
    let jac: Vec<Expr<T>> = if mode == "exact" { let k = t.usize(); (0..k).map(|_| Expr::parse(t)).collect() } else { vec![] };
    let jrows = if n > 0 { jac.len() / n.max(1) } else { 0 };
    cx.meta("tag", T::TAG); cx.meta("family", &family); cx.meta("mode", &mode); cx.meta("n", n); cx.meta("max_iter", max_iter);
    let mut nw = Newton::new(Vector::create(guess.clone()));
    nw.tolerance(tol); nw.delta(delta); nw.iterations(max_iter);
    let trace: RefCell<Vec<Vec<T>>> = RefCell::new(Vec::new());
    let jtrace: RefCell<usize> = RefCell::new(0);
    let func = |x: Vector<T>| { trace.borrow_mut().push(x.vec.clone()); Vector::create(vapply(&f, &x.vec)) };
    let jf = |x: Vector<T>| { *jtrace.borrow_mut() += 1; let mut m = Matrix::<T>::new(jrows, n, T::zero()); for i in 0..jrows { for j in 0..n { m[(i, j)] = jac[i * n + j].eval(&x.vec); } } m };
    let go = || if mode == "exact" { run_ex(&nw, &func, &jf) } else { run_fd(&nw, &func) };
    let r1 = guarded(|| go());
    let tr1 = trace.borrow().clone(); let j1 = *jtrace.borrow();
    trace.borrow_mut().clear(); *jtrace.borrow_mut() = 0;
    let r2 = guarded(|| go());
    let wv = |r: &Result<Result<Vector<T>, Vector<T>>, &'static str>| match r { Ok(Ok(x)) => format!("ok {}", wr_vector(x)), Ok(Err(x)) => format!("err {}", wr_vector(x)), Err(c) => format!("!{}", c) };
    cx.check(wv(&r1) == wv(&r2), "a repeated call gave a different result");
    let calls = tr1.len();
    let per_iter = if mode == "exact" { 1 } else { n + 2 };
    cx.meta("result", match &r1 { Ok(Ok(_)) => "ok", Ok(Err(_)) => "err", Err(_) => "panic" });
    if r1.is_ok() {
        cx.check(calls <= per_iter * max_iter, &format!("{} evaluations: more than {} per configured iteration", calls, per_iter));
        if mode == "exact" { cx.check(j1 == calls, "Jacobian not evaluated once per iteration"); }
        cx.meta("iters", calls / per_iter);
    }
    match &r1 {
        Ok(Ok(x)) => { cx.check(x.vec.iter().all(|z| z.finite()), "success reported with a non-finite point");
            if family.starts_with("basin") && x.size() == root.len() { let d = (0..n).map(|i| (x[i] - root[i]).mag()).fold(0.0, f64::max);
            cx.check(d <= 100.0 * tol + 1e-10, &format!("success reported at distance {:e} from the root (tol {:e})", d, tol)); } }
        Ok(Err(xe)) => { cx.check(calls >= max_iter, "failure reported before the iteration limit was reached");
            // "failure carries the last iterate": with c the last base point, J(c) (c - carried) = F(c) up to the accuracy of the
            // Jacobian estimate (analytic derivative of the generated expression used as reference)
            if max_iter == 0 { cx.check(same_vec(&xe.vec, &guess), "budget 0: failure does not carry the guess"); }
            else if calls >= per_iter && calls % per_iter == 0 && xe.size() == n && f.ext.is_none() {
                let c = &tr1[calls - per_iter]; let fc = vapply(&f, c);
                if c.len() == n && fc.len() == n && fc.iter().all(|z| z.finite()) && xe.vec.iter().all(|z| z.finite()) {
                    let mut worst = 0.0f64; let mut scale = 0.0f64; let mut okj = true;
                    for i in 0..n { let mut acc = T::zero(); let mut sc = fc[i].mag();
                        for j in 0..n { match f.comps[i].diff(j) { Some(d) => { let dj = d.eval(c); let t = dj * (c[j] - xe[j]); acc += t; sc += t.mag(); } None => { okj = false; } } }
                        worst = worst.max((acc - fc[i]).mag()); scale = scale.max(sc); }
                    if okj && worst.is_finite() { cx.check(worst <= 1e-4 * scale + 1e-9, &format!("failure does not carry the last iterate: J(c)(c - carried) differs from F(c) by {:e} (scale {:e})", worst, scale)); } } }
            if family.starts_with("basin") && max_iter >= 20 && tol >= 1e-10 { cx.fail("guess inside the basin of quadratic convergence but failure reported"); } }
        Err(_) => { cx.check(family == "badsize" || n == 0 || family == "singular", "system solve panicked on a well-formed problem"); }
    }
    if r1.is_err() { return wv(&r1); }
    let mut tr = format!("{}", tr1.len()); for p in &tr1 { tr.push(' '); tr.push_str(&wr_vec(p)); }
    format!("{} | {}", wv(&r1), tr)
}

fn jacobian<T: Ev + Re + Sc>(t: &mut Toks, cx: &mut Ctx, run: impl Fn(Vector<T>, &dyn Fn(Vector<T>) -> Vector<T>, f64) -> Matrix<T>) -> String {
    let point: Vec<T> = t.vec();
    let delta: f64 = t.get();
    let family = t.next().to_string();
    let f: VFn<T> = VFn::parse(t);
    let n = point.len();
    cx.meta("tag", T::TAG); cx.meta("family", &family);
    let trace: RefCell<Vec<Vec<T>>> = RefCell::new(Vec::new());
    let outs: RefCell<Vec<Vec<T>>> = RefCell::new(Vec::new());
    let func = |x: Vector<T>| { trace.borrow_mut().push(x.vec.clone()); let r = vapply(&f, &x.vec); outs.borrow_mut().push(r.clone()); Vector::create(r) };
    let r = guarded(|| run(Vector::create(point.clone()), &func, delta));
    let tr = trace.borrow().clone(); let os = outs.borrow().clone();
    let m = os.first().map(|v| v.len()).unwrap_or(0);
    cx.meta("shape", format!("{}x{}", m, n)); cx.meta("m_vs_n", if m < n { "m<n" } else if m > n { "m>n" } else { "m=n" });
    let same_sizes = os.iter().all(|v| v.len() == m);
    match &r {
        Err(c) => { cx.check(!same_sizes, &format!("jacobian panicked ({}) on a map with consistent output size", c)); }
        Ok(j) => {
            cx.check(same_sizes, "a map whose output size changes was not rejected");
            cx.check(j.rows() == m && j.cols() == n, &format!("Jacobian is {}x{}, expected {}x{}", j.rows(), j.cols(), m, n));
            cx.check(tr.len() == n + 1 && tr[0].iter().zip(point.iter()).all(|(a, b)| a.same(b)), "function not called at x and then once per coordinate");
            let dl = T::from_f(delta);
            if j.rows() == m && j.cols() == n && tr.len() == n + 1 {
                for c in 0..n {
                    // perturbed point: coordinate c is x_c + delta, every other coordinate HAS ITS ORIGINAL VALUE ("each coordinate is restored
                    // before the next is perturbed"; (x + delta) - delta is not x when x is tiny against delta: defect D15)
                    let ok_pt = (0..n).all(|k| { if k == c { tr[c + 1][k].same(&(point[k] + dl)) } else if k < c { tr[c + 1][k].same(&point[k]) } else { tr[c + 1][k].same(&point[k]) } });
                    cx.check(ok_pt, &format!("evaluation point {} is not x with coordinate {} perturbed (restore-after-perturb violated)", c + 1, c));
                    for i in 0..m { let q = (os[c + 1][i] - os[0][i]) / dl; cx.check(j[(i, c)].same(&q), &format!("entry ({}, {}) is not the forward difference quotient", i, c)); }
                }
                if family == "affine" {
                    // dyadic data: J equals the coefficient matrix exactly
                    for i in 0..m { for c in 0..n { if !((point[c] + dl) - point[c]).same(&dl) { continue; }   // (the step actually taken is not delta: x_c + delta is not representable; no exactness claim for THIS column)
                        if let Some(d) = f.comps[i].diff(c) { let e = d.eval(&point); let dyadic = delta.to_bits() & ((1u64 << 52) - 1) == 0;   // delta = 2^-k: every intermediate is exact
                        // non-dyadic delta: both evaluations round; the error of a sum of n+1 terms is bounded through the
                        // sum of the term magnitudes (not through |f|, which may be small by cancellation)
                        let terms: f64 = (0..n).map(|q| f.comps[i].diff(q).map(|dq| dq.eval(&point).mag() * (point[q].mag() + delta.abs())).unwrap_or(0.0)).sum();
                        let slack = if dyadic { 0.0 } else { 8.0 * f64::EPSILON * (n as f64 + 2.0) * (1.0 + os[0][i].mag() + os[c + 1][i].mag() + 2.0 * terms) / delta };
                        cx.check((j[(i, c)] - e).mag() <= slack, &format!("affine map: entry ({}, {}) differs from the coefficient", i, c)); } } }
                } else if family == "smooth" {
                    for i in 0..m { for c in 0..n { if let Some(d) = f.comps[i].diff(c) { let e = d.eval(&point);
                        // (scale: the largest INTERMEDIATE magnitude of the evaluation, e.g. (1e6 + sin x) - 1e6 rounds at the level of 1e6)
                        let scale = 1.0 + os[0][i].mag() + e.mag() + f.comps[i].peak(&point, &|z: &T| z.mag());
                        cx.check((j[(i, c)] - e).mag() <= 200.0 * delta * scale + 1e-7 * scale / (delta * 1e8).max(1.0) + 4.0 * f64::EPSILON * scale / delta, &format!("smooth map: entry ({}, {}) is {:e} away from the analytic derivative (delta {:e})", i, c, (j[(i, c)] - e).mag(), delta)); } } }
                }
            }
        }
    }
    if let Err(c) = &r { return format!("!{}", c); }
    let mut trs = format!("{}", tr.len()); for p in &tr { trs.push(' '); trs.push_str(&wr_vec(p)); }
    format!("{} | {}", match &r { Ok(j) => wr_mat(j), Err(c) => format!("!{}", c) }, trs)
}

pub fn exec(op: &str, t: &mut Toks, cx: &mut Ctx) -> Option<String> {
    match op {
        "newton_s" => { let tag = t.next(); Some(if tag == "f" { newton_scalar::<f64>(t, cx, |n, f| n.solve(f)) } else { newton_scalar::<Cmplx>(t, cx, |n, f| n.solve(f)) }) }
        "newton_v" => { let tag = t.next(); Some(if tag == "f" { newton_sys::<f64>(t, cx, |n, f| n.solve(f), |n, f, j| n.solve_jacobian(f, j)) } else { newton_sys::<Cmplx>(t, cx, |n, f| n.solve(f), |n, f, j| n.solve_jacobian(f, j)) }) }
        "jacobian" => { let tag = t.next(); Some(if tag == "f" { jacobian::<f64>(t, cx, |p, f, d| Matrix::<f64>::jacobian(p, f, d)) } else { jacobian::<Cmplx>(t, cx, |p, f, d| Matrix::<Cmplx>::jacobian_cmplx(p, f, d)) }) }
        _ => None,
    }
}

// ---------- generators ----------
type E<T> = Expr<T>;
fn k<T: Ev>(x: f64) -> E<T> { Expr::Const(T::from_f(x)) }
fn v<T: Ev>(i: usize) -> E<T> { Expr::Var(i) }
fn add<T>(a: E<T>, b: E<T>) -> E<T> { Expr::Add(Box::new(a), Box::new(b)) }
fn sub<T>(a: E<T>, b: E<T>) -> E<T> { Expr::Sub(Box::new(a), Box::new(b)) }
fn mul<T>(a: E<T>, b: E<T>) -> E<T> { Expr::Mul(Box::new(a), Box::new(b)) }

/// (x - r1)(x - r2)...(x - rk) with separated roots
fn poly_from_roots<T: Ev>(rs: &[T]) -> E<T> { let mut e: Option<E<T>> = None; for r in rs { let f = sub(v(0), Expr::Const(*r)); e = Some(match e { None => f, Some(p) => mul(p, f) }); } e.unwrap() }

fn gen_scalar(rng: &mut Rng, out: &mut Vec<String>, n: usize) {
    for i in 0..n {
        let tol = *rng.pick(&[1e-12, 1e-10, 1e-8, 1e-6, 1e-4]);
        let delta = *rng.pick(&[1e-8, 1e-6, 1.0 / 1048576.0]);
        let max_iter = if i % 5 == 0 { rng.below(6) } else { 20 + rng.below(31) };
        match i % 6 {
            0 | 1 => { // polynomial with separated real roots; guess within 0.2 of a root (gap >= 2)
                let kk = 1 + rng.below(4); let mut rs: Vec<f64> = Vec::new(); let mut r = rng.range(-6, -2) as f64; for _ in 0..kk { rs.push(r); r += 2.0 + rng.below(3) as f64; }
                let g = rs[rng.below(kk)] + (rng.unit() - 0.5) * 0.4;
                out.push(format!("newton_s f {} {} {} {} basin-poly {} {}", g.wr(), tol.wr(), delta.wr(), max_iter, wr_vec(&rs), poly_from_roots::<f64>(&rs).show())); }
            2 => { // exp(x) - c = 0, root ln c
                let c = 1.0 + rng.below(8) as f64; let root = c.ln(); let g = root + (rng.unit() - 0.5) * 0.6;
                let e: E<f64> = sub(Expr::Exp(Box::new(v(0))), k(c));
                out.push(format!("newton_s f {} {} {} {} basin-exp 1 {} {}", g.wr(), tol.wr(), delta.wr(), max_iter, root.wr(), e.show())); }
            3 => { // cos x - x = 0 and sin x - x/2
                let e: E<f64> = sub(Expr::Cos(Box::new(v(0))), v(0)); let root = 0.7390851332151607f64; let g = root + (rng.unit() - 0.5) * 0.8;
                out.push(format!("newton_s f {} {} {} {} basin-trig 1 {} {}", g.wr(), tol.wr(), delta.wr(), max_iter, root.wr(), e.show())); }
            4 => { // root-free / non-differentiable: x^2 + 1, |x| + 1, exp(x)
                let e: E<f64> = match rng.below(3) { 0 => add(mul(v(0), v(0)), k(1.0)), 1 => add(Expr::Abs(Box::new(v(0))), k(1.0)), _ => Expr::Exp(Box::new(v(0))) };
                // start either at a generic point or exactly on the stationary point / kink x = 0 (derivative estimate 0)
                let g = if rng.chance(40) { 0.0 } else { rng.range(-4, 4) as f64 + 0.25 };
                out.push(format!("newton_s f {} {} {} {} rootfree 0 {}", g.wr(), tol.wr(), delta.wr(), rng.below(12), e.show()));
                if i % 12 == 4 { let ec: E<Cmplx> = add(mul(v(0), v(0)), k(1.0)).clone();
                    // complex: z^2 + 2 has roots +-i sqrt 2 but from 0+0i the first step is 0/0
                    let ec2: E<Cmplx> = add(ec, k(1.0));
                    out.push(format!("newton_s c {} {} {} {} stationary 0 {}", Cmplx::new(0.0, 0.0).wr(), tol.wr(), delta.wr(), 2 + rng.below(8), ec2.show())); } }
            _ => { // complex polynomial with separated complex roots
                let rs = [Cmplx::new(1.0, 1.0), Cmplx::new(-2.0, 0.5), Cmplx::new(0.0, -3.0)]; let kk = 1 + rng.below(3);
                let g = rs[rng.below(kk)] + Cmplx::new((rng.unit() - 0.5) * 0.3, (rng.unit() - 0.5) * 0.3);
                out.push(format!("newton_s c {} {} {} {} basin-cpoly {} {}", g.wr(), tol.wr(), delta.wr(), max_iter, wr_vec(&rs[..kk]), poly_from_roots::<Cmplx>(&rs[..kk]).show())); }
        }
    }
}

/// diagonally dominant nonlinear system: f_i = d_i x_i + sum_j a_ij sin(x_j) (or x_j^2 / 8) - c_i with known root
fn dd_system<T: Ev + Re>(rng: &mut Rng, n: usize, root: &[T]) -> (VFn<T>, Vec<E<T>>) { let d = *rng.pick(&[20usize, 50, 80]); dd_system_k(rng, n, root, d) }
fn dd_system_k<T: Ev + Re>(rng: &mut Rng, n: usize, root: &[T], dens: usize) -> (VFn<T>, Vec<E<T>>) {
    let mut comps = Vec::new();
    let neg_diag = rng.chance(50); let upper_only = rng.chance(30);
    for i in 0..n {
        // diagonal of either sign; the coupling is dense, sparse or one-sided (exact zeros below / above the diagonal
        // of the Jacobian, so that the pivot search of the linear solve meets zero candidates)
        let d = (4.0 + rng.below(3) as f64) * if neg_diag && rng.chance(70) { -1.0 } else { 1.0 };
        let mut e: E<T> = mul(k(d), v(i));
        // weakly coupled systems get a quadratic term in their OWN variable, so that one Newton step from a distant
        // component does not land on the root (error ~ step^2 / (2d))
        if dens <= 10 { e = add(e, mul(k(if rng.chance(50) { 0.5 } else { -0.5 }), mul(v(i), v(i)))); }
        for j in 0..n { if j != i && rng.chance(dens) && !(upper_only && j < i) { let a = rng.range(-2, 2) as f64 / 4.0; if a != 0.0 { let term = if rng.chance(50) { Expr::Sin(Box::new(v(j))) } else { mul(v(j), v(j)) }; e = add(e, mul(k(a), term)); } } }
        let c = e.eval(root);
        comps.push(sub(e, Expr::Const(c)));
    }
    let jac: Vec<E<T>> = (0..n).flat_map(|i| (0..n).map(|j| comps[i].diff(j).unwrap()).collect::<Vec<_>>()).collect();
    (VFn { comps, ext: None }, jac)
}

fn gen_sys(rng: &mut Rng, out: &mut Vec<String>, count: usize) { gen_sys_n(rng, out, count, 0); }
/// `cap` = 0: dimensions 1..6 plus the two fixed cases; otherwise dimensions from BIG up to `cap` only
fn gen_sys_n(rng: &mut Rng, out: &mut Vec<String>, count: usize, cap: usize) {
    for i in 0..count {
        let n = if cap == 0 { 1 + rng.below(6) } else { big(rng, cap) };
        let tol = *rng.pick(&[1e-10, 1e-8, 1e-6, 1e-4]);
        let delta = *rng.pick(&[1e-8, 1e-6, 1.0 / 1048576.0]);
        // the three choices are drawn independently (small budgets must meet every one of the four variants)
        let max_iter = if rng.chance(25) { rng.below(5) } else { 20 + rng.below(31) };
        let cplx = rng.chance(30);
        let mode_exact = rng.chance(50);
        // the first 16 cases meet every variant (real / complex x supplied / finite-difference Jacobian) with the budgets 0 and 1
        // deterministically (seeded change S10-C17 was reported through three random hits only); the draws above are kept so that the
        // rest of the stream is unchanged
        let (max_iter, cplx, mode_exact) = if cap == 0 && i < 16 { (i % 2, (i / 2) % 2 == 1, (i / 4) % 2 == 1) } else { (max_iter, cplx, mode_exact) };
        let emit = |tag: &str, guess: String, root: String, f: String, jac: String, fam: &str| format!("newton_v {} {} {} {} {} {} {} {} {}", tag, guess, tol.wr(), delta.wr(), max_iter, fam, root, f, if mode_exact { format!("exact {}", jac) } else { "fd".into() });
        // guesses whose components are at very DIFFERENT distances from the root (exact, 1e-9, 1e-6, 0.15, in a random
        // arrangement) on weakly coupled systems: the residual components then differ by many orders of magnitude and the
        // largest can sit anywhere (first, middle, last): a convergence test that does not look at the largest component
        // reports success far from the root
        if n >= 3 && rng.chance(35) {
            let mags = [0.0f64, 1e-9, 1e-6, 0.15];
            let mut pm: Vec<f64> = (0..n).map(|_| *rng.pick(&mags)).collect();
            let big = rng.below(n); pm[big] = 0.15; if big + 1 < n { pm[n - 1] = *rng.pick(&[1e-9f64, 1e-6]); }
            let dens = *rng.pick(&[0usize, 0, 10]);
            if !cplx {
                let root: Vec<f64> = (0..n).map(|_| rng.range(-4, 4) as f64 / 4.0).collect();
                let (f, jac) = dd_system_k::<f64>(rng, n, &root, dens);
                let guess: Vec<f64> = (0..n).map(|i| root[i] + pm[i] * if rng.chance(50) { 1.0 } else { -1.0 }).collect();
                let js = { let mut s = format!("{}", jac.len()); for e in &jac { s.push(' '); s.push_str(&e.show()); } s };
                out.push(emit("f", wr_vec(&guess), wr_vec(&root), f.show(), js, "basin-dd"));
            } else {
                let root: Vec<Cmplx> = (0..n).map(|_| Cmplx::new(rng.range(-4, 4) as f64 / 4.0, rng.range(-4, 4) as f64 / 4.0)).collect();
                let (f, jac) = dd_system_k::<Cmplx>(rng, n, &root, dens);
                let guess: Vec<Cmplx> = (0..n).map(|i| root[i] + if rng.chance(50) { Cmplx::new(pm[i], 0.0) } else { Cmplx::new(0.0, -pm[i]) }).collect();
                let js = { let mut s = format!("{}", jac.len()); for e in &jac { s.push(' '); s.push_str(&e.show()); } s };
                out.push(emit("c", wr_vec(&guess), wr_vec(&root), f.show(), js, "basin-dd"));
            }
            continue;
        }
        if !cplx {
            let root: Vec<f64> = (0..n).map(|_| rng.range(-4, 4) as f64 / 4.0).collect();
            let (f, jac) = dd_system::<f64>(rng, n, &root);
            let guess: Vec<f64> = root.iter().map(|r| r + (rng.unit() - 0.5) * 0.2).collect();
            let js = { let mut s = format!("{}", jac.len()); for e in &jac { s.push(' '); s.push_str(&e.show()); } s };
            out.push(emit("f", wr_vec(&guess), wr_vec(&root), f.show(), js, "basin-dd"));
        } else {
            let root: Vec<Cmplx> = (0..n).map(|_| Cmplx::new(rng.range(-4, 4) as f64 / 4.0, rng.range(-4, 4) as f64 / 4.0)).collect();
            let (f, jac) = dd_system::<Cmplx>(rng, n, &root);
            let guess: Vec<Cmplx> = root.iter().map(|r| *r + Cmplx::new((rng.unit() - 0.5) * 0.1, (rng.unit() - 0.5) * 0.1)).collect();
            let js = { let mut s = format!("{}", jac.len()); for e in &jac { s.push(' '); s.push_str(&e.show()); } s };
            out.push(emit("c", wr_vec(&guess), wr_vec(&root), f.show(), js, "basin-dd"));
        }
    }
    if cap != 0 { return; }
    // a residual component that is NaN (inf - inf from an overflowing exponential) at the guess while the OTHER components vanish
    // there: the stopping criterion is not met, whatever the position of the NaN, so success must not be reported (and a
    // reported point must be finite). Positions 0, 1, last; real systems with both Jacobian modes
    for n in 2..=4usize { for pos in 0..n { for mode in 0..2 {
        let comps: Vec<E<f64>> = (0..n).map(|i| if i == pos { let e: E<f64> = Expr::Exp(Box::new(mul(k(800.0), v(i)))); add(v(i), sub(e.clone(), e)) } else { sub(v(i), k(1.0)) }).collect();
        let f: VFn<f64> = VFn { comps, ext: None };
        let guess: Vec<f64> = vec![1.0; n];
        let jac = { let mut s = format!("{}", n * n); for i in 0..n { for j in 0..n { s.push(' '); s.push_str(&k::<f64>(if i == j { 1.0 } else { 0.0 }).show()); } } s };
        out.push(format!("newton_v f {} {} {} 20 rootfree 0 {} {}", wr_vec(&guess), (1e-8f64).wr(), (1e-8f64).wr(), f.show(), if mode == 0 { "fd".to_string() } else { format!("exact {}", jac) }));
    } } }
    // root-free system and a map whose output size changes
    let f: VFn<f64> = VFn { comps: vec![add(mul(v(0), v(0)), k(1.0)), add(v(1), k(0.0))], ext: None };
    out.push(format!("newton_v f {} {} {} 7 rootfree 0 {} fd", wr_vec(&[0.5f64, 0.25]), (1e-8f64).wr(), (1e-8f64).wr(), f.show()));
    let f: VFn<f64> = VFn { comps: vec![sub(v(0), k(1.0)), sub(v(1), k(2.0))], ext: Some(0.5000000001) };
    out.push(format!("newton_v f {} {} {} 5 badsize 0 {} fd", wr_vec(&[0.5f64, 0.25]), (1e-8f64).wr(), (1e-6f64).wr(), f.show()));
}

pub fn gen(rng: &mut Rng, tier: Tier, out: &mut Vec<String>) {
    let n = if tier == Tier::Quick { 400 } else { 7000 };
    gen_scalar(rng, out, n);
    gen_sys(rng, out, n / 2);
    // LARGER SYSTEMS (dimension 11 .. 25)
    gen_sys_n(rng, out, if tier == Tier::Quick { 10 } else { 200 }, 25);
}

pub fn gen_c18(rng: &mut Rng, tier: Tier, out: &mut Vec<String>) {
    let reps = if tier == Tier::Quick { 5 } else { 100 };
    for m in 1..=6usize { for n in 1..=6usize { for r in 0..reps {
        let delta = if r % 4 == 3 { 1e-8 } else { 2f64.powi(-(4 + rng.below(23) as i32)) };
        let point: Vec<f64> = (0..n).map(|_| rng.range(-16, 16) as f64 / 4.0).collect();
        // affine map on dyadic data
        let comps: Vec<E<f64>> = (0..m).map(|_| { let mut e: E<f64> = k(rng.range(-8, 8) as f64 / 2.0); for j in 0..n { e = add(e, mul(k(rng.range(-8, 8) as f64 / 2.0), v(j))); } e }).collect();
        out.push(format!("jacobian f {} {} affine {}", wr_vec(&point), delta.wr(), VFn { comps, ext: None }.show()));
        // smooth nonlinear map
        let comps: Vec<E<f64>> = (0..m).map(|i| { let mut e: E<f64> = Expr::Sin(Box::new(v(i % n))); for j in 0..n { if rng.chance(60) { e = add(e, mul(k(rng.range(-4, 4) as f64 / 4.0), if rng.chance(50) { mul(v(j), v((j + 1) % n)) } else { Expr::Exp(Box::new(mul(k(0.25), v(j)))) })); } } e }).collect();
        out.push(format!("jacobian f {} {} smooth {}", wr_vec(&point), delta.wr(), VFn { comps, ext: None }.show()));
        if r % 2 == 0 {
            let cp: Vec<Cmplx> = (0..n).map(|_| Cmplx::new(rng.range(-8, 8) as f64 / 4.0, rng.range(-8, 8) as f64 / 4.0)).collect();
            let comps: Vec<E<Cmplx>> = (0..m).map(|_| { let mut e: E<Cmplx> = Expr::Const(Cmplx::new(rng.range(-4, 4) as f64, rng.range(-4, 4) as f64)); for j in 0..n { e = add(e, mul(Expr::Const(Cmplx::new(rng.range(-4, 4) as f64 / 2.0, rng.range(-4, 4) as f64 / 2.0)), v(j))); } e }).collect();
            out.push(format!("jacobian c {} {} affine {}", wr_vec(&cp), delta.wr(), VFn { comps, ext: None }.show()));
        }
    } } }
    // a map whose output size depends on the point (must be rejected), and n = 0
    let f: VFn<f64> = VFn { comps: vec![v(0), v(1)], ext: Some(1.0) };
    out.push(format!("jacobian f {} {} badsize {}", wr_vec(&[1.0f64, 2.0]), (0.5f64).wr(), f.show()));
    let f: VFn<f64> = VFn { comps: vec![k(1.0)], ext: None };
    out.push(format!("jacobian f 0 {} affine {}", (0.5f64).wr(), f.show()));

    // LARGER MAPS (up to 33 x 33, also 1 x n and m x 1)
    for i in 0..(if tier == Tier::Quick { 8 } else { 160 }) {
        let (m, n) = match i % 4 { 0 => (1, big(rng, 33)), 1 => (big(rng, 33), 1), _ => (big(rng, 33), big(rng, 33)) };
        let delta = 2f64.powi(-(4 + rng.below(20) as i32));
        let point: Vec<f64> = (0..n).map(|_| rng.range(-16, 16) as f64 / 4.0).collect();
        let comps: Vec<E<f64>> = (0..m).map(|_| { let mut e: E<f64> = k(rng.range(-8, 8) as f64 / 2.0); for j in 0..n { if rng.chance(40) { e = add(e, mul(k(rng.range(-8, 8) as f64 / 2.0), v(j))); } } e }).collect();
        out.push(format!("jacobian f {} {} affine {}", wr_vec(&point), delta.wr(), VFn { comps, ext: None }.show()));
        if i % 2 == 0 && n <= 20 && m <= 20 {
            let cp: Vec<Cmplx> = (0..n).map(|_| Cmplx::new(rng.range(-8, 8) as f64 / 4.0, rng.range(-8, 8) as f64 / 4.0)).collect();
            let comps: Vec<E<Cmplx>> = (0..m).map(|_| { let mut e: E<Cmplx> = Expr::Const(Cmplx::new(rng.range(-4, 4) as f64, rng.range(-4, 4) as f64)); for j in 0..n { if rng.chance(40) { e = add(e, mul(Expr::Const(Cmplx::new(rng.range(-4, 4) as f64 / 2.0, rng.range(-4, 4) as f64 / 2.0)), v(j))); } } e }).collect();
            out.push(format!("jacobian c {} {} affine {}", wr_vec(&cp), delta.wr(), VFn { comps, ext: None }.show()));
        }
    }

    // a coordinate that is TINY against the step (|x_k| <= delta 2^-53, absorbed by x_k + delta) with a large coefficient: the columns
    // AFTER k are exact only if x_k gets its original value back ((x_k + delta) - delta is 0, not x_k)
    for i in 0..(if tier == Tier::Quick { 12 } else { 240 }) {
        let (m, n) = (1 + rng.below(4), 2 + rng.below(4));
        let kk = rng.below(n - 1);                      // not the last coordinate: a later column must exist
        let kd = 4 + rng.below(6) as i32; let delta = 2f64.powi(-kd);
        let mut point: Vec<f64> = (0..n).map(|_| rng.range(-16, 16) as f64 / 4.0).collect();
        point[kk] = 2f64.powi(-kd - 56) * if rng.chance(50) { 1.0 } else { -1.0 };
        let comps: Vec<E<f64>> = (0..m).map(|r| { let mut e: E<f64> = k(rng.range(-8, 8) as f64 / 2.0);
            for j in 0..n { let cf = if j == kk { if r == 0 || rng.chance(50) { 2f64.powi(40) } else { 0.0 } } else { rng.range(-8, 8) as f64 / 2.0 }; e = add(e, mul(k(cf), v(j))); } e }).collect();
        let _ = i;
        out.push(format!("jacobian f {} {} affine {}", wr_vec(&point), delta.wr(), VFn { comps, ext: None }.show()));
    }
    // the same for the COMPLEX variant (seeded change S10-C18: only `jacobian_cmplx` restored by subtraction): the real part of x_k is tiny
    // against the step, the imaginary part is not (so the coordinate is not negligible as a whole)
    for _ in 0..(if tier == Tier::Quick { 12 } else { 240 }) {
        let (m, n) = (1 + rng.below(4), 2 + rng.below(4));
        let kk = rng.below(n - 1);
        let kd = 4 + rng.below(6) as i32; let delta = 2f64.powi(-kd);
        let mut point: Vec<Cmplx> = (0..n).map(|_| Cmplx::new(rng.range(-16, 16) as f64 / 4.0, rng.range(-16, 16) as f64 / 4.0)).collect();
        let t = 2f64.powi(-kd - 56) * if rng.chance(50) { 1.0 } else { -1.0 };
        point[kk] = Cmplx::new(t, if rng.chance(50) { t } else { rng.range(-8, 8) as f64 / 4.0 });
        let comps: Vec<E<Cmplx>> = (0..m).map(|r| { let mut e: E<Cmplx> = Expr::Const(Cmplx::new(rng.range(-8, 8) as f64 / 2.0, rng.range(-4, 4) as f64 / 2.0));
            for j in 0..n { let cf = if j == kk { if r == 0 || rng.chance(50) { Cmplx::new(2f64.powi(40), 0.0) } else { Cmplx::new(0.0, 0.0) } } else { Cmplx::new(rng.range(-8, 8) as f64 / 2.0, rng.range(-4, 4) as f64 / 2.0) }; e = add(e, mul(Expr::Const(cf), v(j))); } e }).collect();
        out.push(format!("jacobian c {} {} affine {}", wr_vec(&point), delta.wr(), VFn { comps, ext: None }.show()));
    }
}
