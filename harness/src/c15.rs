//! C15 — vectors: arithmetic, reductions, norms, edits under any history; sequences.
use crate::q::Q;
use crate::sc::*;
use crate::wire::*;
use crate::{Ctx, Tier};
use ohsl::{Cmplx, Vector};

fn outcome(r: &Result<String, &'static str>) -> String {
    match r { Ok(s) if s.is_empty() => "ok".to_string(), Ok(s) => format!("ok {}", s), Err(c) => format!("!{}", c) }
}

enum Exp<T> { State(Vec<T>), Val(String), Reject, Unknown }

/// ops available for every element type
fn apply<T: Sc>(v: &mut Vector<T>, op: &str, t: &mut Toks, cx: &mut Ctx) -> Option<String> {
    let before = v.vec.clone();
    let n = before.len();
    let exp: Exp<T>;
    let res: Result<String, &'static str>;
    match op {
        "push" => { let x: T = t.get(); res = guarded(|| v.push(x)).map(|_| String::new()); let mut e = before.clone(); e.push(x); exp = Exp::State(e); }
        "pushf" => { let x: T = t.get(); res = guarded(|| v.push_front(x)).map(|_| String::new()); let mut e = before.clone(); e.insert(0, x); exp = Exp::State(e); }
        "insert" => { let p = t.usize(); let x: T = t.get(); res = guarded(|| v.insert(p, x)).map(|_| String::new());
            exp = if p > n { Exp::Reject } else { let mut e = before.clone(); e.insert(p, x); Exp::State(e) }; }
        "pop" => { res = guarded(|| v.pop()).map(|x| x.wr()); exp = if n == 0 { Exp::Reject } else { Exp::Val(before[n - 1].wr()) }; }
        "swap" => { let (i, j) = (t.usize(), t.usize()); res = guarded(|| v.swap(i, j)).map(|_| String::new());
            exp = if i >= n || j >= n { Exp::Reject } else { let mut e = before.clone(); e.swap(i, j); Exp::State(e) }; }
        "assign" => { let x: T = t.get(); res = guarded(|| v.assign(x)).map(|_| String::new()); exp = Exp::State(vec![x; n]); }
        "clear" => { res = guarded(|| v.clear()).map(|_| String::new()); exp = Exp::State(vec![]); }
        "find" => { let x: T = t.get(); res = guarded(|| v.find(x)).map(|i| i.to_string());
            exp = match before.iter().position(|y| *y == x) { Some(i) => Exp::Val(i.to_string()), None => if n == 0 { Exp::Reject } else { Exp::Val((n - 1).to_string()) } }; }
        "add" | "sub" => { let w: Vector<T> = rd_vector(t); let ws = w.clone(); let plus = op == "add";
            let r1 = guarded(|| if plus { &*v + &w } else { &*v - &w });
            cx.check(same_vec(&v.vec, &before) && same_vec(&w.vec, &ws.vec), "by-reference operator mutated an operand");
            let r2 = guarded(|| if plus { v.clone() + w.clone() } else { v.clone() - w.clone() });
            let r3 = guarded(|| if plus { v.clone() + &w } else { v.clone() - &w });
            let r4 = guarded(|| { let mut x = v.clone(); if plus { x += w.clone() } else { x -= w.clone() }; x });
            for (r, what) in [(&r2, "consuming form"), (&r3, "half-consuming form"), (&r4, "compound assignment")] {
                match (&r1, r) { (Ok(a), Ok(b)) => cx.check(same_vec(&a.vec, &b.vec), &format!("{} differs from &a op &b", what)), (Err(_), Err(_)) => {}, _ => cx.fail(format!("{} differs from &a op &b", what)) } }
            exp = if w.size() != n { Exp::Reject } else { Exp::State((0..n).map(|i| if plus { before[i] + w[i] } else { before[i] - w[i] }).collect()) };
            res = r1.map(|x| { *v = x; String::new() }); }
        "neg" => { res = guarded(|| -(v.clone())).map(|x| { *v = x; String::new() }); exp = Exp::State(before.iter().map(|x| -*x).collect()); }
        "smul" | "sdiv" | "adds" | "subs" | "muls" | "divs" => { let s: T = t.get();
            let r1 = guarded(|| match op { "smul" => v.clone() * s, "sdiv" => v.clone() / s,
                "adds" => { let mut x = v.clone(); x += s; x } "subs" => { let mut x = v.clone(); x -= s; x }
                "muls" => { let mut x = v.clone(); x *= s; x } _ => { let mut x = v.clone(); x /= s; x } });
            let isdiv = op == "sdiv" || op == "divs";
            exp = if isdiv && T::is_exact() && s == T::zero() { if n > 0 { Exp::Reject } else { Exp::State(vec![]) } } else {
                Exp::State(before.iter().map(|x| match op { "smul" | "muls" => *x * s, "sdiv" | "divs" => *x / s, "adds" => *x + s, _ => *x - s }).collect()) };
            res = r1.map(|x| { *v = x; String::new() }); }
        "dot" => { let w: Vector<T> = rd_vector(t); let ws = w.clone(); res = guarded(|| v.dot(&w)).map(|x| x.wr());
            cx.check(same_vec(&w.vec, &ws.vec), "dot mutated its argument");
            exp = if w.size() != n { Exp::Reject } else { let mut s = T::zero(); for i in 0..n { s += before[i] * w[i]; } Exp::Val(s.wr()) }; }
        "sumslice" | "prodslice" => { let (a, b) = (t.usize(), t.usize());
            res = guarded(|| if op == "sumslice" { v.sum_slice(a, b) } else { v.product_slice(a, b) }).map(|x| x.wr());
            exp = if a > b || a >= n || b >= n { Exp::Reject } else if op == "sumslice" { let mut s = T::zero(); for i in a..=b { s += before[i]; } Exp::Val(s.wr()) }
                  else { let mut s = before[a]; for i in a + 1..=b { s *= before[i]; } Exp::Val(s.wr()) }; }
        "sum" | "product" => { res = guarded(|| if op == "sum" { v.sum() } else { v.product() }).map(|x| x.wr());
            exp = if n == 0 { Exp::Reject } else if op == "sum" { let mut s = T::zero(); for x in &before { s += *x; } Exp::Val(s.wr()) } else { let mut s = before[0]; for x in &before[1..] { s *= *x; } Exp::Val(s.wr()) }; }
        "abs" => { res = guarded(|| v.abs()).map(|x| { let s = wr_vector(&x); s }); exp = Exp::Unknown; }
        "norm1" => { res = guarded(|| v.norm_1()).map(|x| x.wr()); exp = Exp::Unknown; }
        "index" => { let i = t.usize(); res = guarded(|| v[i]).map(|x| x.wr()); exp = if i >= n { Exp::Reject } else { Exp::Val(before[i].wr()) }; }
        "setindex" => { let i = t.usize(); let x: T = t.get(); res = guarded(|| { v[i] = x; }).map(|_| String::new());
            exp = if i >= n { Exp::Reject } else { let mut e = before.clone(); e[i] = x; Exp::State(e) }; }
        "clonemut" => { let x: T = t.get(); let mut c = v.clone(); c.push(x); c.assign(x);
            cx.check(same_vec(&v.vec, &before), "mutating a clone changed the original");
            let c2 = v.clone(); v.push(x); cx.check(same_vec(&c2.vec, &before), "mutating the original changed its clone");
            let mut e = before.clone(); e.push(x); exp = Exp::State(e); res = Ok(String::new()); }
        _ => return None,
    }
    finish(v, &before, op, exp, &res, cx);
    Some(outcome(&res))
}

fn finish<T: Sc>(v: &Vector<T>, before: &Vec<T>, op: &str, exp: Exp<T>, res: &Result<String, &'static str>, cx: &mut Ctx) {
    match (exp, res) {
        (Exp::Unknown, _) => {}
        (Exp::Reject, Ok(_)) => cx.fail(format!("{}: invalid argument was not rejected", op)),
        (Exp::Reject, Err(_)) => cx.check(same_vec(&v.vec, before), &format!("{}: rejected call modified the vector", op)),
        (Exp::State(s), Ok(_)) => cx.check(same_vec(&v.vec, &s), &format!("{}: result differs from the list model", op)),
        (Exp::Val(x), Ok(got)) => { cx.check(*got == x, &format!("{}: value differs from the list model", op));
            if op != "pop" { cx.check(same_vec(&v.vec, before), "value-returning op changed the vector"); }
            else { cx.check(before.len() >= 1 && same_vec(&v.vec, &before[..before.len() - 1]), "pop: the vector is not the old one without its last element"); } }
        (_, Err(c)) => cx.fail(format!("{}: panicked ({}) on valid arguments", op, c)),
    }
}

fn apply_q(v: &mut Vector<Q>, op: &str, t: &mut Toks, cx: &mut Ctx) -> String {
    let before = v.vec.clone();
    match op {
        "sort" => { let r = guarded(|| v.sort()).map(|_| String::new()); let mut e = before.clone(); e.sort(); finish(v, &before, op, Exp::State(e), &r, cx); outcome(&r) }
        "resize" => { let n = t.usize(); let r = guarded(|| v.resize(n)).map(|_| String::new()); let mut e = before.clone(); e.resize(n, Q::int(0)); finish(v, &before, op, Exp::State(e), &r, cx); outcome(&r) }
        "sortdesc" => { let r = guarded(|| v.sort_by(|a, b| b.partial_cmp(a).unwrap())).map(|_| String::new()); let mut e = before.clone(); e.sort(); e.reverse(); finish(v, &before, op, Exp::State(e), &r, cx); outcome(&r) }
        "ones" | "zeros" => { let n = t.usize(); let r = guarded(|| if op == "ones" { Vector::<Q>::ones(n) } else { Vector::<Q>::zeros(n) }); let e = vec![Q::int(if op == "ones" { 1 } else { 0 }); n];
            let r = r.map(|x| { *v = x; String::new() }); finish(v, &before, op, Exp::State(e), &r, cx); outcome(&r) }
        "abs" => { let r = guarded(|| v.abs()); if let Ok(a) = &r { cx.check((0..before.len()).all(|i| a[i] == if before[i] < Q::int(0) { -before[i] } else { before[i] }), "abs"); } outcome(&r.map(|x| wr_vector(&x))) }
        "norm1" => { let r = guarded(|| v.norm_1()); let mut s = Q::int(0); for x in &before { s += if *x < Q::int(0) { -*x } else { *x }; } if let Ok(a) = &r { cx.check(*a == s, "norm_1 != sum |x_i|"); } outcome(&r.map(|x| x.wr())) }
        _ => apply(v, op, t, cx).unwrap_or_else(|| panic!("HARNESS: unknown vector op {}", op)),
    }
}
fn apply_f(v: &mut Vector<f64>, op: &str, t: &mut Toks, cx: &mut Ctx) -> String {
    let before = v.vec.clone();
    match op {
        "resize" => { let n = t.usize(); let r = guarded(|| v.resize(n)).map(|_| String::new()); let mut e = before.clone(); e.resize(n, 0.0); finish(v, &before, op, Exp::State(e), &r, cx); outcome(&r) }
        "norm2" => outcome(&guarded(|| v.norm_2()).map(|x| x.wr())),
        "normp" => { let p: f64 = t.get(); outcome(&guarded(|| v.norm_p(p)).map(|x| x.wr())) }
        "norminf" => { let r = guarded(|| v.norm_inf()); if before.is_empty() { cx.check(r.is_err(), "norm_inf of an empty vector returned a value"); }
                       else if let Ok(x) = &r { if before.iter().all(|y| !y.is_nan()) { cx.check(*x == before.iter().map(|y| y.abs()).fold(0.0, f64::max), "norm_inf != max |x_i|"); } } outcome(&r.map(|x| x.wr())) }
        "lsmul" => { let s: f64 = t.get(); let r = guarded(|| s * v.clone()); if let Ok(x) = &r { cx.check((0..before.len()).all(|i| x[i].to_bits() == (s * before[i]).to_bits() || x[i].is_nan()), "f64 * vector"); } outcome(&r.map(|x| { *v = x; String::new() })) }
        _ => apply(v, op, t, cx).unwrap_or_else(|| panic!("HARNESS: unknown vector op {}", op)),
    }
}
fn apply_c(v: &mut Vector<Cmplx>, op: &str, t: &mut Toks, cx: &mut Ctx) -> String {
    let before = v.vec.clone();
    match op {
        "conj" => { let r = guarded(|| v.conj()); if let Ok(x) = &r { cx.check((0..before.len()).all(|i| x[i].real.same(&before[i].real) && x[i].imag.same(&(-before[i].imag))), "conj"); } outcome(&r.map(|x| { *v = x; String::new() })) }
        "real" => { let r = guarded(|| v.real()); if let Ok(x) = &r { cx.check((0..before.len()).all(|i| x[i].to_bits() == before[i].real.to_bits()), "real"); } outcome(&r.map(|x| wr_vector(&x))) }
        "norminf" => { let r = guarded(|| v.norm_inf()); if before.is_empty() { cx.check(r.is_err(), "norm_inf of an empty vector returned a value"); }
                       else if let Ok(x) = &r { if before.iter().all(|z| z.real.is_finite() && z.imag.is_finite()) {
                           let mx = before.iter().map(|z| (z.real * z.real + z.imag * z.imag).sqrt()).fold(0.0, f64::max);
                           cx.check((*x - mx).abs() <= 4.0 * f64::EPSILON * mx, "complex norm_inf != max |z_i|"); } }
                       outcome(&r.map(|x| x.wr())) }
        "abs" => { let r = guarded(|| v.abs());
                   if let Ok(x) = &r { cx.check(x.size() == before.len() && (0..before.len()).all(|i| { let z = before[i]; if !(z.real.is_finite() && z.imag.is_finite()) { return true; }
                       let m = (z.real * z.real + z.imag * z.imag).sqrt(); x[i].imag == 0.0 && (x[i].real - m).abs() <= 4.0 * f64::EPSILON * m }), "complex abs != (|z_i|, 0)"); }
                   outcome(&r.map(|x| wr_vector(&x))) }
        _ => apply(v, op, t, cx).unwrap_or_else(|| panic!("HARNESS: unknown vector op {}", op)),
    }
}

fn hist<T: Sc>(t: &mut Toks, cx: &mut Ctx, ap: fn(&mut Vector<T>, &str, &mut Toks, &mut Ctx) -> String) -> String {
    let mut v: Vector<T> = rd_vector(t);
    let n = t.usize();
    let mut out = String::new();
    for k in 0..n {
        let op = t.next();
        if k > 0 { out.push_str(" ; "); }
        out.push_str(op); out.push(' ');
        out.push_str(&ap(&mut v, op, t, cx));
        out.push_str(" | ");
        out.push_str(&wr_vector(&v));
        if cx.skip.is_some() { break; }
    }
    cx.meta("ops", n); cx.meta("tag", T::TAG);
    out
}

/// norm laws on sampled f64 data + generated sequences
fn norms(t: &mut Toks, cx: &mut Ctx) -> String {
    let v: Vector<f64> = rd_vector(t);
    let w: Vector<f64> = rd_vector(t);
    let s: f64 = t.get();
    let p: f64 = t.get();
    let f = |x: &Vector<f64>| [guarded(|| x.norm_1()), guarded(|| x.norm_2()), guarded(|| x.norm_p(p)), guarded(|| x.norm_inf())];
    let (nv, nw) = (f(&v), f(&w));
    let sum = guarded(|| &v + &w);
    let sc = v.clone() * s;
    let (nsum, nsc) = (sum.as_ref().map(|x| f(x)), f(&sc));
    let tol = 1e-12;
    if v.size() > 0 && v.size() == w.size() {
        let g = |a: &Result<f64, &'static str>| a.clone().unwrap_or(f64::NAN);
        for k in 0..4 {
            let name = ["norm_1", "norm_2", "norm_p", "norm_inf"][k];
            let (a, b) = (g(&nv[k]), g(&nw[k]));
            cx.check(a >= 0.0, &format!("{} negative", name));
            if let Ok(ns) = &nsum { let c = g(&ns[k]); cx.check(c <= (a + b) * (1.0 + tol) + 1e-300, &format!("{}: triangle inequality violated", name)); }
            let d = g(&nsc[k]);
            cx.check((d - s.abs() * a).abs() <= tol * (s.abs() * a).max(1e-300) * 8.0, &format!("{}: not homogeneous", name));
        }
        let (n1, n2, ni) = (g(&nv[0]), g(&nv[1]), g(&nv[3]));
        cx.check(ni <= n2 * (1.0 + tol) && n2 <= n1 * (1.0 + tol), "inf-norm <= 2-norm <= 1-norm violated");
        let np = g(&nv[2]);
        cx.check(ni <= np * (1.0 + 1e-9) && np <= n1 * (1.0 + 1e-9), "inf-norm <= p-norm <= 1-norm violated");
        // the norms against their definitions, to the accuracy of the theorems of C15F (u = 2^-53): norm_1 within g_n,
        // norm_2 within g_(n+2), norm_inf exact; norm_p (no theorem: powf) within (n + 8) u of (sum |x_i|^p)^(1/p)
        if v.vec.iter().all(|x| x.is_finite()) {
            let n = v.size() as f64; let uu = f64::EPSILON / 2.0;
            let d1: f64 = v.vec.iter().map(|x| x.abs()).sum();
            let dmax = v.vec.iter().map(|x| x.abs()).fold(0.0, f64::max);
            let d2: f64 = v.vec.iter().map(|x| x * x).sum::<f64>().sqrt();
            let dp: f64 = v.vec.iter().map(|x| x.abs().powf(p)).sum::<f64>().powf(1.0 / p);
            cx.check(ni == dmax, "norm_inf differs from max |x_i|");
            cx.check((n1 - d1).abs() <= 2.02 * n * uu * d1, "norm_1 differs from sum |x_i| by more than the rounding bound of theorem norm1_rounding");
            if d2.is_finite() && d2 > 0.0 { cx.check((n2 - d2).abs() <= 2.02 * (n + 2.0) * uu * d2, "norm_2 differs from sqrt(sum x_i^2) by more than the rounding bound of theorem norm2_rounding"); }
            if dp.is_finite() && dp > 0.0 && p >= 1.0 { cx.check((np - dp).abs() <= 2.0 * (n + 8.0) * uu * dp * p.max(1.0), &format!("norm_p differs from (sum |x_i|^p)^(1/p) by a relative {:e}", (np - dp).abs() / dp)); }
        }
    }
    let w4 = |x: &[Result<f64, &'static str>; 4]| x.iter().map(|r| match r { Ok(y) => y.wr(), Err(c) => format!("!{}", c) }).collect::<Vec<_>>().join(" ");
    cx.meta("tag", "f");
    format!("{} {} {}", w4(&nv), w4(&nw), w4(&nsc))
}

fn spaces(t: &mut Toks, cx: &mut Ctx) -> String {
    let (a, b): (f64, f64) = (t.get(), t.get());
    let n = t.usize();
    let p: f64 = t.get();
    let l = guarded(|| Vector::<f64>::linspace(a, b, n));
    let q = guarded(|| Vector::<f64>::powspace(a, b, n, p));
    if n >= 2 {
        for (name, r) in [("linspace", &l), ("powspace", &q)] {
            match r { Ok(x) => {
                cx.check(x.size() == n, &format!("{}: wrong length", name));
                cx.check(x[0] == a, &format!("{}: does not start exactly at a", name));
                cx.check((x[n - 1] - b).abs() <= 4.0 * f64::EPSILON * (a.abs() + b.abs() + (b - a).abs()) + 4.0 * f64::MIN_POSITIVE, &format!("{}: does not end at b within rounding", name));
                let mono = (1..n).all(|i| if a < b { x[i] >= x[i - 1] } else if a > b { x[i] <= x[i - 1] } else { x[i] == a });
                cx.check(mono, &format!("{}: not monotone", name)); }
              Err(c) => cx.fail(format!("{} panicked ({})", name, c)) }
        }
    }
    let rnd = guarded(|| Vector::<f64>::random(n));
    match rnd { Ok(r) => cx.check(r.size() == n && r.vec.iter().all(|x| *x >= 0.0 && *x < 1.0), "random: size or range"), Err(_) => cx.fail("random panicked") }
    cx.meta("tag", "f"); cx.meta("n", n);
    let w = |r: &Result<Vector<f64>, &'static str>| match r { Ok(x) => wr_vector(x), Err(c) => format!("!{}", c) };
    format!("{} ; {}", w(&l), w(&q))
}

pub fn exec(op: &str, t: &mut Toks, cx: &mut Ctx) -> Option<String> {
    match op {
        "vec_hist" => { let tag = t.next(); Some(match tag { "q" => hist::<Q>(t, cx, apply_q), "f" => hist::<f64>(t, cx, apply_f), _ => hist::<Cmplx>(t, cx, apply_c) }) }
        "vec_norms" => Some(norms(t, cx)),
        "vec_spaces" => Some(spaces(t, cx)),
        _ => None,
    }
}

pub fn gen_op<T: Sc>(rng: &mut Rng, n: &mut usize, bad_pct: usize) -> String {
    let bad = rng.chance(bad_pct);
    let sc = |rng: &mut Rng| T::gen(rng, 15, 0).wr();
    let idx = |rng: &mut Rng, n: usize, bad: bool| if bad || n == 0 { n + rng.below(3) } else { rng.below(n) };
    let extra: &[&str] = match T::TAG { "q" => &["sort", "resize", "abs", "norm1", "sortdesc", "ones", "zeros"], "f" => &["resize", "norm2", "normp", "norminf", "lsmul", "abs", "norm1"], _ => &["conj", "real", "norminf", "abs"] };
    let k = rng.below(26 + 3);
    match k {
        0 | 1 => { *n += 1; format!("push {}", sc(rng)) }
        2 => { *n += 1; format!("pushf {}", sc(rng)) }
        3 => { let p = if bad { *n + 1 + rng.below(3) } else { rng.below(*n + 1) }; if p <= *n { *n += 1; } format!("insert {} {}", p, sc(rng)) }
        4 => { if *n > 0 { *n -= 1; } "pop".into() }
        5 => format!("swap {} {}", idx(rng, *n, bad), idx(rng, *n, false)),
        6 => format!("assign {}", sc(rng)),
        7 => { if rng.chance(20) { *n = 0; "clear".into() } else { "neg".into() } }
        8 => format!("find {}", sc(rng)),
        9 | 10 => { let m = if bad { rng.below(8) } else { *n }; format!("{} {}", if k == 9 { "add" } else { "sub" }, gen_vec_str::<T>(rng, m, 20, 0)) }
        11 => "neg".into(),
        12 => format!("smul {}", sc(rng)),
        13 => format!("sdiv {}", if bad { T::zero().wr() } else { T::gen(rng, 0, 0).wr() }),
        14 => format!("adds {}", sc(rng)),
        15 => format!("subs {}", sc(rng)),
        16 => format!("muls {}", sc(rng)),
        17 => format!("divs {}", if bad { T::zero().wr() } else { T::gen(rng, 0, 0).wr() }),
        18 => { let m = if bad { rng.below(8) } else { *n }; format!("dot {}", gen_vec_str::<T>(rng, m, 20, 0)) }
        19 | 20 => { let a = idx(rng, *n, bad); let b = if bad && rng.chance(50) { rng.below(a + 1) } else if *n > a { a + rng.below(*n - a) } else { a }; format!("{} {} {}", if k == 19 { "sumslice" } else { "prodslice" }, a, b) }
        21 => "sum".into(),
        22 => "product".into(),
        23 => format!("index {}", idx(rng, *n, bad)),
        24 => format!("setindex {} {}", idx(rng, *n, bad), sc(rng)),
        25 => { *n += 1; format!("clonemut {}", sc(rng)) }
        _ => { let e = *rng.pick(extra); match e { "resize" => { *n = rng.below(12); format!("resize {}", *n) } "ones" | "zeros" => { *n = rng.below(10); format!("{} {}", e, *n) } "normp" => format!("normp {}", (*rng.pick(&[1.0f64, 2.0, 3.0, 1.5, 8.0])).wr()), "lsmul" => format!("lsmul {}", f64::gen(rng, 10, 0).wr()), x => x.to_string() } }
    }
}

pub fn gen_hist<T: Sc>(rng: &mut Rng, nops: usize, bad_pct: usize, maxlen: usize) -> String {
    let mut n = rng.below(maxlen + 1);
    let mut s = format!("vec_hist {} {} {}", T::TAG, gen_vec_str::<T>(rng, n, 15, 0), nops);
    for _ in 0..nops { s.push(' '); s.push_str(&gen_op::<T>(rng, &mut n, bad_pct)); }
    s
}

pub fn gen(rng: &mut Rng, tier: Tier, out: &mut Vec<String>) {
    // all index ranges for slices up to length 8 (exhaustive), incl. the rejected ones
    for n in 0..9usize { for a in 0..=n + 1 { for b in 0..=n + 1 {
        out.push(format!("vec_hist q {} 2 sumslice {} {} prodslice {} {}", gen_vec_str::<Q>(rng, n, 10, 0), a, b, a, b));
    } } }
    let nh = if tier == Tier::Quick { 600 } else { 12000 };
    for i in 0..nh { let nops = 1 + rng.below(60); out.push(gen_hist::<Q>(rng, nops, if i % 3 == 0 { 20 } else { 4 }, if i % 10 == 0 { 64 } else { 10 })); }
    for i in 0..nh / 3 { let nops = 1 + rng.below(30); let maxlen = if i % 8 == 0 { 64 } else { 12 }; out.push(gen_hist::<f64>(rng, nops, 5, maxlen)); }
    for i in 0..nh / 6 { let nops = 1 + rng.below(20); let maxlen = if i % 8 == 0 { 64 } else { 8 }; out.push(gen_hist::<Cmplx>(rng, nops, 5, maxlen)); }
    // complex vectors of 3..10 entries of mixed sizes: the largest modulus sits at a random position (first, middle, last)
    for _ in 0..nh / 4 {
        let n = 3 + rng.below(8);
        let big = rng.below(n);
        let v: Vec<Cmplx> = (0..n).map(|i| { let z = Cmplx::gen(rng, 10, 0); if i == big { Cmplx::new(z.real * 16.0 + 32.0, z.imag * 16.0) } else { z } }).collect();
        out.push(format!("vec_hist c {} 4 norminf abs neg norminf", wr_vec(&v)));
    }
    for _ in 0..nh / 3 {
        let big = rng.chance(10); let n = rng.below(if big { 64 } else { 9 });
        let kind = rng.below(4);
        let p = *rng.pick(&[1.0f64, 1.5, 2.0, 3.0, 8.0, 4.5, 1.25]);
        out.push(format!("vec_norms {} {} {} {}", gen_vec_str::<f64>(rng, n, 15, kind), gen_vec_str::<f64>(rng, n, 15, kind), f64::gen(rng, 5, kind).wr(), p.wr()));
    }
    for _ in 0..nh / 3 {
        let (k1, k2) = (rng.below(3), rng.below(3)); let a = f64::gen(rng, 10, k1); let b = f64::gen(rng, 10, k2);
        let n = if rng.chance(10) { rng.below(3) } else { 2 + rng.below(40) };
        let p = *rng.pick(&[1.0f64, 2.0, 0.5, 3.0, 1.7]);
        out.push(format!("vec_spaces {} {} {} {}", a.wr(), b.wr(), n, p.wr()));
        // degenerate (a == b) and nearly degenerate (a few ulps apart) intervals: the sequence must be constant,
        // resp. monotone, whatever the rounding of the individual nodes
        let n2 = 2 + rng.below(63);
        let b2 = match rng.below(3) { 0 => a, 1 => f64::from_bits(a.to_bits() + 1 + rng.below(8) as u64), _ => f64::from_bits(a.to_bits().wrapping_sub(1 + rng.below(300) as u64)) };
        if a.is_finite() && b2.is_finite() && a != 0.0 { out.push(format!("vec_spaces {} {} {} {}", a.wr(), b2.wr(), n2, p.wr())); }
    }

    // LONGER VECTORS (65 .. 300): chunked / unrolled loops with a remainder
    for i in 0..(if tier == Tier::Quick { 10 } else { 250 }) {
        let maxlen = *rng.pick(&[96usize, 130, 300]);
        let nops = 1 + rng.below(12);
        match i % 3 { 0 => out.push(gen_hist::<Q>(rng, nops, 4, maxlen)), 1 => out.push(gen_hist::<f64>(rng, nops, 4, maxlen)), _ => out.push(gen_hist::<Cmplx>(rng, nops.min(6), 4, maxlen.min(130))) }
        let n = 60 + rng.below(240);
        let p = *rng.pick(&[1.0f64, 2.0, 3.0]);
        out.push(format!("vec_norms {} {} {} {}", gen_vec_str::<f64>(rng, n, 15, 0), gen_vec_str::<f64>(rng, n, 15, 0), f64::gen(rng, 5, 0).wr(), p.wr()));
    }
    // every length 0 .. 70: whole-range and inner-range sums and products of ones / small integers
    for n in 0..=70usize { if tier == Tier::Quick && n > 24 && n % 2 == 1 && n % 8 != 7 { continue; }
        let v: Vec<Q> = (0..n).map(|i| Q::int(1 + (i % 3) as i128 - if i % 7 == 0 { 2 } else { 0 })).collect();
        out.push(format!("vec_hist q {} 5 sum sumslice 0 {} sumslice {} {} norm1 dot {}", wr_vec(&v), n.saturating_sub(1), n / 3, n.saturating_sub(1), wr_vec(&v)));
    }
}
