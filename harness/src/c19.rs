//! C19 — meshes: storage access paths (exact, Mesh1D<Q,Q> / Mesh2D<Q>), interpolation, quadrature,
//! file round trip (Mesh1D<f64,f64> / Mesh2D<f64>).
use crate::expr::*;
use crate::q::Q;
use crate::sc::*;
use crate::wire::*;
use crate::{Ctx, Tier};
use ohsl::{Mesh1D, Mesh2D, Vector};

fn outcome(r: &Result<String, &'static str>) -> String {
    match r { Ok(s) if s.is_empty() => "ok".to_string(), Ok(s) => format!("ok {}", s), Err(c) => format!("!{}", c) }
}
fn dump1<T: Sc, X: Sc>(m: &Mesh1D<T, X>) -> String {
    let mut s = format!("{} {}", m.nvars(), wr_vector(&m.nodes()));
    for i in 0..m.nnodes() { s.push(' '); s.push_str(&wr_vector(&m[i])); }
    s
}

fn mesh1_hist(t: &mut Toks, cx: &mut Ctx) -> String {
    let nodes: Vec<Q> = t.vec();
    let nvars = t.usize();
    let nops = t.usize();
    let mut m = Mesh1D::<Q, Q>::new(Vector::create(nodes.clone()), nvars);
    let nn = nodes.len();
    let mut rf: Vec<Vec<Q>> = vec![vec![Q::int(0); nvars]; nn];
    cx.meta("nodes", nn); cx.meta("nvars", nvars); cx.meta("ops", nops);
    let mut out = dump1(&m);
    for _ in 0..nops {
        let op = t.next();
        let before = dump1(&m);
        let r: Result<String, &'static str> = match op {
            "set" => { let i = t.usize(); let v: Vector<Q> = rd_vector(t); let r = guarded(|| m.set_nodes_vars(i, v.clone()));
                let valid = i < nn && v.size() == nvars;
                match &r { Ok(_) => { cx.check(valid, "set_nodes_vars accepted an out-of-range node / wrong size"); if valid { rf[i] = v.vec.clone(); } } Err(_) => { cx.check(!valid, "set_nodes_vars rejected valid arguments"); cx.check(dump1(&m) == before, "rejected set_nodes_vars modified the mesh"); } }
                r.map(|_| String::new()) }
            "get" => { let i = t.usize(); let r = guarded(|| m.get_nodes_vars(i));
                match &r { Ok(v) => cx.check(i < nn && v.vec == rf[i], "get_nodes_vars returned something else than was stored"), Err(_) => cx.check(i >= nn, "get_nodes_vars rejected a valid node") }
                r.map(|v| wr_vector(&v)) }
            "index" => { let i = t.usize(); let r = guarded(|| m[i].clone());
                if let Ok(v) = &r { cx.check(i < nn && v.vec == rf[i], "index returned something else than was stored"); }
                r.map(|v| wr_vector(&v)) }
            "setvar" => { let (i, k) = (t.usize(), t.usize()); let x: Q = t.get(); let r = guarded(|| { m[i][k] = x; });
                if r.is_ok() { cx.check(i < nn && k < nvars, "indexed write out of range succeeded"); if i < nn && k < nvars { rf[i][k] = x; } } else { cx.check(dump1(&m) == before, "failed indexed write modified the mesh"); }
                r.map(|_| String::new()) }
            "coord" => { let i = t.usize(); let r = guarded(|| m.coord(i)); if let Ok(x) = &r { cx.check(i < nn && *x == nodes[i], "coord"); } r.map(|x| x.wr()) }
            _ => panic!("HARNESS: unknown mesh op {}", op),
        };
        // the whole mesh equals the reference map
        cx.check((0..nn).all(|i| m[i].vec == rf[i]), "mesh differs from the reference map after the operation");
        out.push_str(&format!(" ; {} {} | {}", op, outcome(&r), dump1(&m)));
        if cx.skip.is_some() { break; }
    }
    out
}

fn dump2<T: Sc>(m: &Mesh2D<T>) -> String {
    let (nx, ny) = m.nnodes();
    let mut s = format!("{} {} {}", m.nvars(), nx, ny);
    for i in 0..nx { for j in 0..ny { s.push(' '); s.push_str(&wr_vector(&m[(i, j)])); } }
    s
}

fn mesh2_hist(t: &mut Toks, cx: &mut Ctx) -> String {
    let xn: Vec<f64> = t.vec();
    let yn: Vec<f64> = t.vec();
    let nvars = t.usize();
    let nops = t.usize();
    let (nx, ny) = (xn.len(), yn.len());
    let mut m = Mesh2D::<Q>::new(Vector::create(xn.clone()), Vector::create(yn.clone()), nvars);
    let mut rf: Vec<Vec<Vec<Q>>> = vec![vec![vec![Q::int(0); nvars]; ny]; nx];
    cx.meta("grid", format!("{}x{}", nx, ny)); cx.meta("nvars", nvars); cx.meta("ops", nops);
    let mut out = dump2(&m);
    for _ in 0..nops {
        let op = t.next();
        let before = dump2(&m);
        let r: Result<String, &'static str> = match op {
            "set" => { let (i, j) = (t.usize(), t.usize()); let v: Vector<Q> = rd_vector(t); let r = guarded(|| m.set_nodes_vars(i, j, v.clone()));
                let valid = i < nx && j < ny && v.size() == nvars;
                match &r { Ok(_) => { cx.check(valid, "set_nodes_vars accepted an out-of-range node / wrong size"); if valid { rf[i][j] = v.vec.clone(); } } Err(_) => { cx.check(!valid, "set_nodes_vars rejected valid arguments"); cx.check(dump2(&m) == before, "rejected set_nodes_vars modified the mesh"); } }
                r.map(|_| String::new()) }
            "get" => { let (i, j) = (t.usize(), t.usize()); let r = guarded(|| m.get_nodes_vars(i, j));
                match &r { Ok(v) => cx.check(i < nx && j < ny && v.vec == rf[i][j], "get_nodes_vars returned something else than was stored"), Err(_) => cx.check(!(i < nx && j < ny), "get_nodes_vars rejected a valid node") }
                r.map(|v| wr_vector(&v)) }
            "index" => { let (i, j) = (t.usize(), t.usize()); let r = guarded(|| m[(i, j)].clone());
                if let Ok(v) = &r { if i < nx && j < ny { cx.check(v.vec == rf[i][j], "index returned something else than was stored"); } }
                r.map(|v| wr_vector(&v)) }
            "setvar" => { let (i, j, k) = (t.usize(), t.usize(), t.usize()); let x: Q = t.get(); let r = guarded(|| { m[(i, j)][k] = x; });
                if r.is_ok() { if i < nx && j < ny && k < nvars { rf[i][j][k] = x; } else if k < nvars && j >= ny && i * ny + j < nx * ny { let (a, b) = ((i * ny + j) / ny, (i * ny + j) % ny); rf[a][b][k] = x; } } else { cx.check(dump2(&m) == before, "failed indexed write modified the mesh"); }
                r.map(|_| String::new()) }
            "assign" => { let x: Q = t.get(); let r = guarded(|| m.assign(x)); for a in rf.iter_mut() { for b in a.iter_mut() { for c in b.iter_mut() { *c = x; } } } r.map(|_| String::new()) }
            "xsec" | "ysec" => { let i = t.usize(); let r = guarded(|| if op == "xsec" { m.cross_section_xnode(i) } else { m.cross_section_ynode(i) });
                match &r { Ok(s) => { let (len, ok_i) = if op == "xsec" { (ny, i < nx) } else { (nx, i < ny) };
                        cx.check((ok_i || len == 0) && s.nnodes() == len && (0..len).all(|k| s[k].vec == if op == "xsec" { rf[i][k].clone() } else { rf[k][i].clone() }) && (0..len).all(|k| s.coord(k) == if op == "xsec" { yn[k] } else { xn[k] }), "cross-section differs from the stored row/column (orientation?)"); }
                    Err(_) => cx.check(if op == "xsec" { i >= nx || ny == 0 } else { i >= ny || nx == 0 }, "cross-section rejected a valid node") }
                cx.check(dump2(&m) == before, "cross-section modified the mesh");
                r.map(|s| { let mut z = format!("{} {}", s.nvars(), wr_vector(&s.nodes())); for k in 0..s.nnodes() { z.push(' '); z.push_str(&wr_vector(&s[k])); } z }) }
            "varmat" => { let k = t.usize(); let r = guarded(|| m.var_as_matrix(k));
                match &r { Ok(mm) => cx.check(k < nvars && mm.rows() == nx && mm.cols() == ny && (0..nx).all(|a| (0..ny).all(|b| mm[(a, b)] == rf[a][b][k])), "var_as_matrix differs from the stored values"), Err(_) => cx.check(k >= nvars, "var_as_matrix rejected a valid variable") }
                r.map(|mm| wr_mat(&mm)) }
            "coord" => { let (i, j) = (t.usize(), t.usize()); let r = guarded(|| m.coord(i, j));
                if let Ok((x, y)) = &r { cx.check(i < nx && j < ny && x.to_bits() == xn[i].to_bits() && y.to_bits() == yn[j].to_bits(), "coord returned something else than the node coordinates / accepted an out-of-range node"); }
                r.map(|(x, y)| format!("{} {}", x.wr(), y.wr())) }
            _ => panic!("HARNESS: unknown mesh2 op {}", op),
        };
        cx.check((0..nx).all(|i| (0..ny).all(|j| m[(i, j)].vec == rf[i][j])), "mesh differs from the reference map after the operation");
        out.push_str(&format!(" ; {} {} | {}", op, outcome(&r), dump2(&m)));
        if cx.skip.is_some() { break; }
    }
    out
}

/// f64 meshes: interpolation, quadrature, file round trip
fn mesh1_num(t: &mut Toks, cx: &mut Ctx) -> String {
    let nodes: Vec<f64> = t.vec();
    let nvars = t.usize();
    let data: Vec<f64> = t.vec();           // node-major: data[i*nvars + v]
    let xs: Vec<f64> = t.vec();
    let prec = t.usize();
    let kind = t.next().to_string();
    let nn = nodes.len();
    cx.meta("nodes", nn); cx.meta("nvars", nvars); cx.meta("kind", &kind);
    let mut m = Mesh1D::<f64, f64>::new(Vector::create(nodes.clone()), nvars);
    for i in 0..nn { m.set_nodes_vars(i, Vector::create(data[i * nvars..(i + 1) * nvars].to_vec())); }
    let mut out = String::new();
    for x in &xs {
        let r = guarded(|| m.get_interpolated_vars(*x));
        out.push_str(&match &r { Ok(v) => wr_vector(v), Err(c) => format!("!{}", c) }); out.push(' ');
        if let Ok(v) = &r { if nn >= 2 {
            // oracle: exactly at a node -> nodal values; strictly between neighbours (>= 1e-6 from every node) -> the linear interpolant
            if let Some(k) = nodes.iter().position(|n| n == x) { cx.check((0..nvars).all(|q| (v[q] - data[k * nvars + q]).abs() <= 4.0 * f64::EPSILON * (data[k * nvars + q].abs() + if k > 0 { data[(k - 1) * nvars + q].abs() } else { 0.0 })), "interpolation at a node does not reproduce the nodal values"); }
            else if let Some(k) = (0..nn - 1).find(|k| nodes[*k] + 1e-6 <= *x && *x <= nodes[k + 1] - 1e-6) {
                for q in 0..nvars { let (l, rr) = (data[k * nvars + q], data[(k + 1) * nvars + q]); let e = l + (rr - l) / (nodes[k + 1] - nodes[k]) * (x - nodes[k]);
                    cx.check((v[q] - e).abs() <= 4.0 * f64::EPSILON * (l.abs() + rr.abs() + e.abs()), "interpolation between neighbours differs from the linear interpolant"); } }
        } }
    }
    for q in 0..nvars + 1 {
        let r = guarded(|| m.trapezium(q));
        out.push_str(&match &r { Ok(v) => v.wr(), Err(c) => format!("!{}", c) }); out.push(' ');
        if q < nvars && nn >= 1 { if let Ok(v) = &r {
            let cells: f64 = (0..nn - 1).map(|i| 0.5 * (nodes[i + 1] - nodes[i]) * (data[i * nvars + q] + data[(i + 1) * nvars + q])).sum();
            cx.check(*v == cells, "trapezium differs from the sum of cell contributions");
            if kind == "linear" { // data = alpha*x + beta on dyadic nodes: the rule is exact
                let (a, b) = (nodes[0], nodes[nn - 1]);
                let (fa, fb) = (data[q], data[(nn - 1) * nvars + q]);
                cx.check(*v == 0.5 * (b - a) * (fa + fb), "trapezium not exact for a linear integrand"); }
        } }
    }
    // file round trip
    let dir = std::path::PathBuf::from(std::env::var("OHSL_VERIF_TMP").unwrap_or_else(|_| "/verif/work/tmp".to_string())); let _ = std::fs::create_dir_all(&dir);
    let path = dir.join(format!("mesh-{}-{}.dat", std::process::id(), nn * 1000 + nvars));
    let ps = path.to_str().unwrap().to_string();
    let r = guarded(|| { m.output(&ps, prec); let mut m2 = Mesh1D::<f64, f64>::new(Vector::create(vec![0.0; 1]), nvars); m2.read(&ps); m2 });
    let _ = std::fs::remove_file(&path);
    match &r { Ok(m2) => { out.push_str(&dump1(m2));
            cx.check(m2.nnodes() == nn, "read back a different number of nodes");
            if m2.nnodes() == nn { let tolp = 0.5 * 10f64.powi(-(prec as i32)) * 1.0000001;
                cx.check((0..nn).all(|i| (m2.coord(i) - nodes[i]).abs() <= tolp + 1e-15 * nodes[i].abs()) && (0..nn).all(|i| (0..nvars).all(|q| (m2[i][q] - data[i * nvars + q]).abs() <= tolp + 1e-15 * data[i * nvars + q].abs())), "file round trip does not reproduce nodes/variables to the printed precision"); } }
        Err(c) => { out.push_str(&format!("!{}", c)); if nvars > 0 || nn > 0 { cx.fail(format!("output/read panicked ({})", c)); } } }
    // the same file read into a LARGER receiver that already holds data (nn + 2 nodes, every value 7): the receiver must
    // shrink to the file's nodes, hold the file's values, and reject the node numbers that no longer exist
    let path3 = dir.join(format!("mesh3-{}-{}.dat", std::process::id(), nn * 1000 + nvars));
    let ps3 = path3.to_str().unwrap().to_string();
    let r3 = guarded(|| { m.output(&ps3, prec);
        let mut m3 = Mesh1D::<f64, f64>::new(Vector::create((0..nn + 2).map(|i| i as f64).collect()), nvars);
        for i in 0..nn + 2 { m3.set_nodes_vars(i, Vector::new(nvars, 7.0)); }
        m3.read(&ps3); m3 });
    let _ = std::fs::remove_file(&path3);
    match r3 { Ok(mut m3) => { out.push_str(" | "); out.push_str(&dump1(&m3));
            cx.check(m3.nnodes() == nn, "read into a larger mesh left a different number of nodes than the file holds");
            if let Ok(m2) = &r { cx.check(dump1(&m3) == dump1(m2), "reading the same file into a larger, already filled mesh gives a different mesh"); }
            for k in [nn, nn + 1] {
                let g = guarded(|| m3.get_nodes_vars(k));
                out.push_str(&match &g { Ok(v) => format!(" get{} {}", k - nn, wr_vector(v)), Err(c) => format!(" get{} !{}", k - nn, c) });
                cx.check(g.is_err(), "get_nodes_vars returned a value for a node beyond the nodes read from the file");
                let before = dump1(&m3);
                let st = guarded(|| m3.set_nodes_vars(k, Vector::new(nvars, 1.0)));
                out.push_str(&match &st { Ok(_) => format!(" set{} ok", k - nn), Err(c) => format!(" set{} !{}", k - nn, c) });
                cx.check(st.is_err() && dump1(&m3) == before, "set_nodes_vars accepted (or wrote through) a node beyond the nodes read from the file");
            } }
        Err(c) => { out.push_str(&format!(" | !{}", c)); if nvars > 0 || nn > 0 { cx.fail(format!("output/read into a larger mesh panicked ({})", c)); } } }
    out
}

fn mesh2_num(t: &mut Toks, cx: &mut Ctx) -> String {
    let xn: Vec<f64> = t.vec();
    let yn: Vec<f64> = t.vec();
    let nvars = t.usize();
    let kind = t.next().to_string();
    let exprs: Vec<Expr<f64>> = (0..nvars).map(|_| Expr::parse(t)).collect();
    let (nx, ny) = (xn.len(), yn.len());
    cx.meta("grid", format!("{}x{}", nx, ny)); cx.meta("kind", &kind);
    let mut m = Mesh2D::<f64>::new(Vector::create(xn.clone()), Vector::create(yn.clone()), nvars);
    let mut out = String::new();
    for (q, e) in exprs.iter().enumerate() {
        let r = guarded(|| m.apply(&|x, y| e.eval(&[x, y]), q));
        if let Err(c) = r { out.push_str(&format!("!{} ", c)); }
    }
    cx.check((0..nx).all(|i| (0..ny).all(|j| (0..nvars).all(|q| m[(i, j)][q].to_bits() == exprs[q].eval(&[xn[i], yn[j]]).to_bits()))), "apply stored something else than f(x_i, y_j)");
    out.push_str(&dump2(&m));
    for q in 0..nvars {
        let tr = guarded(|| m.trapezium(q)); let st = guarded(|| m.square_trapezium(q));
        out.push_str(&format!(" {} {}", match &tr { Ok(v) => v.wr(), Err(c) => format!("!{}", c) }, match &st { Ok(v) => v.wr(), Err(c) => format!("!{}", c) }));
        if nx >= 1 && ny >= 1 && (tr.is_err() || st.is_err()) { cx.fail(format!("trapezium / square_trapezium panicked on a valid mesh and variable ({:?} / {:?})", tr.as_ref().err(), st.as_ref().err())); }
        if nx >= 1 && ny >= 1 { if let (Ok(a), Ok(b)) = (&tr, &st) {
            let f = |i: usize, j: usize| m[(i, j)][q];
            let mut s1 = 0.0; let mut s2 = 0.0;
            for i in 0..nx - 1 { for j in 0..ny - 1 { let w = 0.25 * (xn[i + 1] - xn[i]) * (yn[j + 1] - yn[j]);
                s1 += w * (f(i, j) + f(i + 1, j) + f(i, j + 1) + f(i + 1, j + 1)); s2 += w * (f(i, j).powi(2) + f(i + 1, j).powi(2) + f(i, j + 1).powi(2) + f(i + 1, j + 1).powi(2)); } }
            cx.check(*a == s1, "2-D trapezium differs from the sum of cell contributions");
            cx.check((*b - s2).abs() <= 1e-12 * s2.abs().max(1e-300), "square_trapezium differs from the sum of cell contributions");
            if kind == "bilinear" { // f = (a x + b)(c y + d) on dyadic grids: exact = product of 1-D integrals
                let ex: f64 = { let (x0, x1, y0, y1) = (xn[0], xn[nx - 1], yn[0], yn[ny - 1]); 0.25 * (x1 - x0) * (y1 - y0) * (f(0, 0) + f(nx - 1, 0) + f(0, ny - 1) + f(nx - 1, ny - 1)) };
                cx.check(*a == ex, "2-D trapezium not exact for a bilinear integrand"); }
        } }
    }
    // node accessors and the two text forms (whole mesh / one variable); the text is compared character
    // for character with the model (spaces -> ',', newlines -> '/', so that it stays one token)
    let (gx, gy) = (guarded(|| m.xnodes()), guarded(|| m.ynodes()));
    if let (Ok(a), Ok(b)) = (&gx, &gy) { cx.check(same_vec(&a.vec, &xn) && same_vec(&b.vec, &yn), "xnodes()/ynodes() differ from the nodes the mesh was built from"); }
    out.push_str(&format!(" xn {} yn {}", match &gx { Ok(v) => wr_vector(v), Err(c) => format!("!{}", c) }, match &gy { Ok(v) => wr_vector(v), Err(c) => format!("!{}", c) }));
    let prec = 1 + (nx + 2 * ny + nvars) % 6;
    let dir = std::path::PathBuf::from(std::env::var("OHSL_VERIF_TMP").unwrap_or_else(|_| "/verif/work/tmp".to_string())); let _ = std::fs::create_dir_all(&dir);
    let path = dir.join(format!("mesh2-{}-{}.dat", std::process::id(), nx * 100 + ny));
    let ps = path.to_str().unwrap().to_string();
    let enc = |s: String| if s.is_empty() { "-".to_string() } else { s.replace(' ', ",").replace('\n', "/") };
    let check_text = |cx: &mut Ctx, text: &str, vars: Vec<usize>, what: &str| {
        let lines: Vec<&str> = text.split('\n').collect();
        let mut k = 0; let mut ok = true; let tolp = 0.5 * 10f64.powi(-(prec as i32)) * 1.0000001;
        for j in 0..ny { for i in 0..nx {
            let toks: Vec<f64> = lines.get(k).map(|l| l.split_whitespace().filter_map(|w| w.parse::<f64>().ok()).collect()).unwrap_or_default(); k += 1;
            if toks.len() != 2 + vars.len() { ok = false; continue; }
            ok &= (toks[0] - xn[i]).abs() <= tolp && (toks[1] - yn[j]).abs() <= tolp;
            for (c, q) in vars.iter().enumerate() { let v = m[(i, j)][*q]; ok &= (toks[2 + c] - v).abs() <= tolp + 1e-15 * v.abs(); } }
            ok &= lines.get(k).map(|l| l.is_empty()).unwrap_or(false); k += 1; }
        cx.check(ok, &format!("{}: the file does not list x, y and the variables of every node (y outer, x inner, blank line after each y) to the printed precision", what)); };
    let r = guarded(|| { m.output(&ps, prec); std::fs::read_to_string(&ps).unwrap_or_default() });
    if let Ok(text) = &r { if nx * ny == 0 || m[(0, 0)].vec.iter().all(|v| v.is_finite()) { check_text(cx, text, (0..nvars).collect(), "output"); } }
    if let Err(c) = &r { cx.fail(format!("output panicked ({}) on a valid mesh", c)); }
    out.push_str(&format!(" file {} {}", prec, match r { Ok(s) => enc(s), Err(c) => format!("!{}", c) }));
    let r = guarded(|| { m.output_var(&ps, 0, prec); std::fs::read_to_string(&ps).unwrap_or_default() });
    if let Ok(text) = &r { if nvars > 0 { check_text(cx, text, vec![0], "output_var"); } }
    if let Err(c) = &r { if nvars > 0 || nx * ny == 0 { cx.fail(format!("output_var panicked ({}) on a valid mesh and variable", c)); } }
    out.push_str(&format!(" filevar {}", match r { Ok(s) => enc(s), Err(c) => format!("!{}", c) }));
    let _ = std::fs::remove_file(&path);
    out
}

fn views1(m: &Mesh1D<f64, f64>, xs: &[f64]) -> String {
    let mut out = String::new();
    for q in 0..m.nvars() + 1 { let r = guarded(|| m.trapezium(q)); out.push(' '); out.push_str(&match &r { Ok(v) => v.wr(), Err(c) => format!("!{}", c) }); }
    for x in xs { let r = guarded(|| m.get_interpolated_vars(*x)); out.push(' '); out.push_str(&match &r { Ok(v) => wr_vector(v), Err(c) => format!("!{}", c) }); }
    out
}
/// history of an f64 1-D mesh; after EVERY step all read-only views (quadrature of every variable, interpolation at fixed
/// points) are evaluated and must equal, bit for bit, those of a twin mesh freshly built from the reference map
fn mesh1_fhist(t: &mut Toks, cx: &mut Ctx) -> String {
    let nodes: Vec<f64> = t.vec();
    let nvars = t.usize();
    let xs: Vec<f64> = t.vec();
    let nops = t.usize();
    let nn = nodes.len();
    cx.meta("nodes", nn); cx.meta("nvars", nvars); cx.meta("ops", nops);
    let mut m = Mesh1D::<f64, f64>::new(Vector::create(nodes.clone()), nvars);
    let mut rn: Vec<f64> = nodes.clone();
    let mut rf: Vec<Vec<f64>> = vec![vec![0.0; nvars]; nn];
    let twin = |rn: &Vec<f64>, rf: &Vec<Vec<f64>>| { let mut w = Mesh1D::<f64, f64>::new(Vector::create(rn.clone()), nvars); for i in 0..rn.len() { w.set_nodes_vars(i, Vector::create(rf[i].clone())); } w };
    let mut out = format!("{} ~{}", dump1(&m), views1(&m, &xs));
    let mut drift = 0.0f64;   // what the printed precisions of the re-reads so far allow the nodes to have moved
    let dir = std::path::PathBuf::from(std::env::var("OHSL_VERIF_TMP").unwrap_or_else(|_| "/verif/work/tmp".to_string())); let _ = std::fs::create_dir_all(&dir);
    for step in 0..nops {
        let op = t.next();
        let before = dump1(&m);
        let r: Result<(), &'static str> = match op {
            "set" => { let i = t.usize(); let v: Vector<f64> = rd_vector(t); let r = guarded(|| m.set_nodes_vars(i, v.clone()));
                let valid = i < rn.len() && v.size() == nvars;
                match &r { Ok(_) => { cx.check(valid, "set_nodes_vars accepted an out-of-range node / wrong size"); if valid { rf[i] = v.vec.clone(); } } Err(_) => { cx.check(!valid, "set_nodes_vars rejected valid arguments"); cx.check(dump1(&m) == before, "rejected set_nodes_vars modified the mesh"); } }
                r }
            "setvar" => { let (i, k) = (t.usize(), t.usize()); let x: f64 = t.get(); let r = guarded(|| { m[i][k] = x; });
                if r.is_ok() { cx.check(i < rn.len() && k < nvars, "indexed write out of range succeeded"); if i < rn.len() && k < nvars { rf[i][k] = x; } } else { cx.check(dump1(&m) == before, "failed indexed write modified the mesh"); }
                r }
            "reread" => { let prec = t.usize();
                let path = dir.join(format!("meshh-{}-{}.dat", std::process::id(), step)); let ps = path.to_str().unwrap().to_string();
                let r = guarded(|| { m.output(&ps, prec); m.read(&ps); });
                // the reference becomes what a FRESH one-node mesh reads from the same file
                let r2 = guarded(|| { let mut w = Mesh1D::<f64, f64>::new(Vector::create(vec![0.0; 1]), nvars); w.read(&ps); w });
                let _ = std::fs::remove_file(&path);
                match (&r, &r2) { (Ok(_), Ok(w)) => { rn = w.nodes().vec.clone(); rf = (0..w.nnodes()).map(|i| w[i].vec.clone()).collect();
                        drift += 0.5 * 10f64.powi(-(prec as i32)) * 1.0000001;
                        cx.check(rn.len() == nn && (0..nn.min(rn.len())).all(|i| (rn[i] - nodes[i]).abs() <= drift + 1e-15 * nodes[i].abs()), "re-reading the mesh's own file changed the nodes by more than the printed precision"); }
                    _ => if nvars > 0 || nn > 0 { cx.fail("output / read of the mesh's own file panicked".to_string()); } }
                r }
            _ => panic!("HARNESS: unknown mesh1 f-op {}", op),
        };
        let w = twin(&rn, &rf);
        cx.check(dump1(&m) == dump1(&w), "mesh differs from the reference map after the operation");
        let (va, vb) = (views1(&m, &xs), views1(&w, &xs));
        cx.check(va == vb, "a read-only view (trapezium / interpolation) of the edited mesh differs from the same view of a mesh freshly built with the same contents");
        out.push_str(&format!(" ; {} {} | {} ~{}", op, match &r { Ok(_) => "ok".to_string(), Err(c) => format!("!{}", c) }, dump1(&m), va));
        if cx.skip.is_some() { break; }
    }
    out
}

fn views2(m: &Mesh2D<f64>) -> String {
    let mut out = String::new();
    for q in 0..m.nvars() { let (a, b) = (guarded(|| m.trapezium(q)), guarded(|| m.square_trapezium(q)));
        out.push_str(&format!(" {} {}", match &a { Ok(v) => v.wr(), Err(c) => format!("!{}", c) }, match &b { Ok(v) => v.wr(), Err(c) => format!("!{}", c) })); }
    out
}
fn mesh2_fhist(t: &mut Toks, cx: &mut Ctx) -> String {
    let xn: Vec<f64> = t.vec();
    let yn: Vec<f64> = t.vec();
    let nvars = t.usize();
    let nops = t.usize();
    let (nx, ny) = (xn.len(), yn.len());
    cx.meta("grid", format!("{}x{}", nx, ny)); cx.meta("nvars", nvars); cx.meta("ops", nops);
    let mut m = Mesh2D::<f64>::new(Vector::create(xn.clone()), Vector::create(yn.clone()), nvars);
    let mut rf: Vec<Vec<Vec<f64>>> = vec![vec![vec![0.0; nvars]; ny]; nx];
    let twin = |rf: &Vec<Vec<Vec<f64>>>| { let mut w = Mesh2D::<f64>::new(Vector::create(xn.clone()), Vector::create(yn.clone()), nvars); for i in 0..nx { for j in 0..ny { w.set_nodes_vars(i, j, Vector::create(rf[i][j].clone())); } } w };
    let mut out = format!("{} ~{}", dump2(&m), views2(&m));
    for _ in 0..nops {
        let op = t.next();
        let before = dump2(&m);
        let r: Result<String, &'static str> = match op {
            "set" => { let (i, j) = (t.usize(), t.usize()); let v: Vector<f64> = rd_vector(t); let r = guarded(|| m.set_nodes_vars(i, j, v.clone()));
                let valid = i < nx && j < ny && v.size() == nvars;
                match &r { Ok(_) => { cx.check(valid, "set_nodes_vars accepted an out-of-range node / wrong size"); if valid { rf[i][j] = v.vec.clone(); } } Err(_) => { cx.check(!valid, "set_nodes_vars rejected valid arguments"); cx.check(dump2(&m) == before, "rejected set_nodes_vars modified the mesh"); } }
                r.map(|_| String::new()) }
            "setvar" => { let (i, j, k) = (t.usize(), t.usize(), t.usize()); let x: f64 = t.get(); let r = guarded(|| { m[(i, j)][k] = x; });
                if r.is_ok() { if i < nx && j < ny && k < nvars { rf[i][j][k] = x; } } else { cx.check(dump2(&m) == before, "failed indexed write modified the mesh"); }
                r.map(|_| String::new()) }
            "assign" => { let x: f64 = t.get(); let r = guarded(|| m.assign(x)); for a in rf.iter_mut() { for b in a.iter_mut() { for c in b.iter_mut() { *c = x; } } } r.map(|_| String::new()) }
            "xtrap" => { let (i, q) = (t.usize(), t.usize()); let r = guarded(|| m.cross_section_xnode(i).trapezium(q));
                if let Ok(v) = &r { if i < nx && q < nvars && ny >= 1 { let cells: f64 = (0..ny - 1).map(|j| 0.5 * (yn[j + 1] - yn[j]) * (rf[i][j][q] + rf[i][j + 1][q])).sum(); cx.check(*v == cells, "quadrature along a cross-section differs from the sum of its cell contributions"); } }
                cx.check(dump2(&m) == before, "cross-section modified the mesh");
                r.map(|v| v.wr()) }
            _ => panic!("HARNESS: unknown mesh2 f-op {}", op),
        };
        let w = twin(&rf);
        cx.check(dump2(&m) == dump2(&w), "mesh differs from the reference map after the operation");
        let (va, vb) = (views2(&m), views2(&w));
        cx.check(va == vb, "a read-only view (trapezium / square_trapezium) of the edited mesh differs from the same view of a mesh freshly built with the same contents");
        out.push_str(&format!(" ; {} {} | {} ~{}", op, outcome(&r), dump2(&m), va));
        if cx.skip.is_some() { break; }
    }
    out
}

pub fn exec(op: &str, t: &mut Toks, cx: &mut Ctx) -> Option<String> {
    match op { "mesh1_hist" => Some(mesh1_hist(t, cx)), "mesh2_hist" => Some(mesh2_hist(t, cx)), "mesh1_num" => Some(mesh1_num(t, cx)), "mesh2_num" => Some(mesh2_num(t, cx)), "mesh1_fhist" => Some(mesh1_fhist(t, cx)), "mesh2_fhist" => Some(mesh2_fhist(t, cx)), _ => None }
}

/// increasing NEARLY uniform dyadic grid: spacings 2^-6 + k 2^-24 (k = 0..3), i.e. differing by less than 1e-7
fn grid_near_uniform(rng: &mut Rng, n: usize) -> Vec<f64> { let mut x = rng.range(-4, 4) as f64 / 4.0; let mut v = Vec::new(); for _ in 0..n { v.push(x); x += 1.0 / 64.0 + rng.below(4) as f64 / 16777216.0; } v }
/// increasing non-uniform dyadic grid with spacing >= 1/64
fn grid(rng: &mut Rng, n: usize) -> Vec<f64> { let mut x = rng.range(-8, 8) as f64 / 4.0; let mut v = Vec::new(); for _ in 0..n { v.push(x); x += (1 + rng.below(40)) as f64 / 16.0; } v }

pub fn gen(rng: &mut Rng, tier: Tier, out: &mut Vec<String>) {
    let nh = if tier == Tier::Quick { 120 } else { 2500 };
    for _ in 0..nh {
        // 1-D storage histories (exact)
        let nn = rng.below(9); let nvars = rng.below(5);
        let nodes: Vec<Q> = (0..nn).map(|i| Q::new(i as i128 * 3 + rng.below(3) as i128, 2)).collect();
        let nops = 1 + rng.below(20);
        let mut s = format!("mesh1_hist {} {} {}", wr_vec(&nodes), nvars, nops);
        for _ in 0..nops { let bad = rng.chance(10); let node = if bad || nn == 0 { nn + rng.below(2) } else { rng.below(nn) };
            match rng.below(6) { 0 | 1 => { let l = if bad && rng.chance(50) { nvars + 1 } else { nvars }; s.push_str(&format!(" set {} {}", node, gen_vec_str::<Q>(rng, l, 10, 0))); }
                2 => s.push_str(&format!(" get {}", node)), 3 => s.push_str(&format!(" index {}", node)),
                4 => { let k = if bad || nvars == 0 { nvars + rng.below(2) } else { rng.below(nvars) }; s.push_str(&format!(" setvar {} {} {}", node, k, Q::gen(rng, 10, 0).wr())); }
                _ => s.push_str(&format!(" coord {}", node)) } }
        out.push(s);
        // 2-D storage histories (exact)
        let (nx, ny) = (rng.below(6), rng.below(6)); let nvars = 1 + rng.below(4);
        let nops = 1 + rng.below(20);
        let mut s = format!("mesh2_hist {} {} {} {}", wr_vec(&grid(rng, nx)), wr_vec(&grid(rng, ny)), nvars, nops);
        for _ in 0..nops { let bad = rng.chance(10);
            let i = if bad || nx == 0 { nx + rng.below(2) } else { rng.below(nx) }; let j = if (bad && rng.chance(50)) || ny == 0 { ny + rng.below(2) } else { rng.below(ny) };
            match rng.below(10) { 0 | 1 | 2 => { let l = if bad && rng.chance(30) { nvars + 1 } else { nvars }; s.push_str(&format!(" set {} {} {}", i, j, gen_vec_str::<Q>(rng, l, 10, 0))); }
                3 => s.push_str(&format!(" get {} {}", i, j)), 4 => s.push_str(&format!(" index {} {}", i.min(nx.saturating_sub(1)), j.min(ny.saturating_sub(1)))),
                5 => s.push_str(&format!(" setvar {} {} {} {}", i.min(nx.saturating_sub(1)), j.min(ny.saturating_sub(1)), rng.below(nvars), Q::gen(rng, 10, 0).wr())),
                6 => s.push_str(&format!(" xsec {}", i)), 7 => s.push_str(&format!(" ysec {}", j)),
                8 => s.push_str(&format!(" varmat {}", if bad { nvars } else { rng.below(nvars) })),
                _ => if rng.chance(30) { s.push_str(&format!(" assign {}", Q::gen(rng, 10, 0).wr())) } else { s.push_str(&format!(" coord {} {}", i.min(nx.saturating_sub(1)), j.min(ny.saturating_sub(1)))) } } }
        out.push(s);
    }
    for k in 0..nh {
        // f64: integer nodal data on 2..12 nodes, 1..4 variables
        let nn = 2 + rng.below(11); let nvars = 1 + rng.below(4);
        let nodes = grid(rng, nn);
        let linear = k % 3 == 0;
        let coef: Vec<(f64, f64)> = (0..nvars).map(|_| (rng.range(-6, 6) as f64, rng.range(-9, 9) as f64)).collect();
        let data: Vec<f64> = (0..nn).flat_map(|i| (0..nvars).map(|q| if linear { coef[q].0 * nodes[i] * 16.0 + coef[q].1 } else { rng.range(-40, 40) as f64 }).collect::<Vec<_>>()).collect();
        let mut xs: Vec<f64> = Vec::new();
        for _ in 0..4 { let c = rng.below(nn - 1); xs.push(nodes[rng.below(nn)]); xs.push(0.5 * (nodes[c] + nodes[c + 1])); xs.push(nodes[c] + (nodes[c + 1] - nodes[c]) * (0.001 + 0.998 * rng.unit())); }
        xs.push(nodes[0] - 1.0); xs.push(nodes[nn - 1] + 1.0);
        out.push(format!("mesh1_num {} {} {} {} {} {}", wr_vec(&nodes), nvars, wr_vec(&data), wr_vec(&xs), *rng.pick(&[0usize, 2, 4, 8, 12]), if linear { "linear" } else { "general" }));
        // 2-D
        let (nx, ny) = (2 + rng.below(if tier == Tier::Quick { 6 } else { 11 }), 2 + rng.below(if tier == Tier::Quick { 6 } else { 11 }));
        let bil = k % 2 == 0; let nv2 = 1 + rng.below(3);
        let kk = |x: f64| Expr::<f64>::Const(x);
        let exprs: Vec<Expr<f64>> = (0..nv2).map(|_| {
            let lx = Expr::Add(Box::new(Expr::Mul(Box::new(kk(rng.range(-3, 3) as f64 * 16.0)), Box::new(Expr::Var(0)))), Box::new(kk(rng.range(-5, 5) as f64)));
            let ly = Expr::Add(Box::new(Expr::Mul(Box::new(kk(rng.range(-3, 3) as f64 * 16.0)), Box::new(Expr::Var(1)))), Box::new(kk(rng.range(-5, 5) as f64)));
            if bil { Expr::Mul(Box::new(lx), Box::new(ly)) } else { Expr::Add(Box::new(Expr::Sin(Box::new(lx))), Box::new(Expr::Mul(Box::new(ly.clone()), Box::new(ly)))) } }).collect();
        let mut s = format!("mesh2_num {} {} {} {}", wr_vec(&grid(rng, nx)), wr_vec(&grid(rng, ny)), nv2, if bil { "bilinear" } else { "general" });
        for e in &exprs { s.push(' '); s.push_str(&e.show()); }
        out.push(s);
        // nearly uniform (but not uniform) grids: spacings differ by less than 1e-7 — every cell must still enter with ITS width
        if k % 3 == 0 {
            let mut s = format!("mesh2_num {} {} {} general", wr_vec(&grid_near_uniform(rng, nx)), wr_vec(&grid_near_uniform(rng, ny)), nv2);
            for e in &exprs { let g = if bil { Expr::Add(Box::new(e.clone()), Box::new(Expr::Sin(Box::new(Expr::Var(0))))) } else { e.clone() }; s.push(' '); s.push_str(&g.show()); }
            out.push(s);
        }
    }
    // f64 histories: edits through every write path, all read-only views after every step
    for _ in 0..nh / 2 {
        let nn = 2 + rng.below(9); let nvars = 1 + rng.below(3);
        let nodes = grid(rng, nn);
        let mut xs: Vec<f64> = Vec::new();
        for _ in 0..2 { let c = rng.below(nn - 1); xs.push(nodes[rng.below(nn)]); xs.push(nodes[c] + (nodes[c + 1] - nodes[c]) * (0.001 + 0.998 * rng.unit())); }
        let nops = 2 + rng.below(14);
        let mut s = format!("mesh1_fhist {} {} {} {}", wr_vec(&nodes), nvars, wr_vec(&xs), nops);
        for _ in 0..nops { let bad = rng.chance(6); let node = if bad { nn + rng.below(2) } else { rng.below(nn) };
            match rng.below(8) { 0 | 1 | 2 => { let l = if bad && rng.chance(50) { nvars + 1 } else { nvars }; let v: Vec<f64> = (0..l).map(|_| rng.range(-40, 40) as f64 / 4.0).collect(); s.push_str(&format!(" set {} {}", node, wr_vec(&v))); }
                3 | 4 | 5 | 6 => { let k = if bad { nvars + rng.below(2) } else { rng.below(nvars) }; s.push_str(&format!(" setvar {} {} {}", node, k, (rng.range(-40, 40) as f64 / 4.0).wr())); }
                _ => s.push_str(&format!(" reread {}", *rng.pick(&[2usize, 4, 8]))) } }
        out.push(s);
        let (nx, ny) = (1 + rng.below(5), 1 + rng.below(5)); let nvars = 1 + rng.below(3);
        let nops = 2 + rng.below(14);
        let mut s = format!("mesh2_fhist {} {} {} {}", wr_vec(&grid(rng, nx)), wr_vec(&grid(rng, ny)), nvars, nops);
        for _ in 0..nops { let bad = rng.chance(6);
            let i = if bad { nx + rng.below(2) } else { rng.below(nx) }; let j = if bad && rng.chance(50) { ny + rng.below(2) } else { rng.below(ny) };
            match rng.below(10) { 0 | 1 | 2 => { let l = if bad && rng.chance(30) { nvars + 1 } else { nvars }; let v: Vec<f64> = (0..l).map(|_| rng.range(-40, 40) as f64 / 4.0).collect(); s.push_str(&format!(" set {} {} {}", i, j, wr_vec(&v))); }
                3 | 4 | 5 | 6 => s.push_str(&format!(" setvar {} {} {} {}", i.min(nx - 1), j.min(ny - 1), rng.below(nvars), (rng.range(-40, 40) as f64 / 4.0).wr())),
                7 => s.push_str(&format!(" assign {}", (rng.range(-8, 8) as f64 / 2.0).wr())),
                _ => s.push_str(&format!(" xtrap {} {}", rng.below(nx), rng.below(nvars))) } }
        out.push(s);
    }

    // LARGER MESHES (up to 65 nodes / 33 x 25 grids)
    for k in 0..(if tier == Tier::Quick { 10 } else { 200 }) {
        let nn = big(rng, 65); let nvars = 1 + rng.below(3);
        let nodes = grid(rng, nn);
        let linear = k % 2 == 0;
        let coef: Vec<(f64, f64)> = (0..nvars).map(|_| (rng.range(-6, 6) as f64, rng.range(-9, 9) as f64)).collect();
        let data: Vec<f64> = (0..nn).flat_map(|i| (0..nvars).map(|q| if linear { coef[q].0 * nodes[i] * 16.0 + coef[q].1 } else { rng.range(-40, 40) as f64 }).collect::<Vec<_>>()).collect();
        let mut xs: Vec<f64> = Vec::new();
        for _ in 0..4 { let c = rng.below(nn - 1); xs.push(nodes[rng.below(nn)]); xs.push(nodes[c] + (nodes[c + 1] - nodes[c]) * (0.001 + 0.998 * rng.unit())); }
        xs.push(nodes[nn - 1]); xs.push(0.5 * (nodes[nn - 2] + nodes[nn - 1]));
        out.push(format!("mesh1_num {} {} {} {} {} {}", wr_vec(&nodes), nvars, wr_vec(&data), wr_vec(&xs), *rng.pick(&[2usize, 8]), if linear { "linear" } else { "general" }));
        let (nx, ny) = (big(rng, 33), if rng.chance(50) { big(rng, 25) } else { 2 + rng.below(6) });
        let kk = |x: f64| Expr::<f64>::Const(x);
        let lx = Expr::Add(Box::new(Expr::Mul(Box::new(kk(rng.range(-3, 3) as f64 * 16.0)), Box::new(Expr::Var(0)))), Box::new(kk(rng.range(-5, 5) as f64)));
        let ly = Expr::Add(Box::new(Expr::Mul(Box::new(kk(rng.range(-3, 3) as f64 * 16.0)), Box::new(Expr::Var(1)))), Box::new(kk(rng.range(-5, 5) as f64)));
        let e = if linear { Expr::Mul(Box::new(lx), Box::new(ly)) } else { Expr::Add(Box::new(Expr::Sin(Box::new(lx))), Box::new(Expr::Mul(Box::new(ly.clone()), Box::new(ly)))) };
        out.push(format!("mesh2_num {} {} 1 {} {}", wr_vec(&grid(rng, nx)), wr_vec(&grid(rng, ny)), if linear { "bilinear" } else { "general" }, e.show()));
    }
}
