//! C10 — Polynomial<f64>::roots / Polynomial<Cmplx>::roots.
use crate::sc::*;
use crate::wire::*;
use crate::{Ctx, Tier};
use ohsl::{Cmplx, Polynomial, Vector};

fn cx_maxbe(cx: &Ctx) -> f64 { cx.meta.iter().find(|kv| kv.0 == "maxbe").map(|kv| kv.1.parse::<f64>().unwrap()).unwrap_or(0.0) }
fn cabs(z: Cmplx) -> f64 { z.real.hypot(z.imag) }
/// the modulus exactly as the crate computes it (the reference copy of the pinned algorithm must follow the code bit for bit)
fn cabs_ref(z: Cmplx) -> f64 { (z.real * z.real + z.imag * z.imag).sqrt() }

fn roots(t: &mut Toks, cx: &mut Ctx) -> String {
    let tag = t.next().to_string();
    let kind = t.next().to_string();
    let refine = t.usize() == 1;
    let coeffs: Vec<Cmplx> = if tag == "f" { t.vec::<f64>().into_iter().map(|x| Cmplx::new(x, 0.0)).collect() } else { t.vec::<Cmplx>() };
    let known: Vec<Cmplx> = t.vec::<Cmplx>();
    let r: Result<Vector<Cmplx>, &'static str> = if tag == "f" {
        let p = Polynomial::new(coeffs.iter().map(|z| z.real).collect::<Vec<f64>>());
        guarded(|| p.roots(refine))
    } else {
        let p = Polynomial::new(coeffs.clone());
        guarded(|| p.roots(refine))
    };
    let n = coeffs.len().saturating_sub(1);
    cx.meta("tag", &tag); cx.meta("kind", &kind); cx.meta("degree", n); cx.meta("refine", refine as usize);
    cx.meta("path", match n { 0 => "reject", 1 => "linear", 2 => "quadratic", 3 => "cardano", _ => "laguerre" });
    let lead_ok = coeffs.len() >= 2 && cabs(coeffs[n]) != 0.0;
    match &r {
        Err(c) => { cx.check(coeffs.len() < 2, &format!("roots panicked ({}) on a polynomial of degree >= 1", c)); format!("!{}", c) }
        Ok(z) => {
            cx.check(coeffs.len() >= 2, "degree-0 polynomial was not rejected");
            if lead_ok {
                cx.check(z.size() == n, "number of returned values differs from the degree");
                let amax = coeffs.iter().map(|c| cabs(*c)).fold(0.0, f64::max);
                for k in 0..z.size() {
                    let zk = z[k];
                    if !(zk.real.is_finite() && zk.imag.is_finite()) { cx.fail(format!("root {} is not finite", k)); continue; }
                    // normwise backward error: |p(z)| relative to sum |a_k| |z|^k
                    let mut pv = Cmplx::new(0.0, 0.0); let mut scale = 0.0; let az = cabs(zk);
                    for j in (0..=n).rev() { pv = pv * zk + coeffs[j]; scale = scale * az + 1.0; }
                    // normwise backward error: smallest relative (to max|a_k|) coefficient perturbation making z a root
                    let be = cabs(pv) / (amax * scale).max(1e-300);
                    if be > cx_maxbe(cx) { cx.meta.retain(|kv| kv.0 != "maxbe"); cx.meta("maxbe", format!("{:e}", be)); }
                    // the closed quadratic formula is backward stable (no iteration, no deflation): hold it to 1e-12
                    // polished values (refine) are Laguerre fixed points of the ORIGINAL polynomial: observed <= 2.5e-16 on 12 000 cases, held to
                    // 1e-12; unrefined Cardano / deflated Laguerre values: observed <= 2.6e-8 (cancellation, deflation), held to 1e-7
                    let lim = if n <= 2 || refine { 1e-12 } else { 1e-7 };
                    if !(be <= lim) { cx.fail(format!("root {} = ({:e},{:e}) has backward error {:e} (|p(z)| = {:e}, max|a| = {:e})", k, zk.real, zk.imag, be, cabs(pv), amax)); }
                }
                if !cx.fails.is_empty() && n == 3 && !refine && cardano_discriminant_lost(&coeffs) {
                    // classify (independent recomputation of the discriminant in the harness, plain f64): its five terms cancel to
                    // below their rounding uncertainty, so sqrt(-27 a^2 dis) and everything derived from it is rounding noise
                    for f in cx.fails.iter_mut() { f.push_str(" [closed-form cubic: the discriminant cancelled (|dis| below the rounding uncertainty 8 eps sum|terms| of its evaluation): Cardano's formula has no information left on this input]"); }
                }
                // one-to-one matching with well-separated known roots
                let match_fails = |vals: &[Cmplx]| -> Vec<String> {
                    let mut out = Vec::new();
                    if known.is_empty() || known.len() != vals.len() || !vals.iter().all(|w| w.real.is_finite() && w.imag.is_finite()) { return out; }
                    let mut used = vec![false; n];
                    for kr in &known {
                        let mut best = None; let mut bd = f64::INFINITY;
                        for k in 0..n { if !used[k] { let d = cabs(vals[k] - *kr); if d < bd { bd = d; best = Some(k); } } }
                        // tolerance: 1e-6 (1 + |r|), widened by the conditioning of the root: a coefficient perturbation of relative size
                        // 1e3 eps moves a simple root by about 1e3 eps sum|a_k||r|^k / |p'(r)| (closely spaced roots are ill-conditioned)
                        let (mut dp, mut sc) = (Cmplx::new(0.0, 0.0), 0.0f64); let ar = cabs(*kr);
                        for j in (1..=n).rev() { dp = dp * *kr + coeffs[j] * (j as f64); } for j in (0..=n).rev() { sc = sc * ar + cabs(coeffs[j]); }
                        let tolr = 1e-6 * (1.0 + ar) + 1e3 * f64::EPSILON * sc / cabs(dp).max(1e-300);
                        if let Some(k) = best { used[k] = true; if !(bd <= tolr) { out.push(format!("no returned value within {:e} of the known root ({:e},{:e}) (nearest unused at distance {:e})", tolr, kr.real, kr.imag, bd)); } }
                    }
                    out
                };
                for m in match_fails(&z.vec) { cx.fail(m); }
                if !cx.fails.is_empty() && n > 3 {
                    // classify: does the reference copy of the pinned Laguerre + deflation algorithm fail on this input too
                    // (a Laguerre call cycles, a returned value is not a root, or — every value being a root — one root is
                    // returned twice and another is missing)?
                    let (rr, cyc) = ref_poly_solve(&coeffs, refine);
                    let rbe = rr.iter().map(|w| backward_error(&coeffs, *w)).fold(0.0, f64::max);
                    let rdup = !match_fails(&rr).is_empty();
                    if cyc || rbe > (if refine { 1e-12 } else { 1e-7 }) || rdup {
                        let why = if cyc { "a Laguerre iteration from the fixed start x = 0 uses up its 79 steps without converging" } else if rbe > (if refine { 1e-12 } else { 1e-7 }) { if !refine { "deflation without polishing loses accuracy / accepts a far-away point" } else { "the iteration accepts a point that is not a root" } } else { "deflation hands two starting values to the same root: a root is returned twice and another one is lost" };
                        for f in cx.fails.iter_mut() { f.push_str(&format!(" [pinned Laguerre+deflation algorithm fails on this input: {}; reference backward error {:e}]", why, rbe)); }
                    }
                }
            }
            wr_vector(z)
        }
    }
}


/// Reference copy of the pinned Laguerre/deflation algorithm (Numerical Recipes `zroots`), used
/// only to classify failures: reports whether some Laguerre call used up its 79 iterations
/// without meeting either stopping test (the algorithm's known failure mode: a cycle).
fn ref_laguer(a: &[Cmplx], x: &mut Cmplx) -> bool {
    let frac = [0.0, 0.5, 0.25, 0.75, 0.13, 0.38, 0.62, 0.88, 1.0];
    let m = a.len() - 1;
    for iter in 1..80usize {
        let mut b = a[m]; let mut err = cabs_ref(b); let mut d = Cmplx::new(0.0, 0.0); let mut f = Cmplx::new(0.0, 0.0); let abx = cabs_ref(*x);
        for j in (0..m).rev() { f = *x * f + d; d = *x * d + b; b = *x * b + a[j]; err = cabs_ref(b) + abx * err; }
        err *= f64::EPSILON;
        if cabs_ref(b) <= err { return true; }
        let g = d / b; let g2 = g * g; let h = g2 - (f / b) * 2.0;
        let sq = ((h * (m as f64) - g2) * ((m - 1) as f64)).sqrt();
        let mut gp = g + sq; let gm = g - sq;
        let (abp, abm) = (cabs_ref(gp), cabs_ref(gm));
        if !(abp.is_finite() && abm.is_finite()) { return true; }   // (repair D13: |p'/p|^2 overflowed, a root is within 1e-76)
        if abp < abm { gp = gm; }
        let dx = if abp.max(abm) > 0.0 { Cmplx::new(m as f64, 0.0) / gp } else { Cmplx::polar(1.0 + abx, iter as f64) };
        let x1 = *x - dx;
        if *x == x1 { return true; }
        if !(x1.real.is_finite() && x1.imag.is_finite()) { return true; }
        if iter % 10 != 0 { *x = x1; } else { *x = *x - dx * frac[iter / 10]; }
    }
    false
}
fn ref_poly_solve(coeffs: &[Cmplx], refine: bool) -> (Vec<Cmplx>, bool) {
    let degree = coeffs.len() - 1;
    let mut bad = false;
    let mut roots = vec![Cmplx::new(0.0, 0.0); degree];
    let mut ad = coeffs.to_vec();
    for j in (0..degree).rev() {
        let mut x = Cmplx::new(0.0, 0.0);
        let adv: Vec<Cmplx> = ad[..j + 2].to_vec();
        if !ref_laguer(&adv, &mut x) { bad = true; }
        if x.imag.abs() <= 2.0 * f64::EPSILON * x.real.abs() { x = Cmplx::new(x.real, 0.0); }
        roots[j] = x;
        let mut b = ad[j + 1];
        for jj in (0..j + 1).rev() { let c = ad[jj]; ad[jj] = b; b = x * b + c; }
    }
    if refine { for j in 0..degree { if !ref_laguer(coeffs, &mut roots[j]) { bad = true; } } }
    (roots, bad)
}
fn backward_error(coeffs: &[Cmplx], z: Cmplx) -> f64 {
    let n = coeffs.len() - 1;
    if !(z.real.is_finite() && z.imag.is_finite()) { return f64::INFINITY; }
    let amax = coeffs.iter().map(|c| cabs(*c)).fold(0.0, f64::max);
    let mut pv = Cmplx::new(0.0, 0.0); let mut scale = 0.0; let az = cabs(z);
    for j in (0..=n).rev() { pv = pv * z + coeffs[j]; scale = scale * az + 1.0; }
    let be = cabs(pv) / (amax * scale).max(1e-300);
    if be.is_nan() { f64::INFINITY } else { be }
}

pub fn exec(op: &str, t: &mut Toks, cx: &mut Ctx) -> Option<String> {
    match op { "roots" => Some(roots(t, cx)), _ => None }
}

fn from_roots(rs: &[Cmplx], lead: Cmplx) -> Vec<Cmplx> {
    let mut c = vec![lead];
    for r in rs { let mut nc = vec![Cmplx::new(0.0, 0.0); c.len() + 1]; for (i, a) in c.iter().enumerate() { nc[i + 1] = nc[i + 1] + *a; nc[i] = nc[i] - *a * *r; } c = nc; }
    c
}

fn emit(out: &mut Vec<String>, tag: &str, kind: &str, refine: usize, coeffs: &[Cmplx], known: &[Cmplx]) {
    let cs = if tag == "f" { wr_vec(&coeffs.iter().map(|z| z.real).collect::<Vec<f64>>()) } else { wr_vec(coeffs) };
    out.push(format!("roots {} {} {} {} {}", tag, kind, refine, cs, wr_vec(known)));
}

/// Cardano's intermediates recomputed in the harness (same formulas, f64 complex arithmetic): has the discriminant
/// information been lost to cancellation?  In exact arithmetic base = (d1 +/- sqrt(d1^2 - 4 d0^3)) / 2 with the
/// non-cancelling sign is the root of larger modulus of z^2 - d1 z + d0^3, so |base|^2 >= |d0|^3.
fn cardano_discriminant_lost(c: &[Cmplx]) -> bool {
    // (real coefficients only; plain f64 arithmetic, nothing of the code under test is used)
    if c.len() != 4 || c.iter().any(|z| z.imag != 0.0) { return false; }
    let (a, b, cc, d) = (c[3].real, c[2].real, c[1].real, c[0].real);
    let (a2, b2, c2, d2) = (a * a, b * b, cc * cc, d * d);
    let dis = 18.0 * a * b * cc * d - 4.0 * b * b2 * d + b2 * c2 - 4.0 * a * c2 * cc - 27.0 * a2 * d2;
    let d0 = b2 - 3.0 * a * cc;
    let d1 = 2.0 * b2 * b - 9.0 * a * b * cc + 27.0 * a2 * d;
    // d0 = d1 = 0 exactly: the formula takes its coincident-root branch -b / (3a) and never looks at the discriminant, so nothing
    // is lost there (a wrong value on such an input is not in the known class: seeded change S10-C10 hid behind it)
    if d0 == 0.0 && d1 == 0.0 { return false; }
    // the five terms of the discriminant cancel: its computed value has NO correct digit when it is below the rounding
    // uncertainty of the sum, about eps * sum |terms|
    let terms = [18.0 * a * b * cc * d, -4.0 * b * b2 * d, b2 * c2, -4.0 * a * c2 * cc, -27.0 * a2 * d2];
    let s: f64 = terms.iter().map(|x| x.abs()).sum();
    s.is_finite() && s > 0.0 && dis.abs() <= 8.0 * f64::EPSILON * s
}

/// coefficients (real) of a * (x - r1)(x - r2)(x - r3)..., computed in f64 from real roots and conjugate pairs
fn real_poly_from(a: f64, reals: &[f64], pairs: &[(f64, f64)]) -> Vec<Cmplx> {
    let mut p = vec![a];
    for r in reals { let mut q = vec![0.0; p.len() + 1]; for (k, v) in p.iter().enumerate() { q[k + 1] += *v; q[k] -= *v * *r; } p = q; }
    for (re, im) in pairs { let (s, t) = (-2.0 * re, re * re + im * im); let mut q = vec![0.0; p.len() + 2]; for (k, v) in p.iter().enumerate() { q[k + 2] += *v; q[k + 1] += *v * s; q[k] += *v * t; } p = q; }
    p.into_iter().map(|x| Cmplx::new(x, 0.0)).collect()
}

/// Independent root finder for the GENERATOR (Aberth–Ehrlich iteration in plain (f64, f64) arithmetic, nothing of the crate):
/// returns the roots only when every one of them is verified — backward error below 1e-13 — and they are pairwise well
/// separated (distance at least 2% of 1 + the larger modulus): then the one-to-one claim of the property applies and the
/// executor matches the returned values against them. `None` otherwise (no claim is derived from a failed computation).
fn aberth_separated(c: &[(f64, f64)]) -> Option<Vec<(f64, f64)>> {
    type C = (f64, f64);
    let add = |a: C, b: C| (a.0 + b.0, a.1 + b.1); let sub = |a: C, b: C| (a.0 - b.0, a.1 - b.1);
    let mul = |a: C, b: C| (a.0 * b.0 - a.1 * b.1, a.0 * b.1 + a.1 * b.0);
    let div = |a: C, b: C| { let (ar, ai, br, bi) = (a.0, a.1, b.0, b.1);
        if br.abs() >= bi.abs() { let t = bi / br; let d = br + bi * t; ((ar + ai * t) / d, (ai - ar * t) / d) } else { let t = br / bi; let d = br * t + bi; ((ar * t + ai) / d, (ai * t - ar) / d) } };
    let ab = |a: C| a.0.hypot(a.1);
    let n = c.len().checked_sub(1)?;
    if n == 0 || ab(c[n]) == 0.0 { return None; }
    let eval = |z: C| -> (C, C, f64) { let (mut p, mut d, mut s) = (c[n], (0.0, 0.0), ab(c[n])); let az = ab(z);
        for k in (0..n).rev() { d = add(mul(d, z), p); p = add(mul(p, z), c[k]); s = s * az + ab(c[k]); } (p, d, s) };
    // start: points on a circle of the Cauchy-type radius, slightly rotated
    let amax = c[..n].iter().map(|x| ab(*x)).fold(0.0, f64::max); let rad = 1.0 + amax / ab(c[n]);
    let rad = rad.min(1e8);
    let mut z: Vec<C> = (0..n).map(|k| { let t = 2.0 * std::f64::consts::PI * (k as f64) / (n as f64) + 0.4; let r = 0.5 * rad.sqrt().max(0.5) * (1.0 + 0.1 * (k as f64) / (n as f64)); (r * t.cos(), r * t.sin()) }).collect();
    for _ in 0..400 {
        let mut moved = 0.0f64;
        for i in 0..n {
            let (p, d, _) = eval(z[i]);
            if ab(p) == 0.0 { continue; }
            let nd = div(p, d);                                   // Newton correction p/p'
            if !(nd.0.is_finite() && nd.1.is_finite()) { return None; }
            let mut sum = (0.0, 0.0);
            for j in 0..n { if j != i { let dz = sub(z[i], z[j]); if ab(dz) == 0.0 { return None; } sum = add(sum, div((1.0, 0.0), dz)); } }
            let den = sub((1.0, 0.0), mul(nd, sum));
            let w = div(nd, den);
            if !(w.0.is_finite() && w.1.is_finite()) { return None; }
            z[i] = sub(z[i], w); moved = moved.max(ab(w) / (1.0 + ab(z[i])));
        }
        if moved < 1e-16 { break; }
    }
    for i in 0..n { let (p, _, s) = eval(z[i]); if !(ab(p) <= 1e-13 * s) { return None; } }
    for i in 0..n { for j in 0..i { if ab(sub(z[i], z[j])) < 0.02 * (1.0 + ab(z[i]).max(ab(z[j]))) { return None; } } }
    Some(z)
}

/// verified, well-separated roots of a polynomial whose leading coefficient does not vanish (else no claim)
fn known_of(c: &[Cmplx]) -> Vec<Cmplx> {
    let mut cc: Vec<(f64, f64)> = c.iter().map(|z| (z.real, z.imag)).collect();
    while cc.len() > 1 && cc[cc.len() - 1] == (0.0, 0.0) { return Vec::new(); }
    let _ = &mut cc;
    match aberth_separated(&cc) { Some(z) => z.into_iter().map(|(a, b)| Cmplx::new(a, b)).collect(), None => Vec::new() }
}

pub fn gen(rng: &mut Rng, tier: Tier, out: &mut Vec<String>) {
    let reps = if tier == Tier::Quick { 3 } else { 60 };
    let z0 = Cmplx::new(0.0, 0.0);
    // (g) CLUSTERED (not exactly multiple) roots: a cluster of spread 10^[-8, -0.3] around a point in [-3, 3], all real or a
    // real root with a conjugate pair, general leading coefficient; coefficients rounded to f64 (so the roots are known only
    // approximately: finiteness and backward error are demanded, no matching). Degree 2..6, mostly 3 (the closed forms cancel there)
    for i in 0..(if tier == Tier::Quick { 400 } else { 12000 }) {
        let deg = match i % 8 { 0 => 2, 1 => 4, 2 => 5, 3 => 6, _ => 3 };
        let centre = (rng.unit() - 0.5) * 6.0; let sc = 10f64.powf(-8.0 + 7.7 * rng.unit());
        let a = match rng.below(5) { 0 => 1.0, 1 => -1.0, 2 => 2.0, 3 => 0.5, _ => { let x = (rng.unit() - 0.5) * 6.0; if x == 0.0 { 1.0 } else { x } } };
        let mut reals: Vec<f64> = Vec::new(); let mut pairs: Vec<(f64, f64)> = Vec::new();
        let npairs = if rng.chance(50) { 0 } else { 1.min(deg / 2) };
        for _ in 0..npairs { pairs.push((centre + (rng.unit() * 2.0 - 1.0) * sc, rng.unit() * sc)); }
        while reals.len() + 2 * pairs.len() < deg { let e = if reals.is_empty() { 0.0 } else if rng.chance(15) { 0.0 } else { (rng.unit() * 2.0 - 1.0) * sc }; reals.push(centre + e); }
        emit(out, "f", "clustered", i % 2, &real_poly_from(a, &reals, &pairs), &[]);
    }
    for deg in 1..=12usize { for rep in 0..reps { for refine in 0..2usize {
        // (a) random coefficients, mixed sign / scale (ratio up to 1e6)
        let mut c: Vec<Cmplx> = (0..=deg).map(|_| Cmplx::new(rng.f_general(3.0), 0.0)).collect();
        emit(out, "f", "random", refine, &c, &known_of(&c));
        // (b) vanishing constant / inner coefficients (roots at zero)
        let kz = 1 + rng.below(deg); for k in 0..kz.min(deg) { if rng.chance(70) || k == 0 { c[k] = z0; } }
        emit(out, "f", "zero-coeffs", refine, &c, &known_of(&c));
        // (c) complex random coefficients
        let cc: Vec<Cmplx> = (0..=deg).map(|_| Cmplx::new(rng.f_general(2.0), if rng.chance(30) { 0.0 } else { rng.f_general(2.0) })).collect();
        emit(out, "c", "random", refine, &cc, &known_of(&cc));
        // (d) well-separated real roots (integers / halves), real coefficients
        let mut pool: Vec<i64> = (-12..=12).collect(); for i in (1..pool.len()).rev() { let j = rng.below(i + 1); pool.swap(i, j); }
        let rs: Vec<Cmplx> = pool[..deg].iter().map(|k| Cmplx::new(*k as f64 / 2.0, 0.0)).collect();
        if deg <= 8 { emit(out, "f", "separated-real", refine, &from_roots(&rs, Cmplx::new(rng.range(1, 4) as f64 * if rng.chance(50) { -1.0 } else { 1.0 }, 0.0)), &rs); }
        // (e) conjugate pairs and purely imaginary roots, real coefficients
        if deg >= 2 && deg <= 8 {
            let mut rs: Vec<Cmplx> = Vec::new(); let mut k = 0;
            while rs.len() + 2 <= deg { k += 1; let (a, b) = (if rep % 2 == 0 { 0.0 } else { (k as f64) - 2.0 }, k as f64 * 0.75); rs.push(Cmplx::new(a, b)); rs.push(Cmplx::new(a, -b)); }
            if rs.len() < deg { rs.push(Cmplx::new(5.0, 0.0)); }
            emit(out, "f", "conjugate-pairs", refine, &from_roots(&rs, Cmplx::new(1.0, 0.0)), &rs);
            // complex separated roots, complex coefficients
            let rs2: Vec<Cmplx> = (0..deg).map(|j| Cmplx::new((j as f64) - 2.0, ((j * j) % 5) as f64 - 1.5)).collect();
            emit(out, "c", "separated-complex", refine, &from_roots(&rs2, Cmplx::new(1.0, 1.0)), &rs2);
        }
        // (f) multiple / clustered roots (no one-to-one claim; finiteness + backward error only)
        if deg >= 2 && deg <= 8 {
            let r0 = rng.range(-3, 3) as f64; let m = 2 + rng.below(deg - 1);
            let mut rs: Vec<Cmplx> = vec![Cmplx::new(r0, 0.0); m.min(deg)]; while rs.len() < deg { let l = rs.len(); rs.push(Cmplx::new(r0 + 1.0 + l as f64, 0.0)); }
            emit(out, "f", "multiple", refine, &from_roots(&rs, Cmplx::new(1.0, 0.0)), &[]);
            // the same with a leading coefficient other than 1 (dyadic: the coefficients stay exact). Seeded change S10-C10 (`-b / 3. * a`
            // for the coincident root of a cubic) is invisible with a = +-1
            let lead = [2.0f64, -3.0, 0.5, 4.0, -0.25][(deg + r0.abs() as usize) % 5];
            emit(out, "f", "multiple", refine, &from_roots(&rs, Cmplx::new(lead, 0.0)), &[]);
            let all: Vec<Cmplx> = vec![Cmplx::new(r0, 0.0); deg];
            emit(out, "f", "multiple", refine, &from_roots(&all, Cmplx::new(lead, 0.0)), &[]);
        }
    } } }
    // monomials a*x^n (all roots zero), pure powers x^n - c
    for deg in 1..=8usize { for refine in 0..2usize {
        let mut c = vec![z0; deg + 1]; c[deg] = Cmplx::new(rng.f_dyadic(0), 0.0); emit(out, "f", "monomial", refine, &c, &vec![z0; deg]);
        let mut c2 = c.clone(); c2[0] = Cmplx::new(-(rng.range(1, 9) as f64), 0.0); emit(out, "f", "pure-power", refine, &c2, &[]);
        emit(out, "c", "monomial", refine, &c, &vec![z0; deg]);
    } }
    // x^n + c with a complex constant on an axis (roots on a circle; for n = 3 the Cardano square root falls
    // exactly on its branch cut, -27 a^2 dis = -729 c^2 with a signed-zero imaginary part)
    for deg in 2..=6usize { for refine in 0..2usize { for cst in [Cmplx::new(0.0, 1.0), Cmplx::new(0.0, -1.0), Cmplx::new(0.0, 8.0), Cmplx::new(0.0, -8.0), Cmplx::new(-1.0, 0.0), Cmplx::new(-0.0, 2.0), Cmplx::new(1.0, -0.0), Cmplx::new(1.0, 1.0)] {
        let mut c = vec![z0; deg + 1]; c[deg] = Cmplx::new(1.0, 0.0); c[0] = cst;
        emit(out, "c", "pure-power-complex", refine, &c, &[]);
        let mut c2 = c.clone(); c2[deg] = Cmplx::new(0.0, rng.range(1, 3) as f64); c2[0] = Cmplx::new(cst.imag, cst.real);
        emit(out, "c", "pure-power-complex", refine, &c2, &[]);
    } } }
    // closed-form paths with coefficients of very different scale (ratio up to 1e6) and every direction of the
    // middle coefficient in the complex plane: the sign choice of the stable formulae must avoid cancellation
    let nd = if tier == Tier::Quick { 60 } else { 2000 };
    for i in 0..nd { for refine in 0..2usize {
        let dir = |rng: &mut Rng, m: f64| -> Cmplx { match rng.below(6) { 0 => Cmplx::new(m, 0.0), 1 => Cmplx::new(-m, 0.0), 2 => Cmplx::new(0.0, m), 3 => Cmplx::new(0.0, -m),
            4 => Cmplx::new(m * (rng.range(-8, 8) as f64) / 64.0, m * if rng.chance(50) { 1.0 } else { -1.0 }), _ => Cmplx::new(m * (rng.range(-8, 8) as f64 + 0.5) / 8.0, m * (rng.range(-8, 8) as f64 + 0.5) / 8.0) } };
        let big = (2.0f64).powi(rng.range(0, 19) as i32) * (1.0 + rng.below(8) as f64 / 8.0);
        let (ma, mc, md) = (1.0 + rng.below(3) as f64, 1.0 + rng.below(3) as f64, 1.0 + rng.below(3) as f64);
        let (a, b, c) = (dir(rng, ma), dir(rng, big), dir(rng, mc));
        emit(out, "c", "quadratic-disparity", refine, &[c, b, a], &[]);
        if i % 3 == 0 { emit(out, "f", "quadratic-disparity", refine, &[Cmplx::new(c.real + c.imag, 0.0), Cmplx::new(b.real + b.imag, 0.0), Cmplx::new(a.real + a.imag, 0.0)], &[]); }
        if i % 2 == 0 { let d = dir(rng, md); let b2 = dir(rng, big.sqrt());
            emit(out, "c", "cubic-disparity", refine, &[c, b2, b, a], &[]); emit(out, "c", "cubic-disparity", refine, &[c, b, d, a], &[]); }
    } }
    // closed-form paths with a root at zero, polished: the closed form returns a value of size ~1e-80 and the
    // Laguerre refinement divides by |p(x)|^2, which underflows there (defect D9: a non-finite step)
    for _ in 0..(if tier == Tier::Quick { 150 } else { 1500 }) {
        let deg = 2 + rng.below(2);
        let mut c: Vec<Cmplx> = (0..=deg).map(|_| Cmplx::new(rng.f_general(3.0), 0.0)).collect(); c[0] = z0;
        emit(out, "f", "zero-root-polished", 1, &c, &[]);
    }
    // degree 0 and the empty polynomial are rejected
    emit(out, "f", "degree0", 0, &[Cmplx::new(3.0, 0.0)], &[]);
    emit(out, "c", "degree0", 1, &[Cmplx::new(3.0, 1.0)], &[]);
    emit(out, "f", "empty", 0, &[], &[]);

    // (h) ONE ROOT AT ZERO (constant coefficient exactly 0) next to well-separated non-zero real roots of general magnitude
    // (10^[-2,1], either sign) with a general leading coefficient (10^[-3,3]): the values must be in one-to-one
    // correspondence with {0, r_1, ...}. (A relative convergence test can never be met at the root 0: the iteration has
    // to end there by some other means, and must not leave for another root.) Degree 2..6, both refinement settings.
    for i in 0..(if tier == Tier::Quick { 300 } else { 6000 }) {
        let deg = match i % 6 { 0 => 2, 1 => 4, 2 => 5, 3 => 6, _ => 3 };
        let mut rs: Vec<f64> = Vec::new();
        let mut guard = 0;
        while rs.len() + 1 < deg && guard < 1000 { guard += 1;
            let r = (rng.unit() * 2.0 - 1.0) * 10f64.powf(-2.0 + 3.0 * rng.unit());
            if r.abs() < 1e-3 || rs.iter().any(|q: &f64| (q - r).abs() < 0.2 * q.abs().max(r.abs())) { continue; }
            rs.push(r); }
        if rs.len() + 1 < deg { continue; }
        let a = (rng.unit() * 2.0 - 1.0) * 10f64.powf(-3.0 + 6.0 * rng.unit());
        if a == 0.0 { continue; }
        let mut c = real_poly_from(a, &rs, &[]);
        c.insert(0, z0);                                   // multiply by x
        let mut known: Vec<Cmplx> = vec![z0]; known.extend(rs.iter().map(|r| Cmplx::new(*r, 0.0)));
        emit(out, "f", "zero-root-separated", i % 2, &c, &known);
    }
}
