//! C16 — threaded dot product: every length, every worker count (set through the CPU affinity of
//! this process, which is what num_cpus::get() — and hence the worker count — is derived from).
use crate::sc::*;
use crate::wire::*;
use crate::{Ctx, Tier};
use ohsl::Vector;

fn all_cpus() -> Vec<usize> {
    unsafe {
        let mut set: libc::cpu_set_t = std::mem::zeroed();
        libc::sched_getaffinity(0, std::mem::size_of::<libc::cpu_set_t>(), &mut set);
        (0..libc::CPU_SETSIZE as usize).filter(|i| libc::CPU_ISSET(*i, &set)).collect()
    }
}
fn set_cpus(cpus: &[usize]) -> bool {
    unsafe {
        let mut set: libc::cpu_set_t = std::mem::zeroed();
        for c in cpus { libc::CPU_SET(*c, &mut set); }
        libc::sched_setaffinity(0, std::mem::size_of::<libc::cpu_set_t>(), &set) == 0
    }
}
/// restrict this process to `w` CPUs; returns the worker count ohsl will derive
fn with_workers<R>(w: usize, f: impl FnOnce(usize) -> R) -> R {
    let all = all_cpus();
    let pick: Vec<usize> = all.iter().cloned().take(w.max(1).min(all.len())).collect();
    set_cpus(&pick);
    let seen = num_cpus::get();
    let r = f(seen);
    set_cpus(&all);
    r
}

fn dot(t: &mut Toks, cx: &mut Ctx) -> String {
    let wreq = t.usize();
    let wobs = t.usize();
    let a: Vector<f64> = rd_vector(t);
    let b: Vector<f64> = rd_vector(t);
    let kind = t.next().to_string();
    cx.meta("workers", wobs); cx.meta("kind", &kind);
    let n = a.size();
    cx.meta("len_vs_workers", if n == 0 { "0" } else if n < wobs { "<w" } else if n == wobs { "=w" } else if n % wobs == 0 { "divisible" } else { "not-divisible" });
    let (seen, results) = with_workers(wreq, |seen| {
        let mut rs = Vec::new();
        for _ in 0..5 { rs.push(guarded(|| a.dot_f64(&b))); }
        (seen, rs)
    });
    if seen != wobs { cx.skip = Some(format!("worker count changed between generation ({}) and execution ({})", wobs, seen)); return String::new(); }
    let first = results[0].clone();
    cx.check(results.iter().all(|r| match (r, &first) { (Ok(x), Ok(y)) => x.to_bits() == y.to_bits(), (Err(p), Err(q)) => p == q, _ => false }), "repeated calls on the same data are not bit-identical");
    match &first {
        Err(c) => { cx.check(a.size() != b.size(), &format!("dot_f64 panicked ({}) on vectors of equal length", c)); format!("!{}", c) }
        Ok(x) => {
            cx.check(a.size() == b.size(), "dot_f64 accepted vectors of different lengths");
            if a.size() == b.size() {
                let seq = a.dot(&b);
                let exact_int = a.vec.iter().chain(b.vec.iter()).all(|v| v.fract() == 0.0 && v.abs() < 1e6);
                if exact_int {
                    let e: i128 = a.vec.iter().zip(b.vec.iter()).map(|(p, q)| (*p as i128) * (*q as i128)).sum();
                    cx.check(*x == e as f64, "differs from the exact integer dot product");
                    cx.check(x.to_bits() == seq.to_bits() || (*x == 0.0 && seq == 0.0), "not bit-identical to the sequential dot product on exactly-summable data");
                } else {
                    let scale: f64 = a.vec.iter().zip(b.vec.iter()).map(|(p, q)| (p * q).abs()).sum();
                    // theorem C16F.dotThreaded_vs_dot (standard model, u = 2^-53): |threaded - sequential| <=
                    // (g_(n+1) + g_(maxChunk + w + 1)) sum|a_i b_i|, maxChunk = n/w + n%w the longest chunk
                    let w = wobs.max(1); let uu = f64::EPSILON / 2.0;
                    let k = (n + 1) + (n / w + n % w + w + 1);
                    cx.check(!(scale.is_finite() && x.is_finite() && seq.is_finite()) || (x - seq).abs() <= 1.01 * (k as f64) * uu * scale, "differs from the sequential dot product by more than the reassociation bound of theorem dotThreaded_vs_dot");
                }
            }
            f64_hex(*x)
        }
    }
}

pub fn exec(op: &str, t: &mut Toks, cx: &mut Ctx) -> Option<String> {
    match op { "dotf" => Some(dot(t, cx)), _ => None }
}

pub fn gen(rng: &mut Rng, tier: Tier, out: &mut Vec<String>) {
    let ncpu = all_cpus().len();
    let wanted: Vec<usize> = if tier == Tier::Quick { vec![1, 2, 3, 7, 16] } else { (1..=16).collect() };
    let mut seen_w = std::collections::BTreeSet::new();
    for w in wanted {
        let w = w.min(ncpu);
        let wobs = with_workers(w, |s| s);
        if !seen_w.insert(wobs) { continue; }
        // all lengths 0..200, integer data (partial sums exact)
        for n in 0..=200usize {
            let a: Vec<f64> = (0..n).map(|_| rng.range(-50, 50) as f64).collect();
            let b: Vec<f64> = (0..n).map(|_| rng.range(-50, 50) as f64).collect();
            out.push(format!("dotf {} {} {} {} int", w, wobs, wr_vec(&a), wr_vec(&b)));
        }
        // general data and longer vectors
        let extra = if tier == Tier::Quick { 30 } else { 150 };
        for k in 0..extra {
            let n = if k % 3 == 0 { 200 + rng.below(3000) } else { rng.below(260) };
            let a: Vec<f64> = (0..n).map(|_| rng.f_general(3.0)).collect();
            let b: Vec<f64> = (0..n).map(|_| rng.f_general(3.0)).collect();
            out.push(format!("dotf {} {} {} {} general", w, wobs, wr_vec(&a), wr_vec(&b)));
        }
        // ill-scaled pairs: a_i of magnitude 10^e against b_i of magnitude 10^-e, e in [-20, 20]: every product is O(1), so
        // no term may be dropped however small its left (or right) factor is
        for k in 0..extra {
            let n = if k % 4 == 0 { 100 + rng.below(900) } else { 1 + rng.below(120) };
            let es: Vec<f64> = (0..n).map(|_| (rng.unit() * 2.0 - 1.0) * 20.0).collect();
            let a: Vec<f64> = es.iter().map(|e| (1.0 + rng.unit()) * 10f64.powf(*e) * if rng.chance(50) { -1.0 } else { 1.0 }).collect();
            let b: Vec<f64> = es.iter().map(|e| (1.0 + rng.unit()) * 10f64.powf(-*e)).collect();
            out.push(format!("dotf {} {} {} {} reciprocal-scale", w, wobs, wr_vec(&a), wr_vec(&b)));
        }
        out.push(format!("dotf {} {} {} {} mismatch", w, wobs, gen_vec_str::<f64>(rng, 5, 0, 0), gen_vec_str::<f64>(rng, 4, 0, 0)));
    }
}
