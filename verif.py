#!/usr/bin/env python3
"""verif.py — driver of the Lean-4 proof machinery for anthonyoneill/ohsl.

  python3 verif.py setup
  python3 verif.py check Cnn [--tier quick|thorough] [--seed N]
  python3 verif.py replay <replay-file>

A check has three legs (DESIGN.md §2.4):
  proof leg          lake build of Ohsl.Props.Cnn + `#print axioms` audit of every obligation
  correspondence leg the Rust harness runs the real code of /repo's working tree, the Lean
                     driver runs the model on the same request lines; outputs are diffed
  oracle leg         independent oracles evaluated by the harness on the implementation's outputs
Exit 0: property held on everything explored.  Exit 1: a line
`VIOLATION property=<id> replay=<path>` was printed.  Exit 2: the machinery could not run.
"""
import sys, os, json, subprocess, time, re, fcntl, hashlib, argparse, shutil

ROOT = os.path.dirname(os.path.abspath(__file__))
LEAN = os.path.join(ROOT, "lean")
HARN = os.path.join(ROOT, "harness")
WORK = os.path.join(ROOT, "work")
HBIN = os.path.join(HARN, "target", "debug", "ohsl-harness")
MBIN = os.path.join(LEAN, ".lake", "build", "bin", "ohsl-model")
ALLOWED_AXIOMS = {"propext", "Classical.choice", "Quot.sound"}
FORBIDDEN = re.compile(r"\bsorry\b|\badmit\b|^\s*axiom\s|native_decide|bv_decide|implemented_by|\bunsafe\s|maxHeartbeats\s+0\b")
ENV = dict(os.environ, CARGO_NET_OFFLINE="true", CARGO_TERM_COLOR="never")

TRUSTED_BASE = [
    "Lean 4.33.0 kernel; Mathlib v4.33.0 as installed; axioms limited to propext, Classical.choice, Quot.sound (audited per theorem with #print axioms on every run)",
    "hand-written Lean model (lean/Ohsl/Model) tied to /repo by differential correspondence on generated inputs (Rust harness + line protocol + byte-wise diff); assurance bounded by the generators (distribution printed in this file)",
    "harness rational type Q (i128, overflow-checked; overflowing cases are skipped and counted, never compared)",
    "Lean Float and Rust f64 are IEEE binary64 calling the same libm (validated by the bit-exact float streams on every run)",
    "Rust std (Vec, slices, sort, thread::scope), num_cpus, rand, decimal formatting/parsing are modelled, not verified",
]


def sh(cmd, cwd=None, timeout=None, stdin=None, stdout=None):
    return subprocess.run(cmd, cwd=cwd, env=ENV, timeout=timeout, stdin=stdin, stdout=stdout or subprocess.PIPE,
                          stderr=subprocess.STDOUT, text=True)


class Lock:
    def __init__(self, name):
        os.makedirs(WORK, exist_ok=True)
        self.path = os.path.join(WORK, name)
    def __enter__(self):
        self.f = open(self.path, "w")
        fcntl.flock(self.f, fcntl.LOCK_EX)
    def __exit__(self, *a):
        fcntl.flock(self.f, fcntl.LOCK_UN)
        self.f.close()


def build_harness():
    with Lock("cargo.lock"):
        r = sh(["cargo", "build", "--offline"], cwd=HARN, timeout=1800)
    if r.returncode != 0:
        print(r.stdout[-4000:])
        print("ERROR: the harness (path dependency on /repo) does not build")
        sys.exit(2)


def build_lean(targets):
    with Lock("lake.lock"):
        r = sh(["lake", "build"] + targets, cwd=LEAN, timeout=7200)
    return r


def load_json(name):
    with open(os.path.join(ROOT, name)) as f:
        return json.load(f)


def strip_comments(src):
    # remove /- … -/ (nested) and -- … comments
    out, i, depth, n = [], 0, 0, len(src)
    while i < n:
        if src.startswith("/-", i):
            depth += 1; i += 2; continue
        if depth > 0 and src.startswith("-/", i):
            depth -= 1; i += 2; continue
        if depth > 0:
            if src[i] == "\n": out.append("\n")
            i += 1; continue
        if src.startswith("--", i):
            while i < n and src[i] != "\n": i += 1
            continue
        out.append(src[i]); i += 1
    return "".join(out)


def import_closure(mods):
    """files of the Ohsl modules reachable through `import Ohsl.…` from the given modules"""
    seen, todo, files = set(), list(mods), []
    while todo:
        m = todo.pop()
        if m in seen or not m.startswith("Ohsl"): continue
        seen.add(m)
        p = os.path.join(LEAN, *m.split(".")) + ".lean"
        if not os.path.isfile(p): continue
        files.append(p)
        for line in open(p).read().split("\n"):
            mm = re.match(r"\s*(?:public\s+)?import\s+(Ohsl[\w.']*)", line)
            if mm: todo.append(mm.group(1))
    return sorted(files)


def grep_forbidden(mods):
    """forbidden tokens in every file the given modules are built from (files of unfinished proofs that
    are not imported by an enabled module are not part of the build and are not scanned; a `sorry`
    anywhere in the closure would in any case show up as `sorryAx` in the axiom audit)"""
    hits = []
    for p in import_closure(list(mods) + ["Ohsl.Driver"]):
        for k, line in enumerate(strip_comments(open(p).read()).split("\n"), 1):
            if FORBIDDEN.search(line):
                hits.append(f"{os.path.relpath(p, ROOT)}:{k}: {line.strip()}")
    return hits


def proof_leg(prop, tier):
    """returns dict(ok, obligations, discharged, axioms, problems, checker_cmd)"""
    obl = load_json("obligations.json").get(prop, {})
    thms = obl.get("theorems", [])
    enabled = open(os.path.join(LEAN, "props_enabled.txt")).read().split()
    pmods = [f"Ohsl.Props.{m}" for m in sorted(enabled) if m.startswith(prop)]
    mod = " ".join(pmods)
    res = dict(ok=True, obligations=len(thms), discharged=0, axioms={}, problems=[],
               checker_cmd=f"cd lean && lake build {mod} && lake env lean .lake/audit/{prop}.lean  (#print axioms of every obligation)")
    r = build_lean(pmods + ["ohsl-model"])
    if r.returncode != 0:
        res["ok"] = False
        res["problems"].append("lake build failed: " + r.stdout[-1500:])
        return res
    hits = grep_forbidden(pmods)
    if hits:
        res["ok"] = False
        res["problems"].append("forbidden tokens: " + "; ".join(hits[:10]))
    adir = os.path.join(LEAN, ".lake", "audit")
    os.makedirs(adir, exist_ok=True)
    afile = os.path.join(adir, f"{prop}.{os.getpid()}.lean")
    with open(afile, "w") as f:
        for m_ in pmods: f.write(f"import {m_}\n")
        for t in thms:
            f.write(f"#print axioms {t['name']}\n")
    r = sh(["lake", "env", "lean", afile], cwd=LEAN, timeout=1800)
    try: os.remove(afile)
    except OSError: pass
    out = r.stdout
    for t in thms:
        nm = t["name"]
        m = re.search(r"'" + re.escape(nm) + r"' depends on axioms: \[([^\]]*)\]", out, re.S)
        if m:
            ax = {a.strip() for a in m.group(1).replace("\n", " ").split(",") if a.strip()}
        elif re.search(r"'" + re.escape(nm) + r"' does not depend on any axioms", out):
            ax = set()
        else:
            res["ok"] = False
            res["problems"].append(f"theorem {nm} not found / not checked")
            continue
        res["axioms"][nm] = sorted(ax)
        if ax <= ALLOWED_AXIOMS:
            res["discharged"] += 1
        else:
            res["ok"] = False
            res["problems"].append(f"theorem {nm} depends on {sorted(ax - ALLOWED_AXIOMS)}")
    if tier == "thorough":
        mods = pmods + obl.get("modules", [])
        import concurrent.futures
        with concurrent.futures.ThreadPoolExecutor(max_workers=8) as ex:
            rcs = list(ex.map(lambda m_: (m_, sh(["lake", "env", "leanchecker", m_], cwd=LEAN, timeout=3600)), mods))
        for m_, rc in rcs:
            if rc.returncode != 0:
                res["ok"] = False
                res["problems"].append(f"leanchecker {m_} failed: {rc.stdout[-500:]}")
        res["checker_cmd"] += f" ; lake env leanchecker {' '.join(mods)}"
    return res


def read_lines(path):
    d = {}
    order = []
    with open(path) as f:
        for line in f:
            line = line.rstrip("\n")
            if not line: continue
            i = line.find(" ")
            k = line if i < 0 else line[:i]
            d[k] = "" if i < 0 else line[i + 1:]
            order.append(k)
    return d, order


def read_pair(pi, pm, keep=400):
    """implementation and model outputs read in lockstep; lines on which they agree are kept only up to
    `keep` characters (they are not needed in full), disagreeing lines are kept whole. Falls back to
    two full reads when the files are not aligned line by line."""
    import itertools
    di, dm, order = {}, {}, []
    with open(pi) as fi, open(pm) as fm:
        for li, lm in itertools.zip_longest(fi, fm):
            if li is None or lm is None:
                return read_lines(pi)[0], read_lines(pm)[0]
            if li == lm:
                line = li.rstrip("\n")
                if not line: continue
                i = line.find(" ")
                k = line if i < 0 else line[:i]
                v = "" if i < 0 else line[i + 1:i + 1 + keep]
                di[k] = v; dm[k] = v
            else:
                a, b = li.rstrip("\n"), lm.rstrip("\n")
                ia, ib = a.find(" "), b.find(" ")
                ka, kb = (a if ia < 0 else a[:ia]), (b if ib < 0 else b[:ib])
                if ka != kb:
                    return read_lines(pi)[0], read_lines(pm)[0]
                di[ka] = "" if ia < 0 else a[ia + 1:]; dm[kb] = "" if ib < 0 else b[ib + 1:]
    return di, dm


def run_streams(prop, tier, seed, wdir, tagname="main", corpus=True):
    """generate cases, run implementation and model. returns dict of parsed files."""
    os.makedirs(wdir, exist_ok=True)
    cases = os.path.join(wdir, f"{tagname}.cases")
    gen_tmp = cases + ".gen"
    r = sh([HBIN, "gen", prop, tier, str(seed), gen_tmp], timeout=1800)
    if r.returncode != 0:
        print(r.stdout); print("ERROR: harness gen failed"); sys.exit(2)
    with open(cases, "w") as out:
        cdir = os.path.join(ROOT, "corpus", prop)
        if corpus and os.path.isdir(cdir):
            for fn in sorted(os.listdir(cdir)):
                if fn.endswith(".case"):
                    for k, line in enumerate(open(os.path.join(cdir, fn))):
                        line = line.strip()
                        if line and not line.startswith("#"):
                            out.write(line + "\n")
        out.write(open(gen_tmp).read())
    os.remove(gen_tmp)
    return run_cases(cases, wdir, tagname)


def run_streams_thorough(prop, seed, wdir, rounds):
    """thorough tier: the thorough generator is run with `rounds` different seeds; the shards are executed
    in parallel (implementation and model), and merged. Round 0 carries the corpus and the plain ids."""
    import concurrent.futures
    os.makedirs(wdir, exist_ok=True)
    def one(k):
        if k == 0:
            return run_streams(prop, "thorough", seed, wdir, tagname="main")
        tag = f"round{k}"
        cases = os.path.join(wdir, f"{tag}.cases")
        gen_tmp = cases + ".gen"
        r = sh([HBIN, "gen", prop, "thorough", str(seed + 7919 * k), gen_tmp], timeout=1800)
        if r.returncode != 0:
            print(r.stdout); print("ERROR: harness gen failed"); sys.exit(2)
        with open(cases, "w") as out:
            for line in open(gen_tmp):
                i, _, rest = line.partition(" ")
                out.write(f"{i}.r{k} {rest}")
        os.remove(gen_tmp)
        return run_cases(cases, wdir, tag)
    with concurrent.futures.ThreadPoolExecutor(max_workers=min(16, rounds)) as ex:
        parts = list(ex.map(one, range(rounds)))
    st = parts[0]
    for q in parts[1:]:
        for key in ("cases", "impl", "oracle", "meta", "model"):
            st[key].update(q[key])
        st["order"].extend(q["order"])
        st["t_impl"] += q["t_impl"]; st["t_model"] += q["t_model"]
        st["hung"] = st.get("hung", []) + q.get("hung", [])
    return st


def run_cases(cases, wdir, tagname):
    impl = os.path.join(wdir, f"{tagname}.impl")
    orac = os.path.join(wdir, f"{tagname}.oracle")
    meta = os.path.join(wdir, f"{tagname}.meta")
    model = os.path.join(wdir, f"{tagname}.model")
    t0 = time.time()
    # non-termination of the implementation: the harness notes the id of the case it is about to execute in <impl>.progress;
    # on a timeout that case is set aside (reported by check() as a violation with the input as replay) and the run is
    # repeated without it (at most 3 times)
    hung = []
    limit = int(os.environ.get("VERIF_RUN_TIMEOUT", "300" if not tagname.startswith("round") and tagname != "edge" else "900"))
    for attempt in range(4):
        why = None
        try:
            r = sh([HBIN, "run", cases, impl, orac, meta], timeout=limit, stdout=subprocess.DEVNULL)
            if r.returncode == 0: break
            # the harness process died (abort: stack overflow, allocation failure, a double panic ...; exit code 2 is the
            # harness' own usage / parse error and stays an error of the machinery)
            if r.returncode == 2:
                print("ERROR: harness run failed (rc=2)"); sys.exit(2)
            why = f"ABORTED the harness process (exit status {r.returncode}) while executing this input"
        except subprocess.TimeoutExpired:
            why = f"did not return within {limit} s on this input (the harness was killed while executing it)"
        try: last = open(impl + ".progress").read().split()[-1]
        except Exception: last = None
        if last is None or attempt == 3:
            print("ERROR: harness run failed and the running case could not be identified"); sys.exit(2)
        keep = []; seen = False
        for line in open(cases):
            if line.split(" ", 1)[0] == last: hung.append("# the implementation " + why + "\n" + line.rstrip("\n")); seen = True
            elif attempt == 2 and seen: pass    # third failure: the rest of the stream is given up (there is enough to report)
            else: keep.append(line)
        with open(cases, "w") as f: f.writelines(keep)
    t1 = time.time()
    with open(cases) as fin, open(model, "w") as fout:
        r = subprocess.run([MBIN], stdin=fin, stdout=fout, stderr=subprocess.PIPE, env=ENV, timeout=7200)
    if r.returncode != 0:
        print(r.stderr.decode()[-2000:]); print("ERROR: model driver failed"); sys.exit(2)
    t2 = time.time()
    c, order = read_lines(cases)
    di, dm = read_pair(impl, model)
    if tagname.startswith("round"):
        # shards of the thorough tier: the raw outputs are large (full state dumps) and already digested
        for f_ in (impl, model): 
            try: os.remove(f_)
            except OSError: pass
    return dict(cases=c, order=order, impl=di, oracle=read_lines(orac)[0], hung=hung, run_timeout=limit,
                meta=read_lines(meta)[0], model=dm, files=dict(cases=cases, impl=impl, model=model, oracle=orac),
                t_impl=t1 - t0, t_model=t2 - t1)


def analyse(st):
    """returns (disagreements, oracle_fails, skipped) as lists of ids"""
    dis, fails, skipped = [], [], []
    for k in st["order"]:
        i = st["impl"].get(k)
        m = st["model"].get(k)
        o = st["oracle"].get(k, "")
        if i == "skip" or (o.startswith("skip") and not o.startswith("skip-verdict")):
            skipped.append(k); continue
        if i != m:
            dis.append(k)
        if o.startswith("FAIL"):
            fails.append(k)
    return dis, fails, skipped


def known_filter(prop, st, ids):
    """split oracle failures into (unknown, known) using the open entries of known_findings.json.
    A failing case is a known finding only if the request matches the entry's `case` regex and
    EVERY failure part of its oracle line matches the entry's `fail` regex."""
    kf = [e for e in load_json("known_findings.json").get("findings", []) if e["property"] == prop and e["status"] == "open"]
    unknown, known = [], []
    for k in ids:
        body = st["cases"][k]
        msg = st["oracle"].get(k, "")
        parts = [p_.strip() for p_ in msg[len("FAIL"):].split(" ; ") if p_.strip()]
        hit = None
        for e in kf:
            if re.search(e["case"], body) and parts and all(re.search(e["fail"], p_) for p_ in parts):
                hit = e; break
        if hit: known.append((k, hit))
        else: unknown.append(k)
    return unknown, known


def write_replay(prop, st, ids, kind, extra=None):
    os.makedirs(os.path.join(ROOT, "replays"), exist_ok=True)
    path = os.path.join(ROOT, "replays", f"{prop}-{kind}-{int(time.time())}.replay")
    with open(path, "w") as f:
        f.write(f"# property {prop}; kind: {kind}\n")
        if extra: f.write("# " + extra.replace("\n", "\n# ") + "\n")
        f.write("# replay with: python3 verif.py replay <this file>\n")
        for k in ids[:20]:
            f.write(f"# impl  : {st['impl'].get(k)}\n# model : {st['model'].get(k)}\n# oracle: {st['oracle'].get(k)}\n")
            f.write(f"{k} {st['cases'][k]}\n")
    return path


def shrink_case(prop, line_id, body, pred, budget=150):
    """Greedy token-level shrinking for numeric tokens: try replacing scalar tokens by 0 / 1.
    `pred(body) -> bool` re-runs the case and says whether it still fails. Length-changing
    shrinks are left to the structured histories (ops dropped by the harness' `shrink` op)."""
    toks = body.split(" ")
    tries = 0
    changed = True
    while changed and tries < budget:
        changed = False
        for i in range(2, len(toks)):
            t = toks[i]
            if re.fullmatch(r"-?\d+/\d+", t) or (re.fullmatch(r"-?\d+", t) and False):
                for rep in ("0", "1"):
                    if t == rep: continue
                    cand = toks[:i] + [rep] + toks[i + 1:]
                    tries += 1
                    if pred(" ".join(cand)):
                        toks = cand; changed = True; break
            if tries >= budget: break
    return " ".join(toks)


def single_case_pred(prop, wdir, mode):
    """predicate for shrinking: mode 'oracle' (oracle FAIL) or 'diff' (impl != model)"""
    def pred(body):
        p = os.path.join(wdir, "shrink.cases")
        with open(p, "w") as f: f.write("S.0 " + body + "\n")
        st = run_cases(p, wdir, "shrink")
        dis, fails, sk = analyse(st)
        return bool(fails) if mode == "oracle" else bool(dis)
    return pred


def stats(st, skipped):
    """distribution of meta keys, distinct non-trivial count"""
    dist = {}
    distinct = set()
    for k in st["order"]:
        if k in skipped: continue
        meta = st["meta"].get(k, "")
        triv = False
        for kv in meta.split():
            if "=" not in kv: continue
            a, b = kv.split("=", 1)
            if a == "trivial":
                triv = (b == "1"); continue
            dist.setdefault(a, {})
            dist[a][b] = dist[a].get(b, 0) + 1
        if not triv:
            distinct.add(hashlib.sha1(st["cases"][k].encode()).hexdigest())
    # cap the number of distinct values per key so the evidence stays readable
    for a in list(dist):
        if len(dist[a]) > 40:
            items = sorted(dist[a].items(), key=lambda kv: -kv[1])
            dist[a] = dict(items[:40]); dist[a]["…(other values)"] = sum(v for _, v in items[40:])
    return dist, len(distinct)


def check(prop, tier, seed):
    t0 = time.time()
    man = {c["property_id"]: c for c in load_json("MANIFEST.json")["checks"]}
    rules = load_json("obligations.json").get(prop, {})
    # one work directory per invocation: concurrent checks (of the same property, of other tiers or seeds) must not share files
    wdir = os.path.join(WORK, f"{prop}.{tier}.{os.getpid()}")
    if os.path.isdir(wdir): shutil.rmtree(wdir)
    os.makedirs(wdir)
    build_harness()
    pl = proof_leg(prop, tier)
    rounds = int(os.environ.get("VERIF_THOROUGH_ROUNDS", "12")) if tier == "thorough" else 1
    if prop == "C16": rounds = min(rounds, 2)   # C16 pins its own CPU affinity per case: do not oversubscribe
    st = run_streams_thorough(prop, seed, wdir, rounds) if rounds > 1 else run_streams(prop, tier, seed, wdir)
    n_edge = 0
    if tier == "thorough" or os.environ.get("VERIF_EDGE"):
        # edge-case stream (edge/make.py): degenerate inputs outside the oracles' domain; correspondence only
        ecases = os.path.join(wdir, "edge.cases")
        r = sh([sys.executable, os.path.join(ROOT, "edge", "make.py"), prop, ecases], timeout=1800)
        if r.returncode != 0:
            print(r.stdout); print("ERROR: edge generator failed"); sys.exit(2)
        if os.path.getsize(ecases) > 0:
            se = run_cases(ecases, wdir, "edge")
            n_edge = len(se["order"])
            for k in se["order"]:
                st["order"].append(k)
                st["cases"][k] = se["cases"][k]
                st["impl"][k] = se["impl"].get(k); st["model"][k] = se["model"].get(k)
                st["meta"][k] = se["meta"].get(k, "")
                o = se["oracle"].get(k, "")
                st["oracle"][k] = "skip-verdict(edge) " + o if o.startswith("FAIL") else o
            st["t_impl"] += se["t_impl"]; st["t_model"] += se["t_model"]
            st["hung"] = st.get("hung", []) + se.get("hung", [])
    dis, fails, skipped = analyse(st)
    unknown, known = known_filter(prop, st, fails)
    dist, distinct = stats(st, set(skipped))
    hung_lines = list(st.get("hung", []))
    violations = []
    lines = []
    seen_kf = set()
    for k, e in known:
        if e["key"] not in seen_kf:
            seen_kf.add(e["key"])
            lines.append(f"KNOWN-FINDING: property={prop} {e['what']} (e.g. case {k})")
    # a disagreement on a case that is a known finding is explained by it
    known_ids = {k for k, _ in known}
    dis_unexplained = [k for k in dis if k not in known_ids]
    searched = 0
    if hung_lines:
        os.makedirs(os.path.join(ROOT, "replays"), exist_ok=True)
        path = os.path.join(ROOT, "replays", f"{prop}-nontermination-{int(time.time())}.replay")
        with open(path, "w") as f:
            f.write(f"# property {prop}; kind: nontermination / process abort\n# replay with: python3 verif.py replay <this file>\n")
            for l in hung_lines: f.write(l + "\n")
        violations.append(f"VIOLATION property={prop} replay={path}")
    if unknown:
        k = unknown[0]
        body = st["cases"][k]
        try:
            body2 = shrink_case(prop, k, body, single_case_pred(prop, wdir, "oracle"))
        except SystemExit:
            body2 = body
        st["cases"][k] = body2
        path = write_replay(prop, st, [k] + unknown[1:10], "oracle",
                            "the implementation's output violates the property oracle on this input (first case shrunk)")
        violations.append(f"VIOLATION property={prop} replay={path}")
    elif (dis_unexplained or not pl["ok"]) and not hung_lines:
        # proof or correspondence broken but no failing input in the main run: extended search
        found = None
        nextra = 6 if tier == "quick" else 25
        for j in range(1, nextra + 1):
            st2 = run_streams(prop, tier, seed * 1000003 + j, wdir, tagname=f"search{j}", corpus=False)
            d2, f2, s2 = analyse(st2)
            searched += len(st2["order"])
            u2, k2 = known_filter(prop, st2, f2)
            if u2:
                found = (st2, u2); break
        if found:
            st2, u2 = found
            path = write_replay(prop, st2, u2[:10], "oracle-search",
                                "model/implementation correspondence (or a proof) broke; the extended search found this failing input")
            violations.append(f"VIOLATION property={prop} replay={path}")
        else:
            if not pl["ok"]:
                what = "proof obligation no longer checks: " + " | ".join(pl["problems"])[:1500]
                path = write_replay(prop, st, [], "proof", what)
            else:
                what = (f"correspondence stream {prop} no longer checks: {len(dis_unexplained)} of {len(st['order'])} request lines "
                        f"give different outputs in the implementation and in the Lean model; first: {dis_unexplained[0]}; "
                        f"theorems of Ohsl.Props.{prop} are about the model and no longer transfer to the code; "
                        f"oracle search over {searched} further cases found no failing input")
                path = write_replay(prop, st, dis_unexplained, "correspondence", what)
            violations.append(f"VIOLATION property={prop} replay={path} no-failing-input-found")
    wall = time.time() - t0
    samples = []
    for k in st["order"][:: max(1, len(st["order"]) // 6)][:6]:
        samples.append({"request": (k + " " + st["cases"][k])[:600], "impl": (st["impl"].get(k) or "")[:600],
                        "model_equal": st["impl"].get(k) == st["model"].get(k), "oracle": st["oracle"].get(k, "")[:200]})
    ev = {
        "property_id": prop, "tier": tier, "seed": seed, "level": "proof",
        "coverage": {
            "obligations": pl["obligations"], "discharged": pl["discharged"],
            "checker_cmd": pl["checker_cmd"], "trusted_base": TRUSTED_BASE,
            "theorems": [{"name": t["name"], "class": t.get("class", ""), "partial": t.get("partial", False),
                          "axioms": pl["axioms"].get(t["name"])} for t in rules.get("theorems", [])],
            "proof_problems": pl["problems"],
            "evaluations": len(st["order"]), "skipped_overflow": len(skipped), "edge_cases": n_edge,
            "distinct_nontrivial": distinct,
            "rule": rules.get("rule", "distinct request lines (after removing the id) not flagged trivial=1 by the harness"),
            "correspondence": {"lines_compared": len(st["order"]) - len(skipped), "disagreements": len(dis),
                               "impl_s": round(st["t_impl"], 2), "model_s": round(st["t_model"], 2)},
            "oracle": {"failures": len(fails), "known_findings": len(known), "unknown": len(unknown)},
            "disagreements_checked": len(dis), "extended_search_cases": searched,
            "distribution": dist, "samples": samples, "exhaustive": False,
            "not_proved": rules.get("not_proved", []),
        },
        "assumptions": TRUSTED_BASE + rules.get("assumptions", []),
        "wall_s": round(wall, 2), "violations": len(violations),
    }
    os.makedirs(os.path.join(ROOT, "evidence"), exist_ok=True)
    etmp = os.path.join(ROOT, "evidence", f".{prop}.{os.getpid()}.tmp")
    with open(etmp, "w") as f:
        json.dump(ev, f, indent=1)
    os.replace(etmp, os.path.join(ROOT, "evidence", f"{prop}.json"))
    if os.environ.get("VERIF_KEEP_WORK"):
        keep = os.path.join(WORK, prop)
        shutil.rmtree(keep, ignore_errors=True)
        os.replace(wdir, keep)
    else:
        shutil.rmtree(wdir, ignore_errors=True)
    for l in lines: print(l)
    print(f"{prop} [{tier}] proof: {pl['discharged']}/{pl['obligations']} obligations; correspondence: "
          f"{len(st['order']) - len(skipped)} lines, {len(dis)} disagreements, {len(skipped)} skipped; oracle failures: {len(fails)} "
          f"({len(known)} known); {wall:.1f}s")
    for p_ in pl["problems"]: print("  proof problem:", p_[:400])
    for v in violations: print(v)
    return 1 if violations else 0


def replay(path):
    build_harness()
    build_lean(["ohsl-model"])
    wdir = os.path.join(WORK, f"replay.{os.getpid()}")
    os.makedirs(wdir, exist_ok=True)
    clean = os.path.join(wdir, "replay.cases")
    with open(clean, "w") as f:
        for line in open(path):
            if line.strip() and not line.startswith("#"): f.write(line)
    st = run_cases(clean, wdir, "replay")
    bad = 0
    for k in st["order"]:
        same = st["impl"].get(k) == st["model"].get(k)
        print(f"{k}\n  request: {st['cases'][k][:400]}\n  impl   : {(st['impl'].get(k) or '')[:400]}\n  model  : {(st['model'].get(k) or '')[:400]}\n  oracle : {st['oracle'].get(k)}\n  impl==model: {same}")
        if not same or st["oracle"].get(k, "").startswith("FAIL"): bad += 1
    for l in st.get("hung", []):
        why, _, req = l.partition("\n")
        print(f"{req.split(' ', 1)[0]}\n  request: {req[:400]}\n  impl   : {why[2:]}")
        bad += 1
    if not st["order"] and not st.get("hung"):
        print(open(path).read())
    return 1 if bad else 0


def main():
    ap = argparse.ArgumentParser()
    ap.add_argument("cmd")
    ap.add_argument("arg", nargs="?")
    ap.add_argument("--tier", default=os.environ.get("VERIF_TIER", "quick"))
    ap.add_argument("--seed", type=int, default=int(os.environ.get("VERIF_SEED", "20260926")))
    a = ap.parse_args()
    if a.cmd == "setup":
        build_harness()
        r = build_lean(["Ohsl", "ohsl-model"])
        print(r.stdout[-3000:])
        sys.exit(r.returncode)
    if a.cmd == "check":
        sys.exit(check(a.arg, a.tier if a.tier in ("quick", "thorough") else "quick", a.seed))
    if a.cmd == "replay":
        sys.exit(replay(a.arg))
    print(__doc__); sys.exit(2)


if __name__ == "__main__":
    main()
