#!/bin/bash
# usage: tools_seed_try.sh <seed-dir containing patch.diff [demo.rs]> <prop> [more props…]
# 1. confirms the change in the scratch worktree /tmp/seed/confirm (compiles, suite passes, demo fails with / passes without)
# 2. applies it to /repo, runs the quick check(s), reverts /repo
set -u
D=$1; shift
W=/tmp/seed/confirm
if [ ! -d $W ]; then git -C /repo worktree add -q --detach $W HEAD; fi
git -C $W checkout -q --detach $(git -C /repo rev-parse HEAD) 2>/dev/null; git -C $W checkout -q -- . ; git -C $W clean -fdq
echo "== confirm in $W"
if [ -f $D/demo.rs ]; then
  cp $D/demo.rs $W/tests/demo_seed.rs
  (cd $W && cargo test --offline --test demo_seed 2>&1 | grep -E "^test result|error(\[|:)" | head -3 | sed 's/^/   without patch: /')
fi
git -C $W apply $D/patch.diff || { echo "PATCH DOES NOT APPLY"; exit 1; }
(cd $W && cargo test --offline --test tests 2>&1 | grep -E "^test result|error(\[|:)" | head -3 | sed 's/^/   suite with patch: /')
if [ -f $D/demo.rs ]; then
  (cd $W && cargo test --offline --test demo_seed 2>&1 | grep -E "^test result|error(\[|:)" | head -3 | sed 's/^/   demo with patch: /')
fi
git -C $W checkout -q -- . ; git -C $W clean -fdq
echo "== checks against /repo with the change applied"
git -C /repo apply $D/patch.diff || { echo "PATCH DOES NOT APPLY TO /repo"; exit 1; }
for p in "$@"; do (cd /verif && python3 verif.py check $p --tier quick 2>&1 | grep -v "^KNOWN-FINDING" | cut -c1-300 | tail -4); done
git -C /repo checkout -q -- .
git -C /repo status --short | head -3
