import Ohsl.Props.C08K
open Ohsl Ohsl.Sp Ohsl.Krylov Ohsl.Props.C08

attribute [local instance] Ohsl.Alg.scalarExt

@[reducible] def tq : Transc ℚ where
  sqrt := id
  sin := id
  cos := id
  tan := id
  exp := id
  ln := id
  sinh := id
  cosh := id
  fabs := id
  atan2 := fun a _ => a
  powf := fun a _ => a
  fmax := fun a _ => a
  ofNat := fun n => n
  le := fun a b => decide (a ≤ b)
  half := 1 / 2
  piHalf := 0
  eps := 0
  snap := 0
attribute [local instance] tq

-- ill-formed 1x1 storage: empty col_start. Rust's multiply would panic (index out of bounds).
def bad : Sp ℚ := ⟨1, 1, 0, #[], #[], #[]⟩


example : Sp.multiply bad #[0] = .error .range := by decide +kernel
#eval (match Sp.solveIter bad .cg #[(1:ℚ)] #[0] 5 (1/100) Ohsl.Props.C08.sumSq with
  | .ok o => (o.ok, o.iters, o.x.toList) | .error _ => (false, 999, []))
