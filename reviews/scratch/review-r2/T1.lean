import Ohsl.Props.C06W
import Ohsl.Props.C07S
open Ohsl Ohsl.Sp Ohsl.Props
-- is there any theorem relating multiply (transpose s) to transposeMultiply s ?
#check @C06.transpose_entry
#check @C07.multiply_eq
#check @C07.transposeMultiply_eq
#check @Ohsl.Sp.tmulF_eq_entry
#check @Ohsl.Sp.mulF_eq_entry

-- attempt derivation
example {K : Type} [CommSemiring K] [Sub K] [Neg K] [BEq K] [ScalarExt K] {s : Sp K} (h : WF s)
    (y : Array K) (hy : y.size = s.rows) :
    ∃ t, Sp.transpose s = .ok t ∧ Sp.multiply t y = Sp.transposeMultiply s y := by
  obtain ⟨t, h1, h2, h3⟩ := C06.transpose_entry h
  obtain ⟨t', e1, _, r1, c1, _⟩ := C06.transpose_wf h
  rw [h1] at e1; cases e1
  refine ⟨t, h1, ?_⟩
  rw [C07.multiply_eq h2 y (by omega), C07.transposeMultiply_eq h y hy]
  congr 1
  apply Array.ext_getElem?
  intro i
  simp only [Array.getElem?_ofFn, r1]
  by_cases hi : i < s.cols
  · simp only [hi, dif_pos]
    congr 1
    rw [mulF_eq_entry, tmulF_eq_entry h _ hi, c1]
    exact Finset.sum_congr rfl (fun j hj => by rw [h3 i j hi (Finset.mem_range.mp hj)])
  · simp [hi]
