import sys,re
# print declarations' statements (not proofs) with line numbers, plus doc comments and section/variable lines
f=sys.argv[1]
lines=open(f).read().split('\n')
i=0;n=len(lines)
kw=re.compile(r'^\s*(@\[[^\]]*\]\s*)?(private |protected |noncomputable |local |scoped )*(theorem|lemma|def|abbrev|instance|structure|inductive|example|class|axiom|opaque)\b')
ctx=re.compile(r'^\s*(variable|section|namespace|end|open|attribute|import|set_option|universe)\b')
while i<n:
    l=lines[i]
    if l.lstrip().startswith('/--') or l.lstrip().startswith('/-!') or l.lstrip().startswith('/-'):
        # doc comment: print fully
        j=i
        while True:
            print(f"{j+1}: {lines[j]}")
            if '-/' in lines[j]: break
            j+=1
            if j>=n: break
        i=j+1;continue
    if ctx.match(l):
        print(f"{i+1}: {l}");i+=1;continue
    if kw.match(l):
        j=i
        isdef = re.search(r'\b(def|abbrev|instance|structure|inductive|class)\b', l) is not None and not re.search(r'\b(theorem|lemma|example)\b',l)
        while j<n:
            print(f"{j+1}: {lines[j]}")
            s=lines[j].rstrip()
            if not isdef and (s.endswith(':= by') or s.endswith(':=') or re.search(r':= by\b',s) or re.search(r':=\s*$',s) or re.search(r':=\s+\S',s) and not s.lstrip().startswith('(')):
                break
            if isdef:
                # print until blank line
                if j+1<n and lines[j+1].strip()=='' : break
            j+=1
        i=j+1;continue
    i+=1
