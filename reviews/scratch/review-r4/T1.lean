import Ohsl.Props.C15P
import Ohsl.Props.C20
open Ohsl Ohsl.Props.C15 Ohsl.RealI

-- (1) powspace over ℝ with a NEGATIVE exponent: node 0 is `a` (Mathlib: 0 ^ p = 0 for p ≠ 0); f64 gives powf(0,-1)=inf
example (a b : ℝ) (n : Nat) (hn : 2 ≤ n) :
    ∃ v, Vec.powspace a b n (-1) = .ok v ∧ v.getD 0 0 = a := by
  obtain ⟨v, hv, _, hel, _⟩ := powspace_spec_real a b (-1) n hn
  refine ⟨v, hv, ?_⟩
  rw [hel 0 (by omega)]
  simp [Real.zero_rpow]

-- (2) rejects_solvers: hypothesis h is implied by hns, i.e. only the non-square case is covered
example {K : Type} [Add K] [Sub K] [Mul K] [Neg K] [Zero K] [One K] [BEq K] [ScalarExt K]
    (m : Mat K) (b : Array K) (hns : m.rows ≠ m.cols) : m.rows ≠ b.size ∨ m.rows ≠ m.cols := Or.inr hns
#check @Ohsl.Props.C20.rejects_solvers
