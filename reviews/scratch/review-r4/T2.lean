import Ohsl.Lemmas.Rounding
open Ohsl
-- raw `/` on Fl M is totalised: x / 0 = 0 (only divM guards it)
example (M : FlModel) (a : Fl M) : (a / (⟨0⟩ : Fl M)).val = 0 := by
  simp [Fl.div_val, M.fl_zero]
-- literal 1 is "exact" but need not be representable
example : ¬ (FlModel.scale 1 (by norm_num)).Rep 1 := by
  simp [FlModel.Rep, FlModel.scale]
-- u ≥ 1 admits fl = 0
example : ∃ M : FlModel, M.u = 1 ∧ ∀ x, M.fl x = 0 :=
  ⟨⟨1, fun _ => 0, by norm_num, fun x => by simp⟩, rfl, fun _ => rfl⟩
