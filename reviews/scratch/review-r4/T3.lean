import Ohsl.Props.C15F
open Ohsl Ohsl.Props.C15
-- In the only rounding model for which `Monotone fl` is exhibited (`scale u`, u > 0), `ExactCasts` fails for every n ≥ 2,
-- whatever Transc instance is chosen: the joint hypotheses of linspace_monotone_fl are exhibited only for u = 0.
example (u : ℝ) (hu : 0 < u) (T : Transc (Fl (FlModel.scale u hu.le))) (n : Nat) (hn : 2 ≤ n) :
    ¬ @ExactCasts (FlModel.scale u hu.le) T n := by
  rintro ⟨_, h2⟩
  have h2' : (1 + u) * ((n : ℝ) - 1) = (n : ℝ) - 1 := h2
  have hn' : (2 : ℝ) ≤ n := by exact_mod_cast hn
  nlinarith
