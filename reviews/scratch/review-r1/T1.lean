import Ohsl.Props.C04B
import Ohsl.Props.C01C
open Ohsl

-- in-band but OUTSIDE the matrix (j = n): no panic, a padding slot is returned
#eval Band.get (⟨3, 1, 1, ⟨#[7, 1, 2, 3, 4, 1, 1, 1, 99], 3, 3⟩⟩ : Band Rat) 2 3
#eval (do let b ← Band.set (⟨3, 1, 1, ⟨#[7, 1, 2, 3, 4, 1, 1, 1, 99], 3, 3⟩⟩ : Band Rat) 2 3 5; pure b.compact.data : Res (Array Rat))
-- i=0,j=... upper-left padding: (0, -1) not expressible. 
-- order 0 LU
#eval Mat.solveLU (⟨#[], 0, 0⟩ : Mat Rat) #[]
#eval Mat.solveBasic (⟨#[], 0, 0⟩ : Mat Rat) #[]
#eval Mat.determinant (⟨#[], 0, 0⟩ : Mat Rat)
#eval (do let m ← Mat.inverse (⟨#[], 0, 0⟩ : Mat Rat); pure m.data : Res (Array Rat))
-- non-WF square-shaped
#eval Mat.determinant (⟨#[1,2,3], 2, 2⟩ : Mat Rat)
