import Ohsl.Model.Solve
import Ohsl.Model.Inst
import Ohsl.Model.Banded
open Ohsl
#eval Mat.solveLU (⟨#[], 0, 0⟩ : Mat Rat) #[]
#eval Mat.solveBasic (⟨#[], 0, 0⟩ : Mat Rat) #[]
#eval Mat.determinant (⟨#[], 0, 0⟩ : Mat Rat)
#eval (do let m ← Mat.inverse (⟨#[], 0, 0⟩ : Mat Rat); pure m.data : Res (Array Rat))
#eval Mat.determinant (⟨#[1,2,3], 2, 2⟩ : Mat Rat)
-- Float: singular system returns a value (inf/nan), not an error
#eval Mat.solveLU (⟨#[1,2,2,4], 2, 2⟩ : Mat Float) #[3,6]
#eval Mat.solveBasic (⟨#[1,2,2,4], 2, 2⟩ : Mat Float) #[3,6]
#eval (do let m ← Mat.inverse (⟨#[1,2,2,4], 2, 2⟩ : Mat Float); pure m.data : Res (Array Float))
#eval Band.solve (⟨2, 1, 1, ⟨#[0,1,2,2,4,0], 2, 3⟩⟩ : Band Float) #[3,6]
-- norm_p with p = 0 in Float: value, not error
#eval Mat.sdiv (⟨#[1,2,2,4], 2, 2⟩ : Mat Float) 0 |>.map (·.data)
