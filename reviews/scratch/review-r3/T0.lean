import Ohsl.Props.C14I
example : (1:Nat) = 2 := rfl
