import Ohsl.Props.C14I
import Ohsl.Props.C10D
open Ohsl Ohsl.Cx Ohsl.RealI Ohsl.Props.C14 Ohsl.Roots

-- (a) ln 0 = 0 in the real interpretation (f64: -inf + 0i); cln_eq holds at 0 only through Real.log 0 = 0
example : toC (cln (⟨0, 0⟩ : Cx ℝ)) = 0 := by
  rw [cln_eq]; simp [toC]
  show Complex.log (⟨0, 0⟩ : ℂ) = 0
  have : (⟨0, 0⟩ : ℂ) = 0 := rfl
  rw [this, Complex.log_zero]

-- (b) 1/0 = 0 : divT
example : toC (divT (1 : Cx ℝ) ⟨0, 0⟩) = 0 := by
  rw [divT_eq]
  have : toC (⟨0, 0⟩ : Cx ℝ) = 0 := rfl
  rw [this, div_zero]

-- (c) csec (casec 0) = 0 "holds" : sec(asec 0) = 0
example : toC (csec (casec (⟨0, 0⟩ : Cx ℝ))) = 0 := by
  rw [csec_casec]; rfl

-- (d) arg_eq is by rfl: atan2 IS Complex.arg by definition of the instance
example (y x : ℝ) : (Transc.atan2 y x : ℝ) = Complex.arg ⟨x, y⟩ := rfl

-- (e) tan at a pole agrees with Mathlib only through x/0 = 0
example : toC (ctan (⟨Real.pi / 2, 0⟩ : Cx ℝ)) = 0 := by
  rw [ctan_eq, Complex.tan_eq_sin_div_cos]
  have : toC (⟨Real.pi / 2, 0⟩ : Cx ℝ) = ((Real.pi / 2 : ℝ) : ℂ) := by
    apply Complex.ext <;> simp [toC]
  rw [this]
  push_cast
  rw [Complex.cos_pi_div_two, div_zero]

-- (f) roots_length does not need a non-zero leading coefficient: "0·x + 1" gets one "root"
example : ∃ rs, polySolve (#[⟨1, 0⟩, ⟨0, 0⟩] : Array (Cx ℝ)) false = .ok rs ∧ rs.size = 1 :=
  Ohsl.Props.C10.roots_length _ false (by simp)
-- and that root is 0 (−1/0 = 0)
example : polySolve (#[⟨1, 0⟩, ⟨0, 0⟩] : Array (Cx ℝ)) false = .ok #[divT (-(⟨1, 0⟩ : Cx ℝ)) ⟨0, 0⟩] := rfl
