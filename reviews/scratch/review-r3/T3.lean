import Ohsl.Props.C12D
open Ohsl Ohsl.Poly
def ones (n : Nat) : Array Rat := Array.replicate n (1:Rat)
#eval (match polydiv (ones 1001) #[(1:Rat)] with | .ok none => "Err(max iterations)" | .ok (some _) => "ok" | .error _ => "panic")
#eval (match polydiv (ones 1000) #[(1:Rat)] with | .ok none => "Err(max iterations)" | .ok (some _) => "ok" | .error _ => "panic")
