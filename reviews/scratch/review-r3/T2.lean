import Ohsl.Props.C12D
open Ohsl Ohsl.Poly
-- x^1000 / 1 over Rat: the iteration cap is hit (1001 steps) -> Err; so "never reaches the cap" needs deg u - deg v < 1000
def big : Array Rat := (Array.replicate 1000 (0:Rat)).push 1
#eval (match polydiv big #[(1:Rat)] with | .ok none => "Err(max iterations)" | .ok (some _) => "ok" | .error _ => "panic")
def big2 : Array Rat := (Array.replicate 999 (0:Rat)).push 1
#eval (match polydiv big2 #[(1:Rat)] with | .ok none => "Err(max iterations)" | .ok (some _) => "ok" | .error _ => "panic")
-- untrimmed divisor (leading coefficient 0) over an exact type: panic class arith, so polydiv_spec is vacuous there
#eval (match polydiv (#[1,1,1] : Array Rat) #[(1:Rat), 0] with | .ok none => "Err" | .ok (some _) => "ok" | .error e => s!"panic {e}")
-- Float, untrimmed divisor
#eval (match polydiv (#[1,1,1] : Array Float) #[(1:Float), 0] with | .ok none => "Err" | .ok (some (q,r)) => s!"ok {q} {r}" | .error e => s!"panic {e}")
