// C10 repro: each test states the property (n finite values, each a zero of p to within a small normwise
// backward error; one-to-one for well-separated roots) on one concrete polynomial and FAILS on the current code.
// Backward error: |p(z)| / (max|a_k| * sum_k |z|^k)  (plain f64 Horner is ample: the violations are >= 1e-3).
// Tolerance 1e-8 (= 4.5e7 machine epsilons) is far beyond "small".
use ohsl::{Cmplx, Polynomial};

type C = (f64, f64);
fn mul(a: C, b: C) -> C { (a.0 * b.0 - a.1 * b.1, a.0 * b.1 + a.1 * b.0) }
fn abs(a: C) -> f64 { a.0.hypot(a.1) }
fn backward_error(co: &[C], z: C) -> f64 {
    let n = co.len() - 1;
    let mut p = co[n];
    for k in (0..n).rev() { let t = mul(p, z); p = (t.0 + co[k].0, t.1 + co[k].1); }
    let amax = co.iter().map(|c| abs(*c)).fold(0.0, f64::max);
    let (mut s, mut pw) = (0.0, 1.0);
    for _ in 0..=n { s += pw; pw *= abs(z); }
    abs(p) / (amax * s)
}
fn roots_real(co: &[f64], refine: bool) -> Vec<C> {
    let v = Polynomial::<f64>::new(co.to_vec()).roots(refine);
    (0..v.size()).map(|i| (v[i].real, v[i].imag)).collect()
}
fn roots_cplx(co: &[C], refine: bool) -> Vec<C> {
    let v = Polynomial::<Cmplx>::new(co.iter().map(|c| Cmplx::new(c.0, c.1)).collect()).roots(refine);
    (0..v.size()).map(|i| (v[i].real, v[i].imag)).collect()
}
fn assert_all_roots(co: &[C], z: &[C], what: &str) {
    assert_eq!(z.len(), co.len() - 1, "{}: wrong number of roots", what);
    for r in z {
        assert!(r.0.is_finite() && r.1.is_finite(), "{}: non-finite {:?}", what, r);
        let be = backward_error(co, *r);
        assert!(be <= 1e-8, "{}: returned value {:?} is not a root: backward error {:e}; all returned = {:?}", what, r, be, z);
    }
}
// every true root has its own returned value within tol
fn assert_one_to_one(truth: &[C], z: &[C], tol: f64, what: &str) {
    let mut used = vec![false; z.len()];
    for t in truth {
        let mut best = None; let mut bd = f64::INFINITY;
        for (j, g) in z.iter().enumerate() { if !used[j] { let d = abs((t.0 - g.0, t.1 - g.1)); if d < bd { bd = d; best = Some(j); } } }
        assert!(bd <= tol, "{}: true root {:?} has no (own) returned value within {:e}; returned = {:?}", what, t, tol, z);
        used[best.unwrap()] = true;
    }
}
fn real(co: &[f64]) -> Vec<C> { co.iter().map(|x| (*x, 0.0)).collect() }

// F1: x^10 + 1024 (all inner coefficients vanish; roots 2 e^{i pi (2k+1)/10}); iterative path, either refinement setting
#[test]
fn binomial_x10_plus_1024() {
    let co = [1024.0, 0.0, 0.0, 0.0, 0.0, 0.0, 0.0, 0.0, 0.0, 0.0, 1.0];
    for refine in [false, true] {
        let z = roots_real(&co, refine);
        assert_all_roots(&real(&co), &z, &format!("x^10 + 1024, refine={}", refine));
    }
}

// F2: x^5 + 0.01 x + 2 (five well-separated simple roots of modulus ~1.149)
#[test]
fn trinomial_x5_no_refine() {
    let co = [2.0, 0.01, 0.0, 0.0, 0.0, 1.0];
    let z = roots_real(&co, false);
    assert_all_roots(&real(&co), &z, "x^5 + 0.01 x + 2, refine=false");
}
#[test]
fn trinomial_x5_refine() {
    let co = [2.0, 0.01, 0.0, 0.0, 0.0, 1.0];
    let z = roots_real(&co, true);
    assert_all_roots(&real(&co), &z, "x^5 + 0.01 x + 2, refine=true");
}

// F3: i x^5 + 0.01 x + 2 over Complex<f64>; with refinement one simple root is returned twice and another is missing
#[test]
fn complex_trinomial_ix5() {
    let co: [C; 6] = [(2.0, 0.0), (0.01, 0.0), (0.0, 0.0), (0.0, 0.0), (0.0, 0.0), (0.0, 1.0)];
    for refine in [false, true] {
        let z = roots_cplx(&co, refine);
        assert_all_roots(&co, &z, &format!("i x^5 + 0.01 x + 2, refine={}", refine));
    }
}

// F4: x^6 + 0.001 x^2 - x = x (x^5 + 0.001 x - 1): a root at zero and five well-separated roots near the 5th roots of
// unity. With refinement all six returned values are (numerically) zero: each IS a zero of p, but five roots are lost.
#[test]
fn refine_collapses_all_roots_onto_zero() {
    let co = [0.0, -1.0, 0.001, 0.0, 0.0, 0.0, 1.0];
    let z = roots_real(&co, true);
    // true roots of x^5 + 0.001 x - 1: w - 0.0002 w^2 + O(1e-7) with w^5 = 1 (tolerance 1e-3 is ample: separation > 1)
    let mut truth: Vec<C> = vec![(0.0, 0.0)];
    for k in 0..5 {
        let t = 2.0 * std::f64::consts::PI * k as f64 / 5.0;
        let w = (t.cos(), t.sin());
        let w2 = mul(w, w);
        truth.push((w.0 - 0.0002 * w2.0, w.1 - 0.0002 * w2.1));
    }
    for t in &truth { assert!(backward_error(&real(&co), *t) < 1e-6); } // the oracle itself
    assert_one_to_one(&truth, &z, 1e-3, "x^6 + 0.001 x^2 - x, refine=true");
}
#[test]
fn sparse_sextic_no_refine() {
    let co = [0.0, -1.0, 0.001, 0.0, 0.0, 0.0, 1.0];
    let z = roots_real(&co, false);
    assert_all_roots(&real(&co), &z, "x^6 + 0.001 x^2 - x, refine=false");
}

// F5: coefficients in {-1,0,1}: 1 - x + x^2 - x^3 + x^6 - x^7 + x^8 - x^9 = (1 - x)(1 + x^2)(1 + x^6), no refinement
#[test]
fn degree9_unit_coefficients_no_refine() {
    let co = [1.0, -1.0, 1.0, -1.0, 0.0, 0.0, 1.0, -1.0, 1.0, -1.0];
    let z = roots_real(&co, false);
    assert_all_roots(&real(&co), &z, "(1-x)(1+x^2)(1+x^6), refine=false");
}

// F6: 0.002 x^4 + 500 x^3 - 0.001 x - 500 (ratio 5e5; roots -250000 and ~ the cube roots of unity), no refinement:
// the root ~1 is returned as 0.7937 = 0.5^(1/3) (deflation by the largest root first)
#[test]
fn quartic_deflation_no_refine() {
    let co = [-500.0, -0.001, 0.0, 500.0, 0.002];
    let z = roots_real(&co, false);
    assert_all_roots(&real(&co), &z, "0.002 x^4 + 500 x^3 - 0.001 x - 500, refine=false");
}

// F7: closed-form cubic with a cluster: 27 x^3 - 243 x^2 + 729.0027 x - 729.0081 = 27 [ (x-3)^3 + 1e-4 (x-3) ],
// roots 3, 3 +- 0.01 i; without refinement Cardano returns 5.76 and 1.62 +- 2.39 i
#[test]
fn cubic_cluster_no_refine() {
    let co = [-729.0081, 729.0027, -243.0, 27.0];
    let z = roots_real(&co, false);
    assert_all_roots(&real(&co), &z, "27x^3 - 243x^2 + 729.0027x - 729.0081, refine=false");
}
#[test]
fn cubic_cluster_2_no_refine() {
    // x^3 - 30 x^2 + 299.999 x - 999.99 = (x-10)^3 - 1e-3 (x-10): roots 10, 10 +- 0.0316; returned 4.32, 12.84 +- 4.92 i
    let co = [-999.99, 299.999, -30.0, 1.0];
    let z = roots_real(&co, false);
    assert_all_roots(&real(&co), &z, "x^3 - 30x^2 + 299.999x - 999.99, refine=false");
}
