// Adversarial hunt for property C10 (root finder returns n finite values that are roots).
// Public API only. Independent oracles: double-double complex Horner evaluation (normwise backward error),
// double-double reconstruction of a_n * prod (x - z_i) (detects missing / duplicated roots),
// known roots (polynomials expanded from chosen root sets), an Aberth reference iteration.
use ohsl::{Cmplx, Polynomial};
use std::collections::BTreeMap;

type C = (f64, f64);

// ---------------------------------------------------------------- rng
struct Rng(u64);
impl Rng {
    fn next(&mut self) -> u64 {
        let mut x = self.0;
        x ^= x >> 12;
        x ^= x << 25;
        x ^= x >> 27;
        self.0 = x;
        x.wrapping_mul(0x2545F4914F6CDD1D)
    }
    fn uni(&mut self) -> f64 { (self.next() >> 11) as f64 / (1u64 << 53) as f64 }
    fn below(&mut self, n: usize) -> usize { (self.next() % n as u64) as usize }
    fn pick<T: Copy>(&mut self, v: &[T]) -> T { v[self.below(v.len())] }
    fn sign(&mut self) -> f64 { if self.next() & 1 == 0 { 1.0 } else { -1.0 } }
}

// ---------------------------------------------------------------- double-double
#[derive(Clone, Copy, Debug)]
struct DD { h: f64, l: f64 }
fn two_sum(a: f64, b: f64) -> (f64, f64) { let s = a + b; let bb = s - a; (s, (a - (s - bb)) + (b - bb)) }
fn quick(a: f64, b: f64) -> DD { let s = a + b; DD { h: s, l: b - (s - a) } }
fn two_prod(a: f64, b: f64) -> (f64, f64) { let p = a * b; (p, a.mul_add(b, -p)) }
impl DD {
    fn f(x: f64) -> DD { DD { h: x, l: 0.0 } }
    fn add(self, o: DD) -> DD { let (s, e) = two_sum(self.h, o.h); quick(s, e + self.l + o.l) }
    fn neg(self) -> DD { DD { h: -self.h, l: -self.l } }
    fn sub(self, o: DD) -> DD { self.add(o.neg()) }
    fn mul(self, o: DD) -> DD { let (p, e) = two_prod(self.h, o.h); quick(p, e + self.h * o.l + self.l * o.h) }
    fn v(self) -> f64 { self.h + self.l }
}
#[derive(Clone, Copy, Debug)]
struct CD { re: DD, im: DD }
impl CD {
    fn f(c: C) -> CD { CD { re: DD::f(c.0), im: DD::f(c.1) } }
    fn add(self, o: CD) -> CD { CD { re: self.re.add(o.re), im: self.im.add(o.im) } }
    fn sub(self, o: CD) -> CD { CD { re: self.re.sub(o.re), im: self.im.sub(o.im) } }
    fn mul(self, o: CD) -> CD {
        CD { re: self.re.mul(o.re).sub(self.im.mul(o.im)), im: self.re.mul(o.im).add(self.im.mul(o.re)) }
    }
    fn v(self) -> C { (self.re.v(), self.im.v()) }
}
fn cabs(c: C) -> f64 { c.0.hypot(c.1) }

// p(z) in double-double
fn eval_dd(co: &[C], z: C) -> C {
    let n = co.len() - 1;
    let zz = CD::f(z);
    let mut p = CD::f(co[n]);
    for k in (0..n).rev() { p = p.mul(zz).add(CD::f(co[k])); }
    p.v()
}
// normwise (inf-norm) relative backward error of z as a root: |p(z)| / (max|a_k| * sum_k |z|^k)
fn backward_error(co: &[C], z: C) -> f64 {
    let amax = co.iter().map(|c| cabs(*c)).fold(0.0, f64::max);
    let az = cabs(z);
    let mut s = 0.0; let mut pw = 1.0;
    for _ in 0..co.len() { s += pw; pw *= az; }
    cabs(eval_dd(co, z)) / (amax * s)
}
// the weaker measure quoted in the anchors: |p(z)| / (max|a_k| * max(1,|z|)^n)
fn backward_error_anchor(co: &[C], z: C) -> f64 {
    let amax = co.iter().map(|c| cabs(*c)).fold(0.0, f64::max);
    let n = (co.len() - 1) as i32;
    cabs(eval_dd(co, z)) / (amax * f64::max(1.0, cabs(z)).powi(n))
}
// a_n * prod (x - z_i) in double-double, ascending coefficients
fn expand_dd(lead: CD, roots: &[CD]) -> Vec<CD> {
    let mut c = vec![lead];
    for r in roots {
        let mut nw = vec![CD::f((0.0, 0.0)); c.len() + 1];
        for k in 0..c.len() {
            nw[k + 1] = nw[k + 1].add(c[k]);
            nw[k] = nw[k].sub(r.mul(c[k]));
        }
        c = nw;
    }
    c
}
// max_k |rebuilt_k - a_k| / max|a_k|
fn rebuild_error(co: &[C], roots: &[C]) -> f64 {
    let amax = co.iter().map(|c| cabs(*c)).fold(0.0, f64::max);
    let r: Vec<CD> = roots.iter().map(|z| CD::f(*z)).collect();
    let c = expand_dd(CD::f(co[co.len() - 1]), &r);
    let mut e: f64 = 0.0;
    for k in 0..co.len() { e = e.max(cabs(c[k].sub(CD::f(co[k])).v())); }
    e / amax
}

// ---------------------------------------------------------------- plain f64 complex helpers + Aberth reference
fn cm(a: C, b: C) -> C { (a.0 * b.0 - a.1 * b.1, a.0 * b.1 + a.1 * b.0) }
fn ca(a: C, b: C) -> C { (a.0 + b.0, a.1 + b.1) }
fn cs(a: C, b: C) -> C { (a.0 - b.0, a.1 - b.1) }
fn cdv(a: C, b: C) -> C {
    // Smith's division
    if b.0.abs() >= b.1.abs() { let r = b.1 / b.0; let d = b.0 + b.1 * r; ((a.0 + a.1 * r) / d, (a.1 - a.0 * r) / d) }
    else { let r = b.0 / b.1; let d = b.0 * r + b.1; ((a.0 * r + a.1) / d, (a.1 * r - a.0) / d) }
}
fn aberth(co: &[C]) -> Option<Vec<C>> {
    // strip zero roots
    let mut lo = 0;
    while co[lo] == (0.0, 0.0) { lo += 1; }
    let c = &co[lo..];
    let n = c.len() - 1;
    let mut z: Vec<C> = vec![(0.0, 0.0); lo];
    if n == 0 { return Some(z); }
    let r0 = (cabs(c[0]) / cabs(c[n])).powf(1.0 / n as f64);
    let mut w: Vec<C> = (0..n).map(|k| { let t = 2.0 * std::f64::consts::PI * k as f64 / n as f64 + 0.4; (r0 * t.cos(), r0 * t.sin()) }).collect();
    for _ in 0..2000 {
        let mut moved: f64 = 0.0;
        for i in 0..n {
            let x = w[i];
            // p and p' by Horner; for |x|>1 use reversed polynomial to avoid overflow? magnitudes are tame here
            let mut p = c[n]; let mut d = (0.0, 0.0);
            for k in (0..n).rev() { d = ca(cm(d, x), p); p = ca(cm(p, x), c[k]); }
            if p == (0.0, 0.0) { continue; }
            let nt = cdv(p, d);
            let mut s = (0.0, 0.0);
            for j in 0..n { if j != i { s = ca(s, cdv((1.0, 0.0), cs(x, w[j]))); } }
            let dx = cdv(nt, cs((1.0, 0.0), cm(nt, s)));
            if !(dx.0.is_finite() && dx.1.is_finite()) { continue; }
            w[i] = cs(x, dx);
            moved = moved.max(cabs(dx) / f64::max(cabs(x), 1e-300));
        }
        if moved < 1e-15 { break; }
    }
    z.extend(w);
    if rebuild_error(co, &z) < 1e-11 { Some(z) } else { None }
}
fn min_rel_sep(z: &[C]) -> f64 {
    let mut m = f64::INFINITY;
    for i in 0..z.len() { for j in 0..i { m = m.min(cabs(cs(z[i], z[j])) / f64::max(cabs(z[i]), cabs(z[j])).max(1e-300)); } }
    m
}
// injective matching of `truth` into `got`, each within tol_i; greedy nearest (fine when tol << separation)
fn one_to_one(truth: &[C], got: &[C], tol: &[f64]) -> bool {
    if truth.len() != got.len() { return false; }
    let mut used = vec![false; got.len()];
    for (i, t) in truth.iter().enumerate() {
        let mut best = usize::MAX; let mut bd = f64::INFINITY;
        for (j, g) in got.iter().enumerate() { if !used[j] { let d = cabs(cs(*t, *g)); if d < bd { bd = d; best = j; } } }
        if best == usize::MAX || !(bd <= tol[i]) { return false; }
        used[best] = true;
    }
    true
}

// ---------------------------------------------------------------- harness
fn call_roots(co: &[C], as_real: bool, refine: bool) -> Result<Vec<C>, String> {
    let coc: Vec<C> = co.to_vec();
    let r = std::panic::catch_unwind(move || {
        if as_real {
            let p = Polynomial::<f64>::new(coc.iter().map(|c| c.0).collect());
            let v = p.roots(refine);
            (0..v.size()).map(|i| (v[i].real, v[i].imag)).collect::<Vec<C>>()
        } else {
            let p = Polynomial::<Cmplx>::new(coc.iter().map(|c| Cmplx::new(c.0, c.1)).collect());
            let v = p.roots(refine);
            (0..v.size()).map(|i| (v[i].real, v[i].imag)).collect::<Vec<C>>()
        }
    });
    r.map_err(|e| {
        if let Some(s) = e.downcast_ref::<String>() { s.clone() } else if let Some(s) = e.downcast_ref::<&str>() { s.to_string() } else { "panic".into() }
    })
}

fn ratio(co: &[C]) -> f64 {
    let mut mx: f64 = 0.0; let mut mn = f64::INFINITY;
    for c in co { let a = cabs(*c); if a > 0.0 { mx = mx.max(a); mn = mn.min(a); } }
    mx / mn
}
// ratio counting real and imaginary parts as separate "coefficients"
fn ratio_parts(co: &[C]) -> f64 {
    let mut mx: f64 = 0.0; let mut mn = f64::INFINITY;
    for c in co { for a in [c.0.abs(), c.1.abs()] { if a > 0.0 { mx = mx.max(a); mn = mn.min(a); } } }
    mx / mn
}

#[derive(Default)]
struct Stats {
    cases: usize,
    calls: usize,
    hard: Vec<String>,                         // wrong length / non finite / panic
    worst: BTreeMap<String, (f64, String)>,    // key -> (max backward error, input)
    worst_rebuild: BTreeMap<String, (f64, String)>,
    soft: Vec<(f64, String)>,                  // backward error above BE_FLAG
    dup: Vec<String>,                          // well-separated but not one-to-one
    dupgood: Vec<String>,                      // ... although every returned value is an accurate zero
    hist: BTreeMap<(usize, bool), [usize; 6]>, // (degree, refine) -> count of calls with be > 1e-10,1e-8,1e-6,1e-4,1e-2 ; [5] = calls
}
const BE_FLAG: f64 = 1e-8; // generous: 5e7 machine epsilons
const RB_FLAG: f64 = 1e-7;

fn fmt_co(co: &[C]) -> String {
    let v: Vec<String> = co.iter().map(|c| format!("({:e},{:e})", c.0, c.1)).collect();
    format!("[{}]", v.join(", "))
}

impl Stats {
    // `truth`: known roots (with tolerances) for a one-to-one check
    fn check(&mut self, class: &str, co: &[C], truth: Option<(&[C], &[f64])>) {
        let n = co.len() - 1;
        assert!(n >= 1 && co[n] != (0.0, 0.0));
        self.cases += 1;
        let is_real = co.iter().all(|c| c.1 == 0.0);
        let variants: &[bool] = if is_real { &[true, false] } else { &[false] };
        for &as_real in variants {
            for refine in [false, true] {
                self.calls += 1;
                let tag = format!("{} n={} real_api={} refine={} coeffs(ascending)={}", class, n, as_real, refine, fmt_co(co));
                let z = match call_roots(co, as_real, refine) {
                    Ok(z) => z,
                    Err(m) => { self.hard.push(format!("PANIC {} :: {}", m, tag)); continue; }
                };
                if z.len() != n { self.hard.push(format!("LEN {} :: {}", z.len(), tag)); continue; }
                if z.iter().any(|c| !(c.0.is_finite() && c.1.is_finite())) {
                    self.hard.push(format!("NONFINITE {:?} :: {}", z, tag)); continue;
                }
                let mut be: f64 = 0.0;
                for r in &z { be = be.max(backward_error(co, *r)); }
                let key = format!("{}|{}|refine={}", class, if n <= 3 { format!("closed{}", n) } else { "iter".to_string() }, refine);
                let e = self.worst.entry(key.clone()).or_insert((0.0, String::new()));
                if be > e.0 { *e = (be, format!("{} roots={:?}", tag, z)); }
                { let h = self.hist.entry((n, refine)).or_insert([0; 6]); h[5] += 1; for (i, t) in [1e-10, 1e-8, 1e-6, 1e-4, 1e-2].iter().enumerate() { if !(be <= *t) { h[i] += 1; } } }
                if !(be <= BE_FLAG) { self.soft.push((be, format!("{} roots={:?}", tag, z))); }
                let rb = rebuild_error(co, &z);
                let e = self.worst_rebuild.entry(key).or_insert((0.0, String::new()));
                if rb > e.0 { *e = (rb, format!("{} roots={:?}", tag, z)); }
                if let Some((t, tol)) = truth {
                    if !one_to_one(t, &z, tol) { self.dup.push(format!("KNOWN-ROOTS MISMATCH truth={:?} got={:?} :: {}", t, z, tag)); }
                } else if !(rb <= RB_FLAG) {
                    // each value may be a fine approximate root and still the SET may be wrong: classify by a reference
                    if let Some(rf) = aberth(co) {
                        let sep = min_rel_sep(&rf);
                        if sep >= 0.05 {
                            let tol: Vec<f64> = rf.iter().map(|r| 0.01 * sep * cabs(*r).max(1e-300)).collect();
                            if !one_to_one(&rf, &z, &tol) {
                                if be <= 1e-10 { self.dupgood.push(format!("be={:e} sep={:e} ref={:?} got={:?} :: {}", be, sep, rf, z, tag)); }
                                self.dup.push(format!("SEPARATED(sep={:e}) NOT 1-1 rebuild={:e} ref={:?} got={:?} :: {}", sep, rb, rf, z, tag));
                            }
                        }
                    }
                }
            }
        }
    }
    fn report(&self, name: &str) {
        println!("==== {} : cases={} calls={} hard={} soft(be>{:e})={} dup={}", name, self.cases, self.calls, self.hard.len(), BE_FLAG, self.soft.len(), self.dup.len());
        for (k, v) in &self.hist { println!("  hist n={:<2} refine={:<5} calls={:<7} be>1e-10:{:<6} >1e-8:{:<6} >1e-6:{:<6} >1e-4:{:<6} >1e-2:{:<6}", k.0, k.1, v[5], v[0], v[1], v[2], v[3], v[4]); }
        for (k, v) in &self.worst { println!("  worst be  {:<55} {:e}", k, v.0); }
        for (k, v) in &self.worst_rebuild { println!("  worst rb  {:<55} {:e}", k, v.0); }
        for h in self.hard.iter().take(15) { println!("  HARD {}", h); }
        let mut s: Vec<&(f64, String)> = self.soft.iter().collect();
        s.sort_by(|a, b| b.0.partial_cmp(&a.0).unwrap_or(std::cmp::Ordering::Equal));
        for x in s.iter().take(4) { println!("  SOFT be={:e} {}", x.0, x.1); }
        for d in self.dup.iter().take(4) { println!("  DUP {}", d); }
        println!("  dupgood={}", self.dupgood.len());
        let mut dg: Vec<&String> = self.dupgood.iter().collect(); dg.sort_by_key(|x| x.len());
        for d in dg.iter().take(6) { println!("  DUPGOOD {}", d); }
    }
    fn finish(&self, name: &str) {
        self.report(name);
        assert!(self.hard.is_empty(), "{}: hard failures (length / non-finite / panic)", name);
        assert!(self.dup.is_empty(), "{}: well-separated roots not in one-to-one correspondence", name);
        assert!(self.soft.is_empty(), "{}: backward error above {:e}", name, BE_FLAG);
    }
}

// ---------------------------------------------------------------- generators
fn log_uniform(r: &mut Rng, lo: f64, hi: f64) -> f64 {
    match r.below(10) { 0 => lo, 1 => hi, _ => (lo.ln() + r.uni() * (hi.ln() - lo.ln())).exp().clamp(lo, hi) }
}

fn random_coeffs(r: &mut Rng, n: usize, complex: bool) -> Vec<C> {
    let lo = r.pick(&[1e-6, 1e-3, 1e-2, 1.0, 1.0]);
    let rr = r.pick(&[1.0, 10.0, 1e3, 1e6, 1e6]);
    let hi = lo * rr;
    let pz = r.pick(&[0.0, 0.0, 0.2, 0.5, 0.8]);
    let pow2 = r.below(4) == 0;
    let lead_mode = r.below(4); // 0 random, 1 lo, 2 hi, 3 random
    let mut co = Vec::with_capacity(n + 1);
    for k in 0..=n {
        let mut m = log_uniform(r, lo, hi);
        if k == n { if lead_mode == 1 { m = lo; } else if lead_mode == 2 { m = hi; } }
        if pow2 { m = 2f64.powf(m.log2().round()); if m < lo { m *= 2.0; } if m > hi { m *= 0.5; } }
        let c = if complex {
            match r.below(5) {
                0 => (m * r.sign(), 0.0),
                1 => (0.0, m * r.sign()),
                2 => { let s = m / 2f64.sqrt(); (s * r.sign(), s * r.sign()) }
                _ => { let t = 2.0 * std::f64::consts::PI * r.uni(); (m * t.cos(), m * t.sin()) }
            }
        } else { (m * r.sign(), 0.0) };
        let c = if k < n && r.uni() < pz { (0.0, 0.0) } else { c };
        co.push(c);
    }
    co
}

// ---------------------------------------------------------------- tests

#[test]
#[should_panic]
fn degree0_rejected_real() { let p = Polynomial::<f64>::new(vec![3.0]); let _ = p.roots(false); }
#[test]
#[should_panic]
fn degree0_rejected_real_refine() { let p = Polynomial::<f64>::new(vec![-2.5]); let _ = p.roots(true); }
#[test]
#[should_panic]
fn degree0_rejected_complex() { let p = Polynomial::<Cmplx>::new(vec![Cmplx::new(1.0, 2.0)]); let _ = p.roots(false); }
#[test]
#[should_panic]
fn degree0_rejected_complex_refine() { let p = Polynomial::<Cmplx>::new(vec![Cmplx::new(0.0, 0.0)]); let _ = p.roots(true); }
#[test]
#[should_panic]
fn degree0_rejected_zero_real() { let p = Polynomial::<f64>::new(vec![0.0]); let _ = p.roots(true); }

#[test]
fn a_random_real() {
    let mut st = Stats::default();
    let mut r = Rng(0x9E3779B97F4A7C15);
    for _ in 0..60000 {
        let n = 1 + r.below(12);
        let co = random_coeffs(&mut r, n, false);
        st.check("rand-real", &co, None);
    }
    st.finish("a_random_real");
}

#[test]
fn a_random_complex() {
    let mut st = Stats::default();
    let mut r = Rng(0xD1B54A32D192ED03);
    for _ in 0..60000 {
        let n = 1 + r.below(12);
        let co = random_coeffs(&mut r, n, true);
        st.check("rand-cplx", &co, None);
    }
    st.finish("a_random_complex");
}

#[test]
fn a_random_low_degree() {
    // the closed-form paths deserve a lot more samples
    let mut st = Stats::default();
    let mut r = Rng(0xABCDEF0123456789);
    for i in 0..150000 {
        let n = 1 + r.below(3);
        let co = random_coeffs(&mut r, n, i % 2 == 0);
        st.check("rand-low", &co, None);
    }
    st.finish("a_random_low_degree");
}

#[test]
fn b_exhaustive_small_integer_real() {
    let mut st = Stats::default();
    // coefficients in {-2..2}, degree 1..6 ; {-1,0,1}, degree 7..9
    for n in 1..=6usize {
        let total = 5usize.pow(n as u32) * 4;
        for idx in 0..total {
            let mut t = idx; let mut co = vec![];
            for _ in 0..n { co.push((((t % 5) as f64) - 2.0, 0.0)); t /= 5; }
            co.push(([-2.0, -1.0, 1.0, 2.0][t % 4], 0.0));
            st.check("int5-real", &co, None);
        }
    }
    for n in 7..=9usize {
        let total = 3usize.pow(n as u32) * 2;
        for idx in 0..total {
            let mut t = idx; let mut co = vec![];
            for _ in 0..n { co.push((((t % 3) as f64) - 1.0, 0.0)); t /= 3; }
            co.push(([-1.0, 1.0][t % 2], 0.0));
            st.check("int3-real", &co, None);
        }
    }
    st.finish("b_exhaustive_small_integer_real");
}

#[test]
fn b_exhaustive_gaussian_integer() {
    let mut st = Stats::default();
    let units: [C; 5] = [(0.0, 0.0), (1.0, 0.0), (-1.0, 0.0), (0.0, 1.0), (0.0, -1.0)];
    for n in 1..=6usize {
        let total = 5usize.pow(n as u32) * 4;
        for idx in 0..total {
            let mut t = idx; let mut co = vec![];
            for _ in 0..n { co.push(units[t % 5]); t /= 5; }
            co.push(units[1 + t % 4]);
            st.check("gauss5", &co, None);
        }
    }
    // a richer alphabet for degree <= 3 : {0, +-1, +-i, +-1+-i, +-2, +-2i}
    let mut alpha: Vec<C> = vec![];
    for a in [-2.0, -1.0, 0.0, 1.0, 2.0] { for b in [-2.0, -1.0, 0.0, 1.0, 2.0] { alpha.push((a, b)); } }
    let m = alpha.len();
    for n in 1..=3usize {
        let total = m.pow(n as u32 + 1);
        for idx in 0..total {
            let mut t = idx; let mut co = vec![];
            for _ in 0..=n { co.push(alpha[t % m]); t /= m; }
            if co[n] == (0.0, 0.0) { continue; }
            st.check("gauss25-low", &co, None);
        }
    }
    st.finish("b_exhaustive_gaussian_integer");
}

// expand from a root multiset in double-double; return rounded coefficients
fn from_roots(lead: C, roots: &[C], force_real: bool) -> Vec<C> {
    let r: Vec<CD> = roots.iter().map(|z| CD::f(*z)).collect();
    let c = expand_dd(CD::f(lead), &r);
    c.iter().map(|x| { let v = x.v(); if force_real { (v.0, 0.0) } else { v } }).collect()
}

fn root_tolerances(co: &[C], roots: &[C]) -> Vec<f64> {
    // first-order condition: |dz| <= u * sum|a_k||z|^k / |p'(z)|, with a large safety factor
    let n = co.len() - 1;
    let amax = co.iter().map(|c| cabs(*c)).fold(0.0, f64::max);
    let mut out = vec![];
    let mut sep = f64::INFINITY;
    for i in 0..roots.len() { for j in 0..i { sep = sep.min(cabs(cs(roots[i], roots[j]))); } }
    for z in roots {
        let az = cabs(*z);
        let mut s = 0.0; let mut pw = 1.0;
        for _ in 0..=n { s += amax * pw; pw *= az; }
        // p'(z) = a_n prod_{j != i} (z - z_j)
        let mut d = co[n];
        let mut skipped = false;
        for w in roots { if !skipped && w == z { skipped = true; continue; } d = cm(d, cs(*z, *w)); }
        let cond = s / cabs(d);
        out.push(f64::min(1e4 * f64::EPSILON * cond + 1e-300, sep / 3.0));
    }
    out
}

#[test]
fn c_known_separated_roots() {
    let mut st = Stats::default();
    let mut r = Rng(0x1234567887654321);
    let mut skipped = 0usize;
    let mut done = 0usize;
    while done < 60000 {
        let complex = r.below(2) == 0;
        let n = 1 + r.below(12);
        // candidate root pool: small integers and half integers, purely imaginary, conjugate pairs, zero
        let mut roots: Vec<C> = vec![];
        let grid = r.pick(&[1.0, 0.5, 0.25]);
        let span = r.pick(&[2i32, 3, 4, 6]);
        let mut tries = 0;
        while roots.len() < n && tries < 200 {
            tries += 1;
            let kind = r.below(6);
            let a = (r.below((2 * span + 1) as usize) as i32 - span) as f64 * grid;
            let b = (r.below((2 * span + 1) as usize) as i32 - span) as f64 * grid;
            let cand: Vec<C> = match kind {
                0 => vec![(0.0, 0.0)],
                1 => vec![(a, 0.0)],
                2 => if complex { vec![(0.0, b)] } else { vec![(0.0, b), (0.0, -b)] },
                3 => if complex { vec![(a, b)] } else { vec![(a, b), (a, -b)] },
                4 => vec![(a, 0.0), (-a, 0.0)],
                _ => if complex { vec![(a, b), (-a, -b)] } else { vec![(a, 0.0)] },
            };
            if roots.len() + cand.len() > n { continue; }
            if cand.len() == 2 && cand[0] == cand[1] { continue; }
            if cand.iter().any(|c| roots.contains(c)) { continue; }
            roots.extend(cand);
        }
        if roots.len() != n { continue; }
        let m = r.pick(&[1.0, -1.0, 2.0, 0.5, 3.0, 1e-3, 1e3, 0.1]);
        let lead: C = if complex { r.pick(&[(m, 0.0), (0.0, m), (m, m), (m, -m)]) } else { (m, 0.0) };
        let co = from_roots(lead, &roots, !complex);
        if !(ratio(&co) <= 1e6) { skipped += 1; continue; }
        // coefficients are exact (dyadic roots, small) when they fit in 53 bits: verify the roots really are roots
        if roots.iter().any(|z| backward_error(&co, *z) > 1e-15) { skipped += 1; continue; }
        let tol = root_tolerances(&co, &roots);
        st.check("known-sep", &co, Some((&roots, &tol)));
        done += 1;
    }
    println!("c_known_separated_roots: skipped {} (ratio > 1e6 or inexact)", skipped);
    st.finish("c_known_separated_roots");
}

#[test]
fn c_multiple_and_clustered_roots() {
    let mut st = Stats::default();
    let mut r = Rng(0x0F0F0F0F12345678);
    let mut skipped = 0usize; let mut done = 0usize;
    while done < 60000 {
        let complex = r.below(2) == 0;
        let n = 2 + r.below(11);
        let mut roots: Vec<C> = vec![];
        while roots.len() < n {
            let left = n - roots.len();
            let a = (r.below(9) as i32 - 4) as f64 * r.pick(&[1.0, 0.5, 0.1, 1.0 / 3.0]);
            let b = (r.below(9) as i32 - 4) as f64 * r.pick(&[1.0, 0.5, 0.1, 1.0 / 3.0]);
            let base: C = match r.below(5) { 0 => (0.0, 0.0), 1 => (a, 0.0), 2 => (0.0, b), _ => (a, b) };
            let mult = 1 + r.below(left.min(6));
            let delta = r.pick(&[0.0, 0.0, 1e-1, 1e-2, 1e-3, 1e-5, 1e-8, 1e-12]);
            let needs_conj = !complex && base.1 != 0.0;
            let mult = if needs_conj { mult.min(left / 2) } else { mult };
            if mult == 0 { continue; }
            for k in 0..mult {
                let z = match r.below(3) { 0 => (base.0 + delta * k as f64, base.1), 1 => (base.0, base.1 + if needs_conj || complex { delta * k as f64 } else { 0.0 }),
                                           _ => { let t = 2.0 * std::f64::consts::PI * k as f64 / mult as f64; if needs_conj || complex { (base.0 + delta * t.cos(), base.1 + delta * t.sin()) } else { (base.0 + delta * k as f64, base.1) } } };
                roots.push(z);
                if needs_conj { roots.push((z.0, -z.1)); }
            }
        }
        if roots.len() != n { continue; }
        let m = r.pick(&[1.0, -1.0, 2.0, 0.5, 3.0, 1e-3, 1e3, 0.1, 7.0]);
        let lead: C = if complex { r.pick(&[(m, 0.0), (0.0, m), (m, m), (m, -m)]) } else { (m, 0.0) };
        let mut co = from_roots(lead, &roots, !complex);
        // exact zero roots must give exact zero coefficients (they do: products with an exact 0)
        // drop rounding dust that would violate the ratio clause
        let amax = co.iter().map(|c| cabs(*c)).fold(0.0, f64::max);
        for c in co.iter_mut() { if cabs(*c) < amax * 1e-6 { *c = (0.0, 0.0); } }
        if co[n] == (0.0, 0.0) || !(ratio(&co) <= 1e6) { skipped += 1; continue; }
        st.check("multi-cluster", &co, None);
        done += 1;
    }
    println!("c_multiple_and_clustered_roots: skipped {}", skipped);
    st.finish("c_multiple_and_clustered_roots");
}

#[test]
fn d_special_families() {
    let mut st = Stats::default();
    let scal = [1.0f64, -1.0, 2.0, 0.5, 1e-3, 1e3, 1e6, 1e-6, 3.0, 0.1, 1024.0, 1.0 / 1024.0];
    for n in 1..=12usize {
        // x^n + c  (all inner coefficients vanish), real and complex c, both signs, scaled
        for &c in &scal { for s in [1.0, -1.0] { for lead in [1.0f64, -1.0, 2.0, 1e-3, 1e3] {
            if !((c / lead).abs() <= 1e6 && (c / lead).abs() >= 1e-6) { continue; }
            let mut co = vec![(0.0, 0.0); n + 1]; co[0] = (s * c, 0.0); co[n] = (lead, 0.0);
            st.check("xn+c", &co, None);
            let mut co = vec![(0.0, 0.0); n + 1]; co[0] = (0.0, s * c); co[n] = (lead, 0.0);
            st.check("xn+ic", &co, None);
            let mut co = vec![(0.0, 0.0); n + 1]; co[0] = (s * c, c); co[n] = (0.0, lead);
            st.check("ixn+c(1+i)", &co, None);
        } } }
        // a x^n alone (n-fold root at zero) and x^k * (x^m + c)
        for lead in [1.0, -3.0, 1e-3, 1e6] {
            let mut co = vec![(0.0, 0.0); n + 1]; co[n] = (lead, 0.0);
            st.check("a*xn", &co, None);
            let mut co = vec![(0.0, 0.0); n + 1]; co[n] = (0.0, lead);
            st.check("ia*xn", &co, None);
            for k in 1..n { for c in [1.0, -1.0, 2.0, 1e-3, 1e3] {
                let mut co = vec![(0.0, 0.0); n + 1]; co[n] = (lead, 0.0); co[k] = (c, 0.0);
                if ratio(&co) <= 1e6 { st.check("xk(xm+c)", &co, None); }
                let mut co = vec![(0.0, 0.0); n + 1]; co[n] = (lead, 0.0); co[k] = (0.0, c);
                if ratio(&co) <= 1e6 { st.check("xk(xm+ic)", &co, None); }
            } }
        }
        // (x - r)^n, (x^2 + r^2)^(n/2), (x-r)^k (x+r)^(n-k), binomially expanded exactly when possible
        for rr in [1.0, -1.0, 2.0, 0.5, -0.5, 3.0, 0.1, 1.0 / 3.0, 1.5, -2.0] {
            let roots = vec![(rr, 0.0); n];
            let co = from_roots((1.0, 0.0), &roots, true);
            if ratio(&co) <= 1e6 { st.check("(x-r)^n", &co, None); }
            let roots = vec![(0.0, rr); n];
            let co = from_roots((1.0, 0.0), &roots, false);
            if ratio(&co) <= 1e6 { st.check("(x-ir)^n", &co, None); }
            let roots = vec![(rr, rr); n];
            let co = from_roots((1.0, 1.0), &roots, false);
            if ratio(&co) <= 1e6 { st.check("(x-r-ir)^n", &co, None); }
            if n % 2 == 0 {
                let mut roots = vec![(0.0, rr); n / 2]; roots.extend(vec![(0.0, -rr); n / 2]);
                let co = from_roots((1.0, 0.0), &roots, true);
                if ratio(&co) <= 1e6 { st.check("(x2+r2)^k", &co, None); }
            }
            for k in 1..n {
                let mut roots = vec![(rr, 0.0); k]; roots.extend(vec![(-rr, 0.0); n - k]);
                let co = from_roots((1.0, 0.0), &roots, true);
                if ratio(&co) <= 1e6 { st.check("(x-r)^k(x+r)^m", &co, None); }
                let mut roots = vec![(rr, 0.0); k]; roots.extend(vec![(0.0, 0.0); n - k]);
                let co = from_roots((2.0, 0.0), &roots, true);
                if ratio(&co) <= 1e6 { st.check("(x-r)^k x^m", &co, None); }
                let mut roots = vec![(rr, 0.0); k]; roots.extend(vec![(0.0, rr); n - k]);
                let co = from_roots((1.0, 0.0), &roots, false);
                if ratio(&co) <= 1e6 { st.check("(x-r)^k(x-ir)^m", &co, None); }
            }
        }
        // all-ones, alternating, palindromic, geometric coefficient sequences
        let co: Vec<C> = (0..=n).map(|_| (1.0, 0.0)).collect(); st.check("ones", &co, None);
        let co: Vec<C> = (0..=n).map(|k| (if k % 2 == 0 { 1.0 } else { -1.0 }, 0.0)).collect(); st.check("alt", &co, None);
        for q in [2.0, 0.5, 3.0, 10.0, 0.1, -2.0] {
            let co: Vec<C> = (0..=n).map(|k| (f64::powi(q, k as i32), 0.0)).collect();
            if ratio(&co) <= 1e6 { st.check("geom", &co, None); }
            let co: Vec<C> = (0..=n).map(|k| if k % 2 == 0 { (f64::powi(q, k as i32), 0.0) } else { (0.0, f64::powi(q, k as i32)) }).collect();
            if ratio(&co) <= 1e6 { st.check("geom-i", &co, None); }
        }
        let co: Vec<C> = (0..=n).map(|k| ((k + 1) as f64, 0.0)).collect(); st.check("ramp", &co, None);
        let co: Vec<C> = (0..=n).map(|k| ((n - k + 1) as f64, 0.0)).collect(); st.check("ramp-rev", &co, None);
        // even / odd polynomials (symmetric root sets; Laguerre from 0 starts on a symmetry axis)
        let mut r = Rng(0x5555AAAA5555AAAA ^ n as u64);
        for _ in 0..3000 {
            let stride = r.pick(&[2usize, 2, 3, 4]);
            let shift = r.below(2);
            let mut co = vec![(0.0, 0.0); n + 1];
            for k in 0..=n { if k % stride == (n + shift * 0) % stride || k == n {
                let m = r.pick(&[1.0, 2.0, 3.0, 0.5, 1e-3, 1e3, 7.0]); co[k] = (m * r.sign(), 0.0); } }
            if r.below(3) == 0 { for c in co.iter_mut() { if r.below(2) == 0 { *c = (0.0, c.0); } } }
            if r.below(4) == 0 { co[0] = (0.0, 0.0); }
            if ratio(&co) <= 1e6 { st.check("sparse-stride", &co, None); }
        }
        // palindromic / anti-palindromic with random entries
        for _ in 0..2000 {
            let anti = r.below(2) == 0;
            let mut co = vec![(0.0, 0.0); n + 1];
            for k in 0..=n / 2 { let m = r.pick(&[1.0, 2.0, 3.0, 0.5, 10.0, 100.0, 0.0]) * r.sign(); co[k] = (m, 0.0); co[n - k] = (if anti { -m } else { m }, 0.0); }
            if co[n] == (0.0, 0.0) { co[n] = (1.0, 0.0); co[0] = (if anti { -1.0 } else { 1.0 }, 0.0); }
            if ratio(&co) <= 1e6 { st.check("palindromic", &co, None); }
        }
    }
    // Chebyshev T_n, Wilkinson-like 1..n (within ratio), Legendre-like
    let mut t0: Vec<f64> = vec![1.0]; let mut t1: Vec<f64> = vec![0.0, 1.0];
    for n in 2..=12usize {
        let mut t2 = vec![0.0; n + 1];
        for k in 0..t1.len() { t2[k + 1] += 2.0 * t1[k]; }
        for k in 0..t0.len() { t2[k] -= t0[k]; }
        let co: Vec<C> = t2.iter().map(|x| (*x, 0.0)).collect();
        if ratio(&co) <= 1e6 {
            let truth: Vec<C> = (0..n).map(|k| (((2 * k + 1) as f64 * std::f64::consts::PI / (2 * n) as f64).cos(), 0.0)).collect();
            let tol = vec![1e-7; n];
            st.check("chebyshev", &co, Some((&truth, &tol)));
        }
        t0 = t1; t1 = t2;
    }
    for n in 1..=12usize {
        let roots: Vec<C> = (1..=n).map(|k| (k as f64, 0.0)).collect();
        let co = from_roots((1.0, 0.0), &roots, true);
        if ratio(&co) <= 1e6 { let tol = root_tolerances(&co, &roots); st.check("wilkinson", &co, Some((&roots, &tol))); }
        let roots: Vec<C> = (1..=n).map(|k| (0.0, k as f64 * 0.5)).collect();
        let co = from_roots((1.0, 0.0), &roots, false);
        if ratio(&co) <= 1e6 { let tol = root_tolerances(&co, &roots); st.check("wilkinson-imag", &co, Some((&roots, &tol))); }
        // roots of unity scaled, rotated
        for rad in [1.0, 0.5, 2.0, 3.0] { for ph in [0.0, 0.1, 0.5] {
            let roots: Vec<C> = (0..n).map(|k| { let t = 2.0 * std::f64::consts::PI * k as f64 / n as f64 + ph; (rad * t.cos(), rad * t.sin()) }).collect();
            let co = from_roots((1.0, 0.0), &roots, false);
            // x^n - rad^n e^{i n ph}: keep only the constant and the leading coefficient (the rest is rounding dust)
            let mut c2 = vec![(0.0, 0.0); n + 1]; c2[0] = co[0]; c2[n] = co[n];
            if ratio(&c2) <= 1e6 { let tol = vec![1e-9 * rad; n]; st.check("unity", &c2, Some((&roots, &tol))); }
        } }
    }
    st.finish("d_special_families");
}

#[test]
fn e_extreme_ratio_and_scale() {
    // ratio exactly 1e6 in chosen positions; leading tiny (huge roots) / leading huge (tiny roots); zeros between
    let mut st = Stats::default();
    let mut r = Rng(0x7777777712121212);
    for _ in 0..60000 {
        let n = 1 + r.below(12);
        let complex = r.below(2) == 0;
        let (lo, hi) = r.pick(&[(1.0f64, 1e6f64), (1e-6, 1.0), (1e-3, 1e3), (1e-2, 1e4)]);
        let mut co: Vec<C> = vec![(0.0, 0.0); n + 1];
        for k in 0..=n {
            let m = match r.below(4) { 0 => lo, 1 => hi, 2 => (lo * hi).sqrt(), _ => 0.0 };
            co[k] = if complex { match r.below(3) { 0 => (m * r.sign(), 0.0), 1 => (0.0, m * r.sign()), _ => (m * r.sign(), m * r.sign()) } } else { (m * r.sign(), 0.0) };
        }
        if co[n] == (0.0, 0.0) { co[n] = (r.pick(&[lo, hi]) * r.sign(), 0.0); }
        if !(ratio(&co) <= 1e6 * (1.0 + 1e-12)) { continue; }
        if complex && !(ratio_parts(&co) <= 1e6 * (1.0 + 1e-12)) { continue; }
        st.check("extreme", &co, None);
    }
    st.finish("e_extreme_ratio_and_scale");
}

#[test]
fn f_near_multiple_low_degree() {
    // quadratics with (nearly) vanishing discriminant and cubics with (nearly) triple / double roots:
    // coefficients perturbed by a few ulps, non-representable centres, all sign patterns
    let mut st = Stats::default();
    let mut r = Rng(0x3141592653589793);
    for _ in 0..100000 {
        let complex = r.below(3) == 0;
        let n = 2 + r.below(2);
        let c0: C = if complex { ((r.below(21) as f64 - 10.0) * 0.1, (r.below(21) as f64 - 10.0) * 0.1) } else { ((r.below(41) as f64 - 20.0) * r.pick(&[0.1, 0.05, 1.0 / 3.0, 1.0]), 0.0) };
        let delta = r.pick(&[0.0, 0.0, 1e-16, 1e-14, 1e-12, 1e-9, 1e-6, 1e-3]);
        let mut roots = vec![c0; n];
        match r.below(4) {
            0 => {}
            1 => { roots[0] = (c0.0 + delta, c0.1); }
            2 => { roots[0] = (c0.0 + delta, c0.1); roots[1] = (c0.0 - delta, c0.1); }
            _ => { if complex { roots[0] = (c0.0, c0.1 + delta); } else if n == 3 { roots[0] = (c0.0, delta); roots[1] = (c0.0, -delta); } }
        }
        let m = r.pick(&[1.0, -1.0, 2.0, 3.0, 0.5, 1e-3, 1e3, 7.0, 0.1]);
        let lead: C = if complex { r.pick(&[(m, 0.0), (0.0, m), (m, m)]) } else { (m, 0.0) };
        let mut co = from_roots(lead, &roots, !complex);
        // a few ulps of noise on the coefficients
        if r.below(2) == 0 { for c in co.iter_mut() { let k = r.below(5) as f64 - 2.0; c.0 *= 1.0 + k * f64::EPSILON; } }
        let amax = co.iter().map(|c| cabs(*c)).fold(0.0, f64::max);
        for c in co.iter_mut() { if cabs(*c) < amax * 1e-6 { *c = (0.0, 0.0); } }
        if co[n] == (0.0, 0.0) || !(ratio(&co) <= 1e6) { continue; }
        st.check("near-multiple-low", &co, None);
    }
    st.finish("f_near_multiple_low_degree");
}

// ---------------------------------------------------------------- exploration helpers (shrinking); run with --ignored
fn worst_be(co: &[C]) -> (f64, bool) {
    // max backward error over api variants; returns (be, refine flag that produced it)
    let n = co.len() - 1;
    let is_real = co.iter().all(|c| c.1 == 0.0);
    let variants: &[bool] = if is_real { &[true, false] } else { &[false] };
    let mut w = (0.0, false);
    for &as_real in variants { for refine in [false, true] {
        match call_roots(co, as_real, refine) {
            Ok(z) => {
                if z.len() != n || z.iter().any(|c| !(c.0.is_finite() && c.1.is_finite())) { return (f64::INFINITY, refine); }
                for r in &z { let b = backward_error(co, *r); if b > w.0 { w = (b, refine); } }
            }
            Err(_) => return (f64::INFINITY, refine),
        }
    } }
    w
}
fn round_sig(x: f64, digits: i32) -> f64 {
    if x == 0.0 { return 0.0; }
    let e = x.abs().log10().floor() as i32;
    let s = 10f64.powi(digits - 1 - e);
    let y = (x * s).round() / s;
    // re-parse through decimal text to get the nearest double of the short decimal
    format!("{:e}", y).parse::<f64>().unwrap_or(y)
}
fn shrink(co0: &[C], thr: f64) -> Vec<C> {
    let mut co = co0.to_vec();
    let ok = |c: &[C]| -> bool { let n = c.len() - 1; n >= 1 && c[n] != (0.0, 0.0) && ratio(c) <= 1e6 && worst_be(c).0 > thr };
    assert!(ok(&co));
    loop {
        let mut changed = false;
        // drop a root at zero
        if co.len() > 2 && co[0] == (0.0, 0.0) { let t = co[1..].to_vec(); if ok(&t) { co = t; changed = true; continue; } }
        for k in 0..co.len() {
            let cur = co[k];
            let mut cands: Vec<C> = vec![(0.0, 0.0), (cur.0, 0.0), (0.0, cur.1)];
            for d in 1..=3 { cands.push((round_sig(cur.0, d), round_sig(cur.1, d))); }
            cands.push((cur.0.signum() * 10f64.powf(cur.0.abs().max(1e-300).log10().round()), 0.0));
            cands.push((cur.0.abs(), cur.1.abs()));
            cands.push((1.0, 0.0));
            for cd in cands {
                if cd == cur { continue; }
                // "simpler" = fewer significant characters
                let cost = |c: C| -> usize { if c == (0.0, 0.0) { 0 } else { format!("{:e}{:e}", c.0, c.1).len() + if c.1 != 0.0 { 5 } else { 0 } + if c.0 < 0.0 { 1 } else { 0 } } };
                if cost(cd) >= cost(cur) { continue; }
                let mut t = co.clone(); t[k] = cd;
                if ok(&t) { co = t; changed = true; break; }
            }
        }
        if !changed { break; }
    }
    co
}

#[test]
#[ignore]
fn x_explore_shrink() {
    // collect failing random inputs per degree and shrink them
    let mut r = Rng(0xC0FFEE1234567);
    for complex in [false, true] {
        for n in 4..=8usize {
            let mut found = 0;
            let mut tries = 0;
            while found < 4 && tries < 400000 {
                tries += 1;
                let co = random_coeffs(&mut r, n, complex);
                if !(ratio(&co) <= 1e6) { continue; }
                let (b, _) = worst_be(&co);
                if b > 1e-3 {
                    found += 1;
                    let s = shrink(&co, 1e-3);
                    let (b2, rf) = worst_be(&s);
                    println!("n={} complex={} be0={:e} -> shrunk n={} be={:e} (refine={}) {}", n, complex, b, s.len() - 1, b2, rf, fmt_co(&s));
                    for refine in [false, true] { println!("      refine={} roots={:?}", refine, call_roots(&s, false, refine).unwrap()); }
                }
            }
            println!("n={} complex={} tries={} found={}", n, complex, tries, found);
        }
    }
}

#[test]
#[ignore]
fn x_explore_families() {
    // binomials a x^n + c
    println!("--- binomials a x^n + c");
    for n in 4..=12usize { for a in [1.0, 10.0, 100.0, 1e3, 1e4, 1e5, 1e6, 2.0, 1024.0, 65536.0] { for c in [1.0, -1.0] {
        for (lead, cst) in [(a, c), (c, a)] {
            let mut co = vec![(0.0, 0.0); n + 1]; co[0] = (cst, 0.0); co[n] = (lead, 0.0);
            let (b, rf) = worst_be(&co);
            if b > 1e-6 { println!("n={} {}x^n + {} : be={:e} refine={}", n, lead, cst, b, rf); }
        }
    } } }
    println!("--- trinomials x^n + a x^k + c");
    for n in 4..=12usize { for k in 1..=3usize { for a in [0.5, 0.1, 1e-2, 1e-3, 1e-4, 1e-5, 1e-6] { for c in [1.0, -1.0, 2.0, 10.0] { for sa in [1.0, -1.0] {
        let mut co = vec![(0.0, 0.0); n + 1]; co[0] = (c, 0.0); co[k] = (sa * a, 0.0); co[n] = (1.0, 0.0);
        if !(ratio(&co) <= 1e6) { continue; }
        let mut bf = 0.0; let mut bt = 0.0;
        for refine in [false, true] { let z = call_roots(&co, true, refine).unwrap(); let mut m: f64 = 0.0; for r in &z { m = m.max(backward_error(&co, *r)); } if refine { bt = m } else { bf = m } }
        if bf > 1e-6 || bt > 1e-6 { println!("n={} k={} a={} c={} : be(no refine)={:e} be(refine)={:e}", n, k, sa * a, c, bf, bt); }
    } } } } }
}

#[test]
#[ignore]
fn x_explore_cubic() {
    // a[(x-r)^3 + s*eps*(x-r)] : roots r, r +- sqrt(-s eps)
    let mut best: Vec<(f64, String)> = vec![];
    for a in [1.0, 2.0, 3.0, 5.0, 10.0, 0.5, 27.0] { for ri in -12..=12 { for rd in [1.0, 2.0, 3.0, 4.0, 5.0, 10.0] { for e in 1..=12 { for s in [1.0, -1.0] { for base in [10f64, 2.0, 4.0] {
        let r = ri as f64 / rd; if r == 0.0 { continue; }
        let eps = s * base.powi(-e);
        // coefficients computed in double-double then rounded
        let rr = DD::f(ri as f64); let _ = rr;
        let co_exact = |r: f64, eps: f64| -> Vec<C> {
            let x = DD::f(r);
            let r2 = x.mul(x); let r3 = r2.mul(x);
            let d = r3.neg().sub(DD::f(eps).mul(x));
            let c = DD::f(3.0).mul(r2).add(DD::f(eps));
            let b = DD::f(-3.0).mul(x);
            vec![(DD::f(a).mul(d).v(), 0.0), (DD::f(a).mul(c).v(), 0.0), (DD::f(a).mul(b).v(), 0.0), (a, 0.0)]
        };
        let co = co_exact(r, eps);
        if !(ratio(&co) <= 1e6) { continue; }
        let z = call_roots(&co, true, false).unwrap();
        let mut m: f64 = 0.0; for w in &z { m = m.max(backward_error(&co, *w)); }
        if m > 1e-4 { best.push((m, format!("a={} r={}/{} eps={:e} co={} roots={:?}", a, ri, rd, eps, fmt_co(&co), z))); }
    } } } } } }
    best.sort_by(|x, y| y.0.partial_cmp(&x.0).unwrap());
    println!("count={}", best.len());
    for b in best.iter().take(25) { println!("be={:e} {}", b.0, b.1); }
    // shortest descriptions
    best.sort_by(|x, y| x.1.len().cmp(&y.1.len()));
    for b in best.iter().take(25) { println!("SHORT be={:e} {}", b.0, b.1); }
}
