// Adversarial property hunt for C14: complex elementary / trigonometric / hyperbolic functions of ohsl.
// Public API only.  Independent oracle: own complex type, exp by Taylor series + scaling and squaring,
// sin/cos/sinh/cosh from that exponential, robust (Smith) division; closed forms from std real functions
// as a second oracle; round trips, branch ranges, reciprocal / Pythagorean identities.
use ohsl::complex::Cmplx;
use std::collections::BTreeMap;
use std::f64::consts::{FRAC_PI_2, PI};
use std::ops::{Add, Div, Mul, Neg, Sub};

// ---------------------------------------------------------------- own complex type
#[derive(Clone, Copy, Debug, PartialEq)]
struct C {
    re: f64,
    im: f64,
}
const ONE: C = C { re: 1.0, im: 0.0 };
const IU: C = C { re: 0.0, im: 1.0 };
fn c(re: f64, im: f64) -> C {
    C { re, im }
}
impl C {
    fn abs(self) -> f64 {
        self.re.hypot(self.im)
    }
    fn scale(self, s: f64) -> C {
        c(self.re * s, self.im * s)
    }
    fn finite(self) -> bool {
        self.re.is_finite() && self.im.is_finite()
    }
}
impl Add for C {
    type Output = C;
    fn add(self, o: C) -> C {
        c(self.re + o.re, self.im + o.im)
    }
}
impl Sub for C {
    type Output = C;
    fn sub(self, o: C) -> C {
        c(self.re - o.re, self.im - o.im)
    }
}
impl Neg for C {
    type Output = C;
    fn neg(self) -> C {
        c(-self.re, -self.im)
    }
}
impl Mul for C {
    type Output = C;
    fn mul(self, o: C) -> C {
        c(self.re * o.re - self.im * o.im, self.re * o.im + self.im * o.re)
    }
}
impl Div for C {
    type Output = C;
    // Smith's algorithm
    fn div(self, o: C) -> C {
        if o.re.abs() >= o.im.abs() {
            let r = o.im / o.re;
            let d = o.re + o.im * r;
            c((self.re + self.im * r) / d, (self.im - self.re * r) / d)
        } else {
            let r = o.re / o.im;
            let d = o.re * r + o.im;
            c((self.re * r + self.im) / d, (self.im * r - self.re) / d)
        }
    }
}

// ---------------------------------------------------------------- series oracle
fn oexp(z: C) -> C {
    let n = z.abs();
    let mut k = 0;
    let mut s = 1.0;
    while n * s > 0.25 {
        s *= 0.5;
        k += 1;
    }
    let zs = z.scale(s);
    // Horner form of the Taylor polynomial of degree 24
    let mut sum = ONE;
    let mut j = 24;
    while j >= 1 {
        sum = ONE + (zs * sum).scale(1.0 / j as f64);
        j -= 1;
    }
    for _ in 0..k {
        sum = sum * sum;
    }
    sum
}
fn osin(z: C) -> C {
    let a = oexp(IU * z);
    let b = oexp(-(IU * z));
    (a - b) / c(0.0, 2.0)
}
fn ocos(z: C) -> C {
    let a = oexp(IU * z);
    let b = oexp(-(IU * z));
    (a + b).scale(0.5)
}
fn osinh(z: C) -> C {
    (oexp(z) - oexp(-z)).scale(0.5)
}
fn ocosh(z: C) -> C {
    (oexp(z) + oexp(-z)).scale(0.5)
}
fn otan(z: C) -> C {
    let a = oexp(IU * z);
    let b = oexp(-(IU * z));
    (a - b) / (IU * (a + b))
}
fn otanh(z: C) -> C {
    let a = oexp(z);
    let b = oexp(-z);
    (a - b) / (a + b)
}
fn oln(z: C) -> C {
    c(z.abs().ln(), z.im.atan2(z.re))
}

// ---------------------------------------------------------------- glue
fn l(z: C) -> Cmplx {
    Cmplx::new(z.re, z.im)
}
fn o(z: Cmplx) -> C {
    c(z.real, z.imag)
}
fn rel(a: C, b: C) -> f64 {
    if !a.finite() {
        return f64::INFINITY;
    }
    let d = (a - b).abs();
    if d == 0.0 {
        0.0
    } else {
        d / b.abs()
    }
}
fn sgn(x: f64) -> i32 {
    if x > 0.0 {
        1
    } else if x < 0.0 {
        -1
    } else {
        0
    }
}
// componentwise relative error (zero components must be zero)
fn cw(a: C, b: C) -> f64 {
    fn one(a: f64, b: f64) -> f64 {
        if !a.is_finite() {
            return f64::INFINITY;
        }
        if a == b {
            0.0
        } else if b == 0.0 {
            f64::INFINITY
        } else {
            ((a - b) / b).abs()
        }
    }
    one(a.re, b.re).max(one(a.im, b.im))
}

struct Rec {
    m: BTreeMap<String, (f64, String, u64)>,
    points: u64,
}
impl Rec {
    fn new() -> Rec {
        Rec { m: BTreeMap::new(), points: 0 }
    }
    fn rec(&mut self, name: &str, err: f64, z: C, extra: &dyn Fn() -> String) {
        let err = if err.is_nan() { f64::INFINITY } else { err };
        if !self.m.contains_key(name) {
            self.m.insert(name.to_string(), (-1.0, String::new(), 0));
        }
        let e = self.m.get_mut(name).unwrap();
        e.2 += 1;
        if err > e.0 {
            e.0 = err;
            e.1 = format!("z=({:e},{:e}) {}", z.re, z.im, extra());
        }
    }
    fn report(&self, title: &str, tol: f64) -> Vec<String> {
        let mut bad = vec![];
        let mut checks = 0u64;
        println!("==== {} : {} points", title, self.points);
        for (k, v) in &self.m {
            checks += v.2;
            let side = k.starts_with("x_") || k.starts_with("info_") || k.starts_with("inv_UF_");
            let flag = if v.0 > tol { if side { "side" } else { "FAIL" } } else { "ok" };
            println!("{:34} n={:9} max={:10.3e} {:5} {}", k, v.2, v.0, flag, v.1);
            if v.0 > tol && !side {
                bad.push(format!("{} max={:e} at {}", k, v.0, v.1));
            }
        }
        println!("==== {} : {} checks", title, checks);
        bad
    }
}

// ---------------------------------------------------------------- generator
struct Rng(u64);
impl Rng {
    fn next(&mut self) -> u64 {
        let mut x = self.0;
        x ^= x >> 12;
        x ^= x << 25;
        x ^= x >> 27;
        self.0 = x;
        x.wrapping_mul(0x2545F4914F6CDD1D)
    }
    fn u(&mut self) -> f64 {
        (self.next() >> 11) as f64 / (1u64 << 53) as f64
    }
    fn range(&mut self, a: f64, b: f64) -> f64 {
        a + (b - a) * self.u()
    }
    fn pick<T: Copy>(&mut self, v: &[T]) -> T {
        v[(self.next() % v.len() as u64) as usize]
    }
}
fn in_domain(z: C) -> bool {
    let a = z.abs();
    z.finite() && a >= 1.0e-3 && a <= 10.0
}

// ---------------------------------------------------------------- the checks for one point
const EXPONENTS: [(f64, f64); 22] = [
    (0.0, 0.0),
    (1.0, 0.0),
    (-1.0, 0.0),
    (2.0, 0.0),
    (-2.0, 0.0),
    (3.0, 0.0),
    (-3.0, 0.0),
    (0.5, 0.0),
    (-0.5, 0.0),
    (0.3333333333333333, 0.0),
    (2.5, 0.0),
    (0.0, 1.0),
    (0.0, -1.0),
    (0.0, 3.0),
    (0.0, -3.0),
    (1.0, 1.0),
    (-1.0, 1.0),
    (2.1, 2.1),
    (-2.1, -2.1),
    (1.0e-3, 0.0),
    (0.0, 1.0e-3),
    (-1.8, 2.4),
];

fn check_forward(z: C, r: &mut Rec) {
    let zl = l(z);
    let none = || String::new();
    let st = z.im.abs().exp(); // size scale of the trigonometric functions
    let sh = z.re.abs().exp(); // size scale of the hyperbolic functions

    // definitions via the exponential series
    let e = o(zl.exp());
    r.rec("def_exp_series", rel(e, oexp(z)), z, &none);
    r.rec("def_exp_closed", cw(e, c(z.re.exp() * z.im.cos(), z.re.exp() * z.im.sin())), z, &none);
    let s = o(zl.sin());
    let co = o(zl.cos());
    let sih = o(zl.sinh());
    let coh = o(zl.cosh());
    let nrm = |a: C, b: C, sc: f64| if a.finite() { (a - b).abs() / sc } else { f64::INFINITY };
    r.rec("def_sin_series", nrm(s, osin(z), st), z, &none);
    r.rec("def_cos_series", nrm(co, ocos(z), st), z, &none);
    r.rec("def_sinh_series", nrm(sih, osinh(z), sh), z, &none);
    r.rec("def_cosh_series", nrm(coh, ocosh(z), sh), z, &none);
    r.rec("def_sin_closed", cw(s, c(z.re.sin() * z.im.cosh(), z.re.cos() * z.im.sinh())), z, &none);
    r.rec("def_cos_closed", cw(co, c(z.re.cos() * z.im.cosh(), -(z.re.sin() * z.im.sinh()))), z, &none);
    r.rec("def_sinh_closed", cw(sih, c(z.re.sinh() * z.im.cos(), z.re.cosh() * z.im.sin())), z, &none);
    r.rec("def_cosh_closed", cw(coh, c(z.re.cosh() * z.im.cos(), z.re.sinh() * z.im.sin())), z, &none);
    // sinh z = -i sin(iz), cosh z = cos(iz)
    r.rec("id_sinh_is_sin_iz", rel(sih, -(IU * o(l(IU * z).sin()))), z, &none);
    r.rec("id_cosh_is_cos_iz", rel(coh, o(l(IU * z).cos())), z, &none);
    // Pythagorean identities
    r.rec("id_sin2_cos2", (s * s + co * co - ONE).abs() / (st * st), z, &none);
    r.rec("id_cosh2_sinh2", (coh * coh - sih * sih - ONE).abs() / (sh * sh), z, &none);
    // exp(z) = cosh z + sinh z ; exp(iz) = cos z + i sin z
    r.rec("id_exp_cosh_sinh", (coh + sih - e).abs() / sh, z, &none);
    r.rec("id_euler", (co + IU * s - o(l(IU * z).exp())).abs() / st, z, &none);
    // exp(-z) exp(z) = 1
    r.rec("id_exp_neg", rel(e * o(l(-z).exp()), ONE), z, &none);

    // quotients and reciprocals
    let t = o(zl.tan());
    let th = o(zl.tanh());
    r.rec("quot_tan", rel(t, s / co), z, &none);
    r.rec("quot_tanh", rel(th, sih / coh), z, &none);
    // against the series oracle, multiplied out (robust near the poles)
    r.rec("def_tan_series", (t * ocos(z) - osin(z)).abs() * ocos(z).abs().min(1.0) / (st * st), z, &none);
    r.rec("def_tanh_series", (th * ocosh(z) - osinh(z)).abs() * ocosh(z).abs().min(1.0) / (sh * sh), z, &none);
    let sec = o(zl.sec());
    let csc = o(zl.csc());
    let cot = o(zl.cot());
    let sech = o(zl.sech());
    let csch = o(zl.csch());
    let coth = o(zl.coth());
    r.rec("recip_sec", rel(sec * co, ONE), z, &none);
    r.rec("recip_csc", rel(csc * s, ONE), z, &none);
    r.rec("recip_cot", rel(cot * t, ONE), z, &none);
    r.rec("recip_sech", rel(sech * coh, ONE), z, &none);
    r.rec("recip_csch", rel(csch * sih, ONE), z, &none);
    r.rec("recip_coth", rel(coth * th, ONE), z, &none);
    r.rec("recip_sec_div", rel(sec, ONE / co), z, &none);
    r.rec("recip_csc_div", rel(csc, ONE / s), z, &none);
    r.rec("recip_cot_div", rel(cot, co / s), z, &none);
    r.rec("recip_sech_div", rel(sech, ONE / coh), z, &none);
    r.rec("recip_csch_div", rel(csch, ONE / sih), z, &none);
    r.rec("recip_coth_div", rel(coth, coh / sih), z, &none);

    // polar form
    let m = zl.abs();
    let a = zl.arg();
    r.rec("polar_abs", ((m - z.abs()) / z.abs()).abs(), z, &none);
    r.rec("polar_abs_sqr", ((zl.abs_sqr() - (z.re * z.re + z.im * z.im)) / (z.re * z.re + z.im * z.im)).abs(), z, &none);
    r.rec("polar_arg_range", if a > -PI - 1e-15 && a <= PI { 0.0 } else { 1.0 }, z, &none);
    r.rec("polar_arg_atan2", (a - z.im.atan2(z.re)).abs(), z, &none);
    r.rec("polar_roundtrip", rel(o(Cmplx::polar(m, a)), z), z, &none);
    let p = Cmplx::polar(m, a);
    r.rec("polar_abs_back", ((p.abs() - m) / m).abs(), z, &none);
    let da = (p.arg() - a).abs();
    r.rec("polar_arg_back", da.min((da - 2.0 * PI).abs()), z, &none);
    let cj = zl.conj();
    r.rec("conj", if cj.real == z.re && cj.imag == -z.im { 0.0 } else { 1.0 }, z, &none);
}

fn check_sqrt_ln(z: C, r: &mut Rec) {
    let zl = l(z);
    let none = || String::new();
    // sqrt
    let w = o(zl.sqrt());
    r.rec("inv_sqrt_square", rel(w * w, z), z, &|| format!("w={:?}", w));
    r.rec("branch_sqrt_re_ge_0", if w.re >= 0.0 { 0.0 } else { 1.0 }, z, &|| format!("w={:?}", w));
    r.rec(
        "branch_sqrt_im_sign",
        if sgn(z.im) != 0 && sgn(w.im) == -sgn(z.im) { w.im.abs() / w.abs() } else { 0.0 },
        z,
        &|| format!("w={:?}", w),
    );
    r.rec("def_sqrt_is_exp_half_ln", rel(w, oexp(oln(z).scale(0.5))), z, &none);
    // ln
    let w = o(zl.ln());
    r.rec("inv_exp_ln_lib", rel(o(l(w).exp()), z), z, &|| format!("w={:?}", w));
    r.rec("inv_exp_ln_series", rel(oexp(w), z), z, &|| format!("w={:?}", w));
    r.rec("branch_ln_im_le_pi", if w.im <= PI { 0.0 } else { 1.0 }, z, &|| format!("w={:?}", w));
    // as a real number -fl(pi) > -pi, so only a value below -fl(pi) is outside; the value -fl(pi) itself is
    // recorded separately when z is exactly real (signed zero convention)
    r.rec("branch_ln_im_gt_mpi", if w.im >= -PI { 0.0 } else { 1.0 }, z, &|| format!("w={:?}", w));
    r.rec(
        "x_ln_negreal_minus_zero_gives_mpi",
        if z.im == 0.0 && z.re < 0.0 && w.im < 0.0 { 1.0 } else { 0.0 },
        z,
        &|| format!("w={:?} (im z is -0.0: {})", w, z.im.is_sign_negative()),
    );
    r.rec("def_ln_modulus", (w.re - z.abs().ln()).abs() / z.abs().ln().abs().max(1.0), z, &none);
    r.rec("branch_ln_im_sign", if sgn(z.im) != 0 && sgn(w.im) == -sgn(z.im) { 1.0 } else { 0.0 }, z, &none);
}

fn check_pow(z: C, wexp: C, r: &mut Rec) {
    let zl = l(z);
    let none = || String::new();
    let desc = || format!("w=({:e},{:e})", wexp.re, wexp.im);
    let want = oexp(wexp * oln(z));
    let got = o(zl.pow(&l(wexp)));
    r.rec("pow_exp_w_ln_series", rel(got, want), z, &desc);
    r.rec("pow_exp_w_ln_lib", rel(got, o((l(wexp) * zl.ln()).exp())), z, &desc);
    if wexp.im == 0.0 {
        let gf = o(zl.powf(wexp.re));
        r.rec("powf_exp_x_ln_series", rel(gf, want), z, &desc);
        r.rec("powf_vs_pow", rel(gf, got), z, &desc);
        if z.im == 0.0 && z.re > 0.0 {
            r.rec("real_powf", rel(gf, c(z.re.powf(wexp.re), 0.0)), z, &desc);
            r.rec("real_pow", rel(got, c(z.re.powf(wexp.re), 0.0)), z, &desc);
        }
        let x = wexp.re;
        let exact = if x == 0.0 {
            Some(ONE)
        } else if x == 1.0 {
            Some(z)
        } else if x == 2.0 {
            Some(z * z)
        } else if x == 3.0 {
            Some(z * z * z)
        } else if x == -1.0 {
            Some(ONE / z)
        } else if x == -2.0 {
            Some(ONE / (z * z))
        } else if x == 0.5 {
            Some(o(zl.sqrt()))
        } else {
            None
        };
        if let Some(ex) = exact {
            r.rec("powf_integer_and_half", rel(gf, ex), z, &desc);
            r.rec("pow_integer_and_half", rel(got, ex), z, &desc);
        }
    }
    // z^w z^-w = 1
    let inv = o(zl.pow(&l(-wexp)));
    r.rec("pow_neg_exponent", rel(got * inv, ONE), z, &desc);
    let _ = none;
}

fn check_log(z: C, b: C, r: &mut Rec) {
    let lg = o(l(z).log(l(b)));
    let desc = || format!("b=({:e},{:e}) log={:?}", b.re, b.im, lg);
    r.rec("log_is_ln_over_ln", if lg.finite() { (lg - oln(z) / oln(b)).abs() * oln(b).abs() / oln(z).abs().max(1.0) } else { f64::INFINITY }, z, &desc);
    // b^(log_b z) = z  (conditioning: error ~ |log * ln b| eps = |ln z| eps)
    r.rec("log_pow_roundtrip_series", rel(oexp(lg * oln(b)), z), z, &desc);
    r.rec("log_pow_roundtrip_lib", rel(o(l(b).pow(&l(lg))), z), z, &desc);
}

// one inverse function: right inverse through the library forward and the oracle forward
fn inv1(name: &str, z: C, w: C, flib: C, forc: C, r: &mut Rec) {
    let d = || format!("w=({:e},{:e}) f_lib(w)=({:e},{:e})", w.re, w.im, flib.re, flib.im);
    r.rec(&format!("inv_{}_finite", name), if w.finite() { 0.0 } else { 1.0 }, z, &d);
    r.rec(&format!("inv_{}_lib", name), rel(flib, z), z, &d);
    r.rec(&format!("inv_{}_series", name), rel(forc, z), z, &d);
}

fn excluded_pm1(z: C) -> bool {
    z.im == 0.0 && z.re.abs() == 1.0
}
fn excluded_pmi(z: C) -> bool {
    z.re == 0.0 && z.im.abs() == 1.0
}

fn check_inverse(z: C, r: &mut Rec) {
    let zl = l(z);
    let hp = FRAC_PI_2 + 4e-16;
    let inr = |x: f64, lo: f64, hi: f64| if x >= lo && x <= hi { 0.0 } else { 1.0 };
    // wrong-signed component, measured by its size
    let ws = |comp: f64, want: i32, w: C| if want != 0 && sgn(comp) == -want { comp.abs() / w.abs().max(1e-300) } else { 0.0 };

    // ---- asin
    let w = o(zl.asin());
    let d = || format!("w=({:e},{:e})", w.re, w.im);
    inv1("asin", z, w, o(l(w).sin()), osin(w), r);
    r.rec("branch_asin_re_range", inr(w.re, -FRAC_PI_2 - 1e-12, FRAC_PI_2 + 1e-12), z, &d);
    r.rec("info_asin_re_excess", (w.re.abs() - FRAC_PI_2).max(0.0), z, &d);
    r.rec("x_asin_re_sign", ws(w.re, sgn(z.re), w), z, &d);
    r.rec("x_asin_im_sign", ws(w.im, sgn(z.im), w), z, &d);
    let asin_w = w;
    // ---- acos
    let w = o(zl.acos());
    let d = || format!("w=({:e},{:e})", w.re, w.im);
    inv1("acos", z, w, o(l(w).cos()), ocos(w), r);
    r.rec("branch_acos_re_range", inr(w.re, -1e-12, PI + 1e-12), z, &d);
    r.rec("info_acos_re_excess", (-w.re).max(w.re - PI).max(0.0), z, &d);
    r.rec("x_acos_im_sign", ws(w.im, -sgn(z.im), w), z, &d);
    r.rec("x_asin_plus_acos", (asin_w + w - c(FRAC_PI_2, 0.0)).abs(), z, &d);
    // points closer than 1e-150 to a logarithmic branch point of atan / atanh: |1 +- iz|^2 underflows inside the
    // library's modulus; recorded under their own names (finding class "UF")
    let near_i = (z - IU).abs().min((z + IU).abs()) < 1e-150;
    let near_1 = (z - ONE).abs().min((z + ONE).abs()) < 1e-150;
    // ---- atan
    if !excluded_pmi(z) {
        let w = o(zl.atan());
        let d = || format!("w=({:e},{:e})", w.re, w.im);
        inv1(if near_i { "UF_atan" } else { "atan" }, z, w, o(l(w).tan()), otan(w), r);
        // closed form with an underflow-free modulus (hypot)
        let want = ((oln(ONE - IU * z) - oln(ONE + IU * z)) * IU).scale(0.5);
        r.rec(if near_i { "inv_UF_atan_closed_form" } else { "def_atan_closed_form" }, rel(w, want), z, &d);
        r.rec("x_atan_re_range", if near_i { 0.0 } else { inr(w.re, -hp, hp) }, z, &d);
        r.rec("x_atan_re_sign", ws(w.re, sgn(z.re), w), z, &d);
        r.rec("x_atan_im_sign", ws(w.im, sgn(z.im), w), z, &d);
    }
    // ---- asec, acsc, acot
    let w = o(zl.asec());
    let d = || format!("w=({:e},{:e})", w.re, w.im);
    inv1("asec", z, w, o(l(w).sec()), ONE / ocos(w), r);
    r.rec("x_asec_re_range", inr(w.re, -0.0, PI + 4e-16), z, &d);
    r.rec("x_asec_is_acos_inv", rel(w, o(l(ONE / z).acos())), z, &d);
    let w = o(zl.acsc());
    let d = || format!("w=({:e},{:e})", w.re, w.im);
    inv1("acsc", z, w, o(l(w).csc()), ONE / osin(w), r);
    r.rec("x_acsc_re_range", inr(w.re, -hp, hp), z, &d);
    if !excluded_pmi(z) {
        let w = o(zl.acot());
        let d = || format!("w=({:e},{:e})", w.re, w.im);
        inv1(if near_i { "UF_acot" } else { "acot" }, z, w, o(l(w).cot()), ONE / otan(w), r);
        r.rec("x_acot_re_range", if near_i { 0.0 } else { inr(w.re, -hp, hp) }, z, &d);
    }
    // ---- asinh
    let w = o(zl.asinh());
    let d = || format!("w=({:e},{:e})", w.re, w.im);
    inv1("asinh", z, w, o(l(w).sinh()), osinh(w), r);
    r.rec("x_asinh_im_range", inr(w.im, -hp, hp), z, &d);
    r.rec("x_asinh_re_sign", ws(w.re, sgn(z.re), w), z, &d);
    r.rec("x_asinh_im_sign", ws(w.im, sgn(z.im), w), z, &d);
    // asinh z = -i asin(iz)
    if z.re != 0.0 || z.im.abs() <= 1.0 {
        r.rec("x_asinh_vs_asin", (w - (-(IU * o(l(IU * z).asin())))).abs() / w.abs(), z, &d);
    }
    // ---- acosh
    let w = o(zl.acosh());
    let d = || format!("w=({:e},{:e})", w.re, w.im);
    inv1("acosh", z, w, o(l(w).cosh()), ocosh(w), r);
    r.rec("x_acosh_re_ge_0", if w.re >= -1e-15 { 0.0 } else { -w.re }, z, &d);
    r.rec("x_acosh_im_range", inr(w.im, -PI, PI), z, &d);
    r.rec("x_acosh_im_sign", ws(w.im, sgn(z.im), w), z, &d);
    // ---- atanh
    if !excluded_pm1(z) {
        let w = o(zl.atanh());
        let d = || format!("w=({:e},{:e})", w.re, w.im);
        inv1(if near_1 { "UF_atanh" } else { "atanh" }, z, w, o(l(w).tanh()), otanh(w), r);
        let want = (oln(c(z.re + 1.0, z.im)) - oln(ONE - z)).scale(0.5); // z + 1 keeps the sign of a zero imaginary part
        r.rec(if near_1 { "inv_UF_atanh_closed_form" } else { "def_atanh_closed_form" }, rel(w, want), z, &d);
        r.rec("x_atanh_im_range", if near_1 { 0.0 } else { inr(w.im, -hp, hp) }, z, &d);
        r.rec("x_atanh_re_sign", ws(w.re, sgn(z.re), w), z, &d);
        r.rec("x_atanh_im_sign", ws(w.im, sgn(z.im), w), z, &d);
    }
    // ---- asech, acsch, acoth
    let w = o(zl.asech());
    let d = || format!("w=({:e},{:e})", w.re, w.im);
    inv1("asech", z, w, o(l(w).sech()), ONE / ocosh(w), r);
    r.rec("x_asech_re_ge_0", if w.re >= -1e-15 { 0.0 } else { -w.re }, z, &d);
    let w = o(zl.acsch());
    let d = || format!("w=({:e},{:e})", w.re, w.im);
    inv1("acsch", z, w, o(l(w).csch()), ONE / osinh(w), r);
    r.rec("x_acsch_im_range", inr(w.im, -hp, hp), z, &d);
    if !excluded_pm1(z) {
        let w = o(zl.acoth());
        let d = || format!("w=({:e},{:e})", w.re, w.im);
        inv1(if near_1 { "UF_acoth" } else { "acoth" }, z, w, o(l(w).coth()), ONE / otanh(w), r);
        r.rec("x_acoth_im_range", if near_1 { 0.0 } else { inr(w.im, -hp, hp) }, z, &d);
    }
}

// reduction to the real functions on the real axis
fn check_real_axis(x: f64, negzero: bool, r: &mut Rec) {
    let z = c(x, if negzero { -0.0 } else { 0.0 });
    let zl = l(z);
    let none = || String::new();
    // error normalised by max(|ref|,1): the forward functions are also checked in pure relative terms
    let cmp = |got: Cmplx, want: f64| {
        let g = o(got);
        if !g.finite() {
            f64::INFINITY
        } else {
            (g - c(want, 0.0)).abs() / want.abs().max(1.0)
        }
    };
    let cmprel = |got: Cmplx, want: f64| rel(o(got), c(want, 0.0));
    r.rec("real_exp", cmprel(zl.exp(), x.exp()), z, &none);
    r.rec("real_sin", cmprel(zl.sin(), x.sin()), z, &none);
    r.rec("real_cos", cmprel(zl.cos(), x.cos()), z, &none);
    r.rec("real_tan", cmprel(zl.tan(), x.tan()), z, &none);
    r.rec("real_sec", cmprel(zl.sec(), 1.0 / x.cos()), z, &none);
    r.rec("real_csc", cmprel(zl.csc(), 1.0 / x.sin()), z, &none);
    r.rec("real_cot", cmprel(zl.cot(), 1.0 / x.tan()), z, &none);
    r.rec("real_sinh", cmprel(zl.sinh(), x.sinh()), z, &none);
    r.rec("real_cosh", cmprel(zl.cosh(), x.cosh()), z, &none);
    r.rec("real_tanh", cmprel(zl.tanh(), x.tanh()), z, &none);
    r.rec("real_sech", cmprel(zl.sech(), 1.0 / x.cosh()), z, &none);
    r.rec("real_csch", cmprel(zl.csch(), 1.0 / x.sinh()), z, &none);
    r.rec("real_coth", cmprel(zl.coth(), 1.0 / x.tanh()), z, &none);
    r.rec("real_atan", cmp(zl.atan(), x.atan()), z, &none);
    r.rec("info_real_atan_rel", cmprel(zl.atan(), x.atan()), z, &none);
    r.rec("real_acot", cmp(zl.acot(), (1.0 / x).atan()), z, &none);
    r.rec("real_asinh", cmp(zl.asinh(), x.asinh()), z, &none);
    r.rec("info_real_asinh_rel", cmprel(zl.asinh(), x.asinh()), z, &none);
    r.rec("real_acsch", cmp(zl.acsch(), (1.0 / x).asinh()), z, &none);
    r.rec("info_real_acsch_rel", cmprel(zl.acsch(), (1.0 / x).asinh()), z, &none);
    if x > 0.0 {
        r.rec("real_ln", cmp(zl.ln(), x.ln()), z, &none);
        r.rec("real_sqrt", cmprel(zl.sqrt(), x.sqrt()), z, &none);
        r.rec("real_log2", cmp(zl.log(Cmplx::new(2.0, 0.0)), x.log2()), z, &none);
        r.rec("real_log10", cmp(zl.log(Cmplx::new(10.0, 0.0)), x.log10()), z, &none);
    }
    if x.abs() <= 1.0 {
        r.rec("real_asin", cmp(zl.asin(), x.asin()), z, &none);
        r.rec("real_acos", cmp(zl.acos(), x.acos()), z, &none);
        r.rec("info_real_acos_rel", cmprel(zl.acos(), x.acos()), z, &none);
    }
    if x.abs() >= 1.0 {
        r.rec("real_asec", cmp(zl.asec(), (1.0 / x).acos()), z, &none);
        r.rec("real_acsc", cmp(zl.acsc(), (1.0 / x).asin()), z, &none);
    }
    if x.abs() < 1.0 {
        r.rec("real_atanh", cmp(zl.atanh(), x.abs().atanh().copysign(x)), z, &none);
    }
    if x.abs() > 1.0 {
        r.rec("real_acoth", cmp(zl.acoth(), (1.0 / x.abs()).atanh().copysign(x)), z, &none);
    }
    if x >= 1.0 {
        r.rec("real_acosh", cmp(zl.acosh(), x.acosh()), z, &none);
    }
    if x > 0.0 && x <= 1.0 {
        r.rec("real_asech", cmp(zl.asech(), (1.0 / x).acosh()), z, &none);
    }
}

fn check_all(z: C, rng: &mut Rng, r: &mut Rec) {
    if !in_domain(z) {
        return;
    }
    r.points += 1;
    check_forward(z, r);
    check_sqrt_ln(z, r);
    check_inverse(z, r);
    // exponents: two special, two random
    for k in 0..4 {
        let w = if k < 2 {
            let e = rng.pick(&EXPONENTS);
            c(e.0, e.1)
        } else {
            let m = 3.0 * rng.u().sqrt();
            let a = rng.range(-PI, PI);
            if k == 2 {
                c(m * a.cos(), m * a.sin())
            } else {
                c(rng.range(-3.0, 3.0), 0.0)
            }
        };
        if w.abs() <= 3.0 {
            check_pow(z, w, r);
        }
    }
    // a base for log, away from b = 1
    let m = (rng.range((1.0e-3f64).ln(), (10.0f64).ln())).exp();
    let a = rng.range(-PI, PI);
    let b = c(m * a.cos(), m * a.sin());
    if in_domain(b) && (b - ONE).abs() >= 0.1 {
        check_log(z, b, r);
    }
}

const TOL: f64 = 1.0e-9;

fn finish(r: &Rec, title: &str) {
    let bad = r.report(title, TOL);
    assert!(bad.is_empty(), "{}: {} failing checks:\n{}", title, bad.len(), bad.join("\n"));
}

// ---------------------------------------------------------------- tests
#[test]
fn random_plane() {
    let mut rng = Rng(0x9E3779B97F4A7C15);
    let mut r = Rec::new();
    for i in 0..150_000 {
        // modulus log-uniform or uniform, argument uniform
        let m = if i % 2 == 0 { (rng.range((1.0e-3f64).ln(), (10.0f64).ln())).exp() } else { rng.range(1.0e-3, 10.0) };
        let a = rng.range(-PI, PI);
        check_all(c(m * a.cos(), m * a.sin()), &mut rng, &mut r);
    }
    // cartesian uniform
    for _ in 0..50_000 {
        check_all(c(rng.range(-10.0, 10.0), rng.range(-10.0, 10.0)), &mut rng, &mut r);
    }
    finish(&r, "random_plane");
}

#[test]
fn lattice_and_special_angles() {
    let mut rng = Rng(12345);
    let mut r = Rec::new();
    // lattice with step 1/8
    for i in -80..=80 {
        for j in -80..=80 {
            check_all(c(i as f64 / 8.0, j as f64 / 8.0), &mut rng, &mut r);
        }
    }
    // special angles and moduli (boundaries 1e-3 and 10 included; keep |z| <= 10 by a one-ulp shrink when needed)
    let moduli = [1.0e-3, 1.0009765625e-3, 0.01, 0.1, 0.25, 0.5, 0.75, 0.999, 1.0, 1.001, 1.5, 2.0, 3.0, 4.0, 5.0, 7.5, 9.99, 10.0];
    for &m in &moduli {
        for k in 0..96 {
            let a = -PI + 2.0 * PI * k as f64 / 96.0;
            let mut z = c(m * a.cos(), m * a.sin());
            if z.abs() > 10.0 {
                z = z.scale(1.0 - 1e-15);
            }
            if z.abs() < 1.0e-3 {
                z = z.scale(1.0 + 1e-15);
            }
            check_all(z, &mut rng, &mut r);
        }
    }
    // pythagorean boundary points with |z| = 10 and 5 exactly
    for &(a, b) in &[(6.0, 8.0), (8.0, 6.0), (3.0, 4.0), (10.0, 0.0), (0.0, 10.0), (2.8, 9.6)] {
        for &(sa, sb) in &[(1.0, 1.0), (1.0, -1.0), (-1.0, 1.0), (-1.0, -1.0)] {
            check_all(c(sa * a, sb * b), &mut rng, &mut r);
        }
    }
    // multiples of pi/2, pi/4 and pi/6 on both axes and off them (zeros and poles of the forward functions)
    for k in -19..=19 {
        for &den in &[2.0, 4.0, 6.0] {
            let t = k as f64 * PI / den;
            for &e in &[0.0, -0.0, 1e-300, -1e-300, 1e-17, -1e-17, 1e-9, -1e-9, 1e-3, -1e-3, 0.5, -0.5, 2.0, -2.0] {
                check_all(c(t, e), &mut rng, &mut r);
                check_all(c(e, t), &mut rng, &mut r);
                // neighbours of the zero / pole in floating point
                let up = f64::from_bits(t.to_bits() + 1);
                let dn = f64::from_bits(t.to_bits().wrapping_sub(1));
                if t != 0.0 {
                    check_all(c(up, e), &mut rng, &mut r);
                    check_all(c(dn, e), &mut rng, &mut r);
                    check_all(c(e, up), &mut rng, &mut r);
                    check_all(c(e, dn), &mut rng, &mut r);
                }
            }
        }
    }
    finish(&r, "lattice_and_special_angles");
}

#[test]
fn axes_and_cuts() {
    let mut rng = Rng(777);
    let mut r = Rec::new();
    // offsets from an axis / branch cut, both sides, including signed zeros
    let eps = [
        0.0, -0.0, 5e-324, -5e-324, 1e-310, -1e-310, 1e-300, -1e-300, 1e-200, -1e-200, 1e-160, -1e-160, 1e-100, -1e-100, 1e-30, -1e-30,
        1e-17, -1e-17, 1.1102230246251565e-16, -1.1102230246251565e-16, 2.220446049250313e-16, -2.220446049250313e-16, 1e-12, -1e-12, 1e-8,
        -1e-8, 1e-5, -1e-5,
    ];
    let mut coords: Vec<f64> = vec![
        1.0e-3, 0.002, 0.01, 0.1, 0.25, 0.5, 0.7071067811865476, 0.75, 0.9, 0.99, 0.999999, 1.0, 1.000001, 1.01, 1.1, 1.25, 1.5, 2.0, 2.5, 3.0,
        4.0, 5.0, 6.0, 7.0, 8.0, 9.0, 9.999, 10.0,
    ];
    for k in 1..=52 {
        coords.push(1.0 + (2.0f64).powi(-k));
        coords.push(1.0 - (2.0f64).powi(-k - 1));
    }
    for _ in 0..600 {
        coords.push((rng.range((1.0e-3f64).ln(), (10.0f64).ln())).exp());
    }
    for &x in &coords {
        for &sx in &[1.0, -1.0] {
            for &e in &eps {
                // skip the branch points themselves for the functions that are infinite there: handled inside
                if (x * x + e * e).sqrt() > 10.0 {
                    continue;
                }
                check_all(c(sx * x, e), &mut rng, &mut r);
                check_all(c(e, sx * x), &mut rng, &mut r);
            }
        }
    }
    finish(&r, "axes_and_cuts");
}

#[test]
fn near_branch_points() {
    let mut rng = Rng(4242);
    let mut r = Rec::new();
    let bps = [c(1.0, 0.0), c(-1.0, 0.0), c(0.0, 1.0), c(0.0, -1.0)];
    for &bp in &bps {
        // dyadic distances in 16 directions
        for k in 1..=60 {
            let d = (2.0f64).powi(-k);
            for j in 0..16 {
                let a = 2.0 * PI * j as f64 / 16.0;
                let (ca, sa) = match j {
                    0 => (1.0, 0.0),
                    4 => (0.0, 1.0),
                    8 => (-1.0, 0.0),
                    12 => (0.0, -1.0),
                    _ => (a.cos(), a.sin()),
                };
                let z = c(bp.re + d * ca, bp.im + d * sa);
                if z == bp {
                    continue;
                }
                check_all(z, &mut rng, &mut r);
            }
        }
        // tiny perpendicular / radial offsets that do not change the large component
        for &d in &[1e-300, 1e-250, 1e-200, 1e-150, 1e-100, 1e-50, 1e-30, 1e-20] {
            for &(ca, sa) in &[(1.0, 0.0), (-1.0, 0.0), (0.0, 1.0), (0.0, -1.0)] {
                let z = c(bp.re + d * ca, bp.im + d * sa);
                if z == bp {
                    continue;
                }
                check_all(z, &mut rng, &mut r);
            }
        }
        // random small discs
        for _ in 0..20_000 {
            let d = (rng.range((1.0e-16f64).ln(), (0.5f64).ln())).exp();
            let a = rng.range(-PI, PI);
            check_all(c(bp.re + d * a.cos(), bp.im + d * a.sin()), &mut rng, &mut r);
        }
    }
    // adjacent to the branch point 0: the inner boundary |z| = 1e-3 .. 2e-3 in all directions
    for _ in 0..20_000 {
        let m = rng.range(1.0e-3, 2.0e-3);
        let a = rng.range(-PI, PI);
        check_all(c(m * a.cos(), m * a.sin()), &mut rng, &mut r);
    }
    // the outer boundary 9.5 .. 10
    for _ in 0..20_000 {
        let m = rng.range(9.5, 10.0);
        let a = rng.range(-PI, PI);
        check_all(c(m * a.cos(), m * a.sin()), &mut rng, &mut r);
    }
    finish(&r, "near_branch_points");
}

#[test]
fn real_axis_reduction() {
    let mut rng = Rng(99);
    let mut r = Rec::new();
    let mut xs: Vec<f64> = vec![1.0e-3, 0.5, 1.0, 2.0, 10.0, PI, FRAC_PI_2, 3.0 * FRAC_PI_2, 2.0 * PI, 3.0 * PI, 0.999999999, 1.000000001];
    for k in 1..=52 {
        xs.push(1.0 + (2.0f64).powi(-k));
        xs.push(1.0 - (2.0f64).powi(-k - 1));
    }
    for _ in 0..100_000 {
        xs.push((rng.range((1.0e-3f64).ln(), (10.0f64).ln())).exp());
        xs.push(rng.range(1.0e-3, 10.0));
        xs.push(rng.range(0.9, 1.1));
    }
    for &x in &xs {
        for &s in &[1.0, -1.0] {
            if x >= 1.0e-3 && x <= 10.0 {
                r.points += 1;
                check_real_axis(s * x, false, &mut r);
                check_real_axis(s * x, true, &mut r);
            }
        }
    }
    finish(&r, "real_axis_reduction");
}

#[test]
fn exponent_sweep() {
    // all special exponents on a moderate set of bases, every quadrant, both axes and both sides of the cut of ln
    let mut rng = Rng(31337);
    let mut r = Rec::new();
    let mut bases: Vec<C> = vec![];
    for &m in &[1.0e-3, 0.03, 0.5, 1.0, 2.0, 10.0] {
        for k in 0..24 {
            let a = -PI + 2.0 * PI * k as f64 / 24.0;
            let z = c(m * a.cos(), m * a.sin());
            if in_domain(z) {
                bases.push(z);
            }
        }
        for &e in &[0.0, -0.0, 1e-300, -1e-300, 1e-16 * m, -1e-16 * m] {
            bases.push(c(m, e));
            bases.push(c(-m, e));
            bases.push(c(e, m));
            bases.push(c(e, -m));
        }
    }
    for _ in 0..2000 {
        let m = (rng.range((1.0e-3f64).ln(), (10.0f64).ln())).exp();
        let a = rng.range(-PI, PI);
        bases.push(c(m * a.cos(), m * a.sin()));
    }
    for &z in &bases {
        if !in_domain(z) {
            continue;
        }
        r.points += 1;
        for &(a, b) in &EXPONENTS {
            check_pow(z, c(a, b), &mut r);
        }
        for k in 0..=24 {
            // the circle |w| = 3 (shrunk by an ulp) and |w| = 1
            let a = -PI + 2.0 * PI * k as f64 / 24.0;
            check_pow(z, c(3.0 * a.cos(), 3.0 * a.sin()).scale(1.0 - 2e-16), &mut r);
            check_pow(z, c(a.cos(), a.sin()), &mut r);
        }
        for &b in &bases[0..60] {
            if in_domain(b) && (b - ONE).abs() >= 0.1 {
                check_log(z, b, &mut r);
            }
        }
    }
    finish(&r, "exponent_sweep");
}

// FINDING class UF: atan / acot near +-i and atanh / acoth near +-1 at distance < ~1.5e-162 are non-finite
#[test]
fn finding_underflow_adjacent_to_log_branch_points() {
    let mut rng = Rng(5);
    let mut r = Rec::new();
    for &d in &[5e-324, 1e-310, 1e-300, 1e-250, 1e-200, 1e-170, 1e-163, 1e-162, 1e-161, 1e-160, 1e-155, 1e-151] {
        for &s in &[1.0, -1.0] {
            for &t in &[1.0, -1.0] {
                check_all(c(s * d, t), &mut rng, &mut r); // next to +-i, either side of the cut of atan
                check_all(c(t, s * d), &mut rng, &mut r); // next to +-1, either side of the cut of atanh
            }
        }
    }
    r.report("finding_underflow", TOL);
    let bad: Vec<String> = r.m.iter().filter(|(k, v)| k.starts_with("inv_UF_") && v.0 > TOL).map(|(k, v)| format!("{} max={:e} at {}", k, v.0, v.1)).collect();
    assert!(bad.is_empty(), "non-finite inverse next to a branch point:\n{}", bad.join("\n"));
}

// worst cases of the cancellation in sqrt(1 - z^2) + iz, sqrt(z^2 + 1) + z (information: size of the round-trip error)
#[test]
fn cancellation_directions() {
    let mut rng = Rng(2024);
    let mut r = Rec::new();
    for i in 0..60_000 {
        let m = if i % 3 == 0 { rng.range(1.0e-3, 1.2e-3) } else if i % 3 == 1 { rng.range(9.0, 10.0) } else { (rng.range((1.0e-3f64).ln(), (10.0f64).ln())).exp() };
        let t = (rng.range((1.0e-18f64).ln(), (0.3f64).ln())).exp() * if rng.u() < 0.5 { 1.0 } else { -1.0 };
        // close to each of the four half axes
        for k in 0..4 {
            let a = k as f64 * FRAC_PI_2 + t;
            let z = match k {
                0 => c(m * t.cos(), m * t.sin()),
                1 => c(-m * t.sin(), m * t.cos()),
                2 => c(-m * t.cos(), -m * t.sin()),
                _ => c(m * t.sin(), -m * t.cos()),
            };
            let _ = a;
            check_all(z, &mut rng, &mut r);
        }
    }
    // polar constructor against the exponential series for arbitrary angles
    for _ in 0..50_000 {
        let rad = (rng.range((1.0e-3f64).ln(), (10.0f64).ln())).exp();
        let th = rng.range(-10.0, 10.0);
        let p = o(Cmplx::polar(rad, th));
        r.rec("polar_is_r_exp_i_theta", rel(p, oexp(c(0.0, th)).scale(rad)), c(rad, th), &|| String::new());
    }
    finish(&r, "cancellation_directions");
}
