// C14 reproductions: every test here FAILS on the current code.
use ohsl::complex::Cmplx;

fn close(a: Cmplx, b: Cmplx, tol: f64) -> bool {
    let d = ((a.real - b.real).powi(2) + (a.imag - b.imag).powi(2)).sqrt();
    d.is_finite() && d <= tol * (b.real.hypot(b.imag))
}

// z = 1e-200 + i lies next to the branch point +i of atan (|z| = 1, inside 1e-3 <= |z| <= 10).
// Exact value: atan(z) = pi/4 + i * ln(2e200)/2 = 0.78539816... + 230.60511... i ; tan of it is z.
// The library forms 1 + iz = (0, 1e-200) and takes ln through Complex::abs = sqrt(re^2 + im^2): the square
// underflows to 0, ln gives -inf, and atan returns (NaN, inf).
#[test]
fn c14_atan_acot_non_finite_adjacent_to_branch_point_i() {
    let z = Cmplx::new(1.0e-200, 1.0);
    let w = z.atan();
    println!("atan({:?}) = {:?}   tan(atan z) = {:?}", z, w, w.tan());
    let v = z.acot();
    println!("acot({:?}) = {:?}   cot(acot z) = {:?}", z, v, v.cot());
    let want = Cmplx::new(std::f64::consts::FRAC_PI_4, 0.5 * (2.0f64.ln() + 200.0 * 10.0f64.ln()));
    assert!(w.real.is_finite() && w.imag.is_finite(), "atan(z) is not finite: {:?}", w);
    assert!(close(w, want, 1e-9), "atan(z) = {:?}, expected {:?}", w, want);
    assert!(close(w.tan(), z, 1e-9), "tan(atan z) = {:?} != z", w.tan());
    assert!(close(v.cot(), z, 1e-9), "cot(acot z) = {:?} != z", v.cot());
}

// Same mechanism for atanh / acoth next to the branch point +1: z = 1 + 1e-200 i.
// Exact value: atanh(z) = ln(2e200)/2 + i pi/4 = 230.60511... + 0.78539816... i
#[test]
fn c14_atanh_acoth_non_finite_adjacent_to_branch_point_1() {
    let z = Cmplx::new(1.0, 1.0e-200);
    let w = z.atanh();
    println!("atanh({:?}) = {:?}   tanh(atanh z) = {:?}", z, w, w.tanh());
    let v = z.acoth();
    println!("acoth({:?}) = {:?}   coth(acoth z) = {:?}", z, v, v.coth());
    let want = Cmplx::new(0.5 * (2.0f64.ln() + 200.0 * 10.0f64.ln()), std::f64::consts::FRAC_PI_4);
    assert!(w.real.is_finite() && w.imag.is_finite(), "atanh(z) is not finite: {:?}", w);
    assert!(close(w, want, 1e-9), "atanh(z) = {:?}, expected {:?}", w, want);
    assert!(close(w.tanh(), z, 1e-9), "tanh(atanh z) = {:?} != z", w.tanh());
    assert!(close(v.coth(), z, 1e-9), "coth(acoth z) = {:?} != z", v.coth());
}
