// Reproductions for the C01 hunt. Each test FAILS on the current code.
use ohsl::{Complex, Matrix, Vector};

type C = Complex<f64>;
fn c(r: f64, i: f64) -> C {
    Complex::new(r, i)
}
fn cmat(a: &[Vec<C>]) -> Matrix<C> {
    let n = a.len();
    let mut m = Matrix::<C>::new(n, n, c(0.0, 0.0));
    for i in 0..n {
        for j in 0..n {
            m[(i, j)] = a[i][j];
        }
    }
    m
}
/// normwise backward error ||b - A x||_inf / ( ||A||_inf ||x||_inf + ||b||_inf ), moduli by hypot
fn eta_c(a: &[Vec<C>], b: &[C], x: &Vector<C>) -> f64 {
    let n = a.len();
    let (mut na, mut nx, mut nb, mut nr) = (0.0f64, 0.0f64, 0.0f64, 0.0f64);
    for i in 0..n {
        let mut r = b[i];
        let mut row = 0.0;
        for j in 0..n {
            r = r - a[i][j] * x[j];
            row += a[i][j].real.hypot(a[i][j].imag);
        }
        na = na.max(row);
        nx = nx.max(x[i].real.hypot(x[i].imag));
        nb = nb.max(b[i].real.hypot(b[i].imag));
        nr = nr.max(r.real.hypot(r.imag));
    }
    nr / (na * nx + nb)
}

/// Complex<f64>, well conditioned 2 x 2 system whose entries all have modulus ~1e-162 (far inside the f64 range; the
/// exact solution has entries of modulus ~0.5).  Both solvers silently return the ZERO vector.
/// (Same system at 1e-160: only 4 correct digits; at 1e-170: NaN.  Multiplied by 1e+162 instead: correct to 1e-16.)
#[test]
fn complex_small_moduli_2x2_silent_zero_solution() {
    let s = 1.0e-162;
    let a = vec![vec![c(1.0 * s, 2.0 * s), c(3.0 * s, -1.0 * s)], vec![c(0.5 * s, 0.25 * s), c(-2.0 * s, 1.0 * s)]];
    let b = vec![c(1.0 * s, 0.0), c(0.0, 1.0 * s)];
    let expect = [c(0.5444126074498566, 0.0401146131805156), c(0.2736389684813753, -0.2851002865329512)];
    let bv = Vector::create(b.clone());
    let x1 = cmat(&a).solve_basic(&bv);
    let x2 = cmat(&a).solve_lu(&bv);
    for (name, x) in [("solve_basic", &x1), ("solve_lu", &x2)] {
        assert_eq!(x.size(), 2);
        let e = eta_c(&a, &b, x);
        println!("{name}: x = {:?}, backward error {e:.3e}", x.vec);
        for i in 0..2 {
            let d = x[i] - expect[i];
            assert!(d.real.hypot(d.imag) < 1.0e-8, "{name}: x[{i}] = {:?}, expected {:?}", x[i], expect[i]);
        }
        assert!(e < 1.0e-10, "{name}: backward error {e:.3e}");
    }
}

/// Complex<f64>, 1 x 1, purely real entries: (2e-200) x = (1e-200), x = 0.5.  Both solvers return NaN.
#[test]
fn complex_small_moduli_1x1_nan() {
    let a = vec![vec![c(2.0e-200, 0.0)]];
    let bv = Vector::create(vec![c(1.0e-200, 0.0)]);
    let x1 = cmat(&a).solve_basic(&bv);
    let x2 = cmat(&a).solve_lu(&bv);
    for (name, x) in [("solve_basic", &x1), ("solve_lu", &x2)] {
        println!("{name}: x = {:?}", x.vec);
        assert!((x[0].real - 0.5).abs() < 1e-15 && x[0].imag.abs() < 1e-15, "{name}: x = {:?}, expected (0.5, 0)", x[0]);
    }
}

/// Complex<f64>, one column of tiny modulus in an otherwise O(1) matrix (a column scaling of a well conditioned matrix:
/// [[ 1e-170 (1+i), 1 ], [ 1e-170 (1-i), -1 ]] x = [ 1, 0 ]  =>  x = [ 0.5e170 , 0.5 - 0.5 i ]).
#[test]
fn complex_tiny_column_nan() {
    let t = 1.0e-170;
    let a = vec![vec![c(t, t), c(1.0, 0.0)], vec![c(t, -t), c(-1.0, 0.0)]];
    let b = vec![c(1.0, 0.0), c(0.0, 0.0)];
    let bv = Vector::create(b.clone());
    let x1 = cmat(&a).solve_basic(&bv);
    let x2 = cmat(&a).solve_lu(&bv);
    for (name, x) in [("solve_basic", &x1), ("solve_lu", &x2)] {
        println!("{name}: x = {:?}", x.vec);
        assert!(x.vec.iter().all(|v| v.real.is_finite() && v.imag.is_finite()), "{name}: non-finite {:?}", x.vec);
        let e = eta_c(&a, &b, x);
        assert!(e < 1.0e-10, "{name}: backward error {e:.3e}");
    }
}

/// f64, n = 60, entries in {-1, 0, 1}: a_ii = 1, a_ij = -1 below the diagonal, last column 1 (condition number ~ n).
/// Partial pivoting makes no exchange and the last column doubles at every step (growth 2^(n-1)); the computed
/// solution has normwise backward error ~1e-2, fourteen orders of magnitude above machine epsilon.
#[test]
fn f64_growth_matrix_n60_backward_error() {
    let n = 60usize;
    let mut m = Matrix::<f64>::new(n, n, 0.0);
    for i in 0..n {
        m[(i, i)] = 1.0;
        m[(i, n - 1)] = 1.0;
        for j in 0..i {
            m[(i, j)] = -1.0;
        }
    }
    let a = m.clone();
    // b_i = ((37 i + 11) mod 101) / 101 - 1/2   (any generic right-hand side does)
    let b: Vec<f64> = (0..n).map(|i| ((37 * i + 11) % 101) as f64 / 101.0 - 0.5).collect();
    let bv = Vector::create(b.clone());
    let x1 = m.clone().solve_basic(&bv);
    let x2 = m.clone().solve_lu(&bv);
    for (name, x) in [("solve_basic", &x1), ("solve_lu", &x2)] {
        assert_eq!(x.size(), n);
        let (mut nr, mut nx, mut nb) = (0.0f64, 0.0f64, 0.0f64);
        for i in 0..n {
            let mut r = b[i];
            for j in 0..n {
                r -= a[(i, j)] * x[j];
            }
            nr = nr.max(r.abs());
            nx = nx.max(x[i].abs());
            nb = nb.max(b[i].abs());
        }
        let eta = nr / (n as f64 * nx + nb); // ||A||_inf = n
        println!("{name}: residual {nr:.3e}, ||x|| {nx:.3e}, backward error {eta:.3e}");
        assert!(eta < 1.0e-10, "{name}: normwise backward error {eta:.3e}");
    }
}
