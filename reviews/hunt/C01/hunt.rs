// Adversarial property hunt for C01: dense direct solvers (solve_basic = Gaussian elimination with partial
// pivoting, solve_lu = LU with recorded permutation) solve every nonsingular system, and agree with each other.
//
// Oracles (all written here, nothing taken from the crate except the routines under test):
//   * exact rationals on i128 (checked arithmetic, overflow flagged and the case discarded): exact residual A x = b,
//     exact equality of the two solvers, nonsingularity decided by an own fraction elimination;
//   * f64 / Complex<f64>: normwise backward error  ||b - A x||_inf / ( ||A||_inf ||x||_inf + ||b||_inf ),
//     row-wise (componentwise) backward error compared with an own naive GEPP reference, finiteness, length,
//     bitwise / normwise agreement of the two solvers.
#![allow(clippy::needless_range_loop)]

use ohsl::{Complex, Matrix, Number, One, Signed, Vector, Zero};
use std::cell::Cell;
use std::cmp::Ordering;
use std::ops::{Add, AddAssign, Div, DivAssign, Mul, MulAssign, Neg, Sub, SubAssign};
use std::panic::{catch_unwind, AssertUnwindSafe};

// ---------------------------------------------------------------------------------------------------------------
// generator
// ---------------------------------------------------------------------------------------------------------------
struct Rng(u64);
impl Rng {
    fn new(seed: u64) -> Self {
        Rng(seed.wrapping_mul(0x9E37_79B9_7F4A_7C15) | 1)
    }
    fn next(&mut self) -> u64 {
        let mut x = self.0;
        x ^= x >> 12;
        x ^= x << 25;
        x ^= x >> 27;
        self.0 = x;
        x.wrapping_mul(0x2545_F491_4F6C_DD1D)
    }
    fn below(&mut self, n: usize) -> usize {
        (self.next() >> 11) as usize % n
    }
    fn int(&mut self, lo: i64, hi: i64) -> i64 {
        lo + (self.next() >> 11) as i64 % (hi - lo + 1)
    }
    /// uniform in [-1, 1)
    fn unit(&mut self) -> f64 {
        ((self.next() >> 11) as f64) / ((1u64 << 53) as f64) * 2.0 - 1.0
    }
    /// uniform in [-1,1) but never closer to 0 than 0.1
    fn away(&mut self) -> f64 {
        let u = self.unit();
        if u >= 0.0 {
            0.1 + 0.9 * u
        } else {
            -0.1 + 0.9 * u
        }
    }
    fn chance(&mut self, p: f64) -> bool {
        (self.unit() + 1.0) * 0.5 < p
    }
    fn perm(&mut self, n: usize) -> Vec<usize> {
        let mut p: Vec<usize> = (0..n).collect();
        for i in (1..n).rev() {
            let j = self.below(i + 1);
            p.swap(i, j);
        }
        p
    }
}

// ---------------------------------------------------------------------------------------------------------------
// exact rationals on i128
// ---------------------------------------------------------------------------------------------------------------
thread_local! {
    static OVF: Cell<bool> = Cell::new(false);
    static DIV0: Cell<bool> = Cell::new(false);
}
fn ovf() -> Rat {
    OVF.with(|f| f.set(true));
    Rat { n: 0, d: 1 }
}
fn flags_reset() {
    OVF.with(|f| f.set(false));
    DIV0.with(|f| f.set(false));
}
fn flag_ovf() -> bool {
    OVF.with(|f| f.get())
}
fn flag_div0() -> bool {
    DIV0.with(|f| f.get())
}

fn gcd(a: i128, b: i128) -> i128 {
    let (mut a, mut b) = (a.abs(), b.abs());
    while b != 0 {
        let t = a % b;
        a = b;
        b = t;
    }
    a
}

#[derive(Clone, Copy, Debug)]
struct Rat {
    n: i128,
    d: i128,
}
impl Rat {
    fn new(n: i128, d: i128) -> Rat {
        if d == 0 {
            DIV0.with(|f| f.set(true));
            return Rat { n: 0, d: 1 };
        }
        if n == i128::MIN || d == i128::MIN {
            return ovf();
        }
        let g = gcd(n, d);
        let (mut n, mut d) = (n / g, d / g);
        if d < 0 {
            n = -n;
            d = -d;
        }
        Rat { n, d }
    }
    fn int(n: i64) -> Rat {
        Rat { n: n as i128, d: 1 }
    }
    fn is_zero(&self) -> bool {
        self.n == 0
    }
}
impl PartialEq for Rat {
    fn eq(&self, o: &Rat) -> bool {
        self.n == o.n && self.d == o.d
    }
}
impl PartialOrd for Rat {
    fn partial_cmp(&self, o: &Rat) -> Option<Ordering> {
        match (self.n.checked_mul(o.d), o.n.checked_mul(self.d)) {
            (Some(l), Some(r)) => Some(l.cmp(&r)),
            _ => {
                ovf();
                Some(Ordering::Equal)
            }
        }
    }
}
impl Add for Rat {
    type Output = Rat;
    fn add(self, o: Rat) -> Rat {
        let g = gcd(self.d, o.d);
        let (da, db) = (self.d / g, o.d / g);
        let l = self.n.checked_mul(db);
        let r = o.n.checked_mul(da);
        let d = self.d.checked_mul(db);
        match (l, r, d) {
            (Some(l), Some(r), Some(d)) => match l.checked_add(r) {
                Some(n) => Rat::new(n, d),
                None => ovf(),
            },
            _ => ovf(),
        }
    }
}
impl Neg for Rat {
    type Output = Rat;
    fn neg(self) -> Rat {
        Rat { n: -self.n, d: self.d }
    }
}
impl Sub for Rat {
    type Output = Rat;
    fn sub(self, o: Rat) -> Rat {
        self + (-o)
    }
}
impl Mul for Rat {
    type Output = Rat;
    fn mul(self, o: Rat) -> Rat {
        if self.n == 0 || o.n == 0 {
            return Rat { n: 0, d: 1 };
        }
        let g1 = gcd(self.n, o.d);
        let g2 = gcd(o.n, self.d);
        let n = (self.n / g1).checked_mul(o.n / g2);
        let d = (self.d / g2).checked_mul(o.d / g1);
        match (n, d) {
            (Some(n), Some(d)) => Rat::new(n, d),
            _ => ovf(),
        }
    }
}
impl Div for Rat {
    type Output = Rat;
    fn div(self, o: Rat) -> Rat {
        if o.n == 0 {
            DIV0.with(|f| f.set(true));
            return Rat { n: 0, d: 1 };
        }
        let inv = if o.n < 0 { Rat { n: -o.d, d: -o.n } } else { Rat { n: o.d, d: o.n } };
        self * inv
    }
}
impl AddAssign for Rat {
    fn add_assign(&mut self, o: Rat) {
        *self = *self + o;
    }
}
impl SubAssign for Rat {
    fn sub_assign(&mut self, o: Rat) {
        *self = *self - o;
    }
}
impl MulAssign for Rat {
    fn mul_assign(&mut self, o: Rat) {
        *self = *self * o;
    }
}
impl DivAssign for Rat {
    fn div_assign(&mut self, o: Rat) {
        *self = *self / o;
    }
}
impl Zero for Rat {
    fn zero() -> Rat {
        Rat { n: 0, d: 1 }
    }
}
impl One for Rat {
    fn one() -> Rat {
        Rat { n: 1, d: 1 }
    }
}
impl Number for Rat {}
impl Signed for Rat {
    fn abs(&self) -> Rat {
        Rat { n: self.n.abs(), d: self.d }
    }
}

// ---------------------------------------------------------------------------------------------------------------
// helpers
// ---------------------------------------------------------------------------------------------------------------
fn build<T: Copy + Number>(a: &[Vec<T>]) -> Matrix<T> {
    let n = a.len();
    let mut m = Matrix::<T>::new(n, n, T::zero());
    for i in 0..n {
        assert_eq!(a[i].len(), n);
        for j in 0..n {
            m[(i, j)] = a[i][j];
        }
    }
    m
}
fn buildv<T: Copy>(b: &[T]) -> Vector<T> {
    Vector::<T>::create(b.to_vec())
}

/// own fraction elimination: Some(det != 0) / None when overflow
fn rat_nonsingular(a: &[Vec<Rat>]) -> Option<bool> {
    flags_reset();
    let n = a.len();
    let mut m: Vec<Vec<Rat>> = a.to_vec();
    for k in 0..n {
        // first nonzero pivot (deliberately a different strategy from the library)
        let mut p = None;
        for i in k..n {
            if !m[i][k].is_zero() {
                p = Some(i);
                break;
            }
        }
        let p = match p {
            Some(p) => p,
            None => return if flag_ovf() { None } else { Some(false) },
        };
        m.swap(k, p);
        for i in k + 1..n {
            if m[i][k].is_zero() {
                continue;
            }
            let f = m[i][k] / m[k][k];
            for j in k..n {
                let t = m[k][j];
                m[i][j] = m[i][j] - f * t;
            }
        }
        if flag_ovf() {
            return None;
        }
    }
    Some(true)
}

#[derive(Default)]
struct Stats {
    cases: usize,
    skipped_singular: usize,
    skipped_overflow: usize,
    fails: Vec<String>,
    max_eta: f64,
    max_eta_tag: String,
    max_omega: f64,
    nonbitwise: usize,
    max_diff: f64,
}
impl Stats {
    fn fail(&mut self, s: String) {
        if self.fails.len() < 25 {
            self.fails.push(s);
        } else if self.fails.len() == 25 {
            self.fails.push("... more".into());
        }
    }
}

fn check_exact(a: &[Vec<Rat>], b: &[Rat], tag: &str, st: &mut Stats) {
    let n = a.len();
    match rat_nonsingular(a) {
        None => {
            st.skipped_overflow += 1;
            return;
        }
        Some(false) => {
            st.skipped_singular += 1;
            return;
        }
        Some(true) => {}
    }
    flags_reset();
    let bv = buildv(b);
    let mut m1 = build(a);
    let mut m2 = build(a);
    let r1 = catch_unwind(AssertUnwindSafe(|| m1.solve_basic(&bv)));
    let of1 = flag_ovf();
    let dz1 = flag_div0();
    flags_reset();
    let r2 = catch_unwind(AssertUnwindSafe(|| m2.solve_lu(&bv)));
    let of2 = flag_ovf();
    let dz2 = flag_div0();
    flags_reset();
    st.cases += 1;
    let mut sols: Vec<Option<Vec<Rat>>> = vec![];
    for (name, r, of, dz) in [("solve_basic", r1, of1, dz1), ("solve_lu", r2, of2, dz2)] {
        if of {
            st.skipped_overflow += 1;
            sols.push(None);
            continue;
        }
        let x = match r {
            Err(_) => {
                st.fail(format!("[{tag}] {name} PANICKED on nonsingular exact system A={a:?} b={b:?}"));
                sols.push(None);
                continue;
            }
            Ok(x) => x,
        };
        if dz {
            st.fail(format!("[{tag}] {name} divided by zero on nonsingular exact system A={a:?} b={b:?}"));
            sols.push(None);
            continue;
        }
        if x.size() != n {
            st.fail(format!("[{tag}] {name} wrong length {} for n={n}", x.size()));
            sols.push(None);
            continue;
        }
        // exact residual
        let mut ok = true;
        for i in 0..n {
            let mut s = Rat::zero();
            for j in 0..n {
                s = s + a[i][j] * x[j];
            }
            if flag_ovf() {
                break;
            }
            if s != b[i] {
                ok = false;
            }
        }
        if flag_ovf() {
            st.skipped_overflow += 1;
            flags_reset();
            sols.push(None);
            continue;
        }
        if !ok {
            st.fail(format!("[{tag}] {name} exact residual nonzero: A={a:?} b={b:?} x={:?}", x.vec));
        }
        sols.push(Some(x.vec.clone()));
    }
    if let (Some(x1), Some(x2)) = (&sols[0], &sols[1]) {
        if x1 != x2 {
            st.fail(format!("[{tag}] exact solvers disagree: A={a:?} b={b:?} basic={x1:?} lu={x2:?}"));
        }
    }
}

// ---------------------------------------------------------------------------------------------------------------
// floating element types
// ---------------------------------------------------------------------------------------------------------------
trait Fl: Copy + Number + Signed + PartialOrd + std::fmt::Debug {
    fn mag(self) -> f64;
    /// modulus as the textbook sqrt(re^2 + im^2): used ONLY to rank pivot candidates in the reference, so that
    /// exact ties of moduli are broken the same way as any straightforward implementation would
    fn pmag(self) -> f64 {
        self.mag()
    }
    fn fin(self) -> bool;
    fn bits(self) -> (u64, u64);
}
impl Fl for f64 {
    fn mag(self) -> f64 {
        f64::abs(self)
    }
    fn fin(self) -> bool {
        self.is_finite()
    }
    fn bits(self) -> (u64, u64) {
        ((self + 0.0).to_bits(), 0)
    }
}
impl Fl for Complex<f64> {
    fn mag(self) -> f64 {
        self.real.hypot(self.imag)
    }
    fn pmag(self) -> f64 {
        (self.real * self.real + self.imag * self.imag).sqrt()
    }
    fn fin(self) -> bool {
        self.real.is_finite() && self.imag.is_finite()
    }
    fn bits(self) -> (u64, u64) {
        ((self.real + 0.0).to_bits(), (self.imag + 0.0).to_bits())
    }
}

/// naive reference GEPP (own code); None when a pivot is exactly zero or the result is not finite
fn ref_solve<T: Fl>(a: &[Vec<T>], b: &[T]) -> Option<(Vec<T>, f64)> {
    let n = a.len();
    let mut m: Vec<Vec<T>> = a.to_vec();
    let mut x: Vec<T> = b.to_vec();
    let mut amax = 0.0f64;
    for r in a {
        for v in r {
            amax = amax.max(v.mag());
        }
    }
    let mut umax = amax;
    for k in 0..n {
        let mut p = k;
        let mut best = -1.0;
        for i in k..n {
            let v = m[i][k].pmag();
            if v > best {
                best = v;
                p = i;
            }
        }
        if !(best > 0.0) {
            return None;
        }
        m.swap(k, p);
        x.swap(k, p);
        for i in k + 1..n {
            let f = m[i][k] / m[k][k];
            for j in k + 1..n {
                let t = m[k][j];
                m[i][j] = m[i][j] - f * t;
                umax = umax.max(m[i][j].mag());
            }
            m[i][k] = T::zero();
            let t = x[k];
            x[i] = x[i] - f * t;
        }
    }
    for k in (0..n).rev() {
        let mut s = x[k];
        for j in k + 1..n {
            s = s - m[k][j] * x[j];
        }
        x[k] = s / m[k][k];
        if !x[k].fin() {
            return None;
        }
    }
    Some((x, umax / amax))
}

/// (normwise eta, rowwise omega)
fn backward<T: Fl>(a: &[Vec<T>], b: &[T], x: &[T]) -> (f64, f64) {
    let n = a.len();
    let mut norm_a = 0.0f64;
    let mut norm_x = 0.0f64;
    let mut norm_b = 0.0f64;
    let mut norm_r = 0.0f64;
    let mut omega = 0.0f64;
    for j in 0..n {
        norm_x = norm_x.max(x[j].mag());
    }
    for i in 0..n {
        let mut r = b[i];
        let mut rowsum = 0.0;
        let mut rowax = b[i].mag();
        for j in 0..n {
            r = r - a[i][j] * x[j];
            rowsum += a[i][j].mag();
            rowax += a[i][j].mag() * x[j].mag();
        }
        norm_a = norm_a.max(rowsum);
        norm_b = norm_b.max(b[i].mag());
        norm_r = norm_r.max(r.mag());
        if r.mag() > 0.0 {
            omega = omega.max(r.mag() / rowax);
        }
    }
    let den = norm_a * norm_x + norm_b;
    let eta = if norm_r == 0.0 { 0.0 } else { norm_r / den };
    (eta, omega)
}

const ETA_TOL: f64 = 2.0e-11; // ~ 1e5 eps: very generous for n <= 100 and modest growth

fn check_fl<T: Fl>(a: &[Vec<T>], b: &[T], tag: &str, st: &mut Stats) {
    let n = a.len();
    let (xr, growth) = match ref_solve(a, b) {
        None => {
            st.skipped_singular += 1;
            return;
        }
        Some(v) => v,
    };
    let (eta_r, omega_r) = backward(a, b, &xr);
    if !(eta_r <= ETA_TOL) {
        // the reference itself (textbook GEPP) is not backward stable here: numerically singular / huge growth;
        // not a usable instance for a "clear failure" verdict
        st.skipped_singular += 1;
        return;
    }
    st.cases += 1;
    let bv = buildv(b);
    let mut m1 = build(a);
    let mut m2 = build(a);
    let r1 = catch_unwind(AssertUnwindSafe(|| m1.solve_basic(&bv)));
    let r2 = catch_unwind(AssertUnwindSafe(|| m2.solve_lu(&bv)));
    let mut sols: Vec<Option<Vec<T>>> = vec![];
    for (name, r) in [("solve_basic", r1), ("solve_lu", r2)] {
        let x = match r {
            Err(_) => {
                st.fail(format!("[{tag}] {name} PANICKED: A={a:?} b={b:?}"));
                sols.push(None);
                continue;
            }
            Ok(x) => x,
        };
        if x.size() != n {
            st.fail(format!("[{tag}] {name} wrong length {} for n={n}", x.size()));
            sols.push(None);
            continue;
        }
        if !x.vec.iter().all(|v| v.fin()) {
            st.fail(format!("[{tag}] {name} non-finite solution: A={a:?} b={b:?} x={:?} (ref x={xr:?})", x.vec));
            sols.push(None);
            continue;
        }
        let (eta, omega) = backward(a, b, &x.vec);
        if eta > st.max_eta {
            st.max_eta = eta;
            st.max_eta_tag = format!("{tag} n={n} {name} growth={growth:.3e}");
        }
        st.max_omega = st.max_omega.max(omega);
        if eta > ETA_TOL {
            st.fail(format!(
                "[{tag}] {name} normwise backward error {eta:.3e} (ref {eta_r:.3e}, growth {growth:.2e}): A={a:?} b={b:?} x={:?}",
                x.vec
            ));
        }
        if omega > 1.0e-10 && omega > 1.0e3 * omega_r {
            st.fail(format!(
                "[{tag}] {name} rowwise backward error {omega:.3e} vs reference GEPP {omega_r:.3e}: A={a:?} b={b:?} x={:?}",
                x.vec
            ));
        }
        sols.push(Some(x.vec.clone()));
    }
    if let (Some(x1), Some(x2)) = (&sols[0], &sols[1]) {
        let bitwise = x1.iter().zip(x2.iter()).all(|(u, v)| u.bits() == v.bits());
        if !bitwise {
            st.nonbitwise += 1;
            let mut nx = 0.0f64;
            let mut nd = 0.0f64;
            for i in 0..n {
                nx = nx.max(x1[i].mag());
                nd = nd.max((x1[i] - x2[i]).mag());
            }
            let d = nd / nx;
            st.max_diff = st.max_diff.max(d);
            // the two routines perform the same operations in the same order; anything but rounding-level
            // differences on a well-posed instance is a disagreement
            if d > 1.0e-6 {
                st.fail(format!("[{tag}] solvers disagree rel {d:.3e}: A={a:?} b={b:?} basic={x1:?} lu={x2:?}"));
            }
        }
    }
}

// ---------------------------------------------------------------------------------------------------------------
// real matrix generators  (f64 entries; integer-valued classes are also used for the exact type)
// ---------------------------------------------------------------------------------------------------------------
const N_REAL_CLASSES: usize = 26;

fn lower_unit(rng: &mut Rng, n: usize, int: bool) -> Vec<Vec<f64>> {
    let mut l = vec![vec![0.0; n]; n];
    for i in 0..n {
        l[i][i] = 1.0;
        for j in 0..i {
            l[i][j] = if int { rng.int(-3, 3) as f64 } else { rng.unit() };
        }
    }
    l
}
fn upper(rng: &mut Rng, n: usize, int: bool) -> Vec<Vec<f64>> {
    let mut u = vec![vec![0.0; n]; n];
    for i in 0..n {
        for j in i..n {
            u[i][j] = if int { rng.int(-3, 3) as f64 } else { rng.unit() };
        }
        u[i][i] = if int {
            let v = rng.int(1, 3) as f64;
            if rng.chance(0.5) {
                -v
            } else {
                v
            }
        } else {
            rng.away()
        };
    }
    u
}
fn matmul(a: &[Vec<f64>], b: &[Vec<f64>]) -> Vec<Vec<f64>> {
    let n = a.len();
    let mut c = vec![vec![0.0; n]; n];
    for i in 0..n {
        for j in 0..n {
            let mut s = 0.0;
            for k in 0..n {
                s += a[i][k] * b[k][j];
            }
            c[i][j] = s;
        }
    }
    c
}
fn permute_rows(a: &[Vec<f64>], p: &[usize]) -> Vec<Vec<f64>> {
    p.iter().map(|&i| a[i].clone()).collect()
}

/// returns (matrix, integer_valued)
fn gen_real(rng: &mut Rng, class: usize, n: usize) -> (Vec<Vec<f64>>, bool) {
    let mut a = vec![vec![0.0f64; n]; n];
    match class {
        0 => {
            for i in 0..n {
                for j in 0..n {
                    a[i][j] = rng.unit();
                }
            }
            (a, false)
        }
        1 => {
            // small integers: many exact ties and exact zeros during elimination
            let r = 1 + rng.below(4) as i64;
            for i in 0..n {
                for j in 0..n {
                    a[i][j] = rng.int(-r, r) as f64;
                }
            }
            (a, true)
        }
        2 => {
            // sparse 0 / +-1
            let dens = 0.25 + 0.5 * (rng.unit() + 1.0) * 0.5;
            for i in 0..n {
                for j in 0..n {
                    if rng.chance(dens) {
                        a[i][j] = if rng.chance(0.5) { 1.0 } else { -1.0 };
                    }
                }
            }
            (a, true)
        }
        3 => {
            // signed, scaled permutation
            let p = rng.perm(n);
            for i in 0..n {
                a[i][p[i]] = rng.int(1, 5) as f64 * if rng.chance(0.5) { -1.0 } else { 1.0 };
            }
            (a, true)
        }
        4 => {
            // permutation + small dense noise
            let p = rng.perm(n);
            let eps = [1e-3, 1e-8, 1e-14, 0.3][rng.below(4)];
            for i in 0..n {
                for j in 0..n {
                    a[i][j] = eps * rng.unit();
                }
                a[i][p[i]] += if rng.chance(0.5) { -1.0 } else { 1.0 };
            }
            (a, false)
        }
        5 => {
            // tiny / zero diagonal: elimination without (effective) exchanges is catastrophic
            let tiny = [0.0, 1e-20, 1e-16, 1e-300, 1e-8][rng.below(5)];
            for i in 0..n {
                for j in 0..n {
                    a[i][j] = rng.unit();
                }
                a[i][i] = tiny * rng.unit();
            }
            (a, false)
        }
        6 => {
            // zero leading k x k block (k <= n/2): zero pivots in the first k columns' leading positions
            let k = if n >= 2 { 1 + rng.below(n / 2) } else { 0 };
            for i in 0..n {
                for j in 0..n {
                    a[i][j] = if i < k && j < k { 0.0 } else { rng.unit() };
                }
            }
            (a, false)
        }
        7 => {
            // triangular / Hessenberg
            let kind = rng.below(3);
            for i in 0..n {
                for j in 0..n {
                    let keep = match kind {
                        0 => j >= i,
                        1 => j <= i,
                        _ => j + 1 >= i,
                    };
                    if keep {
                        a[i][j] = rng.unit();
                    }
                }
                a[i][i] = rng.away() * [1.0, 1e-6, 1e6][rng.below(3)];
            }
            (a, false)
        }
        8 => {
            // banded
            let bw = 1 + rng.below(3);
            for i in 0..n {
                for j in 0..n {
                    if (i as isize - j as isize).unsigned_abs() <= bw {
                        a[i][j] = rng.unit();
                    }
                }
            }
            (a, false)
        }
        9 => {
            // symmetric indefinite, possibly zero diagonal
            let zd = rng.chance(0.5);
            for i in 0..n {
                for j in i..n {
                    let v = rng.unit();
                    a[i][j] = v;
                    a[j][i] = v;
                }
                if zd {
                    a[i][i] = 0.0;
                }
            }
            (a, false)
        }
        10 => {
            // ill-conditioned classics (backward error must still be small)
            if rng.chance(0.5) {
                for i in 0..n {
                    for j in 0..n {
                        a[i][j] = 1.0 / ((i + j + 1) as f64);
                    }
                }
            } else {
                let mut nodes: Vec<f64> = (0..n).map(|_| rng.unit()).collect();
                nodes.sort_by(|p, q| p.partial_cmp(q).unwrap());
                for i in 0..n {
                    let mut p = 1.0;
                    for j in 0..n {
                        a[i][j] = p;
                        p *= nodes[i];
                    }
                }
            }
            (a, false)
        }
        11 | 12 | 13 => {
            // row / column / both scaling by powers of two (or ten)
            let bc = [0usize, 5, 6, 4][rng.below(4)];
            let (base, _) = gen_real(rng, bc, n);
            let ten = rng.chance(0.3);
            let e = 100;
            let sc = |rng: &mut Rng| -> f64 {
                let k = rng.int(-e, e);
                if ten {
                    10f64.powi((k / 2) as i32)
                } else {
                    2f64.powi(k as i32)
                }
            };
            let rs: Vec<f64> = (0..n).map(|_| if class != 12 { sc(rng) } else { 1.0 }).collect();
            let cs: Vec<f64> = (0..n).map(|_| if class != 11 { sc(rng) } else { 1.0 }).collect();
            for i in 0..n {
                for j in 0..n {
                    a[i][j] = base[i][j] * rs[i] * cs[j];
                }
            }
            (a, false)
        }
        14 => {
            // cyclic shift / anti-diagonal (+ noise): the maximum sits in the last row at every step
            let anti = rng.chance(0.4);
            let eps = [0.0, 1e-3, 0.5][rng.below(3)];
            for i in 0..n {
                for j in 0..n {
                    a[i][j] = eps * rng.unit();
                }
            }
            for i in 0..n {
                let j = if anti { n - 1 - i } else { (i + 1) % n };
                a[i][j] += 2.0;
            }
            (a, false)
        }
        15 => {
            // columns sorted by magnitude, increasing (pivot always last row) or decreasing
            let inc = rng.chance(0.6);
            for j in 0..n {
                let mut col: Vec<f64> = (0..n).map(|_| rng.unit()).collect();
                col.sort_by(|p, q| p.abs().partial_cmp(&q.abs()).unwrap());
                if !inc {
                    col.reverse();
                }
                for i in 0..n {
                    a[i][j] = col[i];
                }
            }
            (a, false)
        }
        16 => {
            // all +-1: exact ties in every pivot search
            for i in 0..n {
                for j in 0..n {
                    a[i][j] = if rng.chance(0.5) { 1.0 } else { -1.0 };
                }
            }
            (a, true)
        }
        17 => {
            // the largest entry of every column is NEGATIVE, all others positive and smaller
            for j in 0..n {
                let r = rng.below(n);
                for i in 0..n {
                    a[i][j] = 0.5 * (rng.unit() + 1.0) * 0.9;
                }
                a[r][j] = -1.0 - 0.5 * (rng.unit() + 1.0);
            }
            (a, false)
        }
        18 => {
            // A = P L U, |l_ij| <= 1, U with tiny / huge diagonal
            let l = lower_unit(rng, n, false);
            let mut u = upper(rng, n, false);
            for i in 0..n {
                u[i][i] *= [1.0, 1e-10, 1e10, 1e-3][rng.below(4)];
            }
            let p = rng.perm(n);
            (permute_rows(&matmul(&l, &u), &p), false)
        }
        19 => {
            // near-duplicate rows
            let base: Vec<f64> = (0..n).map(|_| rng.unit()).collect();
            let eps = [1e-4, 1e-8, 1e-12][rng.below(3)];
            for i in 0..n {
                for j in 0..n {
                    a[i][j] = base[j] + eps * rng.unit();
                }
            }
            (a, false)
        }
        20 => {
            // integer A = L * M where M is an upper-triangular matrix with two rows swapped: elimination meets an
            // EXACT zero pivot at a chosen later step k (not in the first column)
            let l = lower_unit(rng, n, true);
            let mut m = upper(rng, n, true);
            if n >= 2 {
                let k = rng.below(n - 1);
                let q = k + 1 + rng.below(n - 1 - k);
                m.swap(k, q);
                if rng.chance(0.3) && n >= 4 {
                    let k2 = rng.below(n - 1);
                    let q2 = k2 + 1 + rng.below(n - 1 - k2);
                    m.swap(k2, q2);
                }
            }
            (matmul(&l, &m), true)
        }
        21 => {
            // block diag( I_k , J ) with J a reversal block, then small integer row operations from the left
            let k = rng.below(n.max(1));
            for i in 0..k {
                a[i][i] = 1.0;
            }
            for i in k..n {
                a[i][k + (n - 1 - i)] = 1.0;
            }
            if rng.chance(0.5) {
                let l = lower_unit(rng, n, true);
                a = matmul(&l, &a);
            }
            (a, true)
        }
        22 => {
            // first column all zero except the LAST row; first row all zero except last column
            for i in 0..n {
                for j in 0..n {
                    a[i][j] = rng.unit();
                }
            }
            for i in 0..n.saturating_sub(1) {
                a[i][0] = 0.0;
            }
            for j in 0..n.saturating_sub(1) {
                a[0][j] = 0.0;
            }
            (a, false)
        }
        23 => {
            // diagonally dominant (no exchanges) and its row reversal (exchanges everywhere)
            for i in 0..n {
                for j in 0..n {
                    a[i][j] = rng.unit();
                }
                a[i][i] = (n as f64 + 1.0) * if rng.chance(0.5) { 1.0 } else { -1.0 };
            }
            if rng.chance(0.5) {
                a.reverse();
            }
            (a, false)
        }
        24 => {
            // mixed magnitudes entrywise: each entry m * 10^k, k in -12..12
            for i in 0..n {
                for j in 0..n {
                    a[i][j] = rng.unit() * 10f64.powi(rng.int(-12, 12) as i32);
                }
            }
            (a, false)
        }
        _ => {
            // arrow / bordered matrices with zero corner
            for i in 0..n {
                a[i][i] = rng.away();
                a[i][n - 1] = rng.unit();
                a[n - 1][i] = rng.unit();
            }
            a[0][0] = 0.0;
            if n >= 2 {
                a[n - 1][n - 1] = 0.0;
            }
            (a, false)
        }
    }
}

fn gen_rhs(rng: &mut Rng, a: &[Vec<f64>], int: bool) -> Vec<f64> {
    let n = a.len();
    match rng.below(6) {
        0 => vec![0.0; n],
        1 => {
            let mut b = vec![0.0; n];
            b[rng.below(n)] = 1.0;
            b
        }
        2 => {
            // A * ones
            (0..n).map(|i| a[i].iter().sum()).collect()
        }
        3 if !int => {
            let s = [1e100, 1e-100, 1e10][rng.below(3)];
            (0..n).map(|_| s * rng.unit()).collect()
        }
        _ => {
            if int {
                (0..n).map(|_| rng.int(-9, 9) as f64).collect()
            } else {
                (0..n).map(|_| rng.unit()).collect()
            }
        }
    }
}

fn pick_n(rng: &mut Rng) -> usize {
    match rng.below(20) {
        0 | 1 => 1,
        2 | 3 | 4 => 2,
        5 | 6 | 7 => 3,
        8 | 9 => 4,
        10 | 11 => 5,
        12 => 6,
        13 => 7,
        14 => 8,
        15 => 9 + rng.below(4),
        16 => 2 + rng.below(5),
        17 => 3 + rng.below(8),
        18 => 13 + rng.below(8),
        _ => 2 + rng.below(3),
    }
}

fn report(name: &str, st: &Stats) {
    println!(
        "{name}: cases={} skipped(singular/unusable)={} skipped(overflow)={} max_eta={:.3e} [{}] max_omega={:.3e} nonbitwise={} max_diff={:.3e} fails={}",
        st.cases,
        st.skipped_singular,
        st.skipped_overflow,
        st.max_eta,
        st.max_eta_tag,
        st.max_omega,
        st.nonbitwise,
        st.max_diff,
        st.fails.len()
    );
    for f in &st.fails {
        println!("  FAIL {f}");
    }
}

// ---------------------------------------------------------------------------------------------------------------
// tests
// ---------------------------------------------------------------------------------------------------------------
#[test]
fn f64_random_and_structured() {
    let mut rng = Rng::new(101);
    let mut st = Stats::default();
    for it in 0..400_000usize {
        let class = it % N_REAL_CLASSES;
        let n = pick_n(&mut rng);
        let (a, int) = gen_real(&mut rng, class, n);
        let b = gen_rhs(&mut rng, &a, int);
        check_fl::<f64>(&a, &b, &format!("f64 class {class}"), &mut st);
    }
    report("f64_random_and_structured", &st);
    assert!(st.fails.is_empty());
}

#[test]
fn f64_larger_sizes() {
    let mut rng = Rng::new(202);
    let mut st = Stats::default();
    for it in 0..1500usize {
        let class = it % N_REAL_CLASSES;
        if class == 10 || class == 16 {
            continue;
        }
        let n = [16, 17, 31, 32, 33, 48, 64, 65, 100][rng.below(9)];
        let (a, int) = gen_real(&mut rng, class, n);
        let b = gen_rhs(&mut rng, &a, int);
        check_fl::<f64>(&a, &b, &format!("f64 large class {class}"), &mut st);
    }
    report("f64_larger_sizes", &st);
    assert!(st.fails.is_empty());
}

fn to_c(re: f64, im: f64) -> Complex<f64> {
    Complex::new(re, im)
}

#[test]
fn complex_random_and_structured() {
    let mut rng = Rng::new(303);
    let mut st = Stats::default();
    for it in 0..250_000usize {
        let class = it % N_REAL_CLASSES;
        let n = pick_n(&mut rng);
        let (ar, int) = gen_real(&mut rng, class, n);
        let mode = rng.below(6);
        let mut a = vec![vec![to_c(0.0, 0.0); n]; n];
        match mode {
            0 => {
                // purely real
                for i in 0..n {
                    for j in 0..n {
                        a[i][j] = to_c(ar[i][j], 0.0);
                    }
                }
            }
            1 => {
                // purely imaginary
                for i in 0..n {
                    for j in 0..n {
                        a[i][j] = to_c(0.0, ar[i][j]);
                    }
                }
            }
            2 => {
                // independent second matrix of another class as imaginary part
                let c2 = (class + 1 + rng.below(N_REAL_CLASSES - 1)) % N_REAL_CLASSES;
                let (ai, _) = gen_real(&mut rng, c2, n);
                for i in 0..n {
                    for j in 0..n {
                        a[i][j] = to_c(ar[i][j], ai[i][j]);
                    }
                }
            }
            3 => {
                // same structure, random phase per entry (structure of moduli preserved)
                for i in 0..n {
                    for j in 0..n {
                        let t = std::f64::consts::PI * rng.unit();
                        a[i][j] = to_c(ar[i][j] * t.cos(), ar[i][j] * t.sin());
                    }
                }
            }
            4 => {
                // entries from {real, imaginary} at random: the modulus (not the real part) must drive the pivot
                for i in 0..n {
                    for j in 0..n {
                        a[i][j] = if rng.chance(0.5) { to_c(ar[i][j], 0.0) } else { to_c(0.0, ar[i][j]) };
                    }
                }
            }
            _ => {
                // small real parts, structure in the imaginary parts (+ the reverse)
                let s = [1e-3, 1e-9, 0.0][rng.below(3)];
                let sw = rng.chance(0.5);
                for i in 0..n {
                    for j in 0..n {
                        let (p, q) = (s * rng.unit(), ar[i][j]);
                        a[i][j] = if sw { to_c(q, p) } else { to_c(p, q) };
                    }
                }
            }
        }
        let br = gen_rhs(&mut rng, &ar, int);
        let bi = gen_rhs(&mut rng, &ar, int);
        let b: Vec<Complex<f64>> = (0..n)
            .map(|i| match mode {
                0 if rng.chance(0.5) => to_c(br[i], 0.0),
                1 if rng.chance(0.5) => to_c(0.0, br[i]),
                _ => to_c(br[i], bi[i]),
            })
            .collect();
        check_fl::<Complex<f64>>(&a, &b, &format!("complex class {class} mode {mode}"), &mut st);
    }
    report("complex_random_and_structured", &st);
    assert!(st.fails.is_empty());
}

#[test]
fn complex_larger_sizes() {
    let mut rng = Rng::new(404);
    let mut st = Stats::default();
    for it in 0..600usize {
        let class = it % N_REAL_CLASSES;
        if class == 10 || class == 16 {
            continue;
        }
        let n = [16, 17, 31, 32, 33, 48, 64, 65][rng.below(8)];
        let (ar, int) = gen_real(&mut rng, class, n);
        let (ai, _) = gen_real(&mut rng, (class + 3) % N_REAL_CLASSES, n);
        let mut a = vec![vec![to_c(0.0, 0.0); n]; n];
        for i in 0..n {
            for j in 0..n {
                a[i][j] = to_c(ar[i][j], ai[i][j]);
            }
        }
        let br = gen_rhs(&mut rng, &ar, int);
        let bi = gen_rhs(&mut rng, &ar, int);
        let b: Vec<Complex<f64>> = (0..n).map(|i| to_c(br[i], bi[i])).collect();
        check_fl::<Complex<f64>>(&a, &b, &format!("complex large class {class}"), &mut st);
    }
    report("complex_larger_sizes", &st);
    assert!(st.fails.is_empty());
}

fn to_rat_matrix(rng: &mut Rng, a: &[Vec<f64>], int: bool, denoms: bool) -> Vec<Vec<Rat>> {
    let n = a.len();
    let mut m = vec![vec![Rat::zero(); n]; n];
    for i in 0..n {
        for j in 0..n {
            let v = a[i][j];
            let r = if int {
                Rat::int(v as i64)
            } else {
                // quantise the structured float pattern to small rationals, keeping exact zeros
                if v == 0.0 {
                    Rat::zero()
                } else {
                    let q = (v * 6.0).round() as i64;
                    Rat::new(q as i128, 6)
                }
            };
            m[i][j] = if denoms && !r.is_zero() && rng.chance(0.4) {
                r / Rat::int(rng.int(1, 5))
            } else {
                r
            };
        }
    }
    m
}

#[test]
fn exact_rationals() {
    let mut rng = Rng::new(505);
    let mut st = Stats::default();
    let classes: [usize; 19] = [0, 1, 2, 3, 5, 6, 7, 8, 9, 14, 15, 16, 17, 20, 21, 22, 23, 25, 1];
    for it in 0..300_000usize {
        let class = classes[it % classes.len()];
        let n = match rng.below(12) {
            0 => 1,
            1 | 2 => 2,
            3 | 4 | 5 => 3,
            6 | 7 => 4,
            8 | 9 => 5,
            10 => 6,
            _ => 7,
        };
        let (af, int) = gen_real(&mut rng, class, n);
        // class 20 products can be large integers: still integer valued
        let denoms = rng.chance(0.3) && n <= 5;
        let a = to_rat_matrix(&mut rng, &af, int, denoms);
        let b: Vec<Rat> = match rng.below(4) {
            0 => vec![Rat::zero(); n],
            1 => {
                let mut b = vec![Rat::zero(); n];
                b[rng.below(n)] = Rat::one();
                b
            }
            2 => (0..n).map(|_| Rat::new(rng.int(-9, 9) as i128, rng.int(1, 4) as i128)).collect(),
            _ => (0..n).map(|_| Rat::int(rng.int(-9, 9))).collect(),
        };
        check_exact(&a, &b, &format!("rat class {class}"), &mut st);
    }
    report("exact_rationals", &st);
    assert!(st.cases > 150_000, "too many exact cases discarded: {}", st.cases);
    assert!(st.fails.is_empty());
}

/// every 0/+-1 matrix of order 2 (all 81) and a large sample of order 3, exhaustive right-hand sides from a small set
#[test]
fn exact_exhaustive_small() {
    let mut st = Stats::default();
    let vals = [Rat::int(-1), Rat::int(0), Rat::int(1)];
    // n = 1
    for a in [-3i64, -1, 1, 2] {
        for b in [-2i64, 0, 5] {
            check_exact(&[vec![Rat::int(a)]], &[Rat::int(b)], "n=1", &mut st);
            check_fl::<f64>(&[vec![a as f64]], &[b as f64], "n=1 f64", &mut st);
            check_fl::<Complex<f64>>(&[vec![to_c(0.0, a as f64)]], &[to_c(b as f64, 1.0)], "n=1 cmplx", &mut st);
        }
    }
    // n = 2, entries in {-1,0,1}
    for code in 0..81usize {
        let mut c = code;
        let mut e = [Rat::zero(); 4];
        for k in 0..4 {
            e[k] = vals[c % 3];
            c /= 3;
        }
        let a = vec![vec![e[0], e[1]], vec![e[2], e[3]]];
        for b in [[1i64, 0], [0, 1], [2, -3], [0, 0]] {
            check_exact(&a, &[Rat::int(b[0]), Rat::int(b[1])], "n=2 exhaustive", &mut st);
        }
    }
    // n = 3, entries in {-1,0,1}: all 19683
    for code in 0..19683usize {
        let mut c = code;
        let mut a = vec![vec![Rat::zero(); 3]; 3];
        let mut af = vec![vec![0.0f64; 3]; 3];
        for i in 0..3 {
            for j in 0..3 {
                a[i][j] = vals[c % 3];
                af[i][j] = (c % 3) as f64 - 1.0;
                c /= 3;
            }
        }
        check_exact(&a, &[Rat::int(1), Rat::int(-2), Rat::int(3)], "n=3 exhaustive", &mut st);
        check_fl::<f64>(&af, &[1.0, -2.0, 3.0], "n=3 exhaustive f64", &mut st);
    }
    // n = 4, entries in {0,1}: all 65536
    for code in 0..65536usize {
        let mut a = vec![vec![Rat::zero(); 4]; 4];
        for i in 0..4 {
            for j in 0..4 {
                if (code >> (4 * i + j)) & 1 == 1 {
                    a[i][j] = Rat::one();
                }
            }
        }
        check_exact(&a, &[Rat::int(1), Rat::int(2), Rat::int(3), Rat::int(4)], "n=4 0/1 exhaustive", &mut st);
    }
    report("exact_exhaustive_small", &st);
    assert!(st.fails.is_empty());
}

/// every permutation matrix of order <= 6 (signed/scaled): any number of exchanges, at any step
#[test]
fn all_permutations() {
    fn rec(p: &mut Vec<usize>, k: usize, out: &mut Vec<Vec<usize>>) {
        if k == p.len() {
            out.push(p.clone());
            return;
        }
        for i in k..p.len() {
            p.swap(k, i);
            rec(p, k + 1, out);
            p.swap(k, i);
        }
    }
    let mut st = Stats::default();
    let mut rng = Rng::new(606);
    for n in 1..=6usize {
        let mut all = vec![];
        rec(&mut (0..n).collect(), 0, &mut all);
        for p in &all {
            let mut ar = vec![vec![Rat::zero(); n]; n];
            let mut af = vec![vec![0.0f64; n]; n];
            let mut ac = vec![vec![to_c(0.0, 0.0); n]; n];
            for i in 0..n {
                let s = rng.int(1, 4) * if rng.chance(0.5) { -1 } else { 1 };
                ar[i][p[i]] = Rat::int(s);
                af[i][p[i]] = s as f64 * 0.7;
                ac[i][p[i]] = if rng.chance(0.5) { to_c(0.0, s as f64) } else { to_c(s as f64 * 0.3, -0.4) };
            }
            let br: Vec<Rat> = (0..n).map(|i| Rat::int(i as i64 + 1)).collect();
            let bf: Vec<f64> = (0..n).map(|i| i as f64 + 1.0).collect();
            let bc: Vec<Complex<f64>> = (0..n).map(|i| to_c(i as f64 + 1.0, -(i as f64))).collect();
            check_exact(&ar, &br, "perm", &mut st);
            check_fl::<f64>(&af, &bf, "perm f64", &mut st);
            check_fl::<Complex<f64>>(&ac, &bc, "perm cmplx", &mut st);
        }
    }
    report("all_permutations", &st);
    assert!(st.fails.is_empty());
}

/// the inputs are left untouched where claimed (b is taken by reference) and repeated solves on fresh copies agree
#[test]
fn rhs_not_modified_and_repeatable() {
    let mut rng = Rng::new(707);
    for _ in 0..20_000 {
        let n = 1 + rng.below(7);
        let c = rng.below(N_REAL_CLASSES);
        let (a, int) = gen_real(&mut rng, c, n);
        let b = gen_rhs(&mut rng, &a, int);
        if ref_solve(&a, &b).is_none() {
            continue;
        }
        let bv = buildv(&b);
        let mut m1 = build(&a);
        let x1 = m1.solve_basic(&bv);
        assert_eq!(bv.vec, b);
        let mut m2 = build(&a);
        let x2 = m2.solve_lu(&bv);
        assert_eq!(bv.vec, b);
        let mut m3 = build(&a);
        let x3 = m3.solve_basic(&bv);
        let mut m4 = build(&a);
        let x4 = m4.solve_lu(&bv);
        assert_eq!(x1.size(), n);
        assert_eq!(x2.size(), n);
        for i in 0..n {
            assert_eq!(x1[i].to_bits(), x3[i].to_bits());
            assert_eq!(x2[i].to_bits(), x4[i].to_bits());
        }
    }
}

/// larger exact systems with sparse / structured small-integer entries (more elimination steps, more exchanges)
#[test]
fn exact_rationals_larger() {
    let mut rng = Rng::new(808);
    let mut st = Stats::default();
    let classes: [usize; 7] = [2, 3, 21, 20, 16, 1, 8];
    for it in 0..40_000usize {
        let class = classes[it % classes.len()];
        let n = 7 + rng.below(6);
        let (mut af, int) = gen_real(&mut rng, class, n);
        if class == 1 {
            // thin it out so that the rationals stay small
            for i in 0..n {
                for j in 0..n {
                    if rng.chance(0.55) {
                        af[i][j] = 0.0;
                    }
                }
            }
        }
        let a = to_rat_matrix(&mut rng, &af, int, false);
        let b: Vec<Rat> = (0..n).map(|_| Rat::int(rng.int(-3, 3))).collect();
        check_exact(&a, &b, &format!("rat large class {class}"), &mut st);
    }
    report("exact_rationals_larger", &st);
    assert!(st.cases > 10_000, "too many exact cases discarded: {}", st.cases);
    assert!(st.fails.is_empty());
}

/// the whole system multiplied by one power of two far from 1 (f64: 2^+-990, complex: 2^+-450, i.e. moduli whose
/// squares are still normal numbers): the computed solution must be the same as for the unscaled system, bit for bit
#[test]
fn uniform_extreme_scales() {
    let mut rng = Rng::new(909);
    let mut st = Stats::default();
    for it in 0..60_000usize {
        let class = it % N_REAL_CLASSES;
        if (11..=13).contains(&class) || class == 24 || class == 18 || class == 5 {
            continue;
        }
        let n = 1 + rng.below(6);
        let (ar, int) = gen_real(&mut rng, class, n);
        let br = gen_rhs(&mut rng, &ar, int);
        if br.iter().any(|v| v.abs() > 1e50 || (*v != 0.0 && v.abs() < 1e-50)) {
            continue;
        }
        let k = [-990, -700, 700, 990][rng.below(4)];
        let s = 2f64.powi(k);
        assert!(s > 0.0 && s.is_finite());
        let a: Vec<Vec<f64>> = ar.iter().map(|r| r.iter().map(|v| v * s).collect()).collect();
        let b: Vec<f64> = br.iter().map(|v| v * s).collect();
        check_fl::<f64>(&a, &b, &format!("f64 scaled 2^{k} class {class}"), &mut st);
        // complex
        let (ai, _) = gen_real(&mut rng, class, n);
        let kc = [-450, -300, 300, 450][rng.below(4)];
        let sc = 2f64.powi(kc);
        let ac: Vec<Vec<Complex<f64>>> =
            (0..n).map(|i| (0..n).map(|j| to_c(ar[i][j] * sc, ai[i][j] * sc)).collect()).collect();
        let bc: Vec<Complex<f64>> = (0..n).map(|i| to_c(br[i] * sc, -br[(i + 1) % n] * sc)).collect();
        check_fl::<Complex<f64>>(&ac, &bc, &format!("complex scaled 2^{kc} class {class}"), &mut st);
        // invariance: same bits as the unscaled complex system
        if ref_solve(&ac, &bc).is_some() {
            let a1: Vec<Vec<Complex<f64>>> =
                (0..n).map(|i| (0..n).map(|j| to_c(ar[i][j], ai[i][j])).collect()).collect();
            let b1: Vec<Complex<f64>> = (0..n).map(|i| to_c(br[i], -br[(i + 1) % n])).collect();
            let x_s = build(&ac).solve_basic(&buildv(&bc));
            let x_1 = build(&a1).solve_basic(&buildv(&b1));
            let mut nd = 0.0f64;
            let mut nx = 0.0f64;
            for i in 0..n {
                nd = nd.max((x_s[i] - x_1[i]).mag());
                nx = nx.max(x_1[i].mag());
            }
            if nd > 1e-6 * nx {
                st.fail(format!("complex scaled 2^{kc}: solution changes under uniform scaling by {:.3e}: A={a1:?} b={b1:?}", nd / nx));
            }
        }
    }
    report("uniform_extreme_scales", &st);
    assert!(st.fails.is_empty());
}
