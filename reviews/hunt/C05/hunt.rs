// Adversarial property hunt for C05 (Tridiagonal vs dense twin; solve exact or refuses).
#![allow(dead_code)]
#![allow(clippy::all)]
use ohsl::traits::{Number, One, Signed, Zero};
use ohsl::{Complex, Matrix, Tridiagonal, Vector};
use std::cell::Cell;
use std::collections::BTreeMap;
use std::ops::{Add, AddAssign, Div, DivAssign, Mul, MulAssign, Neg, Sub, SubAssign};
use std::panic::{catch_unwind, AssertUnwindSafe};
use std::sync::Mutex;

// ---------------------------------------------------------------- rng
struct Rng(u64);
impl Rng {
    fn new(seed: u64) -> Rng { Rng(seed.wrapping_mul(0x9E3779B97F4A7C15) | 1) }
    fn next(&mut self) -> u64 {
        let mut x = self.0;
        x ^= x >> 12; x ^= x << 25; x ^= x >> 27;
        self.0 = x;
        x.wrapping_mul(0x2545F4914F6CDD1D)
    }
    fn below(&mut self, n: u64) -> u64 { (self.next() >> 11) % n }
    fn range(&mut self, lo: i64, hi: i64) -> i64 { lo + self.below((hi - lo + 1) as u64) as i64 }
    fn unit(&mut self) -> f64 { (self.next() >> 11) as f64 / (1u64 << 53) as f64 }
    fn sym(&mut self) -> f64 { 2.0 * self.unit() - 1.0 }
    fn pick<X: Copy>(&mut self, xs: &[X]) -> X { xs[self.below(xs.len() as u64) as usize] }
    fn size(&mut self) -> usize {
        // 1..=12 with extra weight on the boundaries
        match self.below(10) { 0 => 1, 1 => 2, 2 => 3, 3 => 12, 4 => 11, _ => 1 + self.below(12) as usize }
    }
}

// ---------------------------------------------------------------- exact rationals on i128
thread_local! { static OVF: Cell<bool> = Cell::new(false); }
fn ovf_set() { OVF.with(|c| c.set(true)); }
fn ovf_take() -> bool { OVF.with(|c| c.replace(false)) }

fn gcd(a: i128, b: i128) -> i128 {
    let (mut a, mut b) = (a.unsigned_abs(), b.unsigned_abs());
    while b != 0 { let t = a % b; a = b; b = t; }
    a as i128
}

#[derive(Clone, Copy, Debug, PartialEq)]
struct Q { n: i128, d: i128 }
impl Q {
    fn new(n: i128, d: i128) -> Q {
        if d == 0 { panic!("Q: zero denominator"); }
        if n == 0 { return Q { n: 0, d: 1 }; }
        let g = gcd(n, d);
        let (mut n, mut d) = (n / g, d / g);
        if d < 0 { n = -n; d = -d; }
        Q { n, d }
    }
    fn int(n: i64) -> Q { Q { n: n as i128, d: 1 } }
    fn to_f64(&self) -> f64 { self.n as f64 / self.d as f64 }
    fn ovf() -> Q { ovf_set(); Q { n: 0, d: 1 } }
    const LIM: i128 = 1i128 << 100;
    fn guard(self) -> Q { if self.n.abs() > Q::LIM || self.d > Q::LIM { Q::ovf() } else { self } }
}
impl Add for Q { type Output = Q; fn add(self, b: Q) -> Q {
    let g = gcd(self.d, b.d); let bd = b.d / g; let ad = self.d / g;
    match (self.n.checked_mul(bd), b.n.checked_mul(ad), self.d.checked_mul(bd)) {
        (Some(x), Some(y), Some(d)) => match x.checked_add(y) { Some(n) => Q::new(n, d).guard(), None => Q::ovf() },
        _ => Q::ovf() } } }
impl Neg for Q { type Output = Q; fn neg(self) -> Q { Q { n: -self.n, d: self.d } } }
impl Sub for Q { type Output = Q; fn sub(self, b: Q) -> Q { self + (-b) } }
impl Mul for Q { type Output = Q; fn mul(self, b: Q) -> Q {
    if self.n == 0 || b.n == 0 { return Q { n: 0, d: 1 }; }
    let g1 = gcd(self.n, b.d); let g2 = gcd(b.n, self.d);
    match ((self.n / g1).checked_mul(b.n / g2), (self.d / g2).checked_mul(b.d / g1)) {
        (Some(n), Some(d)) => Q::new(n, d).guard(), _ => Q::ovf() } } }
impl Div for Q { type Output = Q; fn div(self, b: Q) -> Q {
    if b.n == 0 { panic!("Q: division by zero"); }
    let inv = if b.n < 0 { Q { n: -b.d, d: -b.n } } else { Q { n: b.d, d: b.n } };
    self * inv } }
impl AddAssign for Q { fn add_assign(&mut self, b: Q) { *self = *self + b; } }
impl SubAssign for Q { fn sub_assign(&mut self, b: Q) { *self = *self - b; } }
impl MulAssign for Q { fn mul_assign(&mut self, b: Q) { *self = *self * b; } }
impl DivAssign for Q { fn div_assign(&mut self, b: Q) { *self = *self / b; } }
impl PartialOrd for Q { fn partial_cmp(&self, o: &Q) -> Option<std::cmp::Ordering> {
    match (self.n.checked_mul(o.d), o.n.checked_mul(self.d)) {
        (Some(x), Some(y)) => x.partial_cmp(&y), _ => { ovf_set(); Some(std::cmp::Ordering::Equal) } } } }
impl Zero for Q { fn zero() -> Q { Q { n: 0, d: 1 } } }
impl One for Q { fn one() -> Q { Q { n: 1, d: 1 } } }
impl Number for Q {}
impl Signed for Q { fn abs(&self) -> Q { Q { n: self.n.abs(), d: self.d } } }
impl std::fmt::Display for Q { fn fmt(&self, f: &mut std::fmt::Formatter<'_>) -> std::fmt::Result { write!(f, "{}/{}", self.n, self.d) } }

// complex rationals (oracle only)
#[derive(Clone, Copy, Debug, PartialEq)]
struct CQ { re: Q, im: Q }
impl CQ { fn new(re: Q, im: Q) -> CQ { CQ { re, im } } fn gi(a: i64, b: i64) -> CQ { CQ { re: Q::int(a), im: Q::int(b) } } }
impl Add for CQ { type Output = CQ; fn add(self, b: CQ) -> CQ { CQ::new(self.re + b.re, self.im + b.im) } }
impl Sub for CQ { type Output = CQ; fn sub(self, b: CQ) -> CQ { CQ::new(self.re - b.re, self.im - b.im) } }
impl Neg for CQ { type Output = CQ; fn neg(self) -> CQ { CQ::new(-self.re, -self.im) } }
impl Mul for CQ { type Output = CQ; fn mul(self, b: CQ) -> CQ {
    CQ::new(self.re * b.re - self.im * b.im, self.re * b.im + self.im * b.re) } }
impl Div for CQ { type Output = CQ; fn div(self, b: CQ) -> CQ {
    let den = b.re * b.re + b.im * b.im;
    if den.n == 0 { panic!("CQ: division by zero"); }
    CQ::new((self.re * b.re + self.im * b.im) / den, (self.im * b.re - self.re * b.im) / den) } }

// ---------------------------------------------------------------- oracle field
trait Field: Copy + PartialEq + std::fmt::Debug
    + Add<Output = Self> + Sub<Output = Self> + Mul<Output = Self> + Div<Output = Self> + Neg<Output = Self> {
    fn fzero() -> Self;
    fn fone() -> Self;
    fn fmag(&self) -> f64;
    fn fparts(&self) -> (f64, f64);
    fn is_zero(&self) -> bool { *self == Self::fzero() }
}
impl Field for Q { fn fzero() -> Q { Q::int(0) } fn fone() -> Q { Q::int(1) } fn fmag(&self) -> f64 { self.to_f64().abs() } fn fparts(&self) -> (f64, f64) { (self.to_f64(), 0.0) } }
impl Field for CQ { fn fzero() -> CQ { CQ::gi(0, 0) } fn fone() -> CQ { CQ::gi(1, 0) }
    fn fparts(&self) -> (f64, f64) { (self.re.to_f64(), self.im.to_f64()) }
    fn fmag(&self) -> f64 { (self.re.to_f64().powi(2) + self.im.to_f64().powi(2)).sqrt() } }

type Dn<X> = Vec<Vec<X>>;

/// determinant by Gaussian elimination with row exchanges on a general dense matrix
fn det_dense<F: Field>(a: &Dn<F>) -> F {
    let n = a.len();
    let mut m = a.clone();
    let mut det = F::fone();
    for k in 0..n {
        let mut p = k;
        while p < n && m[p][k].is_zero() { p += 1; }
        if p == n { return F::fzero(); }
        if p != k { m.swap(p, k); det = -det; }
        det = det * m[k][k];
        for i in k + 1..n {
            if m[i][k].is_zero() { continue; }
            let f = m[i][k] / m[k][k];
            for j in k..n { let t = m[k][j]; m[i][j] = m[i][j] - f * t; }
        }
    }
    det
}

/// dense elimination WITHOUT pivoting: index of the first zero pivot, and the pivots met before it
fn first_zero_pivot<F: Field>(a: &Dn<F>) -> (Option<usize>, Vec<F>) {
    let n = a.len();
    let mut m = a.clone();
    let mut piv = vec![];
    for k in 0..n {
        if m[k][k].is_zero() { return (Some(k), piv); }
        piv.push(m[k][k]);
        for i in k + 1..n {
            if m[i][k].is_zero() { continue; }
            let f = m[i][k] / m[k][k];
            for j in k..n { let t = m[k][j]; m[i][j] = m[i][j] - f * t; }
        }
    }
    (None, piv)
}

fn matvec_dense<F: Field>(a: &Dn<F>, v: &[F]) -> Vec<F> {
    a.iter().map(|row| { let mut s = F::fzero(); for (x, y) in row.iter().zip(v) { s = s + *x * *y; } s }).collect()
}

// ---------------------------------------------------------------- library element types
trait Lib: Number + Signed + Copy + std::fmt::Debug + 'static {
    type F: Field;
    const NAME: &'static str;
    const FLOAT: bool;
    fn lift(&self) -> Option<Self::F>;
    fn lower(f: &Self::F) -> Option<Self>;
    fn parts(&self) -> (f64, f64);
    fn mag(&self) -> f64 { let (a, b) = self.parts(); a.hypot(b) }
}
fn f64_to_q(x: f64) -> Option<Q> {
    if !x.is_finite() { return None; }
    if x == 0.0 { return Some(Q::int(0)); }
    let bits = x.to_bits();
    let sign: i128 = if bits >> 63 == 1 { -1 } else { 1 };
    let e = ((bits >> 52) & 0x7ff) as i64;
    let frac = bits & ((1u64 << 52) - 1);
    let (mut m, mut ex) = if e == 0 { (frac as i128, -1074i64) } else { ((frac | (1u64 << 52)) as i128, e - 1075) };
    while m % 2 == 0 { m /= 2; ex += 1; }
    if ex >= 0 { if ex > 40 { return None; } Some(Q { n: sign * (m << ex), d: 1 }) }
    else { if -ex > 90 { return None; } Some(Q { n: sign * m, d: 1i128 << (-ex) }) }
}
fn q_to_f64(q: &Q) -> Option<f64> {
    if q.d & (q.d - 1) != 0 { return None; }
    let mut n = q.n; if n == 0 { return Some(0.0); }
    while n % 2 == 0 { n /= 2; }
    if n.abs() >= (1i128 << 53) { return None; }
    Some(q.n as f64 / q.d as f64)
}
impl Lib for Q { type F = Q; const NAME: &'static str = "Q"; const FLOAT: bool = false;
    fn lift(&self) -> Option<Q> { Some(*self) } fn lower(f: &Q) -> Option<Q> { Some(*f) }
    fn parts(&self) -> (f64, f64) { (self.to_f64(), 0.0) } }
impl Lib for f64 { type F = Q; const NAME: &'static str = "f64"; const FLOAT: bool = true;
    fn lift(&self) -> Option<Q> { f64_to_q(*self) } fn lower(f: &Q) -> Option<f64> { q_to_f64(f) }
    fn parts(&self) -> (f64, f64) { (*self, 0.0) } }
impl Lib for Complex<f64> { type F = CQ; const NAME: &'static str = "Complex<f64>"; const FLOAT: bool = true;
    fn lift(&self) -> Option<CQ> { Some(CQ::new(f64_to_q(self.real)?, f64_to_q(self.imag)?)) }
    fn lower(f: &CQ) -> Option<Self> { Some(Complex::new(q_to_f64(&f.re)?, q_to_f64(&f.im)?)) }
    fn parts(&self) -> (f64, f64) { (self.real, self.imag) } }

// ---------------------------------------------------------------- bookkeeping
#[derive(Default)]
struct Stats { cases: u64, skipped: u64, nfails: u64, fails: Vec<String>, notes: BTreeMap<String, (u64, String)> }
impl Stats {
    fn fail(&mut self, s: String) { self.nfails += 1; if self.fails.len() < 40 { self.fails.push(s); } }
    fn note(&mut self, key: &str, example: impl FnOnce() -> String) {
        let e = self.notes.entry(key.to_string()).or_insert((0, String::new()));
        if e.0 == 0 { e.1 = example(); }
        e.0 += 1;
    }
    fn finish(self, name: &str) {
        eprintln!("== {}: cases={} skipped(overflow)={} failures={}", name, self.cases, self.skipped, self.nfails);
        for (k, (c, ex)) in &self.notes { eprintln!("   note[{}] x{} e.g. {}", k, c, ex); }
        for f in &self.fails { eprintln!("   FAIL {}", f); }
        assert!(self.nfails == 0, "{}: {} failures", name, self.nfails);
    }
}
fn pmsg(e: Box<dyn std::any::Any + Send>) -> String {
    if let Some(s) = e.downcast_ref::<&str>() { s.to_string() }
    else if let Some(s) = e.downcast_ref::<String>() { s.clone() } else { "<non-string panic>".into() }
}
fn guarded<R>(f: impl FnOnce() -> R) -> Result<R, String> { catch_unwind(AssertUnwindSafe(f)).map_err(pmsg) }

static LOCK: Mutex<()> = Mutex::new(());
/// run a hunt with the panic hook silenced (expected panics are part of the property)
fn quiet<R>(f: impl FnOnce() -> R) -> R {
    let _g = LOCK.lock().unwrap_or_else(|e| e.into_inner());
    let old = std::panic::take_hook();
    std::panic::set_hook(Box::new(|_| {}));
    let r = catch_unwind(AssertUnwindSafe(f));
    std::panic::set_hook(old);
    match r { Ok(v) => v, Err(e) => { let m = pmsg(e); panic!("{}", m) } }
}

// ---------------------------------------------------------------- cases and checks
#[derive(Clone, Debug)]
struct Case<T> { sub: Vec<T>, main: Vec<T>, sup: Vec<T> }
impl<T: Copy> Case<T> {
    fn n(&self) -> usize { self.main.len() }
    fn map<U>(&self, f: impl Fn(&T) -> Option<U>) -> Option<Case<U>> {
        Some(Case { sub: self.sub.iter().map(&f).collect::<Option<Vec<U>>>()?,
                    main: self.main.iter().map(&f).collect::<Option<Vec<U>>>()?,
                    sup: self.sup.iter().map(&f).collect::<Option<Vec<U>>>()? })
    }
}
fn build<T: Lib>(c: &Case<T>, how: u32) -> Tridiagonal<T> {
    match how % 4 {
        0 => Tridiagonal::with_vecs(c.sub.clone(), c.main.clone(), c.sup.clone()),
        1 => Tridiagonal::with_vectors(Vector::create(c.sub.clone()), Vector::create(c.main.clone()), Vector::create(c.sup.clone())),
        2 => { let n = c.n(); let mut t = Tridiagonal::<T>::new(n);
               for i in 0..n { t[(i, i)] = c.main[i]; if i + 1 < n { t[(i + 1, i)] = c.sub[i]; t[(i, i + 1)] = c.sup[i]; } } t }
        _ => { let n = c.n(); let mut t = Tridiagonal::<T>::empty(); t.resize(n);
               for i in (0..n).rev() { if i + 1 < n { t[(i, i + 1)] = c.sup[i]; t[(i + 1, i)] = c.sub[i]; } t[(i, i)] = c.main[i]; } t }
    }
}
fn dense<T: Copy>(c: &Case<T>, zero: T) -> Dn<T> {
    let n = c.n();
    let mut m = vec![vec![zero; n]; n];
    for i in 0..n { m[i][i] = c.main[i]; if i + 1 < n { m[i + 1][i] = c.sub[i]; m[i][i + 1] = c.sup[i]; } }
    m
}
fn lift_dense<T: Lib>(m: &Dn<T>) -> Option<Dn<T::F>> {
    m.iter().map(|r| r.iter().map(|x| x.lift()).collect::<Option<Vec<_>>>()).collect()
}
fn crate_dense<T: Lib>(m: &Dn<T>) -> Matrix<T> {
    let n = m.len();
    let mut d = Matrix::<T>::new(n, n, T::zero());
    for i in 0..n { for j in 0..n { d[(i, j)] = m[i][j]; } }
    d
}
fn in_band(i: usize, j: usize) -> bool { i == j || i == j + 1 || i + 1 == j }

#[derive(Clone, Copy, PartialEq, Debug)]
enum SolveMode { Exact, Backward, Lenient, Skip }
#[derive(Clone, Copy)]
struct Opts { det_exact: bool, solve: SolveMode }

fn cmp_matrix<T: Lib>(what: &str, got: &Matrix<T>, want: &Dn<T>, errs: &mut Vec<String>) {
    let n = want.len();
    if got.rows() != n || got.cols() != n { errs.push(format!("{}: shape {}x{} != {}", what, got.rows(), got.cols(), n)); return; }
    for i in 0..n { for j in 0..n { if got[(i, j)] != want[i][j] {
        errs.push(format!("{}: entry ({},{}) = {:?}, dense twin has {:?}", what, i, j, got[(i, j)], want[i][j])); return; } } }
}
fn cmp_tri<T: Lib>(what: &str, got: &Tridiagonal<T>, want: &Dn<T>, errs: &mut Vec<String>) {
    let n = want.len();
    if got.size() != n { errs.push(format!("{}: size {} != {}", what, got.size(), n)); return; }
    if got.maindiagonal().size() != n || got.subdiagonal().size() != n - 1 || got.superdiagonal().size() != n - 1 {
        errs.push(format!("{}: diagonal lengths {},{},{}", what, got.subdiagonal().size(), got.maindiagonal().size(), got.superdiagonal().size())); return; }
    for i in 0..n { for j in 0..n { if in_band(i, j) && got[(i, j)] != want[i][j] {
        errs.push(format!("{}: [({},{})] = {:?}, dense twin has {:?}", what, i, j, got[(i, j)], want[i][j])); return; } } }
    for i in 0..n {
        if got.maindiagonal()[i] != want[i][i] { errs.push(format!("{}: maindiagonal[{}]", what, i)); return; }
        if i + 1 < n && (got.subdiagonal()[i] != want[i + 1][i] || got.superdiagonal()[i] != want[i][i + 1]) {
            errs.push(format!("{}: sub/superdiagonal[{}]", what, i)); return; }
    }
    cmp_matrix(&format!("{}.convert()", what), &got.convert(), want, errs);
}
fn transpose_dn<T: Copy>(m: &Dn<T>) -> Dn<T> { let n = m.len(); (0..n).map(|i| (0..n).map(|j| m[j][i]).collect()).collect() }
fn map2<T: Copy>(a: &Dn<T>, b: &Dn<T>, f: impl Fn(T, T) -> T) -> Dn<T> {
    a.iter().zip(b).map(|(r, s)| r.iter().zip(s).map(|(x, y)| f(*x, *y)).collect()).collect() }
fn map_band<T: Copy>(a: &Dn<T>, f: impl Fn(T) -> T) -> Dn<T> {
    let n = a.len(); (0..n).map(|i| (0..n).map(|j| if in_band(i, j) { f(a[i][j]) } else { a[i][j] }).collect()).collect() }

/// recurrence majorant used as the error scale of a floating determinant
fn det_scale<T: Lib>(c: &Case<T>) -> f64 {
    let n = c.n(); let mut g0 = 1.0f64; let mut g1 = c.main[0].mag();
    for j in 1..n { let g2 = c.main[j].mag() * g1 + c.sub[j - 1].mag() * c.sup[j - 1].mag() * g0; g0 = g1; g1 = g2; }
    g1.max(f64::MIN_POSITIVE)
}

/// every read-only view of t against the dense model m (T arithmetic for one-operation results, exact field for det)
fn check_views<T: Lib>(t: &Tridiagonal<T>, c: &Case<T>, v: &[T], o: &Opts, errs: &mut Vec<String>, st: &mut Stats) {
    let n = c.n();
    let m = dense(c, T::zero());
    cmp_tri("A", t, &m, errs);
    // off-band access: the dense twin has a zero there; a refusal is tolerated, a non-zero value is not
    let probes = [(0usize, 2usize), (2, 0), (0, n - 1), (n - 1, 0), (n / 2, n / 2 + 2), (n / 2 + 2, n / 2)];
    for i in 0..n { for j in 0..n { if !in_band(i, j) && probes.contains(&(i, j)) {
        match guarded(|| t[(i, j)]) { Ok(x) => if x != T::zero() { errs.push(format!("off-band [({},{})] = {:?}", i, j, x)); },
                                      Err(_) => { st.note("off-band index panics (dense twin holds 0)", || format!("n={} ({},{})", n, i, j)); } } } } }
    // out of range must not return a value
    if guarded(|| t[(n, 0)]).is_ok() || guarded(|| t[(0, n)]).is_ok() || guarded(|| t[(n, n)]).is_ok() { errs.push("out-of-range index returned a value".into()); }
    // clone
    cmp_tri("A.clone()", &t.clone(), &m, errs);
    // transpose
    let mt = transpose_dn(&m);
    let tt = t.transpose();
    cmp_tri("A.transpose()", &tt, &mt, errs);
    let mut ti = t.clone(); ti.transpose_in_place();
    cmp_tri("transpose_in_place", &ti, &mt, errs);
    ti.transpose_in_place();
    cmp_tri("transpose twice", &ti, &m, errs);
    cmp_matrix("convert().transpose()", &t.convert().transpose(), &mt, errs);
    // matrix-vector product: by reference, by value, dense twin of the crate, own reference
    let vv = Vector::create(v.to_vec());
    let want: Vec<T> = (0..n).map(|i| { let mut s = T::zero(); for j in 0..n { s = s + m[i][j] * v[j]; } s }).collect();
    let wantt: Vec<T> = (0..n).map(|i| { let mut s = T::zero(); for j in 0..n { s = s + mt[i][j] * v[j]; } s }).collect();
    let p1 = t * &vv; let p2 = t.clone() * vv.clone(); let p3 = &t.convert() * &vv; let p4 = &tt * &vv;
    if p1.size() != n || p2.size() != n { errs.push(format!("product length {} / {}", p1.size(), p2.size())); }
    else { for i in 0..n {
        let bad = |x: T, w: T| if T::FLOAT { (x - w).mag() > 1e-13 * (w.mag() + 1e-300) && x != w } else { x != w };
        if bad(p1[i], want[i]) { errs.push(format!("&A*&v [{}] = {:?}, want {:?}, v={:?}", i, p1[i], want[i], v)); break; }
        if p2[i] != p1[i] { errs.push(format!("A*v (by value) [{}] = {:?} but by reference {:?}", i, p2[i], p1[i])); break; }
        if bad(p3[i], p1[i]) { errs.push(format!("dense twin product [{}] = {:?} vs tridiagonal {:?}", i, p3[i], p1[i])); break; }
        if bad(p4[i], wantt[i]) { errs.push(format!("A^T*v [{}] = {:?}, want {:?}", i, p4[i], wantt[i])); break; }
    } }
    if !T::FLOAT { // exact field cross-check of the product
        if let (Some(lm), Some(lv)) = (lift_dense(&m), v.iter().map(|x| x.lift()).collect::<Option<Vec<_>>>()) {
            let w = matvec_dense(&lm, &lv);
            for i in 0..n { if p1[i].lift() != Some(w[i]) { errs.push(format!("product vs exact oracle at {}", i)); break; } }
        }
    }
    // determinant
    let exact_field = !T::FLOAT || o.det_exact;
    let mut done = false;
    if exact_field || n <= 4 {
        if let Some(lm) = lift_dense(&m) {
            let pre = ovf_take();
            let want = guarded(|| det_dense(&lm));
            let over = ovf_take() || want.is_err();
            let want = want.unwrap_or(<T::F as Field>::fzero());
            if pre { ovf_set(); }
            if over && !T::FLOAT { ovf_set(); }
            if !over {
                done = true;
                let got = t.det(); let gott = tt.det();
                for (name, g) in [("det", got), ("det of transpose", gott)] {
                    if exact_field { if g.lift() != Some(want) { errs.push(format!("{} = {:?}, exact {:?}", name, g, want)); } }
                    else {
                        let sc = det_scale(c);
                        let (wr, wi) = match_parts(&want);
                        let (a, b) = g.parts();
                        let diff = (a - wr).hypot(b - wi);
                        if !(diff <= 1e-12 * sc) { errs.push(format!("{} = {:?}, exact {:?} (diff {:e}, scale {:e})", name, g, want, diff, sc)); }
                    }
                }
            }
        }
    }
    if !done && T::FLOAT {
        // floating reference: dense LU with partial pivoting in complex double arithmetic
        let mut w: Vec<Vec<(f64, f64)>> = m.iter().map(|r| r.iter().map(|x| x.parts()).collect()).collect();
        let mut det = (1.0f64, 0.0f64);
        for k in 0..n {
            let mut p = k; for i in k + 1..n { if cabs(w[i][k]) > cabs(w[p][k]) { p = i; } }
            if cabs(w[p][k]) == 0.0 { det = (0.0, 0.0); break; }
            if p != k { w.swap(p, k); det = (-det.0, -det.1); }
            det = cmul(det, w[k][k]);
            for i in k + 1..n {
                let d = w[k][k]; let den = d.0 * d.0 + d.1 * d.1;
                let f = cmul(w[i][k], (d.0 / den, -d.1 / den));
                for j in k..n { let q = cmul(f, w[k][j]); w[i][j] = (w[i][j].0 - q.0, w[i][j].1 - q.1); }
            }
        }
        let sc = det_scale(c);
        for (name, g) in [("det", t.det()), ("det of transpose", tt.det())] {
            let (a, b) = g.parts();
            let diff = (a - det.0).hypot(b - det.1);
            if !(diff <= 1e-11 * sc + 1e-9 * cabs(det)) { errs.push(format!("{} = {:?}, dense LU gives {:?} (diff {:e}, scale {:e})", name, g, det, diff, sc)); }
        }
    }
}

/// arithmetic of A with B and a scalar s against the element-wise dense twins
fn check_arith<T: Lib>(a: &Case<T>, b: &Case<T>, s: T, how: u32, errs: &mut Vec<String>, st: &mut Stats) {
    let (ma, mb) = (dense(a, T::zero()), dense(b, T::zero()));
    let (ta, tb) = (build(a, how), build(b, how + 1));
    let sum = ta.clone() + tb.clone();
    cmp_tri("A+B", &sum, &map2(&ma, &mb, |x, y| x + y), errs);
    cmp_matrix("dense A + dense B", &(ta.convert() + tb.convert()), &map2(&ma, &mb, |x, y| x + y), errs);
    let dif = ta.clone() - tb.clone();
    cmp_tri("A-B", &dif, &map2(&ma, &mb, |x, y| x - y), errs);
    cmp_matrix("dense A - dense B", &(ta.convert() - tb.convert()), &map2(&ma, &mb, |x, y| x - y), errs);
    cmp_tri("-A", &(-ta.clone()), &map_band(&ma, |x| -x), errs);
    cmp_matrix("-(dense A)", &(-ta.convert()), &map_band(&ma, |x| -x), errs);
    cmp_tri("A*s", &(ta.clone() * s), &map_band(&ma, |x| x * s), errs);
    cmp_matrix("dense A * s", &(ta.convert() * s), &map_band(&ma, |x| x * s), errs);
    if s != T::zero() {
        cmp_tri("A/s", &(ta.clone() / s), &map_band(&ma, |x| x / s), errs);
        cmp_matrix("dense A / s", &(ta.convert() / s), &map_band(&ma, |x| x / s), errs);
        let mut t = ta.clone(); t /= s; cmp_tri("A/=s", &t, &map_band(&ma, |x| x / s), errs);
    }
    let mut t = ta.clone(); t *= s; cmp_tri("A*=s", &t, &map_band(&ma, |x| x * s), errs);
    let mut d = ta.convert(); d *= s; cmp_matrix("dense A *= s", &d, &map_band(&ma, |x| x * s), errs);
    // scalar += / -= : documented as acting on the stored elements only (the band)
    let mut t = ta.clone(); t += s; cmp_tri("A+=s (band)", &t, &map_band(&ma, |x| x + s), errs);
    let mut t2 = ta.clone(); t2 -= s; cmp_tri("A-=s (band)", &t2, &map_band(&ma, |x| x - s), errs);
    if a.n() >= 3 && s != T::zero() {
        let mut d = ta.convert(); d += s;
        if d[(0, 2)] != t.convert()[(0, 2)] { st.note("scalar += differs from dense twin off the band (dense adds s everywhere)", || format!("n={}", a.n())); }
    }
    // operands are not disturbed
    cmp_tri("A after arithmetic", &ta, &ma, errs);
    cmp_tri("B after arithmetic", &tb, &mb, errs);
    // (A+B) x = A x + B x through the products (identity, exact types only)
    if !T::FLOAT {
        let x: Vec<T> = (0..a.n()).map(|i| a.main[i] + b.main[(i + 1) % a.n()] + T::one()).collect();
        let xv = Vector::create(x);
        let l = &sum * &xv; let r1 = &ta * &xv; let r2 = &tb * &xv;
        for i in 0..a.n() { if l[i] != r1[i] + r2[i] { errs.push(format!("(A+B)x != Ax+Bx at {}", i)); break; } }
    }
}

fn match_parts<F: Field>(f: &F) -> (f64, f64) { f.fparts() }
fn cabs(p: (f64, f64)) -> f64 { p.0.hypot(p.1) }
fn cmul(a: (f64, f64), b: (f64, f64)) -> (f64, f64) { (a.0 * b.0 - a.1 * b.1, a.0 * b.1 + a.1 * b.0) }

fn check_solve<T: Lib>(c: &Case<T>, t: &Tridiagonal<T>, r: &[T], o: &Opts, errs: &mut Vec<String>, st: &mut Stats) {
    if o.solve == SolveMode::Skip { return; }
    let n = c.n();
    let m = dense(c, T::zero());
    let rv = Vector::create(r.to_vec());
    let out = guarded(|| t.solve(&rv));
    if let Ok(x) = &out { if x.size() != n { errs.push(format!("solve returned length {}", x.size())); return; } }
    let refusal = |msg: &str| msg.contains("zero pivot") || msg.contains("zero on leading diagonal");
    match o.solve {
        SolveMode::Exact | SolveMode::Lenient => {
            let lm = match lift_dense(&m) { Some(x) => x, None => return };
            let lr = match r.iter().map(|x| x.lift()).collect::<Option<Vec<_>>>() { Some(x) => x, None => return };
            let (fz, piv) = first_zero_pivot(&lm);
            if o.solve == SolveMode::Exact {
                match (fz, &out) {
                    (Some(k), Ok(x)) => errs.push(format!("solve returned {:?} although elimination meets a zero pivot at step {} (r={:?})", x, k, r)),
                    (Some(k), Err(msg)) => if !refusal(msg) { errs.push(format!("zero pivot at step {}: panic message {:?} is not a zero-pivot message", k, msg)); }
                                           else if (k == 0) != msg.contains("leading diagonal") { st.note("refusal message kind vs step", || format!("k={} msg={}", k, msg)); },
                    (None, Err(msg)) => errs.push(format!("solve panicked ({:?}) although no zero pivot arises (r={:?})", msg, r)),
                    (None, Ok(x)) => {
                        match (0..n).map(|i| x[i].lift()).collect::<Option<Vec<_>>>() {
                            None => errs.push(format!("solution not finite: {:?}", x)),
                            Some(lx) => { let ax = matvec_dense(&lm, &lx);
                                if ax != lr { errs.push(format!("A x != r exactly: x={:?} r={:?}", x, r)); } }
                        }
                    }
                }
            } else {
                match (fz, &out) {
                    (Some(k), Ok(x)) => st.note("f64: exactly singular leading minor but rounded pivot non-zero, value returned", || format!("k={} {:?} r={:?} x={:?}", k, c, r, x)),
                    (Some(_), Err(msg)) => if !refusal(msg) { errs.push(format!("unexpected panic {:?}", msg)); },
                    (None, Err(msg)) => { let minp = piv.iter().map(|p| p.fmag()).fold(f64::INFINITY, f64::min);
                        if minp > 1e-9 || !refusal(msg) { errs.push(format!("solve panicked ({:?}) although exact pivots are all non-zero (min |pivot| {:e})", msg, minp)); } },
                    (None, Ok(x)) => {
                        let minp = piv.iter().map(|p| p.fmag()).fold(f64::INFINITY, f64::min);
                        let maxp = piv.iter().map(|p| p.fmag()).fold(0.0, f64::max);
                        if minp >= 1e-2 {
                            // norm-wise relative residual (rows with only rounding noise must not dominate)
                            let (mut rmax, mut bmax) = (0.0f64, 1e-300f64);
                            for i in 0..n {
                                let mut res = r[i].parts(); let mut bound = cabs(res);
                                for j in 0..n { let p = cmul(m[i][j].parts(), x[j].parts()); res = (res.0 - p.0, res.1 - p.1); bound += cabs(p); }
                                if !(cabs(res) <= rmax) { rmax = cabs(res); }
                                if bound > bmax { bmax = bound; }
                            }
                            let worst = rmax / bmax;
                            // growth-aware, generous
                            let tol = 1e-13 * (1.0 + maxp / minp).powi(2) * (n as f64);
                            if !(worst <= tol) { errs.push(format!("large residual {:e} (tol {:e}) x={:?} r={:?}", worst, tol, x, r)); }
                        }
                    }
                }
            }
        }
        SolveMode::Backward => {
            match &out {
                Err(msg) => errs.push(format!("diagonally dominant system refused: {:?} r={:?}", msg, r)),
                Ok(x) => {
                    for i in 0..n {
                        let mut res = r[i].parts(); let mut bound = 0.0;
                        for j in 0..n { let p = cmul(m[i][j].parts(), x[j].parts()); res = (res.0 - p.0, res.1 - p.1); bound += cabs(p); }
                        let lim = 200.0 * f64::EPSILON * bound + 1e-300;
                        if !(cabs(res) <= lim) { errs.push(format!("row {}: residual {:e} > 200 eps (|A||x|)_i = {:e}; x={:?} r={:?}", i, cabs(res), lim, x, r)); break; }
                    }
                }
            }
        }
        SolveMode::Skip => {}
    }
    // wrong-length right-hand side must be rejected
    let mut bad = r.to_vec(); bad.push(T::one());
    if guarded(|| t.solve(&Vector::create(bad))).is_ok() { errs.push("solve accepted a right-hand side of length n+1".into()); }
}

fn check_all<T: Lib>(tag: &str, a: &Case<T>, b: &Case<T>, s: T, v: &[T], rhs: &[Vec<T>], o: &Opts, how: u32, st: &mut Stats) {
    ovf_take();
    st.cases += 1;
    let mut errs: Vec<String> = vec![];
    let res = guarded(|| {
        let t = build(a, how);
        check_views(&t, a, v, o, &mut errs, st);
        check_arith(a, b, s, how, &mut errs, st);
        for r in rhs { check_solve(a, &t, r, o, &mut errs, st); }
        // nothing above may have changed t
        cmp_tri("A after all reads", &t, &dense(a, T::zero()), &mut errs);
    });
    if ovf_take() { st.skipped += 1; return; }
    if let Err(p) = res { errs.push(format!("unexpected panic: {}", p)); }
    for e in errs.into_iter().take(3) {
        st.fail(format!("[{}] T={} n={} sub={:?} main={:?} sup={:?} :: {}", tag, T::NAME, a.n(), a.sub, a.main, a.sup, e));
    }
}

// ---------------------------------------------------------------- generators (exact field)
fn qi(n: i64) -> Q { Q::int(n) }
fn gen_q_val(rng: &mut Rng, class: u32) -> Q {
    match class {
        0 => qi(rng.range(-3, 3)),
        1 => qi(rng.range(-1, 1)),
        2 => Q::new(rng.range(-6, 6) as i128, rng.range(1, 4) as i128),
        3 => { let k = rng.range(0, 6); let s = if rng.below(2) == 0 { 1 } else { -1 }; if rng.below(2) == 0 { Q::new(s << k, 1) } else { Q::new(s, 1 << k) } }
        4 => qi(rng.range(-1000, 1000)),
        5 => qi(rng.range(0, 1)),
        _ => Q::new(rng.range(-9, 9) as i128, rng.pick(&[1i128, 2, 4, 8])),
    }
}
fn random_case_q(rng: &mut Rng, n: usize, class: u32) -> Case<Q> {
    Case { sub: (0..n - 1).map(|_| gen_q_val(rng, class)).collect(), main: (0..n).map(|_| gen_q_val(rng, class)).collect(),
           sup: (0..n - 1).map(|_| gen_q_val(rng, class)).collect() }
}
/// structured families
fn structured_case_q(rng: &mut Rng, n: usize, fam: u32) -> Case<Q> {
    let cls0 = rng.pick(&[0u32, 2, 6]);
    let mut c = random_case_q(rng, n, cls0);
    match fam {
        0 => { let (a, b, d) = (qi(rng.range(-2, 2)), qi(rng.range(-2, 2)), qi(rng.range(-2, 2))); // Toeplitz
               c = Case { sub: vec![a; n - 1], main: vec![b; n], sup: vec![d; n - 1] }; }
        1 => { for x in c.sub.iter_mut() { *x = qi(0); } }
        2 => { for x in c.sup.iter_mut() { *x = qi(0); } }
        3 => { for x in c.sub.iter_mut() { *x = qi(0); } for x in c.sup.iter_mut() { *x = qi(0); } }
        4 => { for x in c.main.iter_mut() { *x = qi(0); } }
        5 => { let k = rng.below(n as u64) as usize; c.main[k] = qi(0); if n > 1 { let k = rng.below(n as u64 - 1) as usize; if rng.below(2) == 0 { c.sub[k] = qi(0) } else { c.sup[k] = qi(0) } } }
        6 => { c.sup = c.sub.clone(); } // symmetric
        7 => { c.sup = c.sub.iter().map(|x| -*x).collect(); } // skew off-diagonals
        8 => { // strictly diagonally dominant by rows
               for i in 0..n { let mut s = qi(1); if i > 0 { s = s + c.sub[i - 1].abs(); } if i + 1 < n { s = s + c.sup[i].abs(); }
                   c.main[i] = if rng.below(2) == 0 { s } else { -s }; } }
        9 => { // (1,1,1)-like: singular leading minors at regular steps
               let a = qi(rng.pick(&[1i64, -1])); c = Case { sub: vec![a; n - 1], main: vec![qi(rng.pick(&[1i64, -1, 0])); n], sup: vec![a; n - 1] }; }
        10 => { // zero main, unit off-diagonals (permutation-like): pivot 0 at step 0
                c = Case { sub: vec![qi(1); n - 1], main: vec![qi(0); n], sup: vec![qi(1); n - 1] }; }
        11 => { // identity plus one perturbation
                c = Case { sub: vec![qi(0); n - 1], main: vec![qi(1); n], sup: vec![qi(0); n - 1] };
                let k = rng.below(n as u64) as usize; c.main[k] = gen_q_val(rng, 0); }
        12 => { // alternating signs / sorted magnitudes
                for i in 0..n { c.main[i] = qi((i as i64 + 1) * if i % 2 == 0 { 1 } else { -1 }); }
                for i in 0..n - 1 { c.sub[i] = qi(n as i64 - i as i64); c.sup[i] = qi(i as i64 - 3); } }
        _ => { // second-difference operator scaled
                let h = Q::new(1, rng.range(1, 4) as i128); c = Case { sub: vec![h; n - 1], main: vec![qi(-2) * h; n], sup: vec![h; n - 1] }; }
    }
    c
}
/// choose the pivots; `zero_at` = step whose pivot is made exactly zero (later rows arbitrary)
fn designed<F: Field>(rng: &mut Rng, n: usize, zero_at: Option<usize>, betas: &[F], offs: &[F]) -> Case<F> {
    let (mut sub, mut main, mut sup) = (vec![], vec![], vec![]);
    let mut prev = F::fone(); let mut dead = false;
    for j in 0..n {
        if j > 0 { sub.push(rng.pick(offs)); sup.push(rng.pick(offs)); }
        if dead { main.push(rng.pick(offs)); continue; }
        let beta = if Some(j) == zero_at { F::fzero() } else { rng.pick(betas) };
        main.push(if j == 0 { beta } else { beta + sub[j - 1] * sup[j - 1] / prev });
        if beta.is_zero() { dead = true; } else { prev = beta; }
    }
    Case { sub, main, sup }
}
fn q_betas() -> Vec<Q> { let mut v = vec![]; for k in [1i128, 2, 4] { for s in [1i128, -1] { v.push(Q::new(s * k, 1)); v.push(Q::new(s, k)); } } v }
fn q_offs() -> Vec<Q> { (-3..=3).map(qi).collect() }
fn cq_betas() -> Vec<CQ> {
    let h = Q::new(1, 2);
    let mut v = vec![CQ::gi(1, 0), CQ::gi(-1, 0), CQ::gi(0, 1), CQ::gi(0, -1), CQ::gi(1, 1), CQ::gi(1, -1), CQ::gi(-1, 1), CQ::gi(-1, -1),
                     CQ::gi(2, 0), CQ::gi(0, -2), CQ::gi(2, 2), CQ::gi(0, 4)];
    v.push(CQ::new(h, qi(0))); v.push(CQ::new(qi(0), -h)); v.push(CQ::new(h, h)); v.push(CQ::new(-h, h));
    v
}
fn cq_offs() -> Vec<CQ> { let mut v = vec![]; for a in -2..=2 { for b in -2..=2 { v.push(CQ::gi(a, b)); } } v }

fn vec_q(rng: &mut Rng, n: usize, class: u32) -> Vec<Q> { (0..n).map(|_| gen_q_val(rng, class)).collect() }
fn rhs_set<F: Field>(a: &Case<F>, xs: &[Vec<F>], extra: &[Vec<F>]) -> Vec<Vec<F>> {
    let m = dense(a, F::fzero());
    let mut out: Vec<Vec<F>> = xs.iter().map(|x| matvec_dense(&m, x)).collect();
    out.extend(extra.iter().cloned());
    out
}
fn nonzero_q(rng: &mut Rng, class: u32) -> Q { loop { let s = gen_q_val(rng, class); if s.n != 0 { return s; } } }

/// run one exact-field case at T = Q, and at T = f64 when every number is exactly representable
fn run_q_case(tag: &str, rng: &mut Rng, a: &Case<Q>, f64_solve: SolveMode, stq: &mut Stats, stf: &mut Stats) {
    let n = a.n();
    let dyadic = a.sub.iter().chain(&a.main).chain(&a.sup).all(|q| q.d & (q.d - 1) == 0);
    let cls = if dyadic { rng.pick(&[0u32, 6, 3]) } else { rng.pick(&[0u32, 2, 3]) };
    let b = random_case_q(rng, n, cls);
    let s = if rng.below(8) == 0 { qi(0) } else { nonzero_q(rng, cls) };
    let v = vec_q(rng, n, cls);
    let x1 = vec_q(rng, n, 0);
    let mut e = vec![qi(0); n]; e[rng.below(n as u64) as usize] = qi(1);
    let rhs = rhs_set(a, &[x1], &[vec_q(rng, n, cls), vec![qi(0); n], e]);
    let how = rng.next() as u32;
    check_all(tag, a, &b, s, &v, &rhs, &Opts { det_exact: true, solve: SolveMode::Exact }, how, stq);
    // f64 twin
    let lo = |c: &Case<Q>| c.map(|q| q_to_f64(q));
    if let (Some(af), Some(bf), Some(sf)) = (lo(a), lo(&b), q_to_f64(&s)) {
        let vf: Option<Vec<f64>> = v.iter().map(q_to_f64).collect();
        let rf: Option<Vec<Vec<f64>>> = rhs.iter().map(|r| r.iter().map(q_to_f64).collect()).collect();
        if let (Some(vf), Some(rf)) = (vf, rf) {
            let ints = a.sub.iter().chain(&a.main).chain(&a.sup).all(|q| q.d == 1 && q.n.abs() <= 8);
            check_all(tag, &af, &bf, sf, &vf, &rf, &Opts { det_exact: ints, solve: f64_solve }, how, stf);
        }
    }
}

// ---------------------------------------------------------------- hunts
fn odometer(digits: usize, base: usize, mut f: impl FnMut(&[usize])) {
    let mut d = vec![0usize; digits];
    loop {
        f(&d);
        let mut k = 0;
        loop { if k == digits { return; } d[k] += 1; if d[k] < base { break; } d[k] = 0; k += 1; }
    }
}
fn case_from_digits(n: usize, d: &[usize], vals: &[i64]) -> Case<Q> {
    Case { sub: (0..n - 1).map(|i| qi(vals[d[i]])).collect(), main: (0..n).map(|i| qi(vals[d[n - 1 + i]])).collect(),
           sup: (0..n - 1).map(|i| qi(vals[d[2 * n - 1 + i]])).collect() }
}

#[test]
fn exhaustive_small_sizes() {
    quiet(|| {
        let (mut sq, mut sf) = (Stats::default(), Stats::default());
        let mut rng = Rng::new(11);
        for (n, vals) in [(1usize, vec![-3i64, -2, -1, 0, 1, 2, 3]), (2, vec![-2, -1, 0, 1, 2]), (3, vec![-1, 0, 1]), (3, vec![0, 1, 2, -3]),
                          (4, vec![-1, 0, 1]), (5, vec![0, 1]), (6, vec![0, 1]), (5, vec![0, -1]), (7, vec![0, 1])] {
            if n == 7 { // 2^19 is too many: sample the symmetric ones (sub == sup), 2^13
                odometer(13, 2, |d| { let mut c = case_from_digits(7, &[&d[0..6], &d[6..13], &d[0..6]].concat(), &vals); c.sup = c.sub.clone();
                    run_q_case("exh7sym", &mut rng, &c, SolveMode::Lenient, &mut sq, &mut sf); });
                continue;
            }
            odometer(3 * n - 2, vals.len(), |d| { let c = case_from_digits(n, d, &vals);
                run_q_case("exhaustive", &mut rng, &c, SolveMode::Lenient, &mut sq, &mut sf); });
        }
        // n = 1 and n = 2 with fractions
        for p in -6..=6 { for q in 1..=4 { let c = Case { sub: vec![], main: vec![Q::new(p, q)], sup: vec![] };
            run_q_case("n1frac", &mut rng, &c, SolveMode::Lenient, &mut sq, &mut sf); } }
        for _ in 0..20000 { let c = random_case_q(&mut rng, 2, 2); run_q_case("n2frac", &mut rng, &c, SolveMode::Lenient, &mut sq, &mut sf); }
        let (cq, cf) = (sq.cases, sf.cases);
        eprintln!("exhaustive: Q cases {} f64 cases {}", cq, cf);
        sq.finish("exhaustive/Q"); sf.finish("exhaustive/f64");
    });
}

#[test]
fn random_and_structured() {
    quiet(|| {
        let (mut sq, mut sf) = (Stats::default(), Stats::default());
        let mut rng = Rng::new(22);
        for round in 0..1200 {
            for n in 1..=12usize {
                for class in 0..7u32 {
                    if class == 4 && n > 7 { continue; }
                    let c = random_case_q(&mut rng, n, class);
                    run_q_case("random", &mut rng, &c, SolveMode::Lenient, &mut sq, &mut sf);
                }
                if round % 2 == 0 { for fam in 0..14u32 {
                    let c = structured_case_q(&mut rng, n, fam);
                    run_q_case(&format!("family{}", fam), &mut rng, &c, SolveMode::Lenient, &mut sq, &mut sf);
                } }
            }
        }
        sq.finish("random/Q"); sf.finish("random/f64");
    });
}

#[test]
fn designed_pivots_real() {
    quiet(|| {
        let (mut sq, mut sf) = (Stats::default(), Stats::default());
        let mut rng = Rng::new(33);
        let (betas, offs) = (q_betas(), q_offs());
        for _round in 0..400 {
            for n in 1..=12usize {
                for z in 0..=n {
                    let zero_at = if z == n { None } else { Some(z) };
                    let c = designed(&mut rng, n, zero_at, &betas, &offs);
                    // sanity of the construction against the oracle
                    let (fz, _) = first_zero_pivot(&dense(&c, qi(0)));
                    assert_eq!(fz, zero_at, "construction");
                    run_q_case("designed", &mut rng, &c, SolveMode::Exact, &mut sq, &mut sf);
                }
            }
        }
        assert!(sf.cases * 10 > sq.cases * 9, "f64 twins mostly representable: {} of {}", sf.cases, sq.cases);
        sq.finish("designed/Q"); sf.finish("designed/f64");
    });
}

fn lower_case<T: Lib>(c: &Case<T::F>) -> Option<Case<T>> { c.map(|x| T::lower(x)) }

#[test]
fn designed_pivots_complex() {
    quiet(|| {
        let mut st = Stats::default();
        let mut rng = Rng::new(44);
        let (betas, offs) = (cq_betas(), cq_offs());
        for _round in 0..300 {
            for n in 1..=12usize {
                for z in 0..=n {
                    let zero_at = if z == n { None } else { Some(z) };
                    let c = designed(&mut rng, n, zero_at, &betas, &offs);
                    let (fz, _) = first_zero_pivot(&dense(&c, CQ::gi(0, 0)));
                    assert_eq!(fz, zero_at, "construction");
                    let b = Case { sub: (0..n - 1).map(|_| rng.pick(&offs)).collect(), main: (0..n).map(|_| rng.pick(&offs)).collect(), sup: (0..n - 1).map(|_| rng.pick(&offs)).collect() };
                    let s = rng.pick(&betas);
                    let v: Vec<CQ> = (0..n).map(|_| rng.pick(&offs)).collect();
                    let x: Vec<CQ> = (0..n).map(|_| rng.pick(&offs)).collect();
                    let mut e = vec![CQ::gi(0, 0); n]; e[rng.below(n as u64) as usize] = CQ::gi(0, 1);
                    let rhs = rhs_set(&c, &[x], &[v.clone(), vec![CQ::gi(0, 0); n], e]);
                    let lo = |q: &Vec<CQ>| q.iter().map(|z| <Complex<f64> as Lib>::lower(z)).collect::<Option<Vec<_>>>();
                    if let (Some(cf), Some(bf), Some(sf), Some(vf)) = (lower_case::<Complex<f64>>(&c), lower_case::<Complex<f64>>(&b), <Complex<f64> as Lib>::lower(&s), lo(&v)) {
                        if let Some(rf) = rhs.iter().map(|r| lo(r)).collect::<Option<Vec<_>>>() {
                            let ints = c.main.iter().all(|z| z.re.d == 1 && z.im.d == 1 && z.re.n.abs() <= 8 && z.im.n.abs() <= 8);
                            check_all("designed", &cf, &bf, sf, &vf, &rf, &Opts { det_exact: ints, solve: SolveMode::Exact }, rng.next() as u32, &mut st);
                            // conj view
                            let t = build(&cf, 0).conj();
                            let mut errs = vec![];
                            let want: Dn<Complex<f64>> = dense(&cf, Complex::new(0.0, 0.0)).iter().map(|r| r.iter().map(|z| Complex::new(z.real, -z.imag)).collect()).collect();
                            cmp_tri("conj", &t, &want, &mut errs);
                            for e in errs { st.fail(format!("conj n={} {:?}: {}", n, cf, e)); }
                        }
                    }
                }
            }
        }
        assert!(st.cases > 20000);
        st.finish("designed/Complex<f64>");
    });
}

#[test]
fn random_gaussian_integers_complex() {
    quiet(|| {
        let mut st = Stats::default();
        let mut rng = Rng::new(55);
        let offs = cq_offs();
        let small: Vec<CQ> = vec![CQ::gi(0, 0), CQ::gi(1, 0), CQ::gi(0, 1), CQ::gi(-1, 0), CQ::gi(0, -1), CQ::gi(1, 1)];
        for round in 0..1500 {
            for n in 1..=12usize {
                let pool = if round % 3 == 0 { &small } else { &offs };
                let mut g = |k: usize| -> Vec<CQ> { (0..k).map(|_| rng.pick(pool)).collect() };
                let c = Case { sub: g(n - 1), main: g(n), sup: g(n - 1) };
                let b = Case { sub: g(n - 1), main: g(n), sup: g(n - 1) };
                let v = g(n); let x = g(n); let s = CQ::gi(1, -2);
                let rhs = rhs_set(&c, &[x], &[g(n)]);
                let lo = |q: &Vec<CQ>| q.iter().map(|z| <Complex<f64> as Lib>::lower(z)).collect::<Option<Vec<_>>>().unwrap();
                let (cf, bf) = (lower_case::<Complex<f64>>(&c).unwrap(), lower_case::<Complex<f64>>(&b).unwrap());
                let rf: Vec<Vec<Complex<f64>>> = rhs.iter().map(|r| lo(r)).collect();
                check_all("gauss-int", &cf, &bf, <Complex<f64> as Lib>::lower(&s).unwrap(), &lo(&v), &rf, &Opts { det_exact: true, solve: SolveMode::Lenient }, rng.next() as u32, &mut st);
            }
        }
        st.finish("gaussian integers/Complex<f64>");
    });
}

// ---------------------------------------------------------------- floating diagonally dominant systems
trait FromParts: Lib { fn mk(re: f64, im: f64) -> Self; }
impl FromParts for f64 { fn mk(re: f64, _im: f64) -> f64 { re } }
impl FromParts for Complex<f64> { fn mk(re: f64, im: f64) -> Self { Complex::new(re, im) } }

fn rand_float<T: FromParts>(rng: &mut Rng, scale: f64) -> T {
    match rng.below(8) { 0 => T::mk(0.0, 0.0), 1 => T::mk(scale, 0.0), 2 => T::mk(0.0, scale), 3 => T::mk(-scale * 0.5, 0.0),
        _ => T::mk(scale * rng.sym(), scale * rng.sym()) }
}
fn dominant_case<T: FromParts>(rng: &mut Rng, n: usize, by_columns: bool) -> Case<T> {
    let spread = rng.pick(&[0i64, 0, 1, 3, 6]);
    let mut sub: Vec<T> = vec![]; let mut sup: Vec<T> = vec![]; let mut main: Vec<T> = vec![];
    let scales: Vec<f64> = (0..n).map(|_| 10f64.powi(rng.range(-spread, spread) as i32)).collect();
    // entry (i,j) is scaled by row i (row dominance) or column j (column dominance)
    for i in 0..n.saturating_sub(1) {
        sub.push(rand_float::<T>(rng, if by_columns { scales[i] } else { scales[i + 1] }));
        sup.push(rand_float::<T>(rng, if by_columns { scales[i + 1] } else { scales[i] }));
    }
    let margin = rng.pick(&[1e-10, 1e-6, 1e-2, 0.5, 1.0, 100.0]);
    for i in 0..n {
        let mut s = 0.0;
        if by_columns { if i > 0 { s += sup[i - 1].mag(); } if i + 1 < n { s += sub[i].mag(); } }
        else { if i > 0 { s += sub[i - 1].mag(); } if i + 1 < n { s += sup[i].mag(); } }
        let r = if s == 0.0 { scales[i] } else { s * (1.0 + margin) };
        let th = rng.unit() * std::f64::consts::TAU;
        main.push(match rng.below(3) { 0 => T::mk(r, 0.0), 1 => T::mk(-r, 0.0), _ => if T::NAME == "f64" { T::mk(-r, 0.0) } else { T::mk(r * th.cos(), r * th.sin()) } });
        // complex rotation can lose an ulp of modulus: push it back over the threshold
        if main[i].mag() < r { let (a, b) = main[i].parts(); main[i] = T::mk(a * (1.0 + 4.0 * f64::EPSILON), b * (1.0 + 4.0 * f64::EPSILON)); }
    }
    Case { sub, main, sup }
}
fn dominant_hunt<T: FromParts>(seed: u64, rounds: usize) -> Stats {
    let mut st = Stats::default();
    let mut rng = Rng::new(seed);
    for _ in 0..rounds {
        for n in 1..=12usize {
            for by_columns in [false, true] {
                let a = dominant_case::<T>(&mut rng, n, by_columns);
                let b = dominant_case::<T>(&mut rng, n, by_columns);
                let s: T = loop { let s = rand_float::<T>(&mut rng, 3.0); if s != T::zero() { break s; } };
                let v: Vec<T> = (0..n).map(|_| rand_float::<T>(&mut rng, 2.0)).collect();
                let rs = 10f64.powi(rng.range(-6, 6) as i32);
                let mut e = vec![T::zero(); n]; e[rng.below(n as u64) as usize] = T::one();
                let rhs = vec![(0..n).map(|_| rand_float::<T>(&mut rng, rs)).collect::<Vec<T>>(), e, vec![T::zero(); n]];
                check_all(if by_columns { "col-dominant" } else { "row-dominant" }, &a, &b, s, &v, &rhs,
                          &Opts { det_exact: false, solve: SolveMode::Backward }, rng.next() as u32, &mut st);
            }
        }
    }
    st
}
#[test]
fn diagonally_dominant_f64() { quiet(|| dominant_hunt::<f64>(66, 3000).finish("dominant/f64")); }
#[test]
fn diagonally_dominant_complex() { quiet(|| dominant_hunt::<Complex<f64>>(77, 2000).finish("dominant/Complex<f64>")); }

// ---------------------------------------------------------------- f64-only forms and general float matrices
#[test]
fn f64_left_scalar_and_general_floats() {
    quiet(|| {
        let mut st = Stats::default();
        let mut rng = Rng::new(88);
        for _ in 0..3000 {
            for n in 1..=12usize {
                let sc = 10f64.powi(rng.range(-3, 3) as i32);
                let mut g = |k: usize| -> Vec<f64> { (0..k).map(|_| rand_float::<f64>(&mut rng, sc)).collect() };
                let a = Case { sub: g(n - 1), main: g(n), sup: g(n - 1) };
                let b = Case { sub: g(n - 1), main: g(n), sup: g(n - 1) };
                let v = g(n); let s = 1.0 + rng.unit();
                check_all("general float", &a, &b, s, &v, &[], &Opts { det_exact: false, solve: SolveMode::Skip }, rng.next() as u32, &mut st);
                let t = build(&a, rng.next() as u32);
                let l = s * t.clone(); let r = t.clone() * s;
                let mut errs = vec![];
                cmp_tri("s*A", &l, &map_band(&dense(&a, 0.0), |x| s * x), &mut errs);
                cmp_tri("A*s", &r, &map_band(&dense(&a, 0.0), |x| x * s), &mut errs);
                cmp_matrix("s * dense A", &(s * t.convert()), &map_band(&dense(&a, 0.0), |x| s * x), &mut errs);
                for e in errs { st.fail(format!("n={} {:?}: {}", n, a, e)); }
            }
        }
        st.finish("general floats / left scalar");
    });
}

// ---------------------------------------------------------------- histories on one object
fn history<T: Lib>(rng: &mut Rng, val: &dyn Fn(&mut Rng) -> T, scal: &dyn Fn(&mut Rng) -> T, o: &Opts, steps: usize, st: &mut Stats) {
    let mut n = rng.size();
    let mut model: Case<T> = Case { sub: vec![T::zero(); n - 1], main: vec![T::zero(); n], sup: vec![T::zero(); n - 1] };
    let mut t = Tridiagonal::<T>::new(n);
    let mut log: Vec<String> = vec![];
    ovf_take();
    for step in 0..steps {
        let op = rng.below(16);
        let mut errs: Vec<String> = vec![];
        let res = guarded(|| {
            match op {
                0 | 1 | 2 => { // write one band entry through index_mut
                    let i = rng.below(n as u64) as usize; let x = val(rng);
                    let kind = if n == 1 { 0 } else { rng.below(3) };
                    match kind {
                        0 => { t[(i, i)] = x; model.main[i] = x; log.push(format!("[({0},{0})]={1:?}", i, x)); }
                        1 => { let i = i.min(n - 2); t[(i + 1, i)] = x; model.sub[i] = x; log.push(format!("[({},{})]={:?}", i + 1, i, x)); }
                        _ => { let i = i.min(n - 2); t[(i, i + 1)] = x; model.sup[i] = x; log.push(format!("[({},{})]={:?}", i, i + 1, x)); }
                    }
                }
                3 => { let s = scal(rng); t += s; for x in model.sub.iter_mut().chain(model.main.iter_mut()).chain(model.sup.iter_mut()) { *x = *x + s; } log.push(format!("+={:?}", s)); }
                4 => { let s = scal(rng); t -= s; for x in model.sub.iter_mut().chain(model.main.iter_mut()).chain(model.sup.iter_mut()) { *x = *x - s; } log.push(format!("-={:?}", s)); }
                5 => { let s = scal(rng); t *= s; for x in model.sub.iter_mut().chain(model.main.iter_mut()).chain(model.sup.iter_mut()) { *x = *x * s; } log.push(format!("*={:?}", s)); }
                6 => { let s = scal(rng); if s != T::zero() { t /= s; for x in model.sub.iter_mut().chain(model.main.iter_mut()).chain(model.sup.iter_mut()) { *x = *x / s; } log.push(format!("/={:?}", s)); } }
                7 => { t.transpose_in_place(); std::mem::swap(&mut model.sub, &mut model.sup); log.push("transpose_in_place".into()); }
                8 => { t = t.transpose(); std::mem::swap(&mut model.sub, &mut model.sup); log.push("=transpose()".into()); }
                9 => { t = -t.clone(); for x in model.sub.iter_mut().chain(model.main.iter_mut()).chain(model.sup.iter_mut()) { *x = -*x; } log.push("neg".into()); }
                10 | 11 => { let other: Case<T> = Case { sub: (0..n - 1).map(|_| val(rng)).collect(), main: (0..n).map(|_| val(rng)).collect(), sup: (0..n - 1).map(|_| val(rng)).collect() };
                    let ot = build(&other, rng.next() as u32);
                    let plus = op == 10;
                    t = if plus { t.clone() + ot } else { t.clone() - ot };
                    let f = |x: T, y: T| if plus { x + y } else { x - y };
                    for i in 0..n { model.main[i] = f(model.main[i], other.main[i]); if i + 1 < n { model.sub[i] = f(model.sub[i], other.sub[i]); model.sup[i] = f(model.sup[i], other.sup[i]); } }
                    log.push(format!("{} {:?}", if plus { "+" } else { "-" }, other)); }
                12 => { let s = scal(rng); t = t.clone() * s; for x in model.sub.iter_mut().chain(model.main.iter_mut()).chain(model.sup.iter_mut()) { *x = *x * s; } log.push(format!("*{:?}", s)); }
                13 => { if rng.below(4) == 0 { n = rng.size(); t.resize(n); model = Case { sub: vec![T::zero(); n - 1], main: vec![T::zero(); n], sup: vec![T::zero(); n - 1] }; log.push(format!("resize({})", n)); } }
                14 => { // a solve in the middle must not change anything
                    let r = Vector::create((0..n).map(|_| val(rng)).collect::<Vec<T>>()); let _ = guarded(|| t.solve(&r)); log.push("solve".into()); }
                _ => { let tt = t.clone(); t = tt; log.push("clone".into()); }
            }
            let v: Vec<T> = (0..n).map(|_| val(rng)).collect();
            check_views(&t, &model, &v, o, &mut errs, st);
            let x: Vec<T> = (0..n).map(|_| val(rng)).collect();
            let r: Vec<T> = { let m = dense(&model, T::zero()); (0..n).map(|i| { let mut s = T::zero(); for j in 0..n { s = s + m[i][j] * x[j]; } s }).collect() };
            check_solve(&model, &t, &r, o, &mut errs, st);
        });
        st.cases += 1;
        if ovf_take() { st.skipped += 1; return; }
        if let Err(p) = res { errs.push(format!("unexpected panic: {}", p)); }
        if !errs.is_empty() {
            let tail: Vec<String> = log.iter().rev().take(12).rev().cloned().collect();
            st.fail(format!("[history] T={} step {} n={} model={:?} last ops={:?} :: {}", T::NAME, step, n, model, tail, errs[0]));
            return;
        }
    }
}

#[test]
fn histories() {
    quiet(|| {
        let mut rng = Rng::new(99);
        let mut sq = Stats::default();
        for _ in 0..2500 {
            history::<Q>(&mut rng, &|r| gen_q_val(r, 0), &|r| r.pick(&[qi(1), qi(-1), qi(2), Q::new(1, 2), qi(3), Q::new(-1, 3), qi(0)]),
                         &Opts { det_exact: true, solve: SolveMode::Exact }, 30, &mut sq);
        }
        sq.finish("histories/Q");
        let mut sf = Stats::default();
        for _ in 0..2500 {
            history::<f64>(&mut rng, &|r| r.range(-3, 3) as f64, &|r| r.pick(&[1.0, -1.0, 2.0, 0.5, -4.0, 0.25, 0.0]),
                           &Opts { det_exact: false, solve: SolveMode::Lenient }, 30, &mut sf);
        }
        sf.finish("histories/f64");
        let mut sc = Stats::default();
        let offs: Vec<Complex<f64>> = cq_offs().iter().map(|z| <Complex<f64> as Lib>::lower(z).unwrap()).collect();
        let units = [Complex::new(1.0, 0.0), Complex::new(0.0, 1.0), Complex::new(-1.0, 0.0), Complex::new(0.0, -2.0), Complex::new(1.0, 1.0), Complex::new(0.5, 0.0)];
        for _ in 0..1500 {
            history::<Complex<f64>>(&mut rng, &|r| r.pick(&offs), &|r| r.pick(&units), &Opts { det_exact: false, solve: SolveMode::Lenient }, 30, &mut sc);
        }
        sc.finish("histories/Complex<f64>");
    });
}

// ---------------------------------------------------------------- constructors, signed zeros, weak dominance
#[test]
fn with_elements_and_signed_zero_pivots() {
    quiet(|| {
        let mut st = Stats::default();
        let mut rng = Rng::new(111);
        for n in 1..=12usize {
            for _ in 0..300 {
                let (a, b, c) = (gen_q_val(&mut rng, 2), gen_q_val(&mut rng, 2), gen_q_val(&mut rng, 2));
                let t = Tridiagonal::<Q>::with_elements(a, b, c, n);
                let model = Case { sub: vec![a; n - 1], main: vec![b; n], sup: vec![c; n - 1] };
                let v = vec_q(&mut rng, n, 0);
                let mut errs = vec![];
                ovf_take();
                let r = guarded(|| {
                    check_views(&t, &model, &v, &Opts { det_exact: true, solve: SolveMode::Exact }, &mut errs, &mut st);
                    let rhs = rhs_set(&model, &[v.clone()], &[]);
                    check_solve(&model, &t, &rhs[0], &Opts { det_exact: true, solve: SolveMode::Exact }, &mut errs, &mut st);
                });
                st.cases += 1;
                if ovf_take() { st.skipped += 1; continue; }
                if let Err(p) = r { errs.push(format!("unexpected panic {}", p)); }
                for e in errs { st.fail(format!("with_elements({:?},{:?},{:?},{}) :: {}", a, b, c, n, e)); }
                // f64 twin of with_elements
                let tf = Tridiagonal::<f64>::with_elements(a.to_f64(), b.to_f64(), c.to_f64(), n);
                let mf = Case { sub: vec![a.to_f64(); n - 1], main: vec![b.to_f64(); n], sup: vec![c.to_f64(); n - 1] };
                let mut errs = vec![];
                cmp_tri("with_elements f64", &tf, &dense(&mf, 0.0), &mut errs);
                for e in errs { st.fail(format!("with_elements f64 n={} :: {}", n, e)); }
            }
            // a zero pivot of either sign, real and complex, at every step of a diagonal / bidiagonal matrix
            for k in 0..n {
                for z in [0.0f64, -0.0] {
                    for offs in [0.0f64, 1.0] {
                        let mut main = vec![2.0f64; n]; main[k] = z;
                        // lower bidiagonal keeps the pivots equal to the main diagonal
                        let t = Tridiagonal::<f64>::with_vecs(vec![offs; n - 1], main.clone(), vec![0.0; n - 1]);
                        let out = guarded(|| t.solve(&Vector::create(vec![1.0; n])));
                        st.cases += 1;
                        match out { Ok(x) => st.fail(format!("f64 zero pivot {:?} at step {} of n={} returned {:?}", z, k, n, x)),
                                    Err(m) => if !(m.contains("zero pivot") || m.contains("zero on leading diagonal")) { st.fail(format!("message {:?}", m)); } }
                        if t.det() != 0.0 { st.fail(format!("det of singular bidiagonal = {}", t.det())); }
                        for (zr, zi) in [(z, 0.0), (0.0, z), (z, z), (z, -z)] {
                            let mut cm = vec![Complex::new(0.0, 2.0); n]; cm[k] = Complex::new(zr, zi);
                            let tc = Tridiagonal::<Complex<f64>>::with_vecs(vec![Complex::new(0.0, 0.0); n - 1], cm, vec![Complex::new(offs, -offs); n - 1]);
                            // upper bidiagonal: pivots are the main diagonal as well
                            let out = guarded(|| tc.solve(&Vector::create(vec![Complex::new(1.0, 1.0); n])));
                            st.cases += 1;
                            match out { Ok(x) => st.fail(format!("complex zero pivot ({:?},{:?}) at step {} of n={} returned {:?}", zr, zi, k, n, x)),
                                        Err(m) => if !(m.contains("zero pivot") || m.contains("zero on leading diagonal")) { st.fail(format!("message {:?}", m)); } }
                        }
                    }
                }
            }
        }
        st.finish("with_elements / signed zeros");
    });
}

#[test]
fn weakly_dominant_dyadic_f64() {
    quiet(|| {
        let mut st = Stats::default();
        let mut rng = Rng::new(122);
        for _ in 0..4000 {
            for n in 1..=12usize {
                let by_columns = rng.below(2) == 0;
                let dy = |rng: &mut Rng| rng.range(-32, 32) as f64 / 16.0;
                let sub: Vec<f64> = (0..n - 1).map(|_| if rng.below(5) == 0 { 0.0 } else { dy(&mut rng) }).collect();
                let sup: Vec<f64> = (0..n - 1).map(|_| if rng.below(5) == 0 { 0.0 } else { dy(&mut rng) }).collect();
                let mut main = vec![0.0; n];
                for i in 0..n {
                    let mut s = 0.0;
                    if by_columns { if i > 0 { s += sup[i - 1].abs(); } if i + 1 < n { s += sub[i].abs(); } }
                    else { if i > 0 { s += sub[i - 1].abs(); } if i + 1 < n { s += sup[i].abs(); } }
                    if s == 0.0 { s = 1.0; }
                    let sc = 2f64.powi(rng.range(-8, 8) as i32);
                    let _ = sc;
                    main[i] = if rng.below(2) == 0 { s } else { -s }; // equality: weak dominance
                }
                let a = Case { sub, main, sup };
                let t = build(&a, rng.next() as u32);
                let r: Vec<f64> = (0..n).map(|_| dy(&mut rng)).collect();
                let out = guarded(|| t.solve(&Vector::create(r.clone())));
                st.cases += 1;
                let m = dense(&a, 0.0);
                let (fz, _) = first_zero_pivot(&lift_dense(&m).unwrap());
                if ovf_take() { st.skipped += 1; continue; }
                match out {
                    Err(msg) => { if fz.is_none() || !(msg.contains("zero pivot") || msg.contains("zero on leading diagonal")) {
                        st.fail(format!("weakly dominant {:?} r={:?}: refused with {:?}, exact first zero pivot {:?}", a, r, msg, fz)); } }
                    Ok(x) => {
                        if fz.is_some() { st.note("weakly dominant, exactly singular minor, value returned (rounded pivot non-zero)", || format!("{:?} r={:?} x={:?}", a, r, x)); continue; }
                        for i in 0..n {
                            let mut res = r[i]; let mut bound = 0.0;
                            for j in 0..n { res -= m[i][j] * x[j]; bound += (m[i][j] * x[j]).abs(); }
                            if !(res.abs() <= 200.0 * f64::EPSILON * bound + 1e-300) {
                                st.fail(format!("weakly dominant {:?} r={:?}: row {} residual {:e} vs |A||x| {:e}, x={:?}", a, r, i, res, bound, x)); break; }
                        }
                    }
                }
            }
        }
        st.finish("weakly dominant dyadic f64");
    });
}
