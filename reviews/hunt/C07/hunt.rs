// C07 hunt: sparse products equal dense products; transpose is the adjoint.
// Independent oracle: a dense Vec<Vec<Q>> built directly from the triplets (never through the crate),
// naive row-by-column products in exact rational arithmetic on i128.

use core::ops::{Add, AddAssign, Div, DivAssign, Mul, MulAssign, Neg, Sub, SubAssign};
use ohsl::sparse::Sparse;
use ohsl::vector::Vector;
use ohsl::{Number, One, Signed, Zero};
use std::sync::atomic::{AtomicU64, Ordering};

static CASES: AtomicU64 = AtomicU64::new(0);

// ---------------------------------------------------------------- exact rationals
#[derive(Clone, Copy, Debug)]
struct Q {
    n: i128,
    d: i128,
}
fn gcd(a: i128, b: i128) -> i128 {
    let (mut a, mut b) = (a.abs(), b.abs());
    while b != 0 {
        let t = a % b;
        a = b;
        b = t;
    }
    a
}
impl Q {
    fn new(n: i128, d: i128) -> Q {
        assert!(d != 0, "Q: zero denominator");
        let g = gcd(n, d);
        let (mut n, mut d) = if g == 0 { (0, 1) } else { (n / g, d / g) };
        if d < 0 {
            n = -n;
            d = -d;
        }
        Q { n, d }
    }
    fn int(n: i128) -> Q {
        Q { n, d: 1 }
    }
}
impl PartialEq for Q {
    fn eq(&self, o: &Q) -> bool {
        self.n.checked_mul(o.d).unwrap() == o.n.checked_mul(self.d).unwrap()
    }
}
impl Add for Q {
    type Output = Q;
    fn add(self, o: Q) -> Q {
        Q::new(
            self.n.checked_mul(o.d).unwrap().checked_add(o.n.checked_mul(self.d).unwrap()).unwrap(),
            self.d.checked_mul(o.d).unwrap(),
        )
    }
}
impl Sub for Q {
    type Output = Q;
    fn sub(self, o: Q) -> Q {
        Q::new(
            self.n.checked_mul(o.d).unwrap().checked_sub(o.n.checked_mul(self.d).unwrap()).unwrap(),
            self.d.checked_mul(o.d).unwrap(),
        )
    }
}
impl Mul for Q {
    type Output = Q;
    fn mul(self, o: Q) -> Q {
        Q::new(self.n.checked_mul(o.n).unwrap(), self.d.checked_mul(o.d).unwrap())
    }
}
impl Div for Q {
    type Output = Q;
    fn div(self, o: Q) -> Q {
        Q::new(self.n.checked_mul(o.d).unwrap(), self.d.checked_mul(o.n).unwrap())
    }
}
impl Neg for Q {
    type Output = Q;
    fn neg(self) -> Q {
        Q { n: -self.n, d: self.d }
    }
}
impl AddAssign for Q {
    fn add_assign(&mut self, o: Q) {
        *self = *self + o;
    }
}
impl SubAssign for Q {
    fn sub_assign(&mut self, o: Q) {
        *self = *self - o;
    }
}
impl MulAssign for Q {
    fn mul_assign(&mut self, o: Q) {
        *self = *self * o;
    }
}
impl DivAssign for Q {
    fn div_assign(&mut self, o: Q) {
        *self = *self / o;
    }
}
impl Zero for Q {
    fn zero() -> Q {
        Q::int(0)
    }
}
impl One for Q {
    fn one() -> Q {
        Q::int(1)
    }
}
impl Number for Q {}
impl Signed for Q {
    fn abs(&self) -> Q {
        Q { n: self.n.abs(), d: self.d }
    }
}

// ---------------------------------------------------------------- generator
struct Rng(u64);
impl Rng {
    fn new(seed: u64) -> Rng {
        Rng(seed.wrapping_mul(0x9E3779B97F4A7C15) ^ 0xD1B54A32D192ED03)
    }
    fn next(&mut self) -> u64 {
        let mut x = self.0;
        x ^= x << 13;
        x ^= x >> 7;
        x ^= x << 17;
        self.0 = x;
        x.wrapping_mul(0x2545F4914F6CDD1D)
    }
    fn below(&mut self, n: usize) -> usize {
        if n == 0 {
            0
        } else {
            ((self.next() >> 11) % (n as u64)) as usize
        }
    }
    fn chance(&mut self, num: usize, den: usize) -> bool {
        self.below(den) < num
    }
    fn shuffle<T>(&mut self, v: &mut Vec<T>) {
        for i in (1..v.len()).rev() {
            let j = self.below(i + 1);
            v.swap(i, j);
        }
    }
}

const DENS: [i128; 8] = [1, 1, 2, 3, 4, 5, 6, 8];

// value flavour: 0 general rational, 1 integers, 2 special (0, +-1, powers of two), 3 may be explicit zero
fn rq(r: &mut Rng, flavour: usize) -> Q {
    match flavour {
        0 => {
            let n = r.below(41) as i128 - 20;
            let d = DENS[r.below(DENS.len())];
            Q::new(n, d)
        }
        1 => Q::int(r.below(19) as i128 - 9),
        2 => {
            let pick = r.below(8);
            match pick {
                0 => Q::int(0),
                1 => Q::int(1),
                2 => Q::int(-1),
                3 => Q::int(2),
                4 => Q::new(1, 2),
                5 => Q::int(-8),
                6 => Q::new(-1, 4),
                _ => Q::int(16),
            }
        }
        _ => {
            if r.chance(1, 3) {
                Q::int(0)
            } else {
                rq(r, 0)
            }
        }
    }
}
// nonzero value (for scale factors etc. zero allowed elsewhere)
fn rvec(r: &mut Rng, n: usize, flavour: usize) -> Vec<Q> {
    let kind = r.below(8);
    (0..n)
        .map(|i| match kind {
            0 => Q::int(1),                                   // all ones (the weak input of the existing tests)
            1 => Q::int(i as i128 + 1),                       // distinguishes components
            2 => if i == r.below(n) { Q::int(1) } else { Q::int(0) }, // (near) unit vector
            3 => Q::int(0),
            _ => rq(r, flavour),
        })
        .collect()
}

type Trip = (usize, usize, Q);

// a duplicate-free pattern for an r x c matrix
fn pattern(r: &mut Rng, rows: usize, cols: usize) -> Vec<(usize, usize)> {
    let mut p = vec![];
    if rows == 0 || cols == 0 {
        return p;
    }
    let kind = r.below(16);
    let keep_row: Vec<bool> = (0..rows).map(|_| !r.chance(1, 4)).collect();
    let keep_col: Vec<bool> = (0..cols).map(|_| !r.chance(1, 4)).collect();
    for i in 0..rows {
        for j in 0..cols {
            let on = match kind {
                0 => false,
                1 => true,
                2 => i == j,
                3 => i + j == rows.max(cols) - 1, // anti-diagonal-ish
                4 => i <= j,
                5 => i >= j,
                6 => (i as isize - j as isize).abs() <= 1,
                7 => i == rows - 1 || j == cols - 1, // last row and last column
                8 => i == 0 || j == 0,               // first row and first column
                9 => i == r.below(rows),             // roughly one row
                10 => j == cols / 2,                 // one column
                11 => r.chance(1, 10),
                12 => r.chance(1, 2) && keep_row[i] && keep_col[j], // empty rows / columns
                13 => r.chance(9, 10),
                14 => keep_row[i] && keep_col[j],
                _ => r.chance(1, 3),
            };
            if on {
                p.push((i, j));
            }
        }
    }
    if kind == 15 && rows == cols {
        // permutation matrix
        let mut perm: Vec<usize> = (0..rows).collect();
        r.shuffle(&mut perm);
        p = perm.iter().enumerate().map(|(i, &j)| (i, j)).collect();
    }
    p
}

fn order(r: &mut Rng, t: &mut Vec<Trip>) {
    match r.below(6) {
        0 => t.sort_by_key(|x| (x.1, x.0)),                 // column major
        1 => t.sort_by_key(|x| (x.0, x.1)),                 // row major
        2 => { t.sort_by_key(|x| (x.1, x.0)); t.reverse(); } // reversed
        3 => { t.sort_by_key(|x| (x.0, x.1)); t.reverse(); }
        _ => r.shuffle(t),
    }
}

// ---------------------------------------------------------------- oracle
#[derive(Clone)]
struct Dense {
    rows: usize,
    cols: usize,
    a: Vec<Vec<Q>>,           // value (zero if absent)
    present: Vec<Vec<bool>>,  // structurally stored?
}
impl Dense {
    fn new(rows: usize, cols: usize) -> Dense {
        Dense { rows, cols, a: vec![vec![Q::int(0); cols]; rows], present: vec![vec![false; cols]; rows] }
    }
    fn from_trips(rows: usize, cols: usize, t: &[Trip]) -> Dense {
        let mut d = Dense::new(rows, cols);
        for &(i, j, v) in t {
            assert!(!d.present[i][j], "generator produced a duplicate");
            d.a[i][j] = v;
            d.present[i][j] = true;
        }
        d
    }
    fn mul(&self, x: &[Q]) -> Vec<Q> {
        assert_eq!(x.len(), self.cols);
        (0..self.rows)
            .map(|i| {
                let mut s = Q::int(0);
                for j in 0..self.cols {
                    s = s + self.a[i][j] * x[j];
                }
                s
            })
            .collect()
    }
    fn tmul(&self, y: &[Q]) -> Vec<Q> {
        assert_eq!(y.len(), self.rows);
        (0..self.cols)
            .map(|j| {
                let mut s = Q::int(0);
                for i in 0..self.rows {
                    s = s + self.a[i][j] * y[i];
                }
                s
            })
            .collect()
    }
    fn nnz(&self) -> usize {
        self.present.iter().map(|r| r.iter().filter(|&&b| b).count()).sum()
    }
}
fn dotq(a: &[Q], b: &[Q]) -> Q {
    assert_eq!(a.len(), b.len());
    let mut s = Q::int(0);
    for i in 0..a.len() {
        s = s + a[i] * b[i];
    }
    s
}
fn scaled(v: &[Q], s: Q) -> Vec<Q> {
    v.iter().map(|&x| x * s).collect()
}

fn veq(got: &Vector<Q>, want: &[Q]) -> bool {
    got.size() == want.len() && (0..want.len()).all(|i| got[i] == want[i])
}

fn csc_wellformed(s: &Sparse<Q>) -> Result<(), String> {
    if s.col_start.len() != s.cols + 1 { return Err(format!("col_start len {} for cols {}", s.col_start.len(), s.cols)); }
    if s.col_start[0] != 0 { return Err("col_start[0] != 0".into()); }
    for j in 0..s.cols { if s.col_start[j] > s.col_start[j + 1] { return Err("col_start not monotone".into()); } }
    if s.col_start[s.cols] != s.nonzero { return Err(format!("col_start last {} != nonzero {}", s.col_start[s.cols], s.nonzero)); }
    if s.val.len() != s.nonzero || s.row_index.len() != s.nonzero { return Err("val / row_index length".into()); }
    for &i in &s.row_index { if i >= s.rows { return Err("row index out of range".into()); } }
    Ok(())
}

// the full battery of checks of the property on one (matrix, dense reference) pair
fn check_all(tag: &str, s: &Sparse<Q>, d: &Dense, r: &mut Rng, flavour: usize) {
    let ctx = |what: &str| -> String {
        format!("[{}] {}: rows={} cols={} val={:?} row_index={:?} col_start={:?}", tag, what, s.rows, s.cols, s.val, s.row_index, s.col_start)
    };
    assert_eq!((s.rows, s.cols), (d.rows, d.cols), "{}", ctx("shape"));
    assert_eq!(s.nonzero, d.nnz(), "{}", ctx("nonzero count"));
    if let Err(e) = csc_wellformed(s) { panic!("{} {}", ctx("csc"), e); }

    // read-only views agree with the reference
    let dm = s.to_dense();
    assert_eq!((dm.rows(), dm.cols()), (d.rows, d.cols), "{}", ctx("to_dense shape"));
    for i in 0..d.rows {
        for j in 0..d.cols {
            assert!(dm[(i, j)] == d.a[i][j], "{}", ctx("to_dense entry"));
            let g = s.get(i, j);
            if d.present[i][j] { assert!(g == Some(d.a[i][j]), "{} ({},{}) got {:?}", ctx("get"), i, j, g); }
            else { assert!(g.is_none(), "{} ({},{}) got {:?}", ctx("get absent"), i, j, g); }
        }
    }
    let tr = s.to_triplets();
    assert_eq!(tr.len(), d.nnz(), "{}", ctx("to_triplets len"));
    for &(i, j, v) in &tr { assert!(d.present[i][j] && d.a[i][j] == v, "{}", ctx("to_triplets entry")); }

    let at = s.transpose();
    assert_eq!((at.rows, at.cols, at.nonzero), (d.cols, d.rows, d.nnz()), "{}", ctx("transpose shape"));
    if let Err(e) = csc_wellformed(&at) { panic!("{} {}", ctx("transpose csc"), e); }
    let atd = at.to_dense();
    for i in 0..d.rows { for j in 0..d.cols {
        assert!(atd[(j, i)] == d.a[i][j], "{}", ctx("transpose entry"));
        let g = at.get(j, i);
        if d.present[i][j] { assert!(g == Some(d.a[i][j]), "{}", ctx("transpose get")); } else { assert!(g.is_none(), "{}", ctx("transpose get absent")); }
    } }
    let att = at.transpose();
    assert_eq!((att.rows, att.cols, att.nonzero), (d.rows, d.cols, d.nnz()), "{}", ctx("transpose^2 shape"));

    let before = (s.val.clone(), s.row_index.clone(), s.col_start.clone(), s.nonzero);
    for rep in 0..3 {
        let x = rvec(r, d.cols, flavour);
        let y = rvec(r, d.rows, flavour);
        let xv = Vector::create(x.clone());
        let yv = Vector::create(y.clone());
        let ax = d.mul(&x);
        let aty = d.tmul(&y);

        let g_ax = s.multiply(&xv);
        assert!(veq(&g_ax, &ax), "{} x={:?} got {:?} want {:?}", ctx("multiply"), x, g_ax, ax);
        let g_aty = s.transpose_multiply(&yv);
        assert!(veq(&g_aty, &aty), "{} y={:?} got {:?} want {:?}", ctx("transpose_multiply"), y, g_aty, aty);
        let g_aty2 = at.multiply(&yv);
        assert!(veq(&g_aty2, &aty), "{} y={:?} got {:?} want {:?}", ctx("transpose().multiply"), y, g_aty2, aty);
        let g_ax2 = at.transpose_multiply(&xv);
        assert!(veq(&g_ax2, &ax), "{} x={:?} got {:?} want {:?}", ctx("transpose().transpose_multiply"), x, g_ax2, ax);
        let g_ax3 = att.multiply(&xv);
        assert!(veq(&g_ax3, &ax), "{} x={:?}", ctx("transpose().transpose().multiply"), x);
        // explicit vs implicit (pure crate-vs-crate identity)
        assert!(g_aty.vec == g_aty2.vec, "{}", ctx("A^T explicit vs implicit"));
        // adjoint identity, with the crate's dot and with mine
        let lhs = yv.dot(&g_ax);
        let rhs = g_aty.dot(&xv);
        assert!(lhs == rhs, "{} <y,Ax>={:?} <A^Ty,x>={:?}", ctx("adjoint (crate dot)"), lhs, rhs);
        assert!(lhs == dotq(&y, &ax) && rhs == dotq(&aty, &x), "{}", ctx("adjoint (oracle dot)"));
        // inputs untouched
        assert!(xv.vec == x && yv.vec == y, "{}", ctx("input vectors modified"));

        // scaling the matrix scales every product
        if rep == 0 {
            let sc = match r.below(6) { 0 => Q::int(0), 1 => Q::int(1), 2 => Q::int(-1), _ => rq(r, flavour) };
            let mut s2 = Sparse::<Q>::from_vecs(s.rows, s.cols, s.val.clone(), s.row_index.clone(), s.col_start.clone());
            s2.scale(&sc);
            assert_eq!((s2.rows, s2.cols, s2.nonzero), (d.rows, d.cols, d.nnz()), "{}", ctx("scale shape"));
            assert!(s2.row_index == s.row_index && s2.col_start == s.col_start, "{}", ctx("scale changed pattern"));
            assert!(veq(&s2.multiply(&xv), &scaled(&ax, sc)), "{} sc={:?}", ctx("scale multiply"), sc);
            assert!(veq(&s2.transpose_multiply(&yv), &scaled(&aty, sc)), "{} sc={:?}", ctx("scale transpose_multiply"), sc);
            assert!(veq(&s2.transpose().multiply(&yv), &scaled(&aty, sc)), "{} sc={:?}", ctx("scale transpose().multiply"), sc);
            // scale the explicit transpose too
            let mut at2 = s.transpose();
            at2.scale(&sc);
            assert!(veq(&at2.multiply(&yv), &scaled(&aty, sc)), "{} sc={:?}", ctx("transpose().scale multiply"), sc);
            assert!(veq(&at2.transpose_multiply(&xv), &scaled(&ax, sc)), "{} sc={:?}", ctx("transpose().scale transpose_multiply"), sc);
            // second scale composes
            let sc2 = rq(r, flavour);
            s2.scale(&sc2);
            assert!(veq(&s2.multiply(&xv), &scaled(&ax, sc * sc2)), "{}", ctx("scale twice"));
            for i in 0..d.rows { for j in 0..d.cols { if d.present[i][j] {
                assert!(s2.get(i, j) == Some(d.a[i][j] * sc * sc2), "{}", ctx("scale get"));
            } } }
        }
        CASES.fetch_add(1, Ordering::Relaxed);
    }
    assert!(before == (s.val.clone(), s.row_index.clone(), s.col_start.clone(), s.nonzero), "{}", ctx("matrix modified by products"));
}

// build CSC arrays by hand from triplets, keeping the given order of rows inside each column
fn csc_by_hand(cols: usize, t: &[Trip]) -> (Vec<Q>, Vec<usize>, Vec<usize>) {
    let mut val = vec![];
    let mut ri = vec![];
    let mut cs = vec![0usize; cols + 1];
    for j in 0..cols {
        for &(i, jj, v) in t {
            if jj == j {
                val.push(v);
                ri.push(i);
            }
        }
        cs[j + 1] = val.len();
    }
    (val, ri, cs)
}

fn gen_trips(r: &mut Rng, rows: usize, cols: usize, flavour: usize) -> Vec<Trip> {
    let p = pattern(r, rows, cols);
    let mut t: Vec<Trip> = p.into_iter().map(|(i, j)| (i, j, rq(r, flavour))).collect();
    order(r, &mut t);
    t
}

fn shape(r: &mut Rng) -> (usize, usize) {
    match r.below(10) {
        0 => (r.below(11), r.below(3)),        // thin, includes 0 / 1 / 2 columns
        1 => (r.below(3), r.below(11)),        // flat
        2 => (10, 10),
        3 => (10, r.below(11)),
        4 => (r.below(11), 10),
        5 => { let n = r.below(11); (n, n) }
        _ => (r.below(11), r.below(11)),
    }
}

// ---------------------------------------------------------------- tests

#[test]
fn random_from_triplets() {
    let mut r = Rng::new(1);
    for it in 0..60_000 {
        let (rows, cols) = shape(&mut r);
        let flavour = r.below(4);
        let t = gen_trips(&mut r, rows, cols, flavour);
        let d = Dense::from_trips(rows, cols, &t);
        let mut tt = t.clone();
        let s = Sparse::<Q>::from_triplets(rows, cols, &mut tt);
        assert!(tt.is_empty());
        check_all(&format!("trip#{} t={:?}", it, t), &s, &d, &mut r, flavour);
    }
}

#[test]
fn random_from_vecs() {
    let mut r = Rng::new(2);
    for it in 0..60_000 {
        let (rows, cols) = shape(&mut r);
        let flavour = r.below(4);
        let t = gen_trips(&mut r, rows, cols, flavour);
        let d = Dense::from_trips(rows, cols, &t);
        let (val, ri, cs) = csc_by_hand(cols, &t);
        let s = Sparse::<Q>::from_vecs(rows, cols, val, ri, cs);
        check_all(&format!("vecs#{} t={:?}", it, t), &s, &d, &mut r, flavour);
    }
}

#[test]
fn random_from_inserts() {
    // the matrix is built by successive insert calls (with occasional overwrites of an existing entry)
    let mut r = Rng::new(3);
    for it in 0..6_000 {
        let (rows, cols) = shape(&mut r);
        let flavour = r.below(4);
        let t = gen_trips(&mut r, rows, cols, flavour);
        let mut s = Sparse::<Q>::from_triplets(rows, cols, &mut vec![]);
        let mut d = Dense::new(rows, cols);
        check_all(&format!("ins#{} empty", it), &s, &d, &mut r, flavour);
        let check_every = r.chance(1, 6);
        for (k, &(i, j, v)) in t.iter().enumerate() {
            s.insert(i, j, v);
            d.a[i][j] = v;
            d.present[i][j] = true;
            if r.chance(1, 5) {
                // overwrite some already present entry
                let &(oi, oj, _) = &t[r.below(k + 1)];
                let nv = rq(&mut r, flavour);
                s.insert(oi, oj, nv);
                d.a[oi][oj] = nv;
            }
            if check_every { check_all(&format!("ins#{} step {} t={:?}", it, k, t), &s, &d, &mut r, flavour); }
        }
        check_all(&format!("ins#{} t={:?}", it, t), &s, &d, &mut r, flavour);
    }
}

#[test]
fn histories_on_one_object() {
    // one object; steps: insert / overwrite / scale / replace by transpose / rebuild from own triplets;
    // every view and every product after every step
    let mut r = Rng::new(4);
    for it in 0..3_000 {
        let (rows, cols) = shape(&mut r);
        let flavour = r.below(4);
        let t = gen_trips(&mut r, rows, cols, flavour);
        let mut d = Dense::from_trips(rows, cols, &t);
        let mut s = Sparse::<Q>::from_triplets(rows, cols, &mut t.clone());
        let mut log = vec![format!("start {}x{} {:?}", rows, cols, t)];
        for _step in 0..12 {
            match r.below(5) {
                0 => {
                    if d.rows > 0 && d.cols > 0 {
                        let (i, j, v) = (r.below(d.rows), r.below(d.cols), rq(&mut r, flavour));
                        s.insert(i, j, v);
                        d.a[i][j] = v;
                        d.present[i][j] = true;
                        log.push(format!("insert({},{},{:?})", i, j, v));
                    }
                }
                1 => {
                    let sc = match r.below(5) { 0 => Q::int(0), 1 => Q::int(-1), _ => rq(&mut r, 0) };
                    s.scale(&sc);
                    for i in 0..d.rows { for j in 0..d.cols { d.a[i][j] = d.a[i][j] * sc; } }
                    log.push(format!("scale({:?})", sc));
                }
                2 => {
                    s = s.transpose();
                    let mut nd = Dense::new(d.cols, d.rows);
                    for i in 0..d.rows { for j in 0..d.cols { nd.a[j][i] = d.a[i][j]; nd.present[j][i] = d.present[i][j]; } }
                    d = nd;
                    log.push("transpose".into());
                }
                3 => {
                    let mut tt = s.to_triplets();
                    r.shuffle(&mut tt);
                    s = Sparse::<Q>::from_triplets(s.rows, s.cols, &mut tt);
                    log.push("rebuild".into());
                }
                _ => {
                    // products only (no state change): repeated products must not disturb anything
                    let x = Vector::create(rvec(&mut r, d.cols, flavour));
                    let _ = s.multiply(&x);
                    let y = Vector::create(rvec(&mut r, d.rows, flavour));
                    let _ = s.transpose_multiply(&y);
                    log.push("products".into());
                }
            }
            check_all(&format!("hist#{} {:?}", it, log), &s, &d, &mut r, flavour);
        }
    }
}

#[test]
fn exhaustive_small_patterns() {
    // every pattern of every shape with rows*cols <= 12 and rows, cols <= 4 (plus the degenerate shapes with a zero side)
    let mut r = Rng::new(5);
    for rows in 0..=4usize {
        for cols in 0..=4usize {
            let cells = rows * cols;
            if cells > 12 { continue; }
            for mask in 0u32..(1u32 << cells) {
                let reps = if cells <= 9 { 3 } else { 1 };
                for rep in 0..reps {
                    let flavour = r.below(4);
                    let mut t: Vec<Trip> = vec![];
                    for c in 0..cells { if mask >> c & 1 == 1 { t.push((c / cols, c % cols, rq(&mut r, flavour))); } }
                    order(&mut r, &mut t);
                    let d = Dense::from_trips(rows, cols, &t);
                    let s = if rep % 2 == 0 { Sparse::<Q>::from_triplets(rows, cols, &mut t.clone()) }
                            else { let (v, ri, cs) = csc_by_hand(cols, &t); Sparse::<Q>::from_vecs(rows, cols, v, ri, cs) };
                    check_all(&format!("exh {}x{} mask {:b} t={:?}", rows, cols, mask, t), &s, &d, &mut r, flavour);
                }
            }
        }
    }
    // all 2^16 patterns of the 4 x 4 shape, one value draw each
    for mask in 0u32..(1u32 << 16) {
        let mut t: Vec<Trip> = vec![];
        for c in 0..16 { if mask >> c & 1 == 1 { t.push((c / 4, c % 4, rq(&mut r, 0))); } }
        order(&mut r, &mut t);
        let d = Dense::from_trips(4, 4, &t);
        let s = Sparse::<Q>::from_triplets(4, 4, &mut t.clone());
        check_all(&format!("exh 4x4 mask {:b}", mask), &s, &d, &mut r, 0);
    }
}

#[test]
fn exhaustive_triplet_orders() {
    // every ordering of the triplets (up to 6 entries) gives the same matrix
    fn permute(k: usize, a: &mut Vec<usize>, out: &mut Vec<Vec<usize>>) {
        if k == a.len() { out.push(a.clone()); return; }
        for i in k..a.len() { a.swap(k, i); permute(k + 1, a, out); a.swap(k, i); }
    }
    let mut r = Rng::new(6);
    for it in 0..300 {
        let rows = 1 + r.below(4);
        let cols = 1 + r.below(4);
        let mut cells: Vec<(usize, usize)> = (0..rows * cols).map(|c| (c / cols, c % cols)).collect();
        r.shuffle(&mut cells);
        let n = r.below(6.min(cells.len()) + 1);
        let t: Vec<Trip> = cells[..n].iter().map(|&(i, j)| (i, j, rq(&mut r, 0))).collect();
        let d = Dense::from_trips(rows, cols, &t);
        let mut perms = vec![];
        permute(0, &mut (0..n).collect(), &mut perms);
        for p in perms {
            let tp: Vec<Trip> = p.iter().map(|&k| t[k]).collect();
            let s = Sparse::<Q>::from_triplets(rows, cols, &mut tp.clone());
            check_all(&format!("perm#{} {:?}", it, tp), &s, &d, &mut r, 0);
            let (v, ri, cs) = csc_by_hand(cols, &tp);
            let s = Sparse::<Q>::from_vecs(rows, cols, v, ri, cs);
            check_all(&format!("permv#{} {:?}", it, tp), &s, &d, &mut r, 0);
        }
    }
}

#[test]
fn boundaries() {
    let mut r = Rng::new(7);
    // the empty matrix, and shapes with one zero side, via every constructor
    for rows in 0..=10usize {
        for cols in 0..=10usize {
            if rows != 0 && cols != 0 { continue; }
            let d = Dense::new(rows, cols);
            let s = Sparse::<Q>::from_triplets(rows, cols, &mut vec![]);
            check_all(&format!("empty-trip {}x{}", rows, cols), &s, &d, &mut r, 0);
            let s = Sparse::<Q>::from_vecs(rows, cols, vec![], vec![], vec![0; cols + 1]);
            check_all(&format!("empty-vecs {}x{}", rows, cols), &s, &d, &mut r, 0);
            // results have the right length and are all zero
            let x = Vector::create(vec![Q::int(7); cols]);
            let y = Vector::create(vec![Q::int(7); rows]);
            assert!(veq(&s.multiply(&x), &vec![Q::int(0); rows]));
            assert!(veq(&s.transpose_multiply(&y), &vec![Q::int(0); cols]));
        }
    }
    // structurally empty but non-degenerate shapes; full matrices; single entry at each corner
    for rows in 1..=10usize {
        for cols in 1..=10usize {
            let d = Dense::new(rows, cols);
            let s = Sparse::<Q>::from_triplets(rows, cols, &mut vec![]);
            check_all(&format!("zero {}x{}", rows, cols), &s, &d, &mut r, 0);
            for &(i, j) in &[(0, 0), (rows - 1, 0), (0, cols - 1), (rows - 1, cols - 1)] {
                let t = vec![(i, j, rq(&mut r, 0))];
                let d = Dense::from_trips(rows, cols, &t);
                let s = Sparse::<Q>::from_triplets(rows, cols, &mut t.clone());
                check_all(&format!("corner {}x{} {:?}", rows, cols, t), &s, &d, &mut r, 0);
            }
            let mut t: Vec<Trip> = vec![];
            for i in 0..rows { for j in 0..cols { t.push((i, j, rq(&mut r, 0))); } }
            r.shuffle(&mut t);
            let d = Dense::from_trips(rows, cols, &t);
            let s = Sparse::<Q>::from_triplets(rows, cols, &mut t.clone());
            check_all(&format!("full {}x{}", rows, cols), &s, &d, &mut r, 0);
            // all stored values are explicit zeros
            let tz: Vec<Trip> = t.iter().map(|&(i, j, _)| (i, j, Q::int(0))).collect();
            let d = Dense::from_trips(rows, cols, &tz);
            let s = Sparse::<Q>::from_triplets(rows, cols, &mut tz.clone());
            check_all(&format!("fullzero {}x{}", rows, cols), &s, &d, &mut r, 0);
        }
    }
}

#[test]
fn unit_vector_probes() {
    // A e_j is column j and A^T e_i is row i: which component multiplies which entry
    let mut r = Rng::new(8);
    for _ in 0..20_000 {
        let (rows, cols) = shape(&mut r);
        let t = gen_trips(&mut r, rows, cols, 0);
        let d = Dense::from_trips(rows, cols, &t);
        let s = if r.chance(1, 2) { Sparse::<Q>::from_triplets(rows, cols, &mut t.clone()) }
                else { let (v, ri, cs) = csc_by_hand(cols, &t); Sparse::<Q>::from_vecs(rows, cols, v, ri, cs) };
        let at = s.transpose();
        for j in 0..cols {
            let mut e = vec![Q::int(0); cols]; e[j] = Q::int(1);
            let col: Vec<Q> = (0..rows).map(|i| d.a[i][j]).collect();
            assert!(veq(&s.multiply(&Vector::create(e.clone())), &col), "A e_{} t={:?} {}x{}", j, t, rows, cols);
            assert!(veq(&at.transpose_multiply(&Vector::create(e)), &col), "(A^T)^T e_{} t={:?}", j, t);
        }
        for i in 0..rows {
            let mut e = vec![Q::int(0); rows]; e[i] = Q::int(1);
            let row: Vec<Q> = d.a[i].clone();
            assert!(veq(&s.transpose_multiply(&Vector::create(e.clone())), &row), "A^T e_{} t={:?} {}x{}", i, t, rows, cols);
            assert!(veq(&at.multiply(&Vector::create(e)), &row), "transpose() e_{} t={:?}", i, t);
        }
        CASES.fetch_add((rows + cols) as u64, Ordering::Relaxed);
    }
}

// the same property on the crate's own element types with integer data (exact in f64 / i64 / f32)
macro_rules! native_test {
    ($name:ident, $t:ty, $seed:expr) => {
        #[test]
        fn $name() {
            let mut r = Rng::new($seed);
            for it in 0..30_000 {
                let (rows, cols) = shape(&mut r);
                let p = pattern(&mut r, rows, cols);
                let mut t: Vec<(usize, usize, i64)> = p.into_iter().map(|(i, j)| (i, j, r.below(19) as i64 - 9)).collect();
                match r.below(3) { 0 => t.sort_by_key(|x| (x.1, x.0)), 1 => t.sort_by_key(|x| (x.0, x.1)), _ => r.shuffle(&mut t) }
                let mut a = vec![vec![0i64; cols]; rows];
                for &(i, j, v) in &t { a[i][j] = v; }
                let mut tt: Vec<(usize, usize, $t)> = t.iter().map(|&(i, j, v)| (i, j, v as $t)).collect();
                let mut s = Sparse::<$t>::from_triplets(rows, cols, &mut tt);
                let x: Vec<i64> = (0..cols).map(|_| r.below(19) as i64 - 9).collect();
                let y: Vec<i64> = (0..rows).map(|_| r.below(19) as i64 - 9).collect();
                let ax: Vec<i64> = (0..rows).map(|i| (0..cols).map(|j| a[i][j] * x[j]).sum()).collect();
                let aty: Vec<i64> = (0..cols).map(|j| (0..rows).map(|i| a[i][j] * y[i]).sum()).collect();
                let xv = Vector::create(x.iter().map(|&v| v as $t).collect::<Vec<$t>>());
                let yv = Vector::create(y.iter().map(|&v| v as $t).collect::<Vec<$t>>());
                let conv = |v: &Vec<i64>, k: i64| -> Vec<$t> { v.iter().map(|&q| (q * k) as $t).collect() };
                assert_eq!(s.multiply(&xv).vec, conv(&ax, 1), "#{} multiply {}x{} t={:?} x={:?}", it, rows, cols, t, x);
                assert_eq!(s.transpose_multiply(&yv).vec, conv(&aty, 1), "#{} transpose_multiply {}x{} t={:?} y={:?}", it, rows, cols, t, y);
                let at = s.transpose();
                assert_eq!((at.rows, at.cols), (cols, rows));
                assert_eq!(at.multiply(&yv).vec, conv(&aty, 1), "#{} transpose().multiply {}x{} t={:?} y={:?}", it, rows, cols, t, y);
                assert_eq!(at.transpose_multiply(&xv).vec, conv(&ax, 1), "#{} transpose().transpose_multiply", it);
                assert_eq!(yv.dot(&s.multiply(&xv)), s.transpose_multiply(&yv).dot(&xv), "#{} adjoint", it);
                let k = r.below(9) as i64 - 4;
                s.scale(&(k as $t));
                assert_eq!(s.multiply(&xv).vec, conv(&ax, k), "#{} scaled multiply k={}", it, k);
                assert_eq!(s.transpose_multiply(&yv).vec, conv(&aty, k), "#{} scaled transpose_multiply k={}", it, k);
                assert_eq!(s.transpose().multiply(&yv).vec, conv(&aty, k), "#{} scaled transpose().multiply k={}", it, k);
                CASES.fetch_add(1, Ordering::Relaxed);
            }
        }
    };
}
native_test!(native_f64, f64, 11);
native_test!(native_i64, i64, 12);
native_test!(native_f32, f32, 13);
native_test!(native_i32, i32, 14);

// harness self-test: a reference that differs from the matrix in ONE entry position must be caught
#[test]
#[should_panic]
fn selftest_oracle_detects_misplaced_entry() {
    let mut r = Rng::new(99);
    let t = vec![(0usize, 1usize, Q::int(3)), (2, 0, Q::new(1, 2))];
    let wrong = vec![(1usize, 0usize, Q::int(3)), (2, 0, Q::new(1, 2))];
    let d = Dense::from_trips(3, 2, &wrong);
    let s = Sparse::<Q>::from_triplets(3, 2, &mut t.clone());
    // bypass the view checks: go straight to products with a component-distinguishing vector
    let x = vec![Q::int(1), Q::int(2)];
    assert!(veq(&s.multiply(&Vector::create(x.clone())), &d.mul(&x)));
    let _ = &mut r;
}
#[test]
#[should_panic]
fn selftest_oracle_detects_wrong_value() {
    let t = vec![(0usize, 1usize, Q::int(3)), (2, 0, Q::new(1, 2))];
    let wrong = vec![(0usize, 1usize, Q::int(3)), (2, 0, Q::new(1, 3))];
    let d = Dense::from_trips(3, 2, &wrong);
    let s = Sparse::<Q>::from_triplets(3, 2, &mut t.clone());
    let y = vec![Q::int(1), Q::int(1), Q::int(1)];
    assert!(veq(&s.transpose_multiply(&Vector::create(y.clone())), &d.tmul(&y)));
}

// SIDE CHECK (outside the quantified domain: shapes above 10 x 10, up to 65 x 65), integer data in i64
#[test]
fn side_larger_shapes_i64() {
    let mut r = Rng::new(21);
    for it in 0..3_000 {
        let rows = r.below(66);
        let cols = r.below(66);
        let mut t: Vec<(usize, usize, i64)> = vec![];
        let dens = 1 + r.below(10);
        for i in 0..rows { for j in 0..cols { if r.chance(dens, 12) { t.push((i, j, r.below(19) as i64 - 9)); } } }
        r.shuffle(&mut t);
        let mut a = vec![vec![0i64; cols]; rows];
        for &(i, j, v) in &t { a[i][j] = v; }
        let s = Sparse::<i64>::from_triplets(rows, cols, &mut t.clone());
        let x: Vec<i64> = (0..cols).map(|_| r.below(19) as i64 - 9).collect();
        let y: Vec<i64> = (0..rows).map(|_| r.below(19) as i64 - 9).collect();
        let ax: Vec<i64> = (0..rows).map(|i| (0..cols).map(|j| a[i][j] * x[j]).sum()).collect();
        let aty: Vec<i64> = (0..cols).map(|j| (0..rows).map(|i| a[i][j] * y[i]).sum()).collect();
        let (xv, yv) = (Vector::create(x), Vector::create(y));
        assert_eq!(s.multiply(&xv).vec, ax, "side #{} multiply {}x{}", it, rows, cols);
        assert_eq!(s.transpose_multiply(&yv).vec, aty, "side #{} transpose_multiply {}x{}", it, rows, cols);
        assert_eq!(s.transpose().multiply(&yv).vec, aty, "side #{} transpose().multiply {}x{}", it, rows, cols);
        assert_eq!(yv.dot(&s.multiply(&xv)), s.transpose_multiply(&yv).dot(&xv));
    }
}

#[test]
fn zz_report_cases() {
    // (runs in parallel with the others; the figure printed is only indicative)
    println!("cases so far: {}", CASES.load(Ordering::Relaxed));
}
