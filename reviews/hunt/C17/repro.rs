// Reproductions for the C17 findings.  Every test FAILS on the current code.
use ohsl::complex::Cmplx;
use ohsl::matrix::{Mat64, Matrix};
use ohsl::newton::Newton;
use ohsl::vector::{Vec64, Vector};

fn all_finite(v: &Vec64) -> bool { (0..v.size()).all(|i| v[i].is_finite()) }

// ---------------------------------------------------------------------------------------------
// Finding 1: a NaN in any residual component other than the first is invisible to the stopping test
// (Vector::norm_inf skips it), so the system solvers report SUCCESS although the criterion
// "residual inf-norm <= tol" was never met, and the value carried by Ok is all-NaN.
// ---------------------------------------------------------------------------------------------

/// F(x) = (x0 - 1, sqrt(x1)), root (1, 0) where F is not differentiable; guess (1, 1); user-supplied
/// Jacobian; default tolerance 1e-8, 20 iterations.  Newton maps x1 -> -x1, so the second evaluation
/// gives the residual (0, NaN).
#[test]
fn nan_residual_component_exact_jacobian() {
    let f = |x: Vec64| Vec64::create(vec![x[0] - 1.0, x[1].sqrt()]);
    let j = |x: Vec64| { let mut m = Mat64::new(2, 2, 0.0); m[(0, 0)] = 1.0; m[(1, 1)] = 0.5 / x[1].sqrt(); m };
    let newton = Newton::<Vec64>::new(Vec64::create(vec![1.0, 1.0]));
    let r = newton.solve_jacobian(&f, &j);
    match r {
        Ok(v) => panic!("success reported with the point [{}, {}] (criterion never met: residual was (0, NaN))", v[0], v[1]),
        Err(_) => {}
    }
}

/// Same equations in the other order are (correctly) reported as a failure: the outcome depends on
/// the position of the NaN in the residual.
#[test]
fn nan_residual_outcome_depends_on_equation_order() {
    let f_a = |x: Vec64| Vec64::create(vec![x[0].sqrt(), x[1] - 1.0]);
    let j_a = |x: Vec64| { let mut m = Mat64::new(2, 2, 0.0); m[(0, 0)] = 0.5 / x[0].sqrt(); m[(1, 1)] = 1.0; m };
    let f_b = |x: Vec64| Vec64::create(vec![x[0] - 1.0, x[1].sqrt()]);
    let j_b = |x: Vec64| { let mut m = Mat64::new(2, 2, 0.0); m[(0, 0)] = 1.0; m[(1, 1)] = 0.5 / x[1].sqrt(); m };
    let newton = Newton::<Vec64>::new(Vec64::create(vec![1.0, 1.0]));
    let a = newton.solve_jacobian(&f_a, &j_a);
    let b = newton.solve_jacobian(&f_b, &j_b);
    assert!(a.is_err(), "order A is reported as failure");
    assert!(b.is_err(), "order B (same two equations swapped) is reported as SUCCESS");
}

/// Finite-difference variant, default parameters: F(x) = (x0 - 1, sin(x1)/x1 - 1/2) evaluated at the
/// guess (1, 0) gives (0, NaN) at the very first iteration.
#[test]
fn nan_residual_component_finite_difference() {
    let f = |x: Vec64| Vec64::create(vec![x[0] - 1.0, x[1].sin() / x[1] - 0.5]);
    let newton = Newton::<Vec64>::new(Vec64::create(vec![1.0, 0.0]));
    let r = newton.solve(&f);
    match r {
        Ok(v) => { assert!(all_finite(&v), "success reported with the point [{}, {}]", v[0], v[1]); }
        Err(_) => {}
    }
}

/// Finite-difference variant on (x0 - 1, sqrt(x1)) with tol = 1e-4 from (1, 1).
#[test]
fn nan_residual_component_finite_difference_sqrt() {
    let f = |x: Vec64| Vec64::create(vec![x[0] - 1.0, x[1].sqrt()]);
    let mut newton = Newton::<Vec64>::new(Vec64::create(vec![1.0, 1.0]));
    newton.tolerance(1.0e-4);
    let r = newton.solve(&f);
    assert!(r.is_err(), "success reported; point = {:?}", r.map(|v| (v[0], v[1])));
}

/// Complex system, finite differences, default parameters.
#[test]
fn nan_residual_component_complex() {
    let f = |z: Vector<Cmplx>| Vector::<Cmplx>::create(vec![z[0] - Cmplx::new(1.0, 0.0), z[1].sin() / z[1] - Cmplx::new(0.5, 0.0)]);
    let newton = Newton::<Vector<Cmplx>>::new(Vector::<Cmplx>::create(vec![Cmplx::new(1.0, 0.0), Cmplx::new(0.0, 0.0)]));
    let r = newton.solve(&f);
    assert!(r.is_err(), "success reported; point = {:?}", r.map(|v| (v[0], v[1])));
}

// ---------------------------------------------------------------------------------------------
// Finding 2: the system variants stop on the ABSOLUTE residual of the previous iterate; for an
// equation whose values are small the first test already passes far from the root, and the point
// returned after one step is orders of magnitude further from the root than the tolerance.
// ---------------------------------------------------------------------------------------------

/// exp(-x) = 1e-6 as a system of dimension 1.  Root 6 ln 10 = 13.8155...; guess = root - 0.5 (inside the
/// basin of quadratic convergence: |f''/(2 f')| * 0.5 = 1/4); tol = 1e-6.
#[test]
fn small_valued_equation_real_system() {
    let root = 6.0 * std::f64::consts::LN_10;
    let f = |x: Vec64| Vec64::create(vec![(-x[0]).exp() - 1.0e-6]);
    let j = |x: Vec64| Mat64::new(1, 1, -(-x[0]).exp());
    let mut newton = Newton::<Vec64>::new(Vec64::create(vec![root - 0.5]));
    newton.tolerance(1.0e-6);
    newton.iterations(50);
    let a = newton.solve(&f).expect("success expected");
    let b = newton.solve_jacobian(&f, &j).expect("success expected");
    // the scalar variant on the same equation, guess and tolerance is fine
    let mut scalar = Newton::<f64>::new(root - 0.5);
    scalar.tolerance(1.0e-6);
    scalar.iterations(50);
    let s = scalar.solve(&|x: f64| (-x).exp() - 1.0e-6).expect("success expected");
    assert!((s - root).abs() <= 1.0e-6, "scalar variant: {}", s);
    assert!((a[0] - root).abs() <= 1.0e-3, "finite-difference system variant: Ok({}) , root {}, distance {:e} (tol 1e-6)", a[0], root, (a[0] - root).abs());
    assert!((b[0] - root).abs() <= 1.0e-3, "exact-Jacobian system variant: Ok({}) , root {}, distance {:e} (tol 1e-6)", b[0], root, (b[0] - root).abs());
}

/// 1e-6 (x^2 - 4) as a system of dimension 1, guess 3, tol 1e-4, exact Jacobian: Ok(2.1666...).
#[test]
fn small_valued_polynomial_real_system() {
    let f = |x: Vec64| Vec64::create(vec![1.0e-6 * (x[0] * x[0] - 4.0)]);
    let j = |x: Vec64| Mat64::new(1, 1, 2.0e-6 * x[0]);
    let mut newton = Newton::<Vec64>::new(Vec64::create(vec![3.0]));
    newton.tolerance(1.0e-4);
    let r = newton.solve_jacobian(&f, &j).expect("success expected");
    assert!((r[0] - 2.0).abs() <= 1.0e-1, "Ok({}) : distance {:e} to the root 2 with tol 1e-4", r[0], (r[0] - 2.0).abs());
}

/// Complex system of dimension 2 (decoupled, diagonal Jacobian): 1e-6 (z0^2 + 1), 1e-6 (z1 - 1);
/// roots (i, 1); guess (i + 0.5, 1); tol 1e-4.
#[test]
fn small_valued_polynomial_complex_system() {
    let s = 1.0e-6;
    let f = move |z: Vector<Cmplx>| Vector::<Cmplx>::create(vec![(z[0] * z[0] + Cmplx::new(1.0, 0.0)) * s, (z[1] - Cmplx::new(1.0, 0.0)) * s]);
    let j = move |z: Vector<Cmplx>| {
        let mut m = Matrix::<Cmplx>::new(2, 2, Cmplx::new(0.0, 0.0));
        m[(0, 0)] = z[0] * (2.0 * s); m[(1, 1)] = Cmplx::new(s, 0.0); m
    };
    let mut newton = Newton::<Vector<Cmplx>>::new(Vector::<Cmplx>::create(vec![Cmplx::new(0.5, 1.0), Cmplx::new(1.0, 0.0)]));
    newton.tolerance(1.0e-4);
    let a = newton.solve(&f).expect("success expected");
    let b = newton.solve_jacobian(&f, &j).expect("success expected");
    let da = (a[0] - Cmplx::new(0.0, 1.0)).abs();
    let db = (b[0] - Cmplx::new(0.0, 1.0)).abs();
    assert!(da <= 1.0e-2 && db <= 1.0e-2, "distances to the root i: {:e} (FD), {:e} (exact Jacobian) with tol 1e-4", da, db);
}
