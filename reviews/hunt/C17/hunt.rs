// Independent adversarial hunt for property C17 (Newton: success means a root; bounded work;
// failure reported; state untouched).  Public API only.
#![allow(dead_code)]
use ohsl::complex::Cmplx;
use ohsl::matrix::{Mat64, Matrix};
use ohsl::newton::Newton;
use ohsl::vector::{Vec64, Vector};
use std::cell::RefCell;
use std::io::Write;
use std::panic::{catch_unwind, AssertUnwindSafe};

// ---------------------------------------------------------------- rng
struct Rng(u64);
impl Rng {
    fn new(seed: u64) -> Self { Rng(seed.wrapping_mul(0x9E3779B97F4A7C15) | 1) }
    fn next(&mut self) -> u64 {
        let mut x = self.0;
        x ^= x >> 12; x ^= x << 25; x ^= x >> 27;
        self.0 = x;
        x.wrapping_mul(0x2545F4914F6CDD1D)
    }
    fn uni(&mut self) -> f64 { (self.next() >> 11) as f64 / (1u64 << 53) as f64 }
    fn range(&mut self, a: f64, b: f64) -> f64 { a + (b - a) * self.uni() }
    fn below(&mut self, n: usize) -> usize { (self.next() % n as u64) as usize }
    fn sign(&mut self) -> f64 { if self.next() & 1 == 0 { 1.0 } else { -1.0 } }
    fn logu(&mut self, a: f64, b: f64) -> f64 { (self.range(a.ln(), b.ln())).exp() }
    fn tol(&mut self) -> f64 {
        match self.below(8) { 0 => 1e-12, 1 => 1e-4, 2 => 1e-8, _ => self.logu(1e-12, 1e-4) }
    }
    fn iters(&mut self) -> usize {
        match self.below(10) { 0 => 0, 1 => 1, 2 => 2, 3 => 50, 4 => 20, _ => self.below(51) }
    }
}

// ---------------------------------------------------------------- report
struct Rep { name: &'static str, cases: u64, nfail: u64, fails: Vec<String>, kinds: std::collections::BTreeMap<String, (u64, Vec<String>)> }
impl Rep {
    fn new(name: &'static str) -> Self { Rep { name, cases: 0, nfail: 0, fails: vec![], kinds: Default::default() } }
    fn fail(&mut self, msg: String) {
        self.nfail += 1;
        let kind: String = msg.chars().take_while(|ch| ch.is_ascii_uppercase() || *ch == ' ' || *ch == ':' || *ch == '(' || *ch == ')' || *ch == '!' || *ch == '=' || ch.is_ascii_digit()).collect();
        let e = self.kinds.entry(kind.trim().to_string()).or_insert((0, vec![]));
        e.0 += 1;
        if e.1.len() < 12 { e.1.push(msg); }
    }
    fn finish(self) {
        let path = format!("/tmp/seed/C17.p/log_{}.txt", self.name);
        if let Ok(mut f) = std::fs::File::create(&path) {
            let _ = writeln!(f, "{}: cases={} failures={}", self.name, self.cases, self.nfail);
            for (k, (n, ms)) in &self.kinds { let _ = writeln!(f, "== kind [{}] count={}", k, n); for m in ms { let _ = writeln!(f, "{}", m); } }
        }
        eprintln!("{}: cases={} failures={}", self.name, self.cases, self.nfail);
        if self.nfail > 0 { panic!("{}: {} failures, kinds: {:?}", self.name, self.nfail, self.kinds.iter().map(|(k, v)| (k.clone(), v.0)).collect::<Vec<_>>()); }
    }
}

fn beq(a: f64, b: f64) -> bool { a.to_bits() == b.to_bits() || (a.is_nan() && b.is_nan()) }
fn ceq(a: Cmplx, b: Cmplx) -> bool { beq(a.real, b.real) && beq(a.imag, b.imag) }
fn cabs(z: Cmplx) -> f64 { z.real.hypot(z.imag) }
fn c(re: f64, im: f64) -> Cmplx { Cmplx::new(re, im) }

// ================================================================ scalar real harness
struct SOut { res: Result<f64, f64>, iters: usize }

/// Runs Newton<f64>::solve twice, checks: no panic, determinism, parameters untouched, call count,
/// and mirrors the iteration from the recorded calls (stopping rule, value carried by Ok/Err).
fn scalar_run(rep: &mut Rep, tag: &str, f: &dyn Fn(f64) -> f64, guess: f64, tol: f64, delta: Option<f64>,
              max_iter: usize) -> Option<SOut> {
    rep.cases += 1;
    let log: RefCell<Vec<(f64, f64)>> = RefCell::new(vec![]);
    let wrapped = |x: f64| { let y = f(x); log.borrow_mut().push((x, y)); y };
    let mut newton = Newton::<f64>::new(guess);
    newton.tolerance(tol);
    newton.iterations(max_iter);
    if let Some(d) = delta { newton.delta(d); }
    let p0 = newton.parameters();
    let r1 = catch_unwind(AssertUnwindSafe(|| newton.solve(&wrapped)));
    let calls: Vec<(f64, f64)> = log.borrow_mut().drain(..).collect();
    let r2 = catch_unwind(AssertUnwindSafe(|| newton.solve(&wrapped)));
    let calls2: Vec<(f64, f64)> = log.borrow_mut().drain(..).collect();
    let p1 = newton.parameters();
    let desc = format!("{} guess={:e} tol={:e} delta={:?} max_iter={}", tag, guess, tol, delta, max_iter);
    let (r1, r2) = match (r1, r2) {
        (Ok(a), Ok(b)) => (a, b),
        _ => { rep.fail(format!("PANIC {}", desc)); return None; }
    };
    let same = match (&r1, &r2) { (Ok(a), Ok(b)) => beq(*a, *b), (Err(a), Err(b)) => beq(*a, *b), _ => false };
    if !same || calls.len() != calls2.len() { rep.fail(format!("NONDETERMINISTIC {} {:?} vs {:?}", desc, r1, r2)); }
    if !(beq(p0.0, p1.0) && beq(p0.1, p1.1) && p0.2 == p1.2 && beq(p0.3, p1.3))
        || !(beq(p0.0, tol) && p0.2 == max_iter && beq(p0.3, guess)) {
        rep.fail(format!("PARAMS CHANGED {} {:?} -> {:?}", desc, p0, p1));
    }
    // bounded work
    if calls.len() > 3 * max_iter || calls.len() % 3 != 0 {
        rep.fail(format!("EVALS {} calls={}", desc, calls.len()));
        return Some(SOut { res: r1, iters: calls.len() / 3 });
    }
    let iters = calls.len() / 3;
    // mirror
    let dl = p0.1;
    let mut cur = guess;
    let mut stopped = false;
    for k in 0..iters {
        if stopped { rep.fail(format!("CONTINUED AFTER STOP {} k={}", desc, k)); break; }
        let (xp, fp) = calls[3 * k]; let (xm, fm) = calls[3 * k + 1]; let (x0, f0) = calls[3 * k + 2];
        if !(beq(xp, cur + dl) && beq(xm, cur - dl) && beq(x0, cur)) {
            rep.fail(format!("CALL POINTS {} k={} cur={:e} got {:e} {:e} {:e}", desc, k, cur, xp, xm, x0));
            break;
        }
        let deriv = (fp - fm) / (2.0 * dl);
        let dx = f0 / deriv;
        cur -= dx;
        if dx.abs() <= tol { stopped = true; }
    }
    match r1 {
        Ok(v) => {
            if !stopped { rep.fail(format!("OK WITHOUT CRITERION {} -> Ok({:e})", desc, v)); }
            if !beq(v, cur) { rep.fail(format!("OK VALUE {} -> Ok({:e}) mirror {:e}", desc, v, cur)); }
            if !v.is_finite() { rep.fail(format!("OK NONFINITE {} -> Ok({:e})", desc, v)); }
        }
        Err(v) => {
            if stopped { rep.fail(format!("ERR THOUGH CRITERION MET {} -> Err({:e})", desc, v)); }
            if iters != max_iter { rep.fail(format!("ERR BEFORE BUDGET {} iters={}", desc, iters)); }
            if !beq(v, cur) { rep.fail(format!("ERR VALUE {} -> Err({:e}) mirror {:e}", desc, v, cur)); }
        }
    }
    Some(SOut { res: r1, iters })
}

// reference Newton with exact derivative; returns (#iterations until |dx|<=tol, contracted monotonically)
fn ref_newton(f: &dyn Fn(f64) -> f64, df: &dyn Fn(f64) -> f64, root: f64, guess: f64, tol: f64) -> Option<usize> {
    let mut x = guess;
    let mut e = (x - root).abs();
    let floor = 4e-15 * (1.0 + root.abs());
    for k in 1..=12 {
        let dx = f(x) / df(x);
        x -= dx;
        let e1 = (x - root).abs();
        if !(e1 <= 0.5 * e || e1 <= floor) { return None; }
        e = e1;
        if dx.abs() <= tol { return Some(k); }
    }
    None
}

/// success-half oracle for scalar problems
fn scalar_expect(rep: &mut Rep, tag: &str, out: &SOut, root: f64, guess: f64, tol: f64, max_iter: usize,
                 need: Option<usize>, floor: f64) {
    let slack = 10.0 * tol + 10.0 * floor + 1e-14 * (1.0 + root.abs());
    match out.res {
        Ok(v) => {
            if floor.is_finite() && !((v - root).abs() <= slack) {
                rep.fail(format!("OK FAR FROM ROOT {} root={:e} guess={:e} tol={:e} it={} -> Ok({:e}) err={:e}",
                                 tag, root, guess, tol, max_iter, v, (v - root).abs()));
            }
        }
        Err(v) => {
            if let Some(n) = need {
                if max_iter >= n + 2 && floor <= 0.05 * tol {
                    rep.fail(format!("ERR IN BASIN {} root={:e} guess={:e} tol={:e} it={} need={} -> Err({:e}) err={:e}",
                                     tag, root, guess, tol, max_iter, n, v, (v - root).abs()));
                }
            }
            if max_iter == 0 && !beq(v, guess) { rep.fail(format!("ERR(0 iters) != guess {}", tag)); }
        }
    }
}

// ---------------------------------------------------------------- real polynomials
fn sep_roots(rng: &mut Rng, d: usize) -> Vec<f64> {
    let style = rng.below(5);
    let mut r = vec![0.0; d];
    let mut x = match style { 0 => 0.0, 1 => -(d as f64), _ => rng.range(-8.0, 2.0) };
    for i in 0..d {
        r[i] = x;
        x += match style { 0 | 1 => 1.0, 2 => rng.range(0.1, 0.5), 3 => rng.logu(0.05, 5.0), _ => rng.range(0.5, 3.0) };
    }
    if style >= 2 && rng.below(3) == 0 { // put a root exactly at 0 or +-1 or a power of two
        let k = rng.below(d);
        let shift = r[k] - [0.0, 1.0, -1.0, 2.0, 0.5][rng.below(5)];
        for v in r.iter_mut() { *v -= shift; }
    }
    r
}

fn expand(lead: f64, roots: &[f64]) -> Vec<f64> {
    // coefficients a[0] + a[1] x + ...
    let mut a = vec![lead];
    for &r in roots {
        let mut b = vec![0.0; a.len() + 1];
        for i in 0..a.len() { b[i + 1] += a[i]; b[i] -= r * a[i]; }
        a = b;
    }
    a
}

#[test]
fn real_polynomials() {
    let mut rep = Rep::new("real_polynomials");
    let mut rng = Rng::new(11);
    for _case in 0..120_000 {
        let d = 1 + rng.below(6);
        let roots = sep_roots(&mut rng, d);
        let lead = rng.sign() * match rng.below(4) { 0 => 1.0, 1 => rng.logu(0.01, 100.0), _ => rng.range(0.5, 4.0) };
        let k = rng.below(d);
        let root = roots[k];
        let sep = roots.iter().enumerate().filter(|(i, _)| *i != k).map(|(_, r)| (r - root).abs())
            .fold(f64::INFINITY, f64::min);
        let radius = if d == 1 { 10.0 } else { sep / (4.0 * d as f64) };
        let theta = match rng.below(6) { 0 => 0.0, 1 => 1.0, 2 => -1.0, _ => rng.range(-1.0, 1.0) };
        let guess = root + theta * radius;
        let tol = rng.tol();
        let max_iter = rng.iters();
        let horner = rng.below(2) == 0;
        let coef = expand(lead, &roots);
        let rs = roots.clone();
        let prod = move |x: f64| { let mut p = lead; for r in &rs { p *= x - r; } p };
        let cf = coef.clone();
        let horn = move |x: f64| { let mut p = 0.0; for a in cf.iter().rev() { p = p * x + a; } p };
        let rs2 = roots.clone();
        let dprod = move |x: f64| {
            let mut s = 0.0;
            for i in 0..rs2.len() { let mut p = lead; for (j, r) in rs2.iter().enumerate() { if j != i { p *= x - r; } } s += p; }
            s
        };
        let f: &dyn Fn(f64) -> f64 = if horner { &horn } else { &prod };
        // noise floor of the evaluation (in units of x)
        let dp = dprod(root).abs();
        let floor = if horner {
            let mut s = 0.0; let mut p = 1.0;
            for a in &coef { s += a.abs() * p; p *= root.abs().max(1e-300); }
            // evaluation noise eps*s; it also perturbs the finite-difference derivative by eps*s/delta:
            // when that is not small against p'(root) the user's (computed) function is not smooth at
            // the scale of delta and no claim is made (floor = inf)
            if f64::EPSILON * s / 1e-8 > 0.01 * dp { f64::INFINITY } else { 8.0 * f64::EPSILON * s / dp }
        } else { 0.0 };
        let need = ref_newton(&prod, &dprod, root, guess, tol);
        if need.is_none() && d > 1 && theta.abs() < 0.999 {
            // the analytic basin argument says this cannot happen
            rep.fail(format!("ORACLE: reference newton did not contract roots={:?} k={} guess={:e}", roots, k, guess));
        }
        let delta = match rng.below(10) { 0 => Some(1e-6), 1 => Some(1e-7), _ => None };
        let tag = format!("poly{} lead={:e} roots={:?} k={}", if horner { "H" } else { "P" }, lead, roots, k);
        if let Some(out) = scalar_run(&mut rep, &tag, f, guess, tol, delta, max_iter) {
            scalar_expect(&mut rep, &tag, &out, root, guess, tol, max_iter, need, floor);
        }
    }
    rep.finish();
}

// ---------------------------------------------------------------- real exp / trig
#[test]
fn real_exp_trig() {
    let mut rep = Rep::new("real_exp_trig");
    let mut rng = Rng::new(22);
    type G = (&'static str, fn(f64) -> f64, fn(f64) -> f64, f64, f64);
    let fams: Vec<G> = vec![
        ("exp", |x| x.exp(), |x| x.exp(), -3.0, 4.0),
        ("sin", |x| x.sin(), |x| x.cos(), -1.2, 1.2),
        ("cos", |x| x.cos(), |x| -x.sin(), 0.4, 2.7),
        ("tan", |x| x.tan(), |x| 1.0 / (x.cos() * x.cos()), -1.2, 1.2),
        ("xexp", |x| x * x.exp(), |x| (1.0 + x) * x.exp(), -0.5, 3.0),
        ("x-exp(-x)", |x| x - (-x).exp(), |x| 1.0 + (-x).exp(), -2.0, 3.0),
        ("sinh", |x| x.sinh(), |x| x.cosh(), -3.0, 3.0),
        ("atan", |x| x.atan(), |x| 1.0 / (1.0 + x * x), -2.0, 2.0),
        ("x+sin", |x| 2.0 * x + x.sin(), |x| 2.0 + x.cos(), -6.0, 6.0),
        ("exp-x2", |x| x.exp() - x * x, |x| x.exp() - 2.0 * x, -3.0, 0.0),
        ("cos-x", |x| x.cos() - x, |x| -x.sin() - 1.0, -3.0, 3.0),
        ("ln", |x| x.ln(), |x| 1.0 / x, 0.2, 20.0),
        ("x3+x", |x| x * x * x + x, |x| 3.0 * x * x + 1.0, -3.0, 3.0),
    ];
    for _case in 0..150_000 {
        let (name, g, dg, lo, hi) = fams[rng.below(fams.len())];
        let root = match rng.below(8) { 0 => lo, 1 => hi, 2 => if lo <= 0.0 && hi >= 0.0 { 0.0 } else { 1.0 }, _ => rng.range(lo, hi) };
        let gr = g(root);
        let scale = rng.sign() * match rng.below(3) { 0 => 1.0, 1 => rng.logu(1e-6, 1e6), _ => rng.logu(0.1, 10.0) };
        let f = move |x: f64| scale * (g(x) - gr);
        let df = move |x: f64| scale * dg(x);
        let tol = rng.tol();
        let max_iter = rng.iters();
        // find a guess inside the basin operationally: shrink offset until the reference contracts from
        // guess and from 1.5 * offset on both sides
        let mut off = rng.sign() * rng.logu(1e-3, 1.0);
        if rng.below(12) == 0 { off = 0.0; }
        let mut need = None;
        for _ in 0..12 {
            let ok = [1.0, 1.5, -1.0, -1.5].iter().all(|m| ref_newton(&f, &df, root, root + m * off, 1e-13).is_some());
            if ok { need = ref_newton(&f, &df, root, root + off, tol); if need.is_some() { break; } }
            off *= 0.5;
        }
        if need.is_none() { continue; }
        let guess = root + off;
        // floor: g(x)-g(root) is evaluated with abs error ~ eps*|g|
        let floor = 4.0 * f64::EPSILON * (gr.abs() + 1.0) / dg(root).abs();
        let tag = format!("{} scale={:e}", name, scale);
        if let Some(out) = scalar_run(&mut rep, &tag, &f, guess, tol, None, max_iter) {
            scalar_expect(&mut rep, &tag, &out, root, guess, tol, max_iter, need, floor);
        }
    }
    rep.finish();
}

// ---------------------------------------------------------------- scalar boundaries / ties
#[test]
fn real_boundaries() {
    let mut rep = Rep::new("real_boundaries");
    // exact tie |dx| == tol : f(x)=x, delta power of two, guess = tol = 2^-20
    let t = 2f64.powi(-20);
    let id = |x: f64| x;
    let mut n = Newton::<f64>::new(t);
    n.tolerance(t); n.delta(2f64.powi(-27)); n.iterations(1);
    rep.cases += 1;
    match n.solve(&id) { Ok(v) if v == 0.0 => {}, other => rep.fail(format!("tie |dx|==tol: {:?}", other)) }
    // just above the tie
    let mut n = Newton::<f64>::new(t * (1.0 + 2.0 * f64::EPSILON));
    n.tolerance(t); n.delta(2f64.powi(-27)); n.iterations(1);
    rep.cases += 1;
    match n.solve(&id) { Err(v) if v.abs() < 1e-20 => {}, other => rep.fail(format!("just above tie: {:?}", other)) }
    // budget 0 at an exact root
    let f = |x: f64| x * x - 4.0;
    for it in 0..4 {
        for &g in &[2.0, -2.0, 1.0, 3.0, 2.5] {
            for &tol in &[1e-12, 1e-8, 1e-4] {
                if let Some(out) = scalar_run(&mut rep, "x^2-4", &f, g, tol, None, it) {
                    if it == 0 { if !matches!(out.res, Err(v) if beq(v, g)) { rep.fail(format!("budget 0: {:?}", out.res)); } }
                    if it >= 1 && (g == 2.0 || g == -2.0) {
                        if !matches!(out.res, Ok(v) if v == g) { rep.fail(format!("at root budget {}: {:?}", it, out.res)); }
                    }
                }
            }
        }
    }
    rep.finish();
}

// ================================================================ termination half, scalar
fn weird(k: usize, x: f64) -> f64 {
    match k {
        0 => x * x + 1.0,
        1 => x.exp(),
        2 => (-x).exp(),
        3 => x.cosh(),
        4 => 1.0 / (1.0 + x * x),
        5 => 2.0 + x.sin(),
        6 => x.abs() + 1.0,
        7 => x.abs(),
        8 => x.abs().sqrt(),
        9 => x.cbrt(),
        10 => if x > 0.0 { 1.0 } else if x < 0.0 { -1.0 } else { x },   // sign(x); NaN stays NaN
        11 => x.floor() + 0.5,
        12 => x.abs() - 1.0,
        13 => if x.is_nan() { x } else { x.max(0.0) + 0.5 },
        14 => x.sqrt(),
        15 => x.ln(),
        16 => 1.0 + 0.0 * x,   // constants written so that a NaN argument gives NaN
        17 => 0.0 * x,
        18 => x - 0.75,
        19 => x * x * x - 2.0 * x + 2.0,
        20 => x.atan(),
        21 => 1.0 / x,
        22 => x * x,
        23 => x.tan(),
        24 => if x.is_nan() { x } else { let h = (x.to_bits().wrapping_mul(0x9E3779B97F4A7C15) >> 11) as f64 / (1u64 << 53) as f64; h - 0.5 },
        25 => (-(x.exp())).exp(),
        26 => x.abs().powf(1.5) + 1e-3,
        27 => if x >= 0.0 { x + 1.0 } else { x - 1.0 },
        28 => (x * 1e3).sin() + 1.5,
        29 => x.abs().sqrt() * x.signum(),
        _ => unreachable!(),
    }
}
const NWEIRD: usize = 30;

#[test]
fn real_termination() {
    let mut rep = Rep::new("real_termination");
    let mut rng = Rng::new(33);
    let specials = [0.0, 1.0, -1.0, 0.5, 2.0, 1e-8, -1e-8, 1e-3, 10.0, -10.0, 0.75, 1e-300, 100.0];
    for _case in 0..150_000 {
        let k = rng.below(NWEIRD);
        let guess = match rng.below(4) { 0 => specials[rng.below(specials.len())], 1 => rng.range(-1.0, 1.0), _ => rng.range(-6.0, 6.0) };
        let tol = rng.tol();
        let max_iter = rng.iters();
        let delta = match rng.below(6) { 0 => Some(rng.logu(1e-10, 1e-4)), _ => None };
        let f = move |x: f64| weird(k, x);
        scalar_run(&mut rep, &format!("weird{}", k), &f, guess, tol, delta, max_iter);
    }
    rep.finish();
}

// ================================================================ complex scalar harness
struct COut { res: Result<Cmplx, Cmplx>, iters: usize }

fn cscalar_run(rep: &mut Rep, tag: &str, f: &dyn Fn(Cmplx) -> Cmplx, guess: Cmplx, tol: f64, delta: Option<f64>,
               max_iter: usize) -> Option<COut> {
    rep.cases += 1;
    let log: RefCell<Vec<(Cmplx, Cmplx)>> = RefCell::new(vec![]);
    let wrapped = |x: Cmplx| { let y = f(x); log.borrow_mut().push((x, y)); y };
    let mut newton = Newton::<Cmplx>::new(guess);
    newton.tolerance(tol);
    newton.iterations(max_iter);
    if let Some(d) = delta { newton.delta(d); }
    let p0 = newton.parameters();
    let r1 = catch_unwind(AssertUnwindSafe(|| newton.solve(&wrapped)));
    let calls: Vec<(Cmplx, Cmplx)> = log.borrow_mut().drain(..).collect();
    let r2 = catch_unwind(AssertUnwindSafe(|| newton.solve(&wrapped)));
    let calls2: Vec<(Cmplx, Cmplx)> = log.borrow_mut().drain(..).collect();
    let p1 = newton.parameters();
    let desc = format!("{} guess=({:e},{:e}) tol={:e} delta={:?} max_iter={}", tag, guess.real, guess.imag, tol, delta, max_iter);
    let (r1, r2) = match (r1, r2) {
        (Ok(a), Ok(b)) => (a, b),
        _ => { rep.fail(format!("PANIC {}", desc)); return None; }
    };
    let same = match (&r1, &r2) { (Ok(a), Ok(b)) => ceq(*a, *b), (Err(a), Err(b)) => ceq(*a, *b), _ => false };
    if !same || calls.len() != calls2.len() { rep.fail(format!("NONDETERMINISTIC {}", desc)); }
    if !(beq(p0.0, p1.0) && beq(p0.1, p1.1) && p0.2 == p1.2 && ceq(p0.3, p1.3))
        || !(beq(p0.0, tol) && p0.2 == max_iter && ceq(p0.3, guess)) {
        rep.fail(format!("PARAMS CHANGED {}", desc));
    }
    if calls.len() > 3 * max_iter || calls.len() % 3 != 0 {
        rep.fail(format!("EVALS {} calls={}", desc, calls.len()));
        return Some(COut { res: r1, iters: calls.len() / 3 });
    }
    let iters = calls.len() / 3;
    let dl = p0.1;
    let mut cur = guess;
    let mut stopped = false;
    for k in 0..iters {
        if stopped { rep.fail(format!("CONTINUED AFTER STOP {} k={}", desc, k)); break; }
        let (xp, fp) = calls[3 * k]; let (xm, fm) = calls[3 * k + 1]; let (x0, f0) = calls[3 * k + 2];
        if !(ceq(xp, cur + c(dl, 0.0)) && ceq(xm, cur - c(dl, 0.0)) && ceq(x0, cur)) {
            rep.fail(format!("CALL POINTS {} k={}", desc, k));
            break;
        }
        // own complex arithmetic (not the library's)
        let dr = (fp.real - fm.real) / (2.0 * dl); let di = (fp.imag - fm.imag) / (2.0 * dl);
        let den = dr * dr + di * di;
        let dxr = (f0.real * dr + f0.imag * di) / den; let dxi = (f0.imag * dr - f0.real * di) / den;
        cur = c(cur.real - dxr, cur.imag - dxi);
        let m = (dxr * dxr + dxi * dxi).sqrt();
        if m <= tol { stopped = true; }
    }
    match r1 {
        Ok(v) => {
            if !stopped { rep.fail(format!("OK WITHOUT CRITERION {} -> Ok({:?})", desc, v)); }
            if !ceq(v, cur) { rep.fail(format!("OK VALUE {} -> Ok({:?}) mirror {:?}", desc, v, cur)); }
            if !(v.real.is_finite() && v.imag.is_finite()) { rep.fail(format!("OK NONFINITE {} -> Ok({:?})", desc, v)); }
        }
        Err(v) => {
            if stopped { rep.fail(format!("ERR THOUGH CRITERION MET {} -> Err({:?})", desc, v)); }
            if iters != max_iter { rep.fail(format!("ERR BEFORE BUDGET {} iters={}", desc, iters)); }
            if !ceq(v, cur) { rep.fail(format!("ERR VALUE {} -> Err({:?}) mirror {:?}", desc, v, cur)); }
        }
    }
    Some(COut { res: r1, iters })
}

// own complex helpers
fn cmul(a: Cmplx, b: Cmplx) -> Cmplx { c(a.real * b.real - a.imag * b.imag, a.real * b.imag + a.imag * b.real) }
fn cdiv(a: Cmplx, b: Cmplx) -> Cmplx {
    let den = b.real * b.real + b.imag * b.imag;
    c((a.real * b.real + a.imag * b.imag) / den, (a.imag * b.real - a.real * b.imag) / den)
}
fn cadd(a: Cmplx, b: Cmplx) -> Cmplx { c(a.real + b.real, a.imag + b.imag) }
fn csub(a: Cmplx, b: Cmplx) -> Cmplx { c(a.real - b.real, a.imag - b.imag) }
fn cexp(z: Cmplx) -> Cmplx { let e = z.real.exp(); c(e * z.imag.cos(), e * z.imag.sin()) }
fn csin(z: Cmplx) -> Cmplx { c(z.real.sin() * z.imag.cosh(), z.real.cos() * z.imag.sinh()) }
fn ccos(z: Cmplx) -> Cmplx { c(z.real.cos() * z.imag.cosh(), -z.real.sin() * z.imag.sinh()) }
fn cscale(s: f64, z: Cmplx) -> Cmplx { c(s * z.real, s * z.imag) }

fn cref_newton(f: &dyn Fn(Cmplx) -> Cmplx, df: &dyn Fn(Cmplx) -> Cmplx, root: Cmplx, guess: Cmplx, tol: f64) -> Option<usize> {
    let mut x = guess;
    let mut e = cabs(csub(x, root));
    let floor = 4e-15 * (1.0 + cabs(root));
    for k in 1..=12 {
        let dx = cdiv(f(x), df(x));
        x = csub(x, dx);
        let e1 = cabs(csub(x, root));
        if !(e1 <= 0.5 * e || e1 <= floor) { return None; }
        e = e1;
        if cabs(dx) <= tol { return Some(k); }
    }
    None
}

fn cscalar_expect(rep: &mut Rep, tag: &str, out: &COut, root: Cmplx, guess: Cmplx, tol: f64, max_iter: usize,
                  need: Option<usize>, floor: f64) {
    let slack = 10.0 * tol + 10.0 * floor + 1e-14 * (1.0 + cabs(root));
    match out.res {
        Ok(v) => {
            let e = cabs(csub(v, root));
            if floor.is_finite() && !(e <= slack) {
                rep.fail(format!("OK FAR FROM ROOT {} root={:?} guess={:?} tol={:e} it={} -> Ok({:?}) err={:e}",
                                 tag, root, guess, tol, max_iter, v, e));
            }
        }
        Err(v) => {
            if let Some(n) = need {
                if max_iter >= n + 2 && floor <= 0.05 * tol {
                    rep.fail(format!("ERR IN BASIN {} root={:?} guess={:?} tol={:e} it={} need={} -> Err({:?}) err={:e}",
                                     tag, root, guess, tol, max_iter, n, v, cabs(csub(v, root))));
                }
            }
            if max_iter == 0 && !ceq(v, guess) { rep.fail(format!("ERR(0 iters) != guess {}", tag)); }
        }
    }
}

fn csep_roots(rng: &mut Rng, d: usize) -> Vec<Cmplx> {
    let style = rng.below(5);
    let minsep = [0.3, 0.5, 1.0][rng.below(3)];
    let mut r: Vec<Cmplx> = vec![];
    let mut guard = 0;
    while r.len() < d {
        guard += 1;
        let z = match style {
            0 => c(rng.range(-4.0, 4.0), 0.0),                   // purely real
            1 => c(0.0, rng.range(-4.0, 4.0)),                   // purely imaginary
            2 => { let t = rng.range(0.0, 6.283185307179586); let m = rng.range(0.5, 3.0); c(m * t.cos(), m * t.sin()) }
            3 => c((rng.below(9) as f64) - 4.0, (rng.below(9) as f64) - 4.0), // Gaussian integers
            _ => c(rng.range(-4.0, 4.0), rng.range(-4.0, 4.0)),
        };
        if r.iter().all(|w| cabs(csub(*w, z)) >= minsep) { r.push(z); }
        if guard > 10_000 { break; }
    }
    r
}

#[test]
fn complex_polynomials() {
    let mut rep = Rep::new("complex_polynomials");
    let mut rng = Rng::new(44);
    for _case in 0..40_000 {
        let d = 1 + rng.below(6);
        let mut roots = csep_roots(&mut rng, d);
        let d = roots.len();
        // sometimes conjugate-symmetric (real-coefficient polynomial)
        if rng.below(5) == 0 && d >= 2 {
            let z = roots[0];
            if z.imag.abs() >= 0.3 {
                let zc = c(z.real, -z.imag);
                if roots.iter().skip(2).all(|w| cabs(csub(*w, zc)) >= 0.3) { roots[1] = zc; }
            }
        }
        let lead = match rng.below(3) { 0 => c(1.0, 0.0), 1 => c(0.0, 1.0), _ => c(rng.range(-3.0, 3.0), rng.range(0.3, 3.0)) };
        let k = rng.below(d);
        let root = roots[k];
        let sep = roots.iter().enumerate().filter(|(i, _)| *i != k).map(|(_, r)| cabs(csub(*r, root)))
            .fold(f64::INFINITY, f64::min);
        let radius = if d == 1 { 10.0 } else { sep / (4.0 * d as f64) };
        let theta = match rng.below(6) { 0 => 0.0, 1 => 1.0, _ => rng.uni() };
        let ang = match rng.below(4) { 0 => 0.0, 1 => 1.5707963267948966, _ => rng.range(0.0, 6.283185307179586) };
        let guess = c(root.real + theta * radius * ang.cos(), root.imag + theta * radius * ang.sin());
        let tol = rng.tol();
        let max_iter = rng.iters();
        let horner = rng.below(2) == 0;
        // expanded coefficients (own arithmetic)
        let mut coef = vec![lead];
        for r in &roots {
            let mut b = vec![c(0.0, 0.0); coef.len() + 1];
            for i in 0..coef.len() { b[i + 1] = cadd(b[i + 1], coef[i]); b[i] = csub(b[i], cmul(*r, coef[i])); }
            coef = b;
        }
        let rs = roots.clone();
        // the user functions use the library's operator forms on purpose (that is what a user writes)
        let prod = move |x: Cmplx| { let mut p = lead; for r in &rs { p = p * (x - *r); } p };
        let cf = coef.clone();
        let horn = move |x: Cmplx| { let mut p = c(0.0, 0.0); for a in cf.iter().rev() { p = p * x + *a; } p };
        let rs2 = roots.clone();
        let prod_own = move |x: Cmplx| { let mut p = lead; for r in &rs2 { p = cmul(p, csub(x, *r)); } p };
        let rs3 = roots.clone();
        let dprod = move |x: Cmplx| {
            let mut s = c(0.0, 0.0);
            for i in 0..rs3.len() { let mut p = lead; for (j, r) in rs3.iter().enumerate() { if j != i { p = cmul(p, csub(x, *r)); } } s = cadd(s, p); }
            s
        };
        let f: &dyn Fn(Cmplx) -> Cmplx = if horner { &horn } else { &prod };
        let dp = cabs(dprod(root));
        let floor = if horner {
            let mut s = 0.0; let mut p = 1.0;
            for a in &coef { s += cabs(*a) * p; p *= cabs(root).max(1e-300); }
            if f64::EPSILON * s / 1e-8 > 0.01 * dp { f64::INFINITY } else { 16.0 * f64::EPSILON * s / dp }
        } else { 0.0 };
        let need = cref_newton(&prod_own, &dprod, root, guess, tol);
        if need.is_none() && d > 1 && theta < 0.999 {
            rep.fail(format!("ORACLE: reference newton did not contract roots={:?} k={} guess={:?}", roots, k, guess));
        }
        let tag = format!("cpoly{} lead={:?} roots={:?} k={}", if horner { "H" } else { "P" }, lead, roots, k);
        if let Some(out) = cscalar_run(&mut rep, &tag, f, guess, tol, None, max_iter) {
            cscalar_expect(&mut rep, &tag, &out, root, guess, tol, max_iter, need, floor);
        }
    }
    rep.finish();
}

#[test]
fn complex_exp_trig() {
    let mut rep = Rep::new("complex_exp_trig");
    let mut rng = Rng::new(55);
    type G = (&'static str, fn(Cmplx) -> Cmplx, fn(Cmplx) -> Cmplx);
    let fams: Vec<G> = vec![
        ("exp", |z| cexp(z), |z| cexp(z)),
        ("sin", |z| csin(z), |z| ccos(z)),
        ("cos", |z| ccos(z), |z| cscale(-1.0, csin(z))),
        ("zexp", |z| cmul(z, cexp(z)), |z| cmul(cadd(z, c(1.0, 0.0)), cexp(z))),
        ("z3+z", |z| cadd(cmul(z, cmul(z, z)), z), |z| cadd(cscale(3.0, cmul(z, z)), c(1.0, 0.0))),
        ("libexp", |z| z.exp(), |z| cexp(z)),
        ("libsin", |z| z.sin(), |z| ccos(z)),
    ];
    for _case in 0..30_000 {
        let (name, g, dg) = fams[rng.below(fams.len())];
        let root = match rng.below(6) { 0 => c(rng.range(-2.0, 2.0), 0.0), 1 => c(0.0, rng.range(-2.0, 2.0)), _ => c(rng.range(-2.0, 2.0), rng.range(-2.0, 2.0)) };
        if cabs(dg(root)) < 0.3 { continue; }
        let gr = g(root);
        let sc = match rng.below(3) { 0 => c(1.0, 0.0), 1 => c(0.0, 1.0), _ => c(rng.range(-2.0, 2.0), rng.range(0.5, 2.0)) };
        let f = move |z: Cmplx| cmul(sc, csub(g(z), gr));
        let df = move |z: Cmplx| cmul(sc, dg(z));
        let tol = rng.tol();
        let max_iter = rng.iters();
        let ang = rng.range(0.0, 6.283185307179586);
        let mut off = rng.logu(1e-3, 1.0);
        if rng.below(12) == 0 { off = 0.0; }
        let mut need = None;
        for _ in 0..12 {
            let ok = (0..8).all(|q| {
                let a = ang + q as f64 * 0.7853981633974483;
                let m = if q == 0 { 1.0 } else { 1.5 };
                cref_newton(&f, &df, root, c(root.real + m * off * a.cos(), root.imag + m * off * a.sin()), 1e-13).is_some()
            });
            if ok { need = cref_newton(&f, &df, root, c(root.real + off * ang.cos(), root.imag + off * ang.sin()), tol); if need.is_some() { break; } }
            off *= 0.5;
        }
        if need.is_none() { continue; }
        let guess = c(root.real + off * ang.cos(), root.imag + off * ang.sin());
        let floor = 8.0 * f64::EPSILON * (cabs(gr) + 1.0) / cabs(dg(root));
        let tag = format!("c{} sc={:?}", name, sc);
        if let Some(out) = cscalar_run(&mut rep, &tag, &f, guess, tol, None, max_iter) {
            cscalar_expect(&mut rep, &tag, &out, root, guess, tol, max_iter, need, floor);
        }
    }
    rep.finish();
}

fn cweird(k: usize, z: Cmplx) -> Cmplx {
    match k {
        0 => cexp(z),                                   // entire, root free
        1 => c(z.real, -z.imag),                        // conj: not analytic
        2 => c(cabs(z), 0.0),                           // |z|
        3 => cadd(cmul(z, z), c(1.0, 0.0)),             // from real guesses: stays real, chaotic
        4 => cdiv(c(1.0, 0.0), z),
        5 => cadd(c(1.0, 1.0), cscale(0.0, z)),
        6 => cscale(0.0, z),
        7 => c(z.real.abs(), z.imag.abs()),
        8 => c(z.real.ln(), z.imag),                    // partial
        9 => cadd(cexp(z), c(0.0, 0.0)),
        10 => cmul(z, z),                               // double root
        11 => c(weird(24, z.real), weird(24, z.imag)),
        12 => cadd(cexp(cmul(z, z)), c(0.0, 0.0)),
        13 => c(z.real.floor() + 0.5, z.imag.floor() + 0.5),
        14 => z.sqrt(),                                 // branch cut
        15 => cadd(cmul(cmul(z, z), z), csub(c(2.0, 0.0), cscale(2.0, z))), // z^3-2z+2 : attracting 2-cycle
        _ => unreachable!(),
    }
}

#[test]
fn complex_termination() {
    let mut rep = Rep::new("complex_termination");
    let mut rng = Rng::new(66);
    for _case in 0..30_000 {
        let k = rng.below(16);
        let guess = match rng.below(5) { 0 => c(0.0, 0.0), 1 => c(1.0, 0.0), 2 => c(rng.range(-3.0, 3.0), 0.0), 3 => c(0.0, rng.range(-3.0, 3.0)), _ => c(rng.range(-3.0, 3.0), rng.range(-3.0, 3.0)) };
        let tol = rng.tol();
        let max_iter = rng.iters();
        let f = move |z: Cmplx| cweird(k, z);
        cscalar_run(&mut rep, &format!("cweird{}", k), &f, guess, tol, None, max_iter);
    }
    rep.finish();
}

// ================================================================ real systems
fn lin_solve(a: &[Vec<f64>], b: &[f64]) -> Vec<f64> {
    let n = b.len();
    let mut m: Vec<Vec<f64>> = a.iter().map(|r| r.clone()).collect();
    let mut x = b.to_vec();
    for k in 0..n {
        let mut p = k;
        for i in k + 1..n { if m[i][k].abs() > m[p][k].abs() { p = i; } }
        m.swap(k, p); x.swap(k, p);
        for i in k + 1..n {
            let l = m[i][k] / m[k][k];
            for j in k..n { let v = m[k][j]; m[i][j] -= l * v; }
            let v = x[k]; x[i] -= l * v;
        }
    }
    for k in (0..n).rev() {
        for j in k + 1..n { let v = x[j]; x[k] -= m[k][j] * v; }
        x[k] /= m[k][k];
    }
    x
}
fn honest_norm(v: &[f64]) -> f64 {
    let mut r = 0.0f64;
    for x in v { if x.is_nan() { return f64::NAN; } r = r.max(x.abs()); }
    r
}
fn dist_inf(a: &[f64], b: &[f64]) -> f64 { a.iter().zip(b).map(|(x, y)| (x - y).abs()).fold(0.0, f64::max) }

struct VOut { res: Result<Vec<f64>, Vec<f64>>, iters: usize, iterates: Vec<Vec<f64>>, resids: Vec<Vec<f64>> }

fn vec_run(rep: &mut Rep, tag: &str, n: usize, f: &dyn Fn(&[f64]) -> Vec<f64>,
           jac: Option<&dyn Fn(&[f64]) -> Vec<Vec<f64>>>, guess: &[f64], tol: f64, delta: Option<f64>,
           max_iter: usize) -> Option<VOut> {
    rep.cases += 1;
    let log: RefCell<Vec<(Vec<f64>, Vec<f64>)>> = RefCell::new(vec![]);
    let jlog: RefCell<Vec<Vec<f64>>> = RefCell::new(vec![]);
    let wrapped = |x: Vec64| {
        let xs: Vec<f64> = (0..x.size()).map(|i| x[i]).collect();
        let y = f(&xs);
        log.borrow_mut().push((xs, y.clone()));
        Vec64::create(y)
    };
    let jwrapped = |x: Vec64| {
        let xs: Vec<f64> = (0..x.size()).map(|i| x[i]).collect();
        let j = (jac.unwrap())(&xs);
        jlog.borrow_mut().push(xs);
        let mut m = Mat64::new(n, n, 0.0);
        for i in 0..n { for k in 0..n { m[(i, k)] = j[i][k]; } }
        m
    };
    let mut newton = Newton::<Vec64>::new(Vec64::create(guess.to_vec()));
    newton.tolerance(tol);
    newton.iterations(max_iter);
    if let Some(d) = delta { newton.delta(d); }
    let run = |nw: &Newton<Vec64>| -> std::thread::Result<Result<Vec64, Vec64>> {
        catch_unwind(AssertUnwindSafe(|| if jac.is_some() { nw.solve_jacobian(&wrapped, &jwrapped) } else { nw.solve(&wrapped) }))
    };
    let r1 = run(&newton);
    let calls: Vec<(Vec<f64>, Vec<f64>)> = log.borrow_mut().drain(..).collect();
    let jcalls: Vec<Vec<f64>> = jlog.borrow_mut().drain(..).collect();
    let r2 = run(&newton);
    let calls2: Vec<(Vec<f64>, Vec<f64>)> = log.borrow_mut().drain(..).collect();
    jlog.borrow_mut().clear();
    let desc = format!("{} {} n={} guess={:?} tol={:e} delta={:?} max_iter={}", tag, if jac.is_some() { "JAC" } else { "FD" }, n, guess, tol, delta, max_iter);
    let tov = |v: &Vec64| -> Vec<f64> { (0..v.size()).map(|i| v[i]).collect() };
    let (r1, r2) = match (r1, r2) {
        (Ok(a), Ok(b)) => (a, b),
        _ => { rep.fail(format!("PANIC {}", desc)); return None; }
    };
    let r1: Result<Vec<f64>, Vec<f64>> = match &r1 { Ok(v) => Ok(tov(v)), Err(v) => Err(tov(v)) };
    let r2: Result<Vec<f64>, Vec<f64>> = match &r2 { Ok(v) => Ok(tov(v)), Err(v) => Err(tov(v)) };
    let veq = |a: &Vec<f64>, b: &Vec<f64>| a.len() == b.len() && a.iter().zip(b).all(|(x, y)| beq(*x, *y));
    let same = match (&r1, &r2) { (Ok(a), Ok(b)) => veq(a, b), (Err(a), Err(b)) => veq(a, b), _ => false };
    if !same || calls.len() != calls2.len() { rep.fail(format!("NONDETERMINISTIC {} {:?} vs {:?}", desc, r1, r2)); }
    let stride = if jac.is_some() { 1 } else { n + 2 };
    if calls.len() % stride != 0 || calls.len() / stride > max_iter || (jac.is_some() && jcalls.len() != calls.len()) {
        rep.fail(format!("EVALS {} calls={} jcalls={}", desc, calls.len(), jcalls.len()));
        return None;
    }
    let iters = calls.len() / stride;
    let mut iterates = vec![]; let mut resids = vec![];
    for k in 0..iters {
        iterates.push(calls[k * stride].0.clone());
        resids.push(calls[k * stride].1.clone());
        if jac.is_some() {
            if !veq(&jcalls[k], &calls[k].0) { rep.fail(format!("JAC POINT {} k={}", desc, k)); }
        } else {
            if !veq(&calls[k * stride + 1].0, &calls[k * stride].0) { rep.fail(format!("FD BASE POINT {} k={}", desc, k)); }
            for i in 0..n {
                let p = &calls[k * stride + 2 + i].0;
                for j in 0..n {
                    let d = (p[j] - iterates[k][j]).abs();
                    let dl = delta.unwrap_or(1e-8);
                    let okj = if j == i { d <= 2.0 * dl + 1e-300 } else { d <= 4.0 * f64::EPSILON * iterates[k][j].abs().max(dl) };
                    if !okj && iterates[k].iter().all(|v| v.is_finite()) { rep.fail(format!("FD PERTURB POINT {} k={} i={} j={}", desc, k, i, j)); }
                }
            }
        }
    }
    if iters > 0 && !veq(&iterates[0], &guess.to_vec()) { rep.fail(format!("FIRST ITERATE != GUESS {}", desc)); }
    // stopping rule, judged with an honest (NaN-propagating) inf-norm
    for k in 0..iters {
        let r = honest_norm(&resids[k]);
        let met = r <= tol;
        if k + 1 < iters && met { rep.fail(format!("CONTINUED AFTER STOP {} k={} resid={:e}", desc, k, r)); }
        if k + 1 == iters {
            match &r1 {
                Ok(v) => {
                    if !met { rep.fail(format!("OK WITHOUT CRITERION {} last iterate={:?} residual={:?} -> Ok({:?})", desc, iterates[k], resids[k], v)); }
                }
                Err(v) => {
                    if met { rep.fail(format!("ERR THOUGH CRITERION MET {} resid={:e} -> Err({:?})", desc, r, v)); }
                }
            }
        }
    }
    match &r1 {
        Ok(v) => {
            if iters == 0 { rep.fail(format!("OK WITH ZERO ITERATIONS {}", desc)); }
            if v.len() != n { rep.fail(format!("SHAPE {}", desc)); }
            if !v.iter().all(|x| x.is_finite()) { rep.fail(format!("OK NONFINITE {} -> Ok({:?})", desc, v)); }
        }
        Err(v) => {
            if iters != max_iter { rep.fail(format!("ERR BEFORE BUDGET {} iters={}", desc, iters)); }
            if v.len() != n { rep.fail(format!("SHAPE {}", desc)); }
            if max_iter == 0 && !veq(v, &guess.to_vec()) { rep.fail(format!("ERR(0) != GUESS {}", desc)); }
        }
    }
    Some(VOut { res: r1, iters, iterates, resids })
}

// coupling nonlinearities: (phi, phi', bound of |phi'| on |x|<=3)
fn phi(t: usize, x: f64) -> f64 {
    match t { 0 => x.sin(), 1 => x * x, 2 => (0.5 * x).exp(), 3 => x * x * x / 3.0, 4 => x.cos(), 5 => x.atan(), _ => x }
}
fn dphi(t: usize, x: f64) -> f64 {
    match t { 0 => x.cos(), 1 => 2.0 * x, 2 => 0.5 * (0.5 * x).exp(), 3 => x * x, 4 => -x.sin(), 5 => 1.0 / (1.0 + x * x), _ => 1.0 }
}
const LPHI: [f64; 7] = [1.0, 6.0, 2.25, 9.0, 1.0, 1.0, 1.0];

struct Sys { n: usize, d: Vec<f64>, cmat: Vec<Vec<f64>>, ty: Vec<usize>, root: Vec<f64>, scale: f64 }
impl Sys {
    fn f(&self, x: &[f64]) -> Vec<f64> {
        (0..self.n).map(|i| {
            let mut s = self.d[i] * (x[i] - self.root[i]);
            for j in 0..self.n { s += self.cmat[i][j] * (phi(self.ty[j], x[j]) - phi(self.ty[j], self.root[j])); }
            self.scale * s
        }).collect()
    }
    fn j(&self, x: &[f64]) -> Vec<Vec<f64>> {
        (0..self.n).map(|i| (0..self.n).map(|j| {
            self.scale * (self.cmat[i][j] * dphi(self.ty[j], x[j]) + if i == j { self.d[i] } else { 0.0 })
        }).collect()).collect()
    }
}
fn gen_sys(rng: &mut Rng, n: usize, dmin: f64, dmax: f64, scale: f64) -> Sys {
    let ty: Vec<usize> = (0..n).map(|_| rng.below(7)).collect();
    let root: Vec<f64> = (0..n).map(|_| match rng.below(6) { 0 => 0.0, 1 => 1.0, 2 => -1.0, _ => rng.range(-2.0, 2.0) }).collect();
    let d: Vec<f64> = (0..n).map(|_| rng.sign() * rng.logu(dmin, dmax)).collect();
    let dom = [0.05, 0.2, 0.4][rng.below(3)];
    let pattern = rng.below(5); // 0 full, 1 lower tri, 2 upper tri, 3 banded, 4 sparse/permutation-like
    let mut cmat = vec![vec![0.0; n]; n];
    for i in 0..n {
        let mut w: Vec<f64> = (0..n).map(|j| {
            let on = match pattern { 0 => true, 1 => j <= i, 2 => j >= i, 3 => (i as i64 - j as i64).abs() <= 1, _ => j == (i * 3 + 1) % n };
            if on { rng.range(-1.0, 1.0) } else { 0.0 }
        }).collect();
        let s: f64 = (0..n).map(|j| w[j].abs() * LPHI[ty[j]]).sum();
        if s > 0.0 { let fac = dom * d[i].abs() / s * rng.uni().sqrt(); for v in w.iter_mut() { *v *= fac; } }
        cmat[i] = w;
    }
    Sys { n, d, cmat, ty, root, scale }
}

fn ref_sys_newton(sys: &Sys, guess: &[f64], tol: f64) -> Option<usize> {
    // number of loop passes the library needs with an exact Jacobian: first k with ||F(x_k)|| <= tol, plus one
    let mut x = guess.to_vec();
    let mut e = dist_inf(&x, &sys.root);
    for k in 0..14 {
        let f = sys.f(&x);
        if honest_norm(&f) <= tol { return Some(k + 1); }
        let dx = lin_solve(&sys.j(&x), &f);
        for i in 0..sys.n { x[i] -= dx[i]; }
        let e1 = dist_inf(&x, &sys.root);
        if !(e1 <= 0.5 * e || e1 <= 1e-14) { return None; }
        e = e1;
    }
    None
}

fn sys_cases(name: &'static str, seed: u64, ncase: usize, dmin: f64, dmax: f64, scales: &[f64], slack_mult: f64) {
    sys_cases_p(name, seed, ncase, dmin, dmax, scales, slack_mult, false)
}
fn sys_cases_p(name: &'static str, seed: u64, ncase: usize, dmin: f64, dmax: f64, scales: &[f64], slack_mult: f64, permute: bool) {
    let mut rep = Rep::new(name);
    let mut rng = Rng::new(seed);
    for _case in 0..ncase {
        let n = 1 + rng.below(6);
        let scale = scales[rng.below(scales.len())];
        let sys = gen_sys(&mut rng, n, dmin, dmax, scale);
        let rad = match rng.below(5) { 0 => 0.0, 1 => 0.3, _ => rng.logu(1e-4, 0.3) };
        let guess: Vec<f64> = (0..n).map(|i| sys.root[i] + rad * match rng.below(3) { 0 => 1.0, 1 => -1.0, _ => rng.range(-1.0, 1.0) }).collect();
        let tol = rng.tol();
        let max_iter = rng.iters();
        let need = ref_sys_newton(&sys, &guess, tol);
        let need13 = ref_sys_newton(&sys, &guess, 1e-13 * scale.max(1e-3));
        if need13.is_none() { continue; } // not certified inside the basin
        let use_jac = rng.below(2) == 0;
        let mut perm: Vec<usize> = (0..n).collect();
        if permute { for i in (1..n).rev() { let k = rng.below(i + 1); perm.swap(i, k); } }
        let f = |x: &[f64]| { let v = sys.f(x); perm.iter().map(|&i| v[i]).collect::<Vec<f64>>() };
        let j = |x: &[f64]| { let m = sys.j(x); perm.iter().map(|&i| m[i].clone()).collect::<Vec<Vec<f64>>>() };
        let jr: Option<&dyn Fn(&[f64]) -> Vec<Vec<f64>>> = if use_jac { Some(&j) } else { None };
        let tag = format!("sys perm={:?} d={:?} c={:?} ty={:?} root={:?} scale={:e}", perm, sys.d, sys.cmat, sys.ty, sys.root, scale);
        if let Some(out) = vec_run(&mut rep, &tag, n, &f, jr, &guess, tol, None, max_iter) {
            let slack = slack_mult * tol + 1e-11;
            match &out.res {
                Ok(v) => {
                    let e = dist_inf(v, &sys.root);
                    if !(e <= slack) {
                        rep.fail(format!("OK FAR FROM ROOT {} {} guess={:?} tol={:e} it={} -> Ok({:?}) err={:e}", tag, if use_jac { "JAC" } else { "FD" }, guess, tol, max_iter, v, e));
                    }
                }
                Err(v) => {
                    if let Some(nd) = need {
                        if max_iter >= nd + 2 {
                            rep.fail(format!("ERR IN BASIN {} {} guess={:?} tol={:e} it={} need={} -> Err({:?}) err={:e}", tag, if use_jac { "JAC" } else { "FD" }, guess, tol, max_iter, nd, v, dist_inf(v, &sys.root)));
                        }
                    }
                    // Err carries the last iterate: one more Newton step from the last evaluated point
                    if out.iters > 0 {
                        let last = &out.iterates[out.iters - 1];
                        let dx = lin_solve(&sys.j(last), &sys.f(last));
                        let expect: Vec<f64> = (0..n).map(|i| last[i] - dx[i]).collect();
                        let step = honest_norm(&dx);
                        if !(dist_inf(v, &expect) <= 1e-5 * step + 1e-12) {
                            rep.fail(format!("ERR VALUE NOT LAST ITERATE {} -> Err({:?}) expected {:?}", tag, v, expect));
                        }
                    }
                }
            }
        }
    }
    rep.finish();
}

#[test]
fn real_systems_wellscaled() { sys_cases("real_systems_wellscaled", 77, 150_000, 1.0, 10.0, &[1.0], 10.0); }

// extra (outside the stated class): equations of a dominant system in permuted order, so that the
// pivoting of the dense solve is exercised
#[test]
fn real_systems_permuted_rows() { sys_cases_p("real_systems_permuted_rows", 80, 60_000, 1.0, 10.0, &[1.0], 10.0, true); }

#[test]
fn real_systems_mixed_diag() { sys_cases("real_systems_mixed_diag", 78, 60_000, 0.5, 100.0, &[1.0], 30.0); }

// Probe: the same systems multiplied by a constant factor (the root, the basin and the diagonal
// dominance are unchanged).  "distance of the order of the tolerance" is judged very generously (1000 tol).
#[test]
fn real_systems_scaled_probe() { sys_cases("real_systems_scaled_probe", 79, 40_000, 1.0, 10.0, &[1e-6, 1e-4, 1e-2, 1e2, 1e4], 1000.0); }

// ---------------------------------------------------------------- termination half, systems
#[test]
fn real_systems_termination() {
    let mut rep = Rep::new("real_systems_termination");
    let mut rng = Rng::new(88);
    for _case in 0..120_000 {
        let n = 1 + rng.below(6);
        let ks: Vec<usize> = (0..n).map(|_| if rng.below(3) == 0 { 18 } else { rng.below(NWEIRD) }).collect();
        let coupled = rng.below(3) == 0;
        let eps = if coupled { rng.logu(1e-3, 0.5) } else { 0.0 };
        let cm: Vec<Vec<f64>> = (0..n).map(|_| (0..n).map(|_| rng.range(-1.0, 1.0)).collect()).collect();
        let f = |x: &[f64]| -> Vec<f64> {
            (0..n).map(|i| {
                let mut s = weird(ks[i], x[i]);
                if coupled { for j in 0..n { if j != i { s += eps * cm[i][j] * x[j]; } } }
                s
            }).collect()
        };
        // analytic-ish jacobian by central differences of the scalar pieces (a user could supply anything)
        let j = |x: &[f64]| -> Vec<Vec<f64>> {
            (0..n).map(|i| (0..n).map(|jj| {
                if i == jj { let h = 1e-6; (weird(ks[i], x[i] + h) - weird(ks[i], x[i] - h)) / (2.0 * h) }
                else if coupled { eps * cm[i][jj] } else { 0.0 }
            }).collect()).collect()
        };
        let guess: Vec<f64> = (0..n).map(|_| match rng.below(5) { 0 => 0.0, 1 => 1.0, 2 => 0.75, _ => rng.range(-4.0, 4.0) }).collect();
        let tol = rng.tol();
        let max_iter = rng.iters();
        let use_jac = rng.below(2) == 0;
        let jr: Option<&dyn Fn(&[f64]) -> Vec<Vec<f64>>> = if use_jac { Some(&j) } else { None };
        let tag = format!("wsys ks={:?} eps={:e} cm={:?}", ks, eps, if coupled { cm.clone() } else { vec![] });
        vec_run(&mut rep, &tag, n, &f, jr, &guess, tol, None, max_iter);
    }
    rep.finish();
}

#[test]
fn real_systems_boundaries() {
    let mut rep = Rep::new("real_systems_boundaries");
    // residual met with equality at the guess: F(x) = x, guess = tol
    for &tol in &[1e-12, 1e-8, 1e-4] {
        let f = |x: &[f64]| x.to_vec();
        let j = |x: &[f64]| -> Vec<Vec<f64>> { (0..x.len()).map(|i| (0..x.len()).map(|k| if i == k { 1.0 } else { 0.0 }).collect()).collect() };
        for n in 1..=6 {
            let guess = vec![tol; n];
            for use_jac in [false, true] {
                let jr: Option<&dyn Fn(&[f64]) -> Vec<Vec<f64>>> = if use_jac { Some(&j) } else { None };
                if let Some(out) = vec_run(&mut rep, "identity-tie", n, &f, jr, &guess, tol, None, 1) {
                    match out.res { Ok(v) => { if honest_norm(&v) > 1e-6 * tol + 1e-20 { rep.fail(format!("tie: Ok({:?})", v)); } } Err(v) => rep.fail(format!("tie: Err({:?})", v)) }
                }
                let g2 = vec![tol * (1.0 + 4.0 * f64::EPSILON); n];
                if let Some(out) = vec_run(&mut rep, "identity-above-tie", n, &f, jr, &g2, tol, None, 1) {
                    if out.res.is_ok() { rep.fail(format!("above tie: {:?}", out.res)); }
                }
            }
        }
    }
    rep.finish();
}

// ================================================================ complex systems
fn clin_solve(a: &[Vec<Cmplx>], b: &[Cmplx]) -> Vec<Cmplx> {
    let n = b.len();
    let mut m: Vec<Vec<Cmplx>> = a.iter().map(|r| r.clone()).collect();
    let mut x = b.to_vec();
    for k in 0..n {
        let mut p = k;
        for i in k + 1..n { if cabs(m[i][k]) > cabs(m[p][k]) { p = i; } }
        m.swap(k, p); x.swap(k, p);
        for i in k + 1..n {
            let l = cdiv(m[i][k], m[k][k]);
            for j in k..n { let v = m[k][j]; m[i][j] = csub(m[i][j], cmul(l, v)); }
            let v = x[k]; x[i] = csub(x[i], cmul(l, v));
        }
    }
    for k in (0..n).rev() {
        for j in k + 1..n { let v = x[j]; x[k] = csub(x[k], cmul(m[k][j], v)); }
        x[k] = cdiv(x[k], m[k][k]);
    }
    x
}
fn chonest_norm(v: &[Cmplx]) -> f64 {
    let mut r = 0.0f64;
    for x in v { if x.real.is_nan() || x.imag.is_nan() { return f64::NAN; } r = r.max(cabs(*x)); }
    r
}
fn cdist_inf(a: &[Cmplx], b: &[Cmplx]) -> f64 { a.iter().zip(b).map(|(x, y)| cabs(csub(*x, *y))).fold(0.0, f64::max) }

struct CVOut { res: Result<Vec<Cmplx>, Vec<Cmplx>>, iters: usize, iterates: Vec<Vec<Cmplx>>, resids: Vec<Vec<Cmplx>> }

fn cvec_run(rep: &mut Rep, tag: &str, n: usize, f: &dyn Fn(&[Cmplx]) -> Vec<Cmplx>,
            jac: Option<&dyn Fn(&[Cmplx]) -> Vec<Vec<Cmplx>>>, guess: &[Cmplx], tol: f64,
            max_iter: usize) -> Option<CVOut> {
    rep.cases += 1;
    let log: RefCell<Vec<(Vec<Cmplx>, Vec<Cmplx>)>> = RefCell::new(vec![]);
    let jlog: RefCell<Vec<Vec<Cmplx>>> = RefCell::new(vec![]);
    let wrapped = |x: Vector<Cmplx>| {
        let xs: Vec<Cmplx> = (0..x.size()).map(|i| x[i]).collect();
        let y = f(&xs);
        log.borrow_mut().push((xs, y.clone()));
        Vector::<Cmplx>::create(y)
    };
    let jwrapped = |x: Vector<Cmplx>| {
        let xs: Vec<Cmplx> = (0..x.size()).map(|i| x[i]).collect();
        let j = (jac.unwrap())(&xs);
        jlog.borrow_mut().push(xs);
        let mut m = Matrix::<Cmplx>::new(n, n, c(0.0, 0.0));
        for i in 0..n { for k in 0..n { m[(i, k)] = j[i][k]; } }
        m
    };
    let mut newton = Newton::<Vector<Cmplx>>::new(Vector::<Cmplx>::create(guess.to_vec()));
    newton.tolerance(tol);
    newton.iterations(max_iter);
    let run = |nw: &Newton<Vector<Cmplx>>| -> std::thread::Result<Result<Vector<Cmplx>, Vector<Cmplx>>> {
        catch_unwind(AssertUnwindSafe(|| if jac.is_some() { nw.solve_jacobian(&wrapped, &jwrapped) } else { nw.solve(&wrapped) }))
    };
    let r1 = run(&newton);
    let calls: Vec<(Vec<Cmplx>, Vec<Cmplx>)> = log.borrow_mut().drain(..).collect();
    let jcalls: Vec<Vec<Cmplx>> = jlog.borrow_mut().drain(..).collect();
    let r2 = run(&newton);
    let calls2: Vec<(Vec<Cmplx>, Vec<Cmplx>)> = log.borrow_mut().drain(..).collect();
    jlog.borrow_mut().clear();
    let desc = format!("{} {} n={} guess={:?} tol={:e} max_iter={}", tag, if jac.is_some() { "JAC" } else { "FD" }, n, guess, tol, max_iter);
    let tov = |v: &Vector<Cmplx>| -> Vec<Cmplx> { (0..v.size()).map(|i| v[i]).collect() };
    let (r1, r2) = match (r1, r2) {
        (Ok(a), Ok(b)) => (a, b),
        _ => { rep.fail(format!("PANIC {}", desc)); return None; }
    };
    let r1: Result<Vec<Cmplx>, Vec<Cmplx>> = match &r1 { Ok(v) => Ok(tov(v)), Err(v) => Err(tov(v)) };
    let r2: Result<Vec<Cmplx>, Vec<Cmplx>> = match &r2 { Ok(v) => Ok(tov(v)), Err(v) => Err(tov(v)) };
    let veq = |a: &Vec<Cmplx>, b: &Vec<Cmplx>| a.len() == b.len() && a.iter().zip(b).all(|(x, y)| ceq(*x, *y));
    let same = match (&r1, &r2) { (Ok(a), Ok(b)) => veq(a, b), (Err(a), Err(b)) => veq(a, b), _ => false };
    if !same || calls.len() != calls2.len() { rep.fail(format!("NONDETERMINISTIC {}", desc)); }
    let stride = if jac.is_some() { 1 } else { n + 2 };
    if calls.len() % stride != 0 || calls.len() / stride > max_iter || (jac.is_some() && jcalls.len() != calls.len()) {
        rep.fail(format!("EVALS {} calls={} jcalls={}", desc, calls.len(), jcalls.len()));
        return None;
    }
    let iters = calls.len() / stride;
    let mut iterates = vec![]; let mut resids = vec![];
    for k in 0..iters {
        iterates.push(calls[k * stride].0.clone());
        resids.push(calls[k * stride].1.clone());
        if jac.is_some() { if !veq(&jcalls[k], &calls[k].0) { rep.fail(format!("JAC POINT {} k={}", desc, k)); } }
        else if !veq(&calls[k * stride + 1].0, &calls[k * stride].0) { rep.fail(format!("FD BASE POINT {} k={}", desc, k)); }
    }
    if iters > 0 && !veq(&iterates[0], &guess.to_vec()) { rep.fail(format!("FIRST ITERATE != GUESS {}", desc)); }
    for k in 0..iters {
        let r = chonest_norm(&resids[k]);
        let met = r <= tol;
        if k + 1 < iters && met { rep.fail(format!("CONTINUED AFTER STOP {} k={} resid={:e}", desc, k, r)); }
        if k + 1 == iters {
            match &r1 {
                Ok(v) => { if !met { rep.fail(format!("OK WITHOUT CRITERION {} last iterate={:?} residual={:?} -> Ok({:?})", desc, iterates[k], resids[k], v)); } }
                Err(v) => { if met { rep.fail(format!("ERR THOUGH CRITERION MET {} resid={:e} -> Err({:?})", desc, r, v)); } }
            }
        }
    }
    match &r1 {
        Ok(v) => {
            if iters == 0 { rep.fail(format!("OK WITH ZERO ITERATIONS {}", desc)); }
            if v.len() != n { rep.fail(format!("SHAPE {}", desc)); }
            if !v.iter().all(|x| x.real.is_finite() && x.imag.is_finite()) { rep.fail(format!("OK NONFINITE {} -> Ok({:?})", desc, v)); }
        }
        Err(v) => {
            if iters != max_iter { rep.fail(format!("ERR BEFORE BUDGET {} iters={}", desc, iters)); }
            if v.len() != n { rep.fail(format!("SHAPE {}", desc)); }
            if max_iter == 0 && !veq(v, &guess.to_vec()) { rep.fail(format!("ERR(0) != GUESS {}", desc)); }
        }
    }
    Some(CVOut { res: r1, iters, iterates, resids })
}

fn cphi(t: usize, z: Cmplx) -> Cmplx {
    match t { 0 => csin(z), 1 => cmul(z, z), 2 => cexp(cscale(0.5, z)), 3 => cscale(1.0 / 3.0, cmul(z, cmul(z, z))), 4 => ccos(z), _ => z }
}
fn cdphi(t: usize, z: Cmplx) -> Cmplx {
    match t { 0 => ccos(z), 1 => cscale(2.0, z), 2 => cscale(0.5, cexp(cscale(0.5, z))), 3 => cmul(z, z), 4 => cscale(-1.0, csin(z)), _ => c(1.0, 0.0) }
}
// bounds of |phi'| on |Re|<=2.5, |Im|<=1.5
const CLPHI: [f64; 6] = [2.4, 6.0, 1.8, 8.5, 2.4, 1.0];

struct CSys { n: usize, d: Vec<Cmplx>, cmat: Vec<Vec<Cmplx>>, ty: Vec<usize>, root: Vec<Cmplx>, scale: f64 }
impl CSys {
    fn f(&self, x: &[Cmplx]) -> Vec<Cmplx> {
        (0..self.n).map(|i| {
            let mut s = cmul(self.d[i], csub(x[i], self.root[i]));
            for j in 0..self.n { s = cadd(s, cmul(self.cmat[i][j], csub(cphi(self.ty[j], x[j]), cphi(self.ty[j], self.root[j])))); }
            cscale(self.scale, s)
        }).collect()
    }
    fn j(&self, x: &[Cmplx]) -> Vec<Vec<Cmplx>> {
        (0..self.n).map(|i| (0..self.n).map(|j| {
            let mut v = cmul(self.cmat[i][j], cdphi(self.ty[j], x[j]));
            if i == j { v = cadd(v, self.d[i]); }
            cscale(self.scale, v)
        }).collect()).collect()
    }
}

fn csys_cases(name: &'static str, seed: u64, ncase: usize, scales: &[f64], slack_mult: f64) {
    let mut rep = Rep::new(name);
    let mut rng = Rng::new(seed);
    for _case in 0..ncase {
        let n = 1 + rng.below(6);
        let scale = scales[rng.below(scales.len())];
        let ty: Vec<usize> = (0..n).map(|_| rng.below(6)).collect();
        let kind = rng.below(4);
        let root: Vec<Cmplx> = (0..n).map(|_| match kind { 0 => c(rng.range(-2.0, 2.0), 0.0), 1 => c(0.0, rng.range(-1.0, 1.0)), _ => c(rng.range(-2.0, 2.0), rng.range(-1.0, 1.0)) }).collect();
        let d: Vec<Cmplx> = (0..n).map(|_| { let m = rng.logu(1.0, 10.0); let a = match rng.below(4) { 0 => 0.0, 1 => 1.5707963267948966, _ => rng.range(0.0, 6.283185307179586) }; c(m * a.cos(), m * a.sin()) }).collect();
        let dom = [0.05, 0.2, 0.4][rng.below(3)];
        let mut cmat = vec![vec![c(0.0, 0.0); n]; n];
        for i in 0..n {
            let mut w: Vec<Cmplx> = (0..n).map(|_| if rng.below(4) == 0 { c(0.0, 0.0) } else { c(rng.range(-1.0, 1.0), rng.range(-1.0, 1.0)) }).collect();
            let s: f64 = (0..n).map(|j| cabs(w[j]) * CLPHI[ty[j]]).sum();
            if s > 0.0 { let fac = dom * cabs(d[i]) / s; for v in w.iter_mut() { *v = cscale(fac, *v); } }
            cmat[i] = w;
        }
        let sys = CSys { n, d, cmat, ty, root, scale };
        let rad = match rng.below(5) { 0 => 0.0, 1 => 0.3, _ => rng.logu(1e-4, 0.3) };
        let guess: Vec<Cmplx> = (0..n).map(|i| { let a = rng.range(0.0, 6.283185307179586); let m = rad * match rng.below(2) { 0 => 1.0, _ => rng.uni() }; c(sys.root[i].real + m * a.cos(), sys.root[i].imag + m * a.sin()) }).collect();
        let tol = rng.tol();
        let max_iter = rng.iters();
        // reference
        let refn = |tl: f64| -> Option<usize> {
            let mut x = guess.clone();
            let mut e = cdist_inf(&x, &sys.root);
            for k in 0..14 {
                let f = sys.f(&x);
                if chonest_norm(&f) <= tl { return Some(k + 1); }
                let dx = clin_solve(&sys.j(&x), &f);
                for i in 0..n { x[i] = csub(x[i], dx[i]); }
                let e1 = cdist_inf(&x, &sys.root);
                if !(e1 <= 0.5 * e || e1 <= 1e-14) { return None; }
                e = e1;
            }
            None
        };
        if refn(1e-13 * scale.max(1e-3)).is_none() { continue; }
        let need = refn(tol);
        let use_jac = rng.below(2) == 0;
        let f = |x: &[Cmplx]| sys.f(x);
        let j = |x: &[Cmplx]| sys.j(x);
        let jr: Option<&dyn Fn(&[Cmplx]) -> Vec<Vec<Cmplx>>> = if use_jac { Some(&j) } else { None };
        let tag = format!("csys d={:?} c={:?} ty={:?} root={:?} scale={:e}", sys.d, sys.cmat, sys.ty, sys.root, scale);
        if let Some(out) = cvec_run(&mut rep, &tag, n, &f, jr, &guess, tol, max_iter) {
            let slack = slack_mult * tol + 1e-11;
            match &out.res {
                Ok(v) => {
                    let e = cdist_inf(v, &sys.root);
                    if !(e <= slack) { rep.fail(format!("OK FAR FROM ROOT {} guess={:?} tol={:e} it={} -> Ok({:?}) err={:e}", tag, guess, tol, max_iter, v, e)); }
                }
                Err(v) => {
                    if let Some(nd) = need {
                        if max_iter >= nd + 2 { rep.fail(format!("ERR IN BASIN {} guess={:?} tol={:e} it={} need={} -> Err({:?}) err={:e}", tag, guess, tol, max_iter, nd, v, cdist_inf(v, &sys.root))); }
                    }
                    if out.iters > 0 {
                        let last = &out.iterates[out.iters - 1];
                        let dx = clin_solve(&sys.j(last), &sys.f(last));
                        let expect: Vec<Cmplx> = (0..n).map(|i| csub(last[i], dx[i])).collect();
                        let step = chonest_norm(&dx);
                        if !(cdist_inf(v, &expect) <= 1e-5 * step + 1e-12) { rep.fail(format!("ERR VALUE NOT LAST ITERATE {} -> Err({:?}) expected {:?}", tag, v, expect)); }
                    }
                }
            }
        }
    }
    rep.finish();
}

#[test]
fn complex_systems_wellscaled() { csys_cases("complex_systems_wellscaled", 99, 80_000, &[1.0], 10.0); }

#[test]
fn complex_systems_scaled_probe() { csys_cases("complex_systems_scaled_probe", 100, 20_000, &[1e-6, 1e-4, 1e-2, 1e2, 1e4], 1000.0); }

#[test]
fn complex_systems_termination() {
    let mut rep = Rep::new("complex_systems_termination");
    let mut rng = Rng::new(111);
    for _case in 0..40_000 {
        let n = 1 + rng.below(6);
        let ks: Vec<usize> = (0..n).map(|_| rng.below(17)).collect();
        let f = |x: &[Cmplx]| -> Vec<Cmplx> {
            (0..n).map(|i| if ks[i] == 16 { csub(x[i], c(0.75, 0.25)) } else { cweird(ks[i], x[i]) }).collect()
        };
        let j = |x: &[Cmplx]| -> Vec<Vec<Cmplx>> {
            (0..n).map(|i| (0..n).map(|jj| {
                if i == jj {
                    let h = 1e-6;
                    let g = |z: Cmplx| if ks[i] == 16 { csub(z, c(0.75, 0.25)) } else { cweird(ks[i], z) };
                    cscale(1.0 / (2.0 * h), csub(g(c(x[i].real + h, x[i].imag)), g(c(x[i].real - h, x[i].imag))))
                } else { c(0.0, 0.0) }
            }).collect()).collect()
        };
        let guess: Vec<Cmplx> = (0..n).map(|_| match rng.below(4) { 0 => c(0.0, 0.0), 1 => c(rng.range(-3.0, 3.0), 0.0), _ => c(rng.range(-3.0, 3.0), rng.range(-3.0, 3.0)) }).collect();
        let tol = rng.tol();
        let max_iter = rng.iters();
        let use_jac = rng.below(2) == 0;
        let jr: Option<&dyn Fn(&[Cmplx]) -> Vec<Vec<Cmplx>>> = if use_jac { Some(&j) } else { None };
        cvec_run(&mut rep, &format!("cwsys ks={:?}", ks), n, &f, jr, &guess, tol, max_iter);
    }
    rep.finish();
}

// ================================================================ histories on ONE solver object
#[test]
fn histories() {
    let mut rep = Rep::new("histories");
    let mut rng = Rng::new(123);
    let funcs: Vec<fn(f64) -> f64> = vec![|x| x * x - 4.0, |x| x.exp() - 3.0, |x| x * x + 1.0, |x| x.abs().sqrt(), |x| x.cos() - x, |x| 1.0 / x];
    for _h in 0..2_000 {
        let g0 = rng.range(-3.0, 3.0);
        let mut nw = Newton::<f64>::new(g0);
        let mut model = (1.0e-8f64, 1.0e-8f64, 20usize, g0);
        for _step in 0..25 {
            rep.cases += 1;
            match rng.below(6) {
                0 => { let t = rng.tol(); nw.tolerance(t); model.0 = t; }
                1 => { let d = rng.logu(1e-9, 1e-5); nw.delta(d); model.1 = d; }
                2 => { let it = rng.iters(); nw.iterations(it); model.2 = it; }
                3 => { let g = rng.range(-3.0, 3.0); nw.guess(g); model.3 = g; }
                _ => {
                    let f = funcs[rng.below(funcs.len())];
                    let r = nw.solve(&f);
                    let mut fresh = Newton::<f64>::new(model.3);
                    fresh.tolerance(model.0); fresh.delta(model.1); fresh.iterations(model.2);
                    let r2 = fresh.solve(&f);
                    let same = match (r, r2) { (Ok(a), Ok(b)) => beq(a, b), (Err(a), Err(b)) => beq(a, b), _ => false };
                    if !same { rep.fail(format!("HISTORY DEPENDENCE {:?}: {:?} vs fresh {:?}", model, r, r2)); }
                }
            }
            let p = nw.parameters();
            if !(beq(p.0, model.0) && beq(p.1, model.1) && p.2 == model.2 && beq(p.3, model.3)) {
                rep.fail(format!("PARAMETERS {:?} vs model {:?}", p, model));
            }
        }
    }
    // vector solver: results of an edited object equal those of a fresh object
    let vf = |x: Vec64| { let mut f = Vec64::new(2, 0.0); f[0] = x[0] * x[0] * x[0] + x[1] - 1.0; f[1] = x[1] * x[1] * x[1] - x[0] + 1.0; f };
    let vj = |x: Vec64| { let mut j = Mat64::new(2, 2, 0.0); j[(0, 0)] = 3.0 * x[0] * x[0]; j[(0, 1)] = 1.0; j[(1, 0)] = -1.0; j[(1, 1)] = 3.0 * x[1] * x[1]; j };
    for _h in 0..1_000 {
        let mut g = vec![rng.range(0.5, 1.5), rng.range(-0.5, 0.5)];
        let mut nw = Newton::<Vec64>::new(Vec64::create(g.clone()));
        let mut model = (1.0e-8f64, 1.0e-8f64, 20usize);
        for _step in 0..15 {
            rep.cases += 1;
            match rng.below(6) {
                0 => { let t = rng.tol(); nw.tolerance(t); model.0 = t; }
                1 => { let d = rng.logu(1e-9, 1e-6); nw.delta(d); model.1 = d; }
                2 => { let it = rng.iters(); nw.iterations(it); model.2 = it; }
                3 => { g = vec![rng.range(0.5, 1.5), rng.range(-0.5, 0.5)]; nw.guess(Vec64::create(g.clone())); }
                _ => {
                    let usej = rng.below(2) == 0;
                    let r = if usej { nw.solve_jacobian(&vf, &vj) } else { nw.solve(&vf) };
                    let mut fresh = Newton::<Vec64>::new(Vec64::create(g.clone()));
                    fresh.tolerance(model.0); fresh.delta(model.1); fresh.iterations(model.2);
                    let r2 = if usej { fresh.solve_jacobian(&vf, &vj) } else { fresh.solve(&vf) };
                    let same = match (&r, &r2) {
                        (Ok(a), Ok(b)) | (Err(a), Err(b)) => a.size() == 2 && b.size() == 2 && beq(a[0], b[0]) && beq(a[1], b[1]),
                        _ => false };
                    if !same { rep.fail(format!("VECTOR HISTORY DEPENDENCE {:?} g={:?}", model, g)); }
                }
            }
        }
    }
    rep.finish();
}

// ================================================================ targeted: NaN-blind residual norm
// A residual with a NaN in a component other than the first is treated as "converged".
#[test]
fn targeted_nan_residual_component() {
    let mut rep = Rep::new("targeted_nan_residual_component");
    // F = (x0 - 1, sqrt(x1)) : root (1, 0), not differentiable there.  Newton on sqrt maps x1 -> -x1.
    let f = |x: &[f64]| vec![x[0] - 1.0, x[1].sqrt()];
    let j = |x: &[f64]| vec![vec![1.0, 0.0], vec![0.0, 0.5 / x[1].sqrt()]];
    // the same equations in the other order
    let fs = |x: &[f64]| vec![x[0].sqrt(), x[1] - 1.0];
    let js = |x: &[f64]| vec![vec![0.5 / x[0].sqrt(), 0.0], vec![0.0, 1.0]];
    for use_jac in [false, true] {
        for &tol in &[1e-12, 1e-8, 1e-4] {
            let jr: Option<&dyn Fn(&[f64]) -> Vec<Vec<f64>>> = if use_jac { Some(&j) } else { None };
            vec_run(&mut rep, "(x0-1, sqrt(x1))", 2, &f, jr, &[1.0, 1.0], tol, None, 20);
            let jr: Option<&dyn Fn(&[f64]) -> Vec<Vec<f64>>> = if use_jac { Some(&js) } else { None };
            vec_run(&mut rep, "(sqrt(x0), x1-1)", 2, &fs, jr, &[1.0, 1.0], tol, None, 20);
        }
    }
    // smooth function, guess outside the basin: (x0 - 1, ln(x1)) from (1, 3)
    let f = |x: &[f64]| vec![x[0] - 1.0, x[1].ln()];
    vec_run(&mut rep, "(x0-1, ln(x1))", 2, &f, None, &[1.0, 3.0], 1e-8, None, 20);
    // removable singularity hit by the guess: (x0 - 1, sin(x1)/x1 - 1/2) from (1, 0)
    let f = |x: &[f64]| vec![x[0] - 1.0, x[1].sin() / x[1] - 0.5];
    vec_run(&mut rep, "(x0-1, sinc(x1)-1/2)", 2, &f, None, &[1.0, 0.0], 1e-8, None, 20);
    // complex
    let fc = |z: &[Cmplx]| vec![z[0] - c(1.0, 0.0), z[1].sin() / z[1] - c(0.5, 0.0)];
    cvec_run(&mut rep, "complex (z0-1, sin(z1)/z1-1/2)", 2, &fc, None, &[c(1.0, 0.0), c(0.0, 0.0)], 1e-8, 20);
    rep.finish();
}

// ================================================================ targeted: absolute residual test and scale
// exp(-x) = 1e-6 as a one-dimensional system: root 6 ln 10, guess half a unit away (inside the basin of
// quadratic convergence: |f''/(2f')| * e0 = 1/4).
#[test]
fn targeted_small_scale_system() {
    let mut rep = Rep::new("targeted_small_scale_system");
    let root = 6.0 * std::f64::consts::LN_10;
    let cst = 1.0e-6;
    let f = move |x: &[f64]| vec![(-x[0]).exp() - cst];
    let j = move |x: &[f64]| vec![vec![-(-x[0]).exp()]];
    let guess = [root - 0.5];
    for &tol in &[1e-12, 1e-10, 1e-8, 1e-6, 1e-4] {
        for use_jac in [false, true] {
            let jr: Option<&dyn Fn(&[f64]) -> Vec<Vec<f64>>> = if use_jac { Some(&j) } else { None };
            if let Some(out) = vec_run(&mut rep, "exp(-x)-1e-6", 1, &f, jr, &guess, tol, None, 50) {
                match out.res {
                    Ok(v) => { if (v[0] - root).abs() > 1000.0 * tol + 1e-9 { rep.fail(format!("OK FAR FROM ROOT exp(-x)-1e-6 as system, guess={:?} tol={:e} jac={} -> Ok({:?}) root={:e} err={:e}", guess, tol, use_jac, v, root, (v[0] - root).abs())); } }
                    Err(v) => rep.fail(format!("ERR IN BASIN exp(-x)-1e-6 tol={:e} -> Err({:?})", tol, v)),
                }
            }
        }
        // the scalar variant on the same equation, guess and tolerance
        let fs = move |x: f64| (-x).exp() - cst;
        if let Some(out) = scalar_run(&mut rep, "scalar exp(-x)-1e-6", &fs, guess[0], tol, None, 50) {
            match out.res {
                Ok(v) => { if (v - root).abs() > 1000.0 * tol + 1e-9 { rep.fail(format!("OK FAR FROM ROOT scalar exp(-x)-1e-6 tol={:e} -> Ok({:e})", tol, v)); } }
                Err(v) => { if tol >= 1e-10 { rep.fail(format!("ERR IN BASIN scalar exp(-x)-1e-6 tol={:e} -> Err({:e})", tol, v)); } }
            }
        }
    }
    rep.finish();
}
