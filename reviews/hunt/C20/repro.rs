// C20 repro: each test FAILS on the current code (the call returns a value where the property claims a panic).
use ohsl::{Mesh2D, Sparse, Vector};
use std::panic::{catch_unwind, AssertUnwindSafe};

fn panics<R>(f: impl FnOnce() -> R) -> bool {
    catch_unwind(AssertUnwindSafe(f)).is_err()
}

/// A mesh with 3 x-nodes and no y-nodes: x node 7 is outside 0..3, yet a (0-node) section is returned.
/// With one y-node or more the same call panics ("Mesh2D error: get_nodes_vars range error.").
#[test]
fn mesh2d_cross_section_xnode_out_of_range_without_y_nodes() {
    let m = Mesh2D::<f64>::new(Vector::create(vec![0.0, 0.5, 1.0]), Vector::<f64>::empty(), 1);
    assert_eq!(m.nnodes(), (3, 0));
    // control: the same argument on a 3x1 mesh is rejected
    let c = Mesh2D::<f64>::new(Vector::create(vec![0.0, 0.5, 1.0]), Vector::create(vec![0.0]), 1);
    assert!(panics(|| c.cross_section_xnode(7)));
    assert!(panics(|| m.cross_section_xnode(7)), "cross_section_xnode(7) on a 3x0 mesh returned a Mesh1D instead of panicking");
}

/// The mirror image: no x-nodes, 2 y-nodes, y node 2 is outside 0..2.
#[test]
fn mesh2d_cross_section_ynode_out_of_range_without_x_nodes() {
    let m = Mesh2D::<f64>::new(Vector::<f64>::empty(), Vector::create(vec![0.0, 1.0]), 1);
    assert_eq!(m.nnodes(), (0, 2));
    let c = Mesh2D::<f64>::new(Vector::create(vec![0.0]), Vector::create(vec![0.0, 1.0]), 1);
    assert!(panics(|| c.cross_section_ynode(2)));
    assert!(panics(|| m.cross_section_ynode(2)), "cross_section_ynode(2) on a 0x2 mesh returned a Mesh1D instead of panicking");
}

/// Sparse::from_vecs given value / row-index / column-start vectors whose lengths do not fit together
/// returns a matrix; here 3 values, 2 row indices, col_start says 2 entries: the third value is silently dropped.
#[test]
fn sparse_from_vecs_accepts_mismatched_lengths() {
    let made = catch_unwind(AssertUnwindSafe(|| {
        Sparse::<f64>::from_vecs(2, 2, vec![1.0, 2.0, 3.0], vec![0, 1], vec![0, 1, 2])
    }));
    if let Ok(s) = &made {
        // it is even usable: A = diag(1, 2), the value 3.0 has vanished
        let y = s.multiply(&Vector::create(vec![1.0, 1.0]));
        assert_eq!(y.vec, vec![1.0, 2.0]);
    }
    assert!(made.is_err(), "from_vecs(2, 2, val of 3, row_index of 2, col_start [0,1,2]) returned a matrix");
    // other inconsistent combinations that are accepted as well
    assert!(panics(|| Sparse::<f64>::from_vecs(2, 2, vec![1.0], vec![0], vec![0, 1])), "col_start shorter than cols + 1 accepted");
    assert!(panics(|| Sparse::<f64>::from_vecs(2, 2, vec![1.0, 2.0], vec![0, 5], vec![0, 1, 2])), "row index 5 in a 2x2 matrix accepted");
}

/// Sparse::col_start_from_index: a column-index vector longer than `nonzero` is accepted (the tail is ignored),
/// and a column index equal to `cols` (outside 0..cols) is accepted (its count is silently discarded).
#[test]
fn sparse_col_start_from_index_accepts_wrong_length_and_column_out_of_range() {
    let mut t = vec![(0usize, 0usize, 1.0f64), (1, 1, 2.0)];
    let s = Sparse::<f64>::from_triplets(2, 2, &mut t);
    assert_eq!(s.nonzero, 2);
    // control: a shorter vector and a column beyond cols are rejected
    assert!(panics(|| s.col_start_from_index(&Vector::create(vec![0usize]))));
    assert!(panics(|| s.col_start_from_index(&Vector::create(vec![0usize, 3]))));
    let longer = catch_unwind(AssertUnwindSafe(|| s.col_start_from_index(&Vector::create(vec![0usize, 1, 1]))));
    let col_eq_cols = catch_unwind(AssertUnwindSafe(|| s.col_start_from_index(&Vector::create(vec![0usize, 2]))));
    assert!(longer.is_err(), "col_index of size 3 for nonzero = 2 returned {:?}", longer);
    assert!(col_eq_cols.is_err(), "column index 2 in a matrix with 2 columns returned {:?}", col_eq_cols);
}
