#![allow(unused, clippy::all)]
// C20 hunt: mismatched shapes rejected; operands never mutated; clones independent.
use ohsl::{Banded, Cmplx, Complex, Matrix, Mesh1D, Mesh2D, Number, One, Polynomial, Signed, Sparse,
           Tridiagonal, Vector, Zero};
use std::collections::{BTreeMap, BTreeSet};
use std::panic::{catch_unwind, AssertUnwindSafe};

// ---------------------------------------------------------------- common helpers

struct Rng(u64);
impl Rng {
    fn new(s: u64) -> Self { Rng(s.wrapping_mul(0x9E3779B97F4A7C15) | 1) }
    fn next(&mut self) -> u64 {
        let mut x = self.0;
        x ^= x >> 12; x ^= x << 25; x ^= x >> 27;
        self.0 = x;
        x.wrapping_mul(0x2545F4914F6CDD1D)
    }
    fn below(&mut self, n: usize) -> usize { ((self.next() >> 33) as usize) % n }
    fn unit(&mut self) -> f64 { (self.next() >> 11) as f64 / (1u64 << 53) as f64 }
    fn int(&mut self, lo: i64, hi: i64) -> i64 { lo + self.below((hi - lo + 1) as usize) as i64 }
}

const SPECIAL: [f64; 16] = [0.0, -0.0, 1.0, -1.0, 2.0, 0.5, -0.5, 3.0, 1e-300, -1e300, 4.9e-324, 1e16, 0.1,
                            -7.25, 1e150, -1e-150];

fn gen_f64(r: &mut Rng) -> f64 {
    match r.below(5) {
        0 => SPECIAL[r.below(SPECIAL.len())],
        1 => r.int(-9, 9) as f64,
        2 => (r.unit() * 2.0 - 1.0) * 10f64.powi(r.int(-12, 12) as i32),
        _ => r.unit() * 20.0 - 10.0,
    }
}

trait Elem: Copy + Number + Signed + PartialOrd + std::fmt::Debug + 'static {
    fn gen(r: &mut Rng) -> Self;          // arbitrary (finite) value
    fn from_i(i: i64) -> Self;            // exact small integer
    fn bits(&self) -> Vec<u64>;
    fn small(r: &mut Rng) -> Self { Self::from_i(r.int(-4, 4)) }
}
impl Elem for f64 {
    fn gen(r: &mut Rng) -> Self { gen_f64(r) }
    fn from_i(i: i64) -> Self { i as f64 }
    fn bits(&self) -> Vec<u64> { vec![self.to_bits()] }
}
impl Elem for i64 {
    fn gen(r: &mut Rng) -> Self { r.int(-9, 9) }
    fn from_i(i: i64) -> Self { i }
    fn bits(&self) -> Vec<u64> { vec![*self as u64] }
}
impl Elem for Cmplx {
    fn gen(r: &mut Rng) -> Self { Cmplx::new(gen_f64(r), gen_f64(r)) }
    fn from_i(i: i64) -> Self { Cmplx::new(i as f64, 0.0) }
    fn bits(&self) -> Vec<u64> { vec![self.real.to_bits(), self.imag.to_bits()] }
    fn small(r: &mut Rng) -> Self { Cmplx::new(r.int(-4, 4) as f64, r.int(-4, 4) as f64) }
}

// -------- bit-level snapshots of every container (through the public read-only API)
fn vbits<T: Elem>(v: &Vector<T>) -> Vec<u64> {
    let mut o = vec![v.size() as u64];
    for i in 0..v.size() { o.extend(v[i].bits()); }
    o
}
fn ubits(v: &[usize]) -> Vec<u64> {
    let mut o = vec![v.len() as u64];
    o.extend(v.iter().map(|x| *x as u64));
    o
}
fn mbits<T: Elem>(m: &Matrix<T>) -> Vec<u64> {
    let mut o = vec![m.rows() as u64, m.cols() as u64, m.numel() as u64];
    for i in 0..m.rows() { for j in 0..m.cols() { o.extend(m[(i, j)].bits()); } }
    o
}
fn bbits<T: Elem>(b: &Banded<T>) -> Vec<u64> {
    let mut o = vec![b.size() as u64, b.size_below() as u64, b.size_above() as u64];
    o.extend(mbits(b.compact()));
    o
}
fn tbits<T: Elem>(t: &Tridiagonal<T>) -> Vec<u64> {
    let mut o = vec![t.size() as u64];
    o.extend(vbits(t.subdiagonal()));
    o.extend(vbits(t.maindiagonal()));
    o.extend(vbits(t.superdiagonal()));
    o
}
fn pbits<T: Elem>(p: &Polynomial<T>) -> Vec<u64> {
    let mut o = vec![p.size() as u64];
    for i in 0..p.size() { o.extend(p[i].bits()); }
    o
}
fn sbits<T: Elem>(s: &Sparse<T>) -> Vec<u64> {
    let mut o = vec![s.rows as u64, s.cols as u64, s.nonzero as u64, s.val.len() as u64];
    for x in s.val.iter() { o.extend(x.bits()); }
    o.extend(ubits(&s.row_index));
    o.extend(ubits(&s.col_start));
    o
}
fn m1bits<T: Elem>(m: &Mesh1D<T, f64>) -> Vec<u64> {
    let mut o = vec![m.nnodes() as u64, m.nvars() as u64];
    o.extend(vbits(&m.nodes()));
    for i in 0..m.nnodes() { o.extend(vbits(&m[i])); }
    o
}
fn m2bits<T: Elem>(m: &Mesh2D<T>) -> Vec<u64> {
    let (nx, ny) = m.nnodes();
    let mut o = vec![nx as u64, ny as u64, m.nvars() as u64];
    o.extend(vbits(&m.xnodes()));
    o.extend(vbits(&m.ynodes()));
    for i in 0..nx { for j in 0..ny { o.extend(vbits(&m[(i, j)])); } }
    o
}

// -------- builders
fn vec_of<T: Elem>(n: usize, r: &mut Rng) -> Vector<T> {
    Vector::create((0..n).map(|_| T::gen(r)).collect())
}
fn small_vec<T: Elem>(n: usize, r: &mut Rng) -> Vector<T> {
    Vector::create((0..n).map(|_| T::small(r)).collect())
}
fn mat_of<T: Elem>(rows: usize, cols: usize, r: &mut Rng) -> Matrix<T> {
    let mut m = Matrix::<T>::new(rows, cols, T::zero());
    for i in 0..rows { for j in 0..cols { m[(i, j)] = T::gen(r); } }
    m
}
fn small_mat<T: Elem>(rows: usize, cols: usize, r: &mut Rng) -> Matrix<T> {
    let mut m = Matrix::<T>::new(rows, cols, T::zero());
    for i in 0..rows { for j in 0..cols { m[(i, j)] = T::small(r); } }
    m
}
// diagonally dominant, exactly representable entries: no value-related panic can occur in a solver
fn nice_sq<T: Elem>(n: usize, r: &mut Rng) -> Matrix<T> {
    let mut m = small_mat::<T>(n, n, r);
    for i in 0..n { m[(i, i)] = T::from_i(40 + r.int(0, 9)); }
    m
}
fn in_band(i: usize, j: usize, m1: usize, m2: usize) -> bool { !(j > i + m2 || i > j + m1) }
fn banded_of<T: Elem>(n: usize, m1: usize, m2: usize, r: &mut Rng, nice: bool) -> Banded<T> {
    let mut b = Banded::<T>::new(n, m1, m2, if nice { T::zero() } else { T::gen(r) });
    for i in 0..n { for j in 0..n {
        if in_band(i, j, m1, m2) {
            b[(i, j)] = if nice { if i == j { T::from_i(40 + r.int(0, 9)) } else { T::small(r) } } else { T::gen(r) };
        }
    } }
    b
}
fn tri_of<T: Elem>(n: usize, r: &mut Rng, nice: bool) -> Tridiagonal<T> {
    if n == 0 { return Tridiagonal::<T>::empty(); }
    let g = |r: &mut Rng, d: bool| if nice { if d { T::from_i(40 + r.int(0, 9)) } else { T::small(r) } } else { T::gen(r) };
    let sub: Vec<T> = (0..n - 1).map(|_| g(r, false)).collect();
    let main: Vec<T> = (0..n).map(|_| g(r, true)).collect();
    let sup: Vec<T> = (0..n - 1).map(|_| g(r, false)).collect();
    Tridiagonal::with_vecs(sub, main, sup)
}
fn sparse_of<T: Elem>(rows: usize, cols: usize, r: &mut Rng, nice: bool) -> Sparse<T> {
    let mut trip: Vec<(usize, usize, T)> = Vec::new();
    for i in 0..rows { for j in 0..cols {
        let diag = i == j;
        if (nice && diag) || r.below(3) == 0 {
            let v = if nice { if diag { T::from_i(40 + r.int(0, 9)) } else { T::small(r) } } else { T::gen(r) };
            trip.push((i, j, v));
        }
    } }
    // shuffle the triplets
    for k in (1..trip.len()).rev() { let l = r.below(k + 1); trip.swap(k, l); }
    Sparse::<T>::from_triplets(rows, cols, &mut trip)
}
fn nodes_of(n: usize, r: &mut Rng) -> Vector<f64> {
    let mut x = r.unit();
    let mut v = Vec::new();
    for _ in 0..n { v.push(x); x += 0.1 + r.unit(); }
    Vector::create(v)
}
fn mesh1_of<T: Elem>(n: usize, nvars: usize, r: &mut Rng) -> Mesh1D<T, f64> {
    let mut m = Mesh1D::<T, f64>::new(nodes_of(n, r), nvars);
    for i in 0..n { m.set_nodes_vars(i, vec_of::<T>(nvars, r)); }
    m
}
fn mesh2_of<T: Elem>(nx: usize, ny: usize, nvars: usize, r: &mut Rng) -> Mesh2D<T> {
    let mut m = Mesh2D::<T>::new(nodes_of(nx, r), nodes_of(ny, r), nvars);
    for i in 0..nx { for j in 0..ny { m.set_nodes_vars(i, j, vec_of::<T>(nvars, r)); } }
    m
}
fn poly_of<T: Elem>(n: usize, r: &mut Rng) -> Polynomial<T> {
    Polynomial::new((0..n).map(|_| T::gen(r)).collect())
}
fn small_poly<T: Elem>(n: usize, r: &mut Rng) -> Polynomial<T> {
    Polynomial::new((0..n).map(|_| T::small(r)).collect())
}

// -------- reporting
fn quiet() { std::panic::set_hook(Box::new(|_| {})); }

fn run<R>(f: impl FnOnce() -> R) -> Result<R, String> {
    match catch_unwind(AssertUnwindSafe(f)) {
        Ok(v) => Ok(v),
        Err(e) => {
            if let Some(s) = e.downcast_ref::<&str>() { Err(s.to_string()) }
            else if let Some(s) = e.downcast_ref::<String>() { Err(s.clone()) }
            else { Err("<non-string panic>".to_string()) }
        }
    }
}

struct Rep {
    name: &'static str,
    cases: usize,
    fails: Vec<String>,
    msgs: BTreeMap<String, BTreeSet<String>>,
}
impl Rep {
    fn new(name: &'static str) -> Self { quiet(); Rep { name, cases: 0, fails: vec![], msgs: BTreeMap::new() } }
    /// the call must panic
    fn must_panic<R>(&mut self, what: &str, detail: &dyn Fn() -> String, f: impl FnOnce() -> R) {
        self.cases += 1;
        match run(f) {
            Ok(_) => self.fails.push(format!("NO PANIC  {what}: {}", detail())),
            Err(m) => {
                // strip the numbers out of std's index messages so the set stays small
                let m: String = m.chars().map(|c| if c.is_ascii_digit() { '#' } else { c }).collect();
                self.msgs.entry(what.to_string()).or_default().insert(m);
            }
        }
    }
    fn check(&mut self, cond: bool, what: &dyn Fn() -> String) {
        self.cases += 1;
        if !cond { self.fails.push(format!("CHECK     {}", what())); }
    }
    /// two forms of one operation: both panic, or both give bit-identical results
    fn agree(&mut self, what: &dyn Fn() -> String, a: &Result<Vec<u64>, String>, b: &Result<Vec<u64>, String>) {
        self.cases += 1;
        let ok = match (a, b) { (Ok(x), Ok(y)) => x == y, (Err(_), Err(_)) => true, _ => false };
        if !ok { self.fails.push(format!("DISAGREE  {}: {:?} vs {:?}", what(), a, b)); }
    }
    fn finish(self) {
        println!("[{}] {} cases, {} failures", self.name, self.cases, self.fails.len());
        if std::env::var("HUNT_MSGS").is_ok() {
            for (k, v) in self.msgs.iter() { println!("   {k}: {:?}", v); }
        }
        if !self.fails.is_empty() {
            // grouped by (kind, operation): count and the first three examples
            let mut groups: BTreeMap<String, Vec<&String>> = BTreeMap::new();
            for f in self.fails.iter() {
                let key: String = f.split(':').next().unwrap_or("").to_string();
                groups.entry(key).or_default().push(f);
            }
            for (k, v) in groups.iter() {
                println!("   {} x {k}", v.len());
                for f in v.iter().take(3) { println!("        {f}"); }
            }
            panic!("[{}] {} failures", self.name, self.fails.len());
        }
    }
}
// ---------------------------------------------------------------- PART A: every mismatched pair is rejected
const MAXN: usize = 6;
const BAD: [usize; 4] = [0, 1, 7, usize::MAX]; // offsets beyond the last valid index (usize::MAX = the value itself)
fn beyond(n: usize) -> Vec<usize> { vec![n, n + 1, n + 7, usize::MAX / 2, usize::MAX] }

fn a_vector<T: Elem>(rep: &mut Rep, r: &mut Rng) {
    for a in 0..=MAXN { for b in 0..=MAXN {
        if a == b { continue; }
        let va = vec_of::<T>(a, r); let vb = vec_of::<T>(b, r);
        let d = || format!("sizes {a} vs {b}");
        rep.must_panic("Vector &a+&b", &d, || &va + &vb);
        rep.must_panic("Vector a+&b", &d, || va.clone() + &vb);
        rep.must_panic("Vector a+b", &d, || va.clone() + vb.clone());
        rep.must_panic("Vector &a-&b", &d, || &va - &vb);
        rep.must_panic("Vector a-&b", &d, || va.clone() - &vb);
        rep.must_panic("Vector a-b", &d, || va.clone() - vb.clone());
        rep.must_panic("Vector dot", &d, || va.dot(&vb));
        let mut c = va.clone();
        rep.must_panic("Vector +=", &d, || c += vb.clone());
        rep.check(vbits(&c) == vbits(&va), &|| format!("Vector += rejected but receiver changed, {}", d()));
        let mut c = va.clone();
        rep.must_panic("Vector -=", &d, || c -= vb.clone());
        rep.check(vbits(&c) == vbits(&va), &|| format!("Vector -= rejected but receiver changed, {}", d()));
    } }
    for n in 0..=MAXN {
        let v = vec_of::<T>(n, r);
        for i in beyond(n) {
            let d = || format!("size {n} index {i}");
            rep.must_panic("Vector [i]", &d, || v[i]);
            let mut c = v.clone();
            rep.must_panic("Vector [i]=", &d, || c[i] = T::one());
            rep.check(vbits(&c) == vbits(&v), &|| format!("Vector [i]= changed, {}", d()));
            for j in 0..=n {
                let mut c = v.clone();
                rep.must_panic("Vector swap", &d, || c.swap(i, j));
                rep.check(vbits(&c) == vbits(&v), &|| format!("Vector swap changed, {}", d()));
                let mut c = v.clone();
                rep.must_panic("Vector swap", &d, || c.swap(j, i));
                rep.check(vbits(&c) == vbits(&v), &|| format!("Vector swap changed, {}", d()));
            }
            if i > n {
                let mut c = v.clone();
                rep.must_panic("Vector insert", &d, || c.insert(i, T::one()));
                rep.check(vbits(&c) == vbits(&v), &|| format!("Vector insert changed, {}", d()));
            }
            for s in 0..=n {
                rep.must_panic("Vector sum_slice", &|| format!("size {n} range {s}..={i}"), || v.sum_slice(s, i));
                rep.must_panic("Vector product_slice", &|| format!("size {n} range {s}..={i}"), || v.product_slice(s, i));
                if i > s {
                    rep.must_panic("Vector sum_slice", &|| format!("size {n} range {i}..={s}"), || v.sum_slice(i, s));
                    rep.must_panic("Vector product_slice", &|| format!("size {n} range {i}..={s}"), || v.product_slice(i, s));
                }
            }
        }
        // start > end inside the vector
        for s in 0..n { for e in 0..s {
            rep.must_panic("Vector sum_slice", &|| format!("size {n} range {s}..={e}"), || v.sum_slice(s, e));
            rep.must_panic("Vector product_slice", &|| format!("size {n} range {s}..={e}"), || v.product_slice(s, e));
        } }
    }
    let mut e = Vector::<T>::empty();
    rep.must_panic("Vector pop", &|| "empty".to_string(), || e.pop());
}

fn a_vector_f64(rep: &mut Rep, r: &mut Rng) {
    for a in 0..=MAXN { for b in 0..=MAXN {
        if a == b { continue; }
        let va = vec_of::<f64>(a, r); let vb = vec_of::<f64>(b, r);
        rep.must_panic("Vector dot_f64", &|| format!("sizes {a} vs {b}"), || va.dot_f64(&vb));
    } }
}

fn a_matrix<T: Elem>(rep: &mut Rep, r: &mut Rng) {
    let shapes: Vec<(usize, usize)> = (0..=MAXN).flat_map(|i| (0..=MAXN).map(move |j| (i, j))).collect();
    for &(r1, c1) in shapes.iter() {
        let a = small_mat::<T>(r1, c1, r);
        let abits = mbits(&a);
        for &(r2, c2) in shapes.iter() {
            let b = small_mat::<T>(r2, c2, r);
            let d = || format!("{r1}x{c1} vs {r2}x{c2}");
            if (r1, c1) != (r2, c2) {
                rep.must_panic("Matrix &a+&b", &d, || &a + &b);
                rep.must_panic("Matrix a+b", &d, || a.clone() + b.clone());
                rep.must_panic("Matrix &a-&b", &d, || &a - &b);
                rep.must_panic("Matrix a-b", &d, || a.clone() - b.clone());
                let mut c = a.clone();
                rep.must_panic("Matrix +=&", &d, || c += &b);
                rep.check(mbits(&c) == abits, &|| format!("Matrix +=& changed receiver {}", d()));
                let mut c = a.clone();
                rep.must_panic("Matrix +=", &d, || c += b.clone());
                rep.check(mbits(&c) == abits, &|| format!("Matrix += changed receiver {}", d()));
                let mut c = a.clone();
                rep.must_panic("Matrix -=&", &d, || c -= &b);
                rep.check(mbits(&c) == abits, &|| format!("Matrix -=& changed receiver {}", d()));
                let mut c = a.clone();
                rep.must_panic("Matrix -=", &d, || c -= b.clone());
                rep.check(mbits(&c) == abits, &|| format!("Matrix -= changed receiver {}", d()));
            }
            if c1 != r2 {
                rep.must_panic("Matrix &a*&b", &d, || &a * &b);
                rep.must_panic("Matrix a*b", &d, || a.clone() * b.clone());
            }
        }
        for n in 0..=MAXN {
            let v = small_vec::<T>(n, r);
            let d = || format!("{r1}x{c1} with vector {n}");
            if n != c1 {
                rep.must_panic("Matrix &a*&v", &d, || &a * &v);
                rep.must_panic("Matrix a*v", &d, || a.clone() * v.clone());
                rep.must_panic("Matrix multiply", &d, || a.multiply(&v));
                // set_row with a wrong-sized vector, for every row (valid or not)
                for row in 0..=r1 {
                    let mut c = a.clone();
                    rep.must_panic("Matrix set_row size", &d, || c.set_row(row, v.clone()));
                    rep.check(mbits(&c) == abits, &|| format!("Matrix set_row changed receiver {}", d()));
                }
            }
            if n != r1 {
                for col in 0..=c1 {
                    let mut c = a.clone();
                    rep.must_panic("Matrix set_col size", &d, || c.set_col(col, v.clone()));
                    rep.check(mbits(&c) == abits, &|| format!("Matrix set_col changed receiver {}", d()));
                }
            }
            // solvers: wrong right-hand side or not square
            if n != r1 || r1 != c1 {
                let mut c = a.clone();
                rep.must_panic("Matrix solve_basic", &d, || c.solve_basic(&v));
                rep.check(mbits(&c) == abits, &|| format!("Matrix solve_basic changed receiver {}", d()));
                let mut c = a.clone();
                rep.must_panic("Matrix solve_lu", &d, || c.solve_lu(&v));
                rep.check(mbits(&c) == abits, &|| format!("Matrix solve_lu changed receiver {}", d()));
            }
        }
        if r1 != c1 {
            let d = || format!("{r1}x{c1}");
            let mut c = a.clone();
            rep.must_panic("Matrix lu_decomp_in_place", &d, || c.lu_decomp_in_place());
            rep.check(mbits(&c) == abits, &|| format!("Matrix lu_decomp changed receiver {}", d()));
            rep.must_panic("Matrix inverse", &d, || a.inverse());
            rep.must_panic("Matrix determinant", &d, || a.determinant());
        }
        // row / column arguments out of range
        let good_row = small_vec::<T>(c1, r);
        let good_col = small_vec::<T>(r1, r);
        for row in beyond(r1) {
            let d = || format!("{r1}x{c1} row {row}");
            rep.must_panic("Matrix get_row", &d, || a.get_row(row));
            let mut c = a.clone();
            rep.must_panic("Matrix set_row", &d, || c.set_row(row, good_row.clone()));
            rep.check(mbits(&c) == abits, &|| format!("Matrix set_row changed {}", d()));
            let mut c = a.clone();
            rep.must_panic("Matrix delete_row", &d, || c.delete_row(row));
            rep.check(mbits(&c) == abits, &|| format!("Matrix delete_row changed {}", d()));
            let mut c = a.clone();
            rep.must_panic("Matrix fill_row", &d, || c.fill_row(row, T::one()));
            rep.check(mbits(&c) == abits, &|| format!("Matrix fill_row changed {}", d()));
            for other in 0..=r1 {
                let mut c = a.clone();
                rep.must_panic("Matrix swap_rows", &d, || c.swap_rows(row, other));
                rep.check(mbits(&c) == abits, &|| format!("Matrix swap_rows changed {}", d()));
                let mut c = a.clone();
                rep.must_panic("Matrix swap_rows", &d, || c.swap_rows(other, row));
                rep.check(mbits(&c) == abits, &|| format!("Matrix swap_rows changed {}", d()));
            }
        }
        for col in beyond(c1) {
            let d = || format!("{r1}x{c1} col {col}");
            rep.must_panic("Matrix get_col", &d, || a.get_col(col));
            let mut c = a.clone();
            rep.must_panic("Matrix set_col", &d, || c.set_col(col, good_col.clone()));
            rep.check(mbits(&c) == abits, &|| format!("Matrix set_col changed {}", d()));
            let mut c = a.clone();
            rep.must_panic("Matrix fill_col", &d, || c.fill_col(col, T::one()));
            rep.check(mbits(&c) == abits, &|| format!("Matrix fill_col changed {}", d()));
        }
    }
}

fn a_banded<T: Elem>(rep: &mut Rep, r: &mut Rng) {
    let mut shapes = vec![];
    for n in 0..=MAXN { for m1 in 0..=3 { for m2 in 0..=3 { shapes.push((n, m1, m2)); } } }
    for &(n, m1, m2) in shapes.iter() {
        let a = banded_of::<T>(n, m1, m2, r, true);
        let ab = bbits(&a);
        for &(n2, p1, p2) in shapes.iter() {
            if (n, m1, m2) == (n2, p1, p2) { continue; }
            let b = banded_of::<T>(n2, p1, p2, r, true);
            let d = || format!("({n},{m1},{m2}) vs ({n2},{p1},{p2})");
            rep.must_panic("Banded &a+&b", &d, || &a + &b);
            rep.must_panic("Banded a+b", &d, || a.clone() + b.clone());
            rep.must_panic("Banded &a-&b", &d, || &a - &b);
            rep.must_panic("Banded a-b", &d, || a.clone() - b.clone());
            let mut c = a.clone();
            rep.must_panic("Banded +=&", &d, || c += &b);
            rep.check(bbits(&c) == ab, &|| format!("Banded +=& changed {}", d()));
            let mut c = a.clone();
            rep.must_panic("Banded +=", &d, || c += b.clone());
            rep.check(bbits(&c) == ab, &|| format!("Banded += changed {}", d()));
            let mut c = a.clone();
            rep.must_panic("Banded -=&", &d, || c -= &b);
            rep.check(bbits(&c) == ab, &|| format!("Banded -=& changed {}", d()));
            let mut c = a.clone();
            rep.must_panic("Banded -=", &d, || c -= b.clone());
            rep.check(bbits(&c) == ab, &|| format!("Banded -= changed {}", d()));
        }
        for k in 0..=MAXN + 2 {
            if k == n { continue; }
            let v = small_vec::<T>(k, r);
            let d = || format!("({n},{m1},{m2}) with vector {k}");
            rep.must_panic("Banded &a*&v", &d, || &a * &v);
            rep.must_panic("Banded a*v", &d, || a.clone() * v.clone());
            rep.must_panic("Banded solve", &d, || a.solve(&v));
        }
        let lo = -(m1 as isize); let hi = m2 as isize;
        for band in [lo - 1, lo - 2, lo - 9, hi + 1, hi + 2, hi + 9, isize::MIN, isize::MAX, isize::MIN + 1] {
            let d = || format!("({n},{m1},{m2}) band {band}");
            let mut c = a.clone();
            rep.must_panic("Banded fill_band", &d, || c.fill_band(band, T::one()));
            rep.check(bbits(&c) == ab, &|| format!("Banded fill_band changed {}", d()));
        }
    }
}

fn a_tridiagonal<T: Elem>(rep: &mut Rep, r: &mut Rng) {
    for n in 0..=MAXN {
        let a = tri_of::<T>(n, r, true);
        let ab = tbits(&a);
        for n2 in 0..=MAXN {
            if n2 == n { continue; }
            let b = tri_of::<T>(n2, r, true);
            let d = || format!("{n} vs {n2}");
            rep.must_panic("Tridiagonal a+b", &d, || a.clone() + b.clone());
            rep.must_panic("Tridiagonal a-b", &d, || a.clone() - b.clone());
            let v = small_vec::<T>(n2, r);
            rep.must_panic("Tridiagonal &a*&v", &d, || &a * &v);
            rep.must_panic("Tridiagonal a*v", &d, || a.clone() * v.clone());
            rep.must_panic("Tridiagonal solve", &d, || a.solve(&v));
        }
        // entry arguments outside the matrix or outside the three diagonals
        for i in 0..=n + 2 { for j in 0..=n + 2 {
            let inside = i < n && j < n && (i == j || i == j + 1 || i + 1 == j);
            if inside { continue; }
            let d = || format!("size {n} entry ({i},{j})");
            rep.must_panic("Tridiagonal [(i,j)]", &d, || a[(i, j)]);
            let mut c = a.clone();
            rep.must_panic("Tridiagonal [(i,j)]=", &d, || c[(i, j)] = T::one());
            rep.check(tbits(&c) == ab, &|| format!("Tridiagonal [(i,j)]= changed {}", d()));
        } }
        for i in beyond(n) { for j in [0usize, 1, n, usize::MAX, usize::MAX - 1] {
            let d = || format!("size {n} entry ({i},{j})");
            rep.must_panic("Tridiagonal [(i,j)]", &d, || a[(i, j)]);
            rep.must_panic("Tridiagonal [(i,j)]", &d, || a[(j, i)]);
        } }
    }
    // constructors: all triples of sizes that are not (n-1, n, n-1)
    for s in 0..=MAXN { for m in 0..=MAXN { for u in 0..=MAXN {
        if m >= 1 && s == m - 1 && u == m - 1 { continue; }
        let d = || format!("sub {s} main {m} sup {u}");
        rep.must_panic("Tridiagonal with_vectors", &d,
            || Tridiagonal::with_vectors(small_vec::<T>(s, &mut Rng::new(1)), small_vec::<T>(m, &mut Rng::new(2)), small_vec::<T>(u, &mut Rng::new(3))));
        rep.must_panic("Tridiagonal with_vecs", &d,
            || Tridiagonal::with_vecs(vec![T::one(); s], vec![T::one(); m], vec![T::one(); u]));
    } } }
}

fn a_sparse<T: Elem>(rep: &mut Rep, r: &mut Rng) {
    for rows in 0..=MAXN { for cols in 0..=MAXN {
        let s = sparse_of::<T>(rows, cols, r, true);
        let sb = sbits(&s);
        for k in 0..=MAXN + 1 {
            let x = small_vec::<T>(k, r);
            let d = || format!("{rows}x{cols} with vector {k}");
            if k != cols { rep.must_panic("Sparse multiply", &d, || s.multiply(&x)); }
            if k != rows { rep.must_panic("Sparse transpose_multiply", &d, || s.transpose_multiply(&x)); }
        }
        for row in 0..=rows + 1 { for col in 0..=cols + 1 {
            if row < rows && col < cols { continue; }
            for (row, col) in [(row, col), (if row >= rows { usize::MAX } else { row }, if col >= cols { usize::MAX } else { col })] {
                let d = || format!("{rows}x{cols} entry ({row},{col})");
                rep.must_panic("Sparse get", &d, || s.get(row, col));
                let mut c = sparse_of::<T>(rows, cols, &mut Rng::new(77), true);
                let cb = sbits(&c);
                rep.must_panic("Sparse insert", &d, || c.insert(row, col, T::one()));
                rep.check(sbits(&c) == cb, &|| format!("Sparse insert changed {}", d()));
                // from_triplets with the bad entry first / last / alone
                for pos in 0..3 {
                    let mut t = s.to_triplets();
                    match pos { 0 => t.insert(0, (row, col, T::one())), 1 => t.push((row, col, T::one())), _ => { t.clear(); t.push((row, col, T::one())); } }
                    rep.must_panic("Sparse from_triplets", &d, || Sparse::<T>::from_triplets(rows, cols, &mut t));
                }
            }
        } }
        rep.check(sbits(&s) == sb, &|| format!("Sparse {rows}x{cols} changed by rejected calls"));
    } }
}

fn a_sparse_solvers(rep: &mut Rep, r: &mut Rng) {
    for rows in 0..=MAXN { for cols in 0..=MAXN {
        let s = sparse_of::<f64>(rows, cols, r, true);
        let sb = sbits(&s);
        for nb in 0..=MAXN { for nx in 0..=MAXN {
            if rows == cols && nb == rows && nx == rows { continue; }
            let b = small_vec::<f64>(nb, r);
            let x0 = small_vec::<f64>(nx, r);
            let d = || format!("{rows}x{cols} b {nb} x {nx}");
            let xb = vbits(&x0);
            for itol in [1usize, 2] {
                let mut x = x0.clone();
                rep.must_panic("Sparse solve_bicg", &d, || s.solve_bicg(&b, &mut x, 50, 1e-10, itol));
                rep.check(vbits(&x) == xb, &|| format!("solve_bicg wrote x {}", d()));
            }
            let mut x = x0.clone();
            rep.must_panic("Sparse solve_bicgstab", &d, || s.solve_bicgstab(&b, &mut x, 50, 1e-10));
            rep.check(vbits(&x) == xb, &|| format!("solve_bicgstab wrote x {}", d()));
            let mut x = x0.clone();
            rep.must_panic("Sparse solve_cg", &d, || s.solve_cg(&b, &mut x, 50, 1e-10));
            rep.check(vbits(&x) == xb, &|| format!("solve_cg wrote x {}", d()));
            let mut x = x0.clone();
            rep.must_panic("Sparse solve_qmr", &d, || s.solve_qmr(&b, &mut x, 50, 1e-10));
            rep.check(vbits(&x) == xb, &|| format!("solve_qmr wrote x {}", d()));
        } }
        rep.check(sbits(&s) == sb, &|| format!("Sparse {rows}x{cols} changed by rejected solves"));
    } }
}

fn a_mesh<T: Elem>(rep: &mut Rep, r: &mut Rng) {
    for n in 0..=MAXN { for nvars in 0..=3 {
        let m = mesh1_of::<T>(n, nvars, r);
        let mb = m1bits(&m);
        let mut c = mesh1_of::<T>(n, nvars, r);
        let cb = m1bits(&c);
        for node in beyond(n) {
            let d = || format!("Mesh1D nodes {n} nvars {nvars} node {node}");
            rep.must_panic("Mesh1D get_nodes_vars", &d, || m.get_nodes_vars(node));
            rep.must_panic("Mesh1D coord", &d, || m.coord(node));
            rep.must_panic("Mesh1D [node]", &d, || m[node].size());
            rep.must_panic("Mesh1D set_nodes_vars", &d, || c.set_nodes_vars(node, small_vec::<T>(nvars, &mut Rng::new(5))));
            rep.must_panic("Mesh1D [node]=", &d, || c[node] = small_vec::<T>(nvars, &mut Rng::new(5)));
        }
        for node in 0..=n { for k in 0..=5 {
            if k == nvars { continue; }
            let d = || format!("Mesh1D nodes {n} nvars {nvars} node {node} vec {k}");
            rep.must_panic("Mesh1D set_nodes_vars size", &d, || c.set_nodes_vars(node, small_vec::<T>(k, &mut Rng::new(5))));
        } }
        rep.check(m1bits(&m) == mb && m1bits(&c) == cb, &|| format!("Mesh1D {n},{nvars} changed by rejected calls"));
    } }
    for nx in 0..=MAXN { for ny in 0..=MAXN { for nvars in 0..=2 {
        let m = mesh2_of::<T>(nx, ny, nvars, r);
        let mb = m2bits(&m);
        let mut c = mesh2_of::<T>(nx, ny, nvars, r);
        let cb = m2bits(&c);
        for i in 0..=nx + 1 { for j in 0..=ny + 1 {
            if i < nx && j < ny { continue; }
            for (i, j) in [(i, j), (if i >= nx { usize::MAX } else { i }, if j >= ny { usize::MAX } else { j }),
                           (if i >= nx { i + 6 } else { i }, if j >= ny { j + 6 } else { j })] {
                let d = || format!("Mesh2D {nx}x{ny} nvars {nvars} node ({i},{j})");
                rep.must_panic("Mesh2D get_nodes_vars", &d, || m.get_nodes_vars(i, j));
                rep.must_panic("Mesh2D coord", &d, || m.coord(i, j));
                rep.must_panic("Mesh2D set_nodes_vars", &d, || c.set_nodes_vars(i, j, small_vec::<T>(nvars, &mut Rng::new(5))));
            }
        } }
        for i in 0..=nx { for j in 0..=ny { for k in 0..=4 {
            if k == nvars { continue; }
            let d = || format!("Mesh2D {nx}x{ny} nvars {nvars} node ({i},{j}) vec {k}");
            rep.must_panic("Mesh2D set_nodes_vars size", &d, || c.set_nodes_vars(i, j, small_vec::<T>(k, &mut Rng::new(5))));
        } } }
        for i in beyond(nx) {
            let d = || format!("Mesh2D {nx}x{ny} nvars {nvars} xnode {i}");
            rep.must_panic(if ny == 0 { "Mesh2D cross_section_xnode [mesh without y nodes]" } else { "Mesh2D cross_section_xnode" }, &d, || m.cross_section_xnode(i));
        }
        for j in beyond(ny) {
            let d = || format!("Mesh2D {nx}x{ny} nvars {nvars} ynode {j}");
            rep.must_panic(if nx == 0 { "Mesh2D cross_section_ynode [mesh without x nodes]" } else { "Mesh2D cross_section_ynode" }, &d, || m.cross_section_ynode(j));
        }
        for var in beyond(nvars) {
            let d = || format!("Mesh2D {nx}x{ny} nvars {nvars} var {var}");
            rep.must_panic("Mesh2D var_as_matrix", &d, || m.var_as_matrix(var));
        }
        rep.check(m2bits(&m) == mb && m2bits(&c) == cb, &|| format!("Mesh2D {nx}x{ny},{nvars} changed by rejected calls"));
    } } }
}

fn a_polynomial<T: Elem>(rep: &mut Rep, r: &mut Rng) {
    for n in 0..=MAXN {
        let p = poly_of::<T>(n, r);
        let pb = pbits(&p);
        let mut c = p.clone();
        for i in beyond(n) {
            let d = || format!("Polynomial size {n} index {i}");
            rep.must_panic("Polynomial [i]", &d, || p[i]);
            rep.must_panic("Polynomial [i]=", &d, || c[i] = T::one());
        }
        rep.check(pbits(&c) == pb && pbits(&p) == pb, &|| format!("Polynomial {n} changed by rejected calls"));
    }
}

macro_rules! a_test {
    ($name:ident, $f:ident, $t:ty, $seed:expr) => {
        #[test]
        fn $name() {
            let mut rep = Rep::new(stringify!($name));
            let mut r = Rng::new($seed);
            $f::<$t>(&mut rep, &mut r);
            rep.finish();
        }
    };
}
a_test!(a_vector_f64_t, a_vector, f64, 11);
a_test!(a_vector_i64_t, a_vector, i64, 12);
a_test!(a_vector_cmplx_t, a_vector, Cmplx, 13);
a_test!(a_matrix_f64_t, a_matrix, f64, 21);
a_test!(a_matrix_i64_t, a_matrix, i64, 22);
a_test!(a_matrix_cmplx_t, a_matrix, Cmplx, 23);
a_test!(a_banded_f64_t, a_banded, f64, 31);
a_test!(a_banded_i64_t, a_banded, i64, 32);
a_test!(a_banded_cmplx_t, a_banded, Cmplx, 33);
a_test!(a_tridiagonal_f64_t, a_tridiagonal, f64, 41);
a_test!(a_tridiagonal_i64_t, a_tridiagonal, i64, 42);
a_test!(a_tridiagonal_cmplx_t, a_tridiagonal, Cmplx, 43);
a_test!(a_sparse_f64_t, a_sparse, f64, 51);
a_test!(a_sparse_i64_t, a_sparse, i64, 52);
a_test!(a_sparse_cmplx_t, a_sparse, Cmplx, 53);
a_test!(a_mesh_f64_t, a_mesh, f64, 61);
a_test!(a_mesh_cmplx_t, a_mesh, Cmplx, 63);
a_test!(a_polynomial_f64_t, a_polynomial, f64, 71);
a_test!(a_polynomial_cmplx_t, a_polynomial, Cmplx, 73);

#[test]
fn a_vector_dot_f64_t() {
    let mut rep = Rep::new("a_vector_dot_f64");
    a_vector_f64(&mut rep, &mut Rng::new(14));
    rep.finish();
}
#[test]
fn a_sparse_solvers_t() {
    let mut rep = Rep::new("a_sparse_solvers");
    a_sparse_solvers(&mut rep, &mut Rng::new(54));
    rep.finish();
}
// ---------------------------------------------------------------- PART B: by-reference forms leave operands intact,
// consuming forms agree bit for bit, results agree with a naive reference

fn fmt_bits(s: String) -> Vec<u64> { s.bytes().map(|b| b as u64).collect() }

fn b_vector<T: Elem>(rep: &mut Rep, r: &mut Rng, iters: usize) {
    for it in 0..iters {
        let n = if it % 50 == 0 { 7 + r.below(30) } else { r.below(MAXN + 1) };
        let exact = it % 2 == 0;
        let (a, b) = if exact { (small_vec::<T>(n, r), small_vec::<T>(n, r)) } else { (vec_of::<T>(n, r), vec_of::<T>(n, r)) };
        let (sa, sb) = (vbits(&a), vbits(&b));
        let d = || format!("Vector n={n} a={:?} b={:?}", a, b);
        // + and - : four forms, and the naive element-wise reference
        let r1 = run(|| vbits(&(&a + &b)));
        rep.check(vbits(&a) == sa && vbits(&b) == sb, &|| format!("&a+&b mutated an operand: {}", d()));
        let r2 = run(|| vbits(&(a.clone() + &b)));
        let r3 = run(|| vbits(&(a.clone() + b.clone())));
        let r4 = run(|| { let mut c = a.clone(); c += b.clone(); vbits(&c) });
        let rf = run(|| vbits(&Vector::create((0..n).map(|i| a[i] + b[i]).collect::<Vec<T>>())));
        rep.agree(&|| format!("+ forms 1/2 {}", d()), &r1, &r2);
        rep.agree(&|| format!("+ forms 1/3 {}", d()), &r1, &r3);
        rep.agree(&|| format!("+ vs += {}", d()), &r1, &r4);
        rep.agree(&|| format!("+ vs reference {}", d()), &r1, &rf);
        let r1 = run(|| vbits(&(&a - &b)));
        rep.check(vbits(&a) == sa && vbits(&b) == sb, &|| format!("&a-&b mutated an operand: {}", d()));
        let r2 = run(|| vbits(&(a.clone() - &b)));
        let r3 = run(|| vbits(&(a.clone() - b.clone())));
        let r4 = run(|| { let mut c = a.clone(); c -= b.clone(); vbits(&c) });
        let rf = run(|| vbits(&Vector::create((0..n).map(|i| a[i] - b[i]).collect::<Vec<T>>())));
        rep.agree(&|| format!("- forms 1/2 {}", d()), &r1, &r2);
        rep.agree(&|| format!("- forms 1/3 {}", d()), &r1, &r3);
        rep.agree(&|| format!("- vs -= {}", d()), &r1, &r4);
        rep.agree(&|| format!("- vs reference {}", d()), &r1, &rf);
        // &self methods
        let dot = run(|| a.dot(&b).bits());
        let dref = run(|| { let mut s = T::zero(); for i in 0..n { s += a[i] * b[i]; } s.bits() });
        rep.agree(&|| format!("dot vs reference {}", d()), &dot, &dref);
        let _ = run(|| a.sum()); let _ = run(|| a.product()); let _ = run(|| a.abs()); let _ = run(|| a.norm_1());
        let _ = run(|| a.find(b.vec.first().copied().unwrap_or(T::zero())));
        if n > 0 { let (s, e) = (r.below(n), r.below(n)); let _ = run(|| a.sum_slice(s, e)); let _ = run(|| a.product_slice(s, e)); }
        let _ = run(|| format!("{} {:?}", a, a));
        let c = a.clone();
        rep.check(vbits(&c) == sa, &|| format!("clone differs {}", d()));
        rep.check(vbits(&a) == sa && vbits(&b) == sb, &|| format!("&self method mutated a Vector: {}", d()));
        // scalar forms: op and op= agree
        let s = T::small(r);
        if s != T::zero() || true {
            let m1 = run(|| vbits(&(a.clone() * s)));
            let m2 = run(|| { let mut c = a.clone(); c *= s; vbits(&c) });
            rep.agree(&|| format!("*s vs *=s {}", d()), &m1, &m2);
            let m1 = run(|| vbits(&(a.clone() / s)));
            let m2 = run(|| { let mut c = a.clone(); c /= s; vbits(&c) });
            rep.agree(&|| format!("/s vs /=s {}", d()), &m1, &m2);
        }
    }
}

fn b_vector_f64(rep: &mut Rep, r: &mut Rng, iters: usize) {
    for it in 0..iters {
        let n = if it % 20 == 0 { 7 + r.below(60) } else { r.below(MAXN + 1) };
        let a = vec_of::<f64>(n, r); let b = vec_of::<f64>(n, r);
        let (sa, sb) = (vbits(&a), vbits(&b));
        let _ = run(|| a.norm_2()); let _ = run(|| a.norm_p(3.0)); let _ = run(|| a.norm_inf());
        if it % 10 == 0 {
            let ai = small_vec::<f64>(n, r); let bi = small_vec::<f64>(n, r);
            let x = run(|| ai.dot_f64(&bi)); let y = run(|| ai.dot(&bi));
            rep.check(x == y, &|| format!("dot_f64 {:?} != dot {:?} for {:?} {:?}", x, y, ai, bi));
            let _ = run(|| a.dot_f64(&b));
        }
        let s = gen_f64(r);
        let m1 = run(|| vbits(&(a.clone() * s)));
        let m2 = run(|| vbits(&(s * a.clone())));
        rep.agree(&|| format!("v*s vs s*v s={s:e} {:?}", a), &m1, &m2);
        rep.check(vbits(&a) == sa && vbits(&b) == sb, &|| format!("&self f64 method mutated Vector {:?}", a));
    }
    for it in 0..iters / 4 {
        let n = r.below(MAXN + 1);
        let a = vec_of::<Cmplx>(n, r);
        let sa = vbits(&a);
        let _ = run(|| a.conj()); let _ = run(|| a.real()); let _ = run(|| a.norm_inf());
        rep.check(vbits(&a) == sa, &|| format!("&self Cmplx method mutated Vector {:?}", a));
    }
}

fn b_matrix<T: Elem>(rep: &mut Rep, r: &mut Rng, iters: usize, solvers: bool) {
    for it in 0..iters {
        let (r1, c1, c2) = (r.below(MAXN + 1), r.below(MAXN + 1), r.below(MAXN + 1));
        let exact = it % 2 == 0;
        let mk = |rows, cols, r: &mut Rng| if exact { small_mat::<T>(rows, cols, r) } else { mat_of::<T>(rows, cols, r) };
        let a = mk(r1, c1, r); let b = mk(r1, c1, r); let p = mk(c1, c2, r);
        let v = if exact { small_vec::<T>(c1, r) } else { vec_of::<T>(c1, r) };
        let (sa, sb, sp, sv) = (mbits(&a), mbits(&b), mbits(&p), vbits(&v));
        let d = || format!("Matrix a=\n{:?}\n b=\n{:?}\n p=\n{:?}\n v={:?}", a, b, p, v);
        let intact = |rep: &mut Rep, what: &str| {
            rep.check(mbits(&a) == sa && mbits(&b) == sb && mbits(&p) == sp && vbits(&v) == sv,
                      &|| format!("{what} mutated an operand: {}", d()));
        };
        let n1 = run(|| mbits(&(-&a))); intact(rep, "-&a");
        let n2 = run(|| mbits(&(-a.clone())));
        rep.agree(&|| format!("neg forms {}", d()), &n1, &n2);
        let x1 = run(|| mbits(&(&a + &b))); intact(rep, "&a+&b");
        let x2 = run(|| mbits(&(a.clone() + b.clone())));
        let x3 = run(|| { let mut c = a.clone(); c += &b; mbits(&c) }); intact(rep, "+=&");
        let x4 = run(|| { let mut c = a.clone(); c += b.clone(); mbits(&c) });
        let xf = run(|| { let mut c = Matrix::<T>::new(r1, c1, T::zero()); for i in 0..r1 { for j in 0..c1 { c[(i, j)] = a[(i, j)] + b[(i, j)]; } } mbits(&c) });
        rep.agree(&|| format!("+ forms {}", d()), &x1, &x2);
        rep.agree(&|| format!("+ vs +=& {}", d()), &x1, &x3);
        rep.agree(&|| format!("+ vs += {}", d()), &x1, &x4);
        rep.agree(&|| format!("+ vs reference {}", d()), &x1, &xf);
        let x1 = run(|| mbits(&(&a - &b))); intact(rep, "&a-&b");
        let x2 = run(|| mbits(&(a.clone() - b.clone())));
        let x3 = run(|| { let mut c = a.clone(); c -= &b; mbits(&c) }); intact(rep, "-=&");
        let x4 = run(|| { let mut c = a.clone(); c -= b.clone(); mbits(&c) });
        let xf = run(|| { let mut c = Matrix::<T>::new(r1, c1, T::zero()); for i in 0..r1 { for j in 0..c1 { c[(i, j)] = a[(i, j)] - b[(i, j)]; } } mbits(&c) });
        rep.agree(&|| format!("- forms {}", d()), &x1, &x2);
        rep.agree(&|| format!("- vs -=& {}", d()), &x1, &x3);
        rep.agree(&|| format!("- vs -= {}", d()), &x1, &x4);
        rep.agree(&|| format!("- vs reference {}", d()), &x1, &xf);
        let s = if exact { T::small(r) } else { T::gen(r) };
        let x1 = run(|| mbits(&(&a * s))); intact(rep, "&a*s");
        let x2 = run(|| mbits(&(a.clone() * s)));
        let x3 = run(|| { let mut c = a.clone(); c *= s; mbits(&c) });
        rep.agree(&|| format!("*s forms s={:?} {}", s, d()), &x1, &x2);
        rep.agree(&|| format!("*s vs *=s s={:?} {}", s, d()), &x1, &x3);
        let x1 = run(|| mbits(&(&a / s))); intact(rep, "&a/s");
        let x2 = run(|| mbits(&(a.clone() / s)));
        let x3 = run(|| { let mut c = a.clone(); c /= s; mbits(&c) });
        rep.agree(&|| format!("/s forms s={:?} {}", s, d()), &x1, &x2);
        rep.agree(&|| format!("/s vs /=s s={:?} {}", s, d()), &x1, &x3);
        // matrix product
        let x1 = run(|| mbits(&(&a * &p))); intact(rep, "&a*&p");
        let x2 = run(|| mbits(&(a.clone() * p.clone())));
        rep.agree(&|| format!("a*p forms {}", d()), &x1, &x2);
        if exact {
            let xf = run(|| { let mut c = Matrix::<T>::new(r1, c2, T::zero());
                for i in 0..r1 { for j in 0..c2 { let mut s = T::zero(); for k in 0..c1 { s += a[(i, k)] * p[(k, j)]; } c[(i, j)] = s; } } mbits(&c) });
            rep.agree(&|| format!("a*p vs reference {}", d()), &x1, &xf);
        }
        // matrix * vector
        let x1 = run(|| vbits(&(&a * &v))); intact(rep, "&a*&v");
        let x2 = run(|| vbits(&(a.clone() * v.clone())));
        let x3 = run(|| vbits(&a.multiply(&v))); intact(rep, "multiply");
        rep.agree(&|| format!("a*v forms {}", d()), &x1, &x2);
        rep.agree(&|| format!("a*v vs multiply {}", d()), &x1, &x3);
        if exact {
            let xf = run(|| { let mut o = Vec::new(); for i in 0..r1 { let mut s = T::zero(); for k in 0..c1 { s += a[(i, k)] * v[k]; } o.push(s); } vbits(&Vector::create(o)) });
            rep.agree(&|| format!("a*v vs reference {}", d()), &x1, &xf);
        }
        // read-only views
        if r1 > 0 { let i = r.below(r1); let g = run(|| vbits(&a.get_row(i)));
            let gf = run(|| vbits(&Vector::create((0..c1).map(|j| a[(i, j)]).collect::<Vec<T>>())));
            rep.agree(&|| format!("get_row {i} {}", d()), &g, &gf); }
        if c1 > 0 { let j = r.below(c1); let g = run(|| vbits(&a.get_col(j)));
            let gf = run(|| vbits(&Vector::create((0..r1).map(|i| a[(i, j)]).collect::<Vec<T>>())));
            rep.agree(&|| format!("get_col {j} {}", d()), &g, &gf); }
        let t = run(|| mbits(&a.transpose()));
        let tf = run(|| { let mut c = Matrix::<T>::new(c1, r1, T::zero()); for i in 0..r1 { for j in 0..c1 { c[(j, i)] = a[(i, j)]; } } mbits(&c) });
        rep.agree(&|| format!("transpose {}", d()), &t, &tf);
        let _ = run(|| format!("{} {:?}", a, a));
        rep.check(mbits(&a.clone()) == sa, &|| format!("clone differs {}", d()));
        intact(rep, "&self views");
        if solvers {
            let n = r.below(MAXN) + 1;
            let q = if exact { nice_sq::<T>(n, r) } else { mat_of::<T>(n, n, r) };
            let rhs = if exact { small_vec::<T>(n, r) } else { vec_of::<T>(n, r) };
            let (sq, sr) = (mbits(&q), vbits(&rhs));
            let _ = run(|| q.determinant()); let _ = run(|| q.inverse());
            rep.check(mbits(&q) == sq, &|| format!("determinant/inverse mutated\n{:?}", q));
            let s1 = run(|| { let mut c = q.clone(); vbits(&c.solve_basic(&rhs)) });
            let s2 = run(|| { let mut c = q.clone(); vbits(&c.solve_lu(&rhs)) });
            rep.check(mbits(&q) == sq && vbits(&rhs) == sr, &|| format!("solve mutated b or the original\n{:?}\n{:?}", q, rhs));
            if exact {
                // residual check with exact-ish data: both solvers solve the system
                for (nm, s) in [("solve_basic", &s1), ("solve_lu", &s2)] {
                    rep.check(s.is_ok(), &|| format!("{nm} panicked on a diagonally dominant system\n{:?}\n{:?}", q, rhs));
                }
            }
        }
    }
}

fn b_matrix_f64(rep: &mut Rep, r: &mut Rng, iters: usize) {
    for _ in 0..iters {
        let a = mat_of::<f64>(r.below(MAXN + 1), r.below(MAXN + 1), r);
        let sa = mbits(&a);
        let s = gen_f64(r);
        let x1 = run(|| mbits(&(a.clone() * s)));
        let x2 = run(|| mbits(&(s * a.clone())));
        rep.agree(&|| format!("m*s vs s*m {s:e}\n{:?}", a), &x1, &x2);
        let _ = run(|| (a.norm_1(), a.norm_inf(), a.norm_p(3.0), a.norm_frob(), a.norm_max()));
        rep.check(mbits(&a) == sa, &|| format!("norm mutated\n{:?}", a));
    }
}

fn b_banded<T: Elem>(rep: &mut Rep, r: &mut Rng, iters: usize) {
    for it in 0..iters {
        let n = r.below(MAXN + 1);
        let (m1, m2) = (r.below(4), r.below(4));
        let exact = it % 2 == 0;
        let a = banded_of::<T>(n, m1, m2, r, exact);
        let b = banded_of::<T>(n, m1, m2, r, exact);
        let v = if exact { small_vec::<T>(n, r) } else { vec_of::<T>(n, r) };
        let (sa, sb, sv) = (bbits(&a), bbits(&b), vbits(&v));
        let d = || format!("Banded a={:?} b={:?} v={:?}", a, b, v);
        let intact = |rep: &mut Rep, what: &str| {
            rep.check(bbits(&a) == sa && bbits(&b) == sb && vbits(&v) == sv, &|| format!("{what} mutated an operand: {}", d()));
        };
        let n1 = run(|| bbits(&(-&a))); intact(rep, "-&a");
        let n2 = run(|| bbits(&(-a.clone())));
        rep.agree(&|| format!("neg forms {}", d()), &n1, &n2);
        let x1 = run(|| bbits(&(&a + &b))); intact(rep, "&a+&b");
        let x2 = run(|| bbits(&(a.clone() + b.clone())));
        let x3 = run(|| { let mut c = a.clone(); c += &b; bbits(&c) }); intact(rep, "+=&");
        let x4 = run(|| { let mut c = a.clone(); c += b.clone(); bbits(&c) });
        rep.agree(&|| format!("+ forms {}", d()), &x1, &x2);
        rep.agree(&|| format!("+ vs +=& {}", d()), &x1, &x3);
        rep.agree(&|| format!("+ vs += {}", d()), &x1, &x4);
        let x1 = run(|| bbits(&(&a - &b))); intact(rep, "&a-&b");
        let x2 = run(|| bbits(&(a.clone() - b.clone())));
        let x3 = run(|| { let mut c = a.clone(); c -= &b; bbits(&c) }); intact(rep, "-=&");
        let x4 = run(|| { let mut c = a.clone(); c -= b.clone(); bbits(&c) });
        rep.agree(&|| format!("- forms {}", d()), &x1, &x2);
        rep.agree(&|| format!("- vs -=& {}", d()), &x1, &x3);
        rep.agree(&|| format!("- vs -= {}", d()), &x1, &x4);
        // entrywise check of + through the band accessor
        if let Ok(sum) = run(|| &a + &b) {
            for i in 0..n { for j in 0..n { if in_band(i, j, m1, m2) {
                rep.check(sum[(i, j)] == a[(i, j)] + b[(i, j)] || !exact, &|| format!("+ entry ({i},{j}) {}", d()));
            } } }
        }
        let s = if exact { T::small(r) } else { T::gen(r) };
        let x1 = run(|| bbits(&(&a * s))); intact(rep, "&a*s");
        let x2 = run(|| bbits(&(a.clone() * s)));
        let x3 = run(|| { let mut c = a.clone(); c *= s; bbits(&c) });
        rep.agree(&|| format!("*s forms {}", d()), &x1, &x2);
        rep.agree(&|| format!("*s vs *= {}", d()), &x1, &x3);
        let x1 = run(|| bbits(&(&a / s))); intact(rep, "&a/s");
        let x2 = run(|| bbits(&(a.clone() / s)));
        let x3 = run(|| { let mut c = a.clone(); c /= s; bbits(&c) });
        rep.agree(&|| format!("/s forms {}", d()), &x1, &x2);
        rep.agree(&|| format!("/s vs /= {}", d()), &x1, &x3);
        let x1 = run(|| vbits(&(&a * &v))); intact(rep, "&a*&v");
        let x2 = run(|| vbits(&(a.clone() * v.clone())));
        rep.agree(&|| format!("a*v forms {}", d()), &x1, &x2);
        if exact {
            let xf = run(|| { let mut o = Vec::new(); for i in 0..n { let mut s = T::zero();
                for j in 0..n { if in_band(i, j, m1, m2) { s += a[(i, j)] * v[j]; } } o.push(s); } vbits(&Vector::create(o)) });
            rep.agree(&|| format!("a*v vs reference {}", d()), &x1, &xf);
        }
        let _ = run(|| a.det()); intact(rep, "det");
        let sol = run(|| vbits(&a.solve(&v))); intact(rep, "solve");
        let sol2 = run(|| vbits(&a.clone().solve(&v.clone())));
        rep.agree(&|| format!("solve repeat {}", d()), &sol, &sol2);
        rep.check(bbits(&a.clone()) == sa, &|| format!("clone differs {}", d()));
    }
}

fn b_tridiagonal<T: Elem>(rep: &mut Rep, r: &mut Rng, iters: usize) {
    for it in 0..iters {
        let n = r.below(MAXN) + 1;
        let exact = it % 2 == 0;
        let a = tri_of::<T>(n, r, exact);
        let b = tri_of::<T>(n, r, exact);
        let v = if exact { small_vec::<T>(n, r) } else { vec_of::<T>(n, r) };
        let (sa, sb, sv) = (tbits(&a), tbits(&b), vbits(&v));
        let d = || format!("Tridiagonal a={:?} b={:?} v={:?}", a, b, v);
        let intact = |rep: &mut Rep, what: &str| {
            rep.check(tbits(&a) == sa && tbits(&b) == sb && vbits(&v) == sv, &|| format!("{what} mutated an operand: {}", d()));
        };
        let x1 = run(|| vbits(&(&a * &v))); intact(rep, "&a*&v");
        let x2 = run(|| vbits(&(a.clone() * v.clone())));
        rep.agree(&|| format!("a*v forms {}", d()), &x1, &x2);
        if exact {
            let dense = a.convert(); intact(rep, "convert");
            let xf = run(|| vbits(&dense.multiply(&v)));
            // compare values (not zero signs)
            if let (Ok(x), Ok(y)) = (run(|| &a * &v), run(|| dense.multiply(&v))) {
                for i in 0..n { rep.check(x[i] == y[i], &|| format!("a*v vs dense entry {i}: {}", d())); }
            }
            for i in 0..n { for j in 0..n {
                let want = if i == j || i == j + 1 || i + 1 == j { a[(i, j)] } else { T::zero() };
                rep.check(dense[(i, j)] == want, &|| format!("convert entry ({i},{j}) {}", d()));
            } }
        }
        let _ = run(|| a.det()); intact(rep, "det");
        let t = run(|| tbits(&a.transpose())); intact(rep, "transpose");
        let tf = run(|| { let mut c = a.clone(); c.transpose_in_place(); tbits(&c) });
        rep.agree(&|| format!("transpose vs in place {}", d()), &t, &tf);
        let s1 = run(|| vbits(&a.solve(&v))); intact(rep, "solve");
        if exact { rep.check(s1.is_ok(), &|| format!("solve panicked on dominant system {}", d())); }
        let _ = run(|| format!("{:?}", a));
        rep.check(tbits(&a.clone()) == sa, &|| format!("clone differs {}", d()));
        // consuming arithmetic against entrywise reference
        if let Ok(sum) = run(|| a.clone() + b.clone()) {
            for i in 0..n { for j in 0..n { if i == j || i == j + 1 || i + 1 == j {
                rep.check(sum[(i, j)].bits() == (a[(i, j)] + b[(i, j)]).bits(), &|| format!("+ entry ({i},{j}) {}", d()));
            } } }
        } else { rep.check(false, &|| format!("a+b panicked {}", d())); }
        if let Ok(diff) = run(|| a.clone() - b.clone()) {
            for i in 0..n { for j in 0..n { if i == j || i == j + 1 || i + 1 == j {
                rep.check(diff[(i, j)].bits() == (a[(i, j)] - b[(i, j)]).bits(), &|| format!("- entry ({i},{j}) {}", d()));
            } } }
        } else { rep.check(false, &|| format!("a-b panicked {}", d())); }
        let s = T::small(r);
        let x1 = run(|| tbits(&(a.clone() * s)));
        let x2 = run(|| { let mut c = a.clone(); c *= s; tbits(&c) });
        rep.agree(&|| format!("*s vs *= {}", d()), &x1, &x2);
        intact(rep, "consuming forms on clones");
    }
}

fn b_tridiagonal_cmplx(rep: &mut Rep, r: &mut Rng, iters: usize) {
    for _ in 0..iters {
        let n = r.below(MAXN) + 1;
        let a = tri_of::<Cmplx>(n, r, false);
        let sa = tbits(&a);
        let c = run(|| tbits(&a.conj()));
        rep.check(tbits(&a) == sa && c.is_ok(), &|| format!("conj mutated {:?}", a));
    }
    for _ in 0..iters {
        let n = r.below(MAXN) + 1;
        let a = tri_of::<f64>(n, r, false);
        let s = gen_f64(r);
        let x1 = run(|| tbits(&(a.clone() * s)));
        let x2 = run(|| tbits(&(s * a.clone())));
        rep.agree(&|| format!("t*s vs s*t {s:e} {:?}", a), &x1, &x2);
    }
}

fn b_sparse<T: Elem>(rep: &mut Rep, r: &mut Rng, iters: usize) {
    for it in 0..iters {
        let (rows, cols) = (r.below(MAXN + 1), r.below(MAXN + 1));
        let exact = it % 2 == 0;
        let s = sparse_of::<T>(rows, cols, r, exact);
        let x = if exact { small_vec::<T>(cols, r) } else { vec_of::<T>(cols, r) };
        let y = if exact { small_vec::<T>(rows, r) } else { vec_of::<T>(rows, r) };
        let (ss, sx, sy) = (sbits(&s), vbits(&x), vbits(&y));
        let d = || format!("Sparse {rows}x{cols} {:?} x={:?} y={:?}", s.to_triplets(), x, y);
        let intact = |rep: &mut Rep, what: &str| {
            rep.check(sbits(&s) == ss && vbits(&x) == sx && vbits(&y) == sy, &|| format!("{what} mutated an operand: {}", d()));
        };
        let dense = s.to_dense(); intact(rep, "to_dense");
        let ax = run(|| s.multiply(&x)); intact(rep, "multiply");
        let aty = run(|| s.transpose_multiply(&y)); intact(rep, "transpose_multiply");
        let st = s.transpose(); intact(rep, "transpose");
        let _ = s.col_index(); let _ = s.to_triplets(); intact(rep, "col_index/to_triplets");
        for i in 0..rows { for j in 0..cols {
            let g = s.get(i, j);
            rep.check(g.unwrap_or(T::zero()) == dense[(i, j)], &|| format!("get({i},{j}) vs dense {}", d()));
            rep.check(st.get(j, i) == g, &|| format!("transpose get({j},{i}) {}", d()));
        } }
        intact(rep, "get");
        if exact {
            if let (Ok(ax), Ok(dx)) = (&ax, run(|| dense.multiply(&x))) {
                for i in 0..rows { rep.check(ax[i] == dx[i], &|| format!("multiply entry {i} {}", d())); }
            } else { rep.check(false, &|| format!("multiply panicked {}", d())); }
            if let (Ok(aty), Ok(dy)) = (&aty, run(|| dense.transpose().multiply(&y))) {
                for i in 0..cols { rep.check(aty[i] == dy[i], &|| format!("transpose_multiply entry {i} {}", d())); }
            } else { rep.check(false, &|| format!("transpose_multiply panicked {}", d())); }
        }
    }
}

fn b_sparse_solvers(rep: &mut Rep, r: &mut Rng, iters: usize) {
    for it in 0..iters {
        let n = r.below(MAXN) + 1;
        let exact = it % 4 != 0;
        let s = sparse_of::<f64>(n, n, r, exact);
        let b = if exact { small_vec::<f64>(n, r) } else { vec_of::<f64>(n, r) };
        let x0 = if it % 3 == 0 { Vector::<f64>::zeros(n) } else { small_vec::<f64>(n, r) };
        let (ss, sb) = (sbits(&s), vbits(&b));
        let budget = [0usize, 1, 2, 50][r.below(4)];
        for which in 0..5 {
            let mut x = x0.clone();
            let _ = run(|| match which {
                0 => s.solve_bicg(&b, &mut x, budget, 1e-10, 1),
                1 => s.solve_bicg(&b, &mut x, budget, 1e-10, 2),
                2 => s.solve_bicgstab(&b, &mut x, budget, 1e-10),
                3 => s.solve_cg(&b, &mut x, budget, 1e-10),
                _ => s.solve_qmr(&b, &mut x, budget, 1e-10),
            });
            rep.check(sbits(&s) == ss && vbits(&b) == sb, &|| format!("sparse solver {which} mutated A or b: {:?} {:?}", s.to_triplets(), b));
            rep.check(x.size() == n, &|| format!("sparse solver {which} resized x"));
        }
    }
}

fn b_mesh(rep: &mut Rep, r: &mut Rng, iters: usize) {
    for _ in 0..iters {
        let (n, nv) = (r.below(MAXN) + 1, r.below(4));
        let m = mesh1_of::<f64>(n, nv, r);
        let sm = m1bits(&m);
        for i in 0..n {
            let g = m.get_nodes_vars(i);
            rep.check(vbits(&g) == vbits(&m[i]), &|| format!("Mesh1D get_nodes_vars {i} != [{i}]"));
            let mut g = g; if nv > 0 { g[0] = 123.0; } g.push(1.0);   // editing the returned copy must not touch the mesh
            let _ = m.coord(i);
        }
        let mut nodes = m.nodes(); if n > 0 { nodes[0] = -55.0; }
        if n >= 2 { let _ = run(|| m.get_interpolated_vars(0.5 * (m.coord(0) + m.coord(n - 1)))); }
        for v in 0..nv { let _ = run(|| m.trapezium(v)); }
        rep.check(m1bits(&m) == sm, &|| format!("Mesh1D &self method mutated the mesh n={n} nv={nv}"));
        let (nx, ny) = (r.below(MAXN) + 1, r.below(MAXN) + 1);
        let m = mesh2_of::<f64>(nx, ny, nv, r);
        let sm = m2bits(&m);
        for i in 0..nx { for j in 0..ny {
            let g = m.get_nodes_vars(i, j);
            rep.check(vbits(&g) == vbits(&m[(i, j)]), &|| format!("Mesh2D get_nodes_vars ({i},{j})"));
            let mut g = g; g.push(1.0);
            let _ = m.coord(i, j);
        } }
        for i in 0..nx {
            let mut c = m.cross_section_xnode(i);
            rep.check(c.nnodes() == ny && c.nvars() == nv, &|| format!("cross_section_xnode shape"));
            for j in 0..ny { rep.check(vbits(&c[j]) == vbits(&m[(i, j)]), &|| format!("cross_section_xnode({i}) node {j}")); }
            for j in 0..ny { c.set_nodes_vars(j, Vector::<f64>::new(nv, 9.0)); }   // editing the section must not touch the mesh
        }
        for j in 0..ny {
            let mut c = m.cross_section_ynode(j);
            rep.check(c.nnodes() == nx && c.nvars() == nv, &|| format!("cross_section_ynode shape"));
            for i in 0..nx { rep.check(vbits(&c[i]) == vbits(&m[(i, j)]), &|| format!("cross_section_ynode({j}) node {i}")); }
            for i in 0..nx { c.set_nodes_vars(i, Vector::<f64>::new(nv, 9.0)); }
        }
        for v in 0..nv {
            let mut mm = m.var_as_matrix(v);
            for i in 0..nx { for j in 0..ny { rep.check(mm[(i, j)].to_bits() == m[(i, j)][v].to_bits(), &|| format!("var_as_matrix({v}) ({i},{j})")); } }
            mm.fill(3.0);
            let _ = run(|| (m.trapezium(v), m.square_trapezium(v)));
        }
        let mut xs = m.xnodes(); xs[0] = 77.0; let mut ys = m.ynodes(); ys[0] = 77.0;
        rep.check(m2bits(&m) == sm, &|| format!("Mesh2D &self method mutated the mesh {nx}x{ny} nv={nv}"));
    }
}

fn b_polynomial<T: Elem>(rep: &mut Rep, r: &mut Rng, iters: usize) {
    for it in 0..iters {
        let (na, nb) = (r.below(MAXN + 1), r.below(MAXN + 1));
        let exact = it % 2 == 0;
        let (a, b) = if exact { (small_poly::<T>(na, r), small_poly::<T>(nb, r)) } else { (poly_of::<T>(na, r), poly_of::<T>(nb, r)) };
        let (sa, sb) = (pbits(&a), pbits(&b));
        let d = || format!("Polynomial a={:?} b={:?}", a, b);
        let intact = |rep: &mut Rep, what: &str| {
            rep.check(pbits(&a) == sa && pbits(&b) == sb, &|| format!("{what} mutated an operand: {}", d()));
        };
        let x1 = run(|| pbits(&(&a + &b))); intact(rep, "&a+&b");
        let x2 = run(|| pbits(&(a.clone() + b.clone())));
        rep.agree(&|| format!("+ forms {}", d()), &x1, &x2);
        let x1 = run(|| pbits(&(&a - &b))); intact(rep, "&a-&b");
        let x2 = run(|| pbits(&(a.clone() - b.clone())));
        rep.agree(&|| format!("- forms {}", d()), &x1, &x2);
        let x1 = run(|| pbits(&(&a * &b))); intact(rep, "&a*&b");
        let x2 = run(|| pbits(&(a.clone() * b.clone())));
        rep.agree(&|| format!("* forms {}", d()), &x1, &x2);
        let s = if exact { T::small(r) } else { T::gen(r) };
        let x1 = run(|| pbits(&(&a * s))); intact(rep, "&a*s");
        let x2 = run(|| pbits(&(a.clone() * s)));
        rep.agree(&|| format!("*s forms {}", d()), &x1, &x2);
        let x1 = run(|| pbits(&(-&a))); intact(rep, "-&a");
        let x2 = run(|| pbits(&(-a.clone())));
        rep.agree(&|| format!("neg forms {}", d()), &x1, &x2);
        if exact && na > 0 && nb > 0 {
            // values: evaluate at small integers
            let (sum, dif, prod) = (&a + &b, &a - &b, &a * &b);
            for xi in -2..=2 { let x = T::from_i(xi);
                rep.check(sum.eval(x) == a.eval(x) + b.eval(x), &|| format!("(a+b)({xi}) {}", d()));
                rep.check(dif.eval(x) == a.eval(x) - b.eval(x), &|| format!("(a-b)({xi}) {}", d()));
                rep.check(prod.eval(x) == a.eval(x) * b.eval(x), &|| format!("(a*b)({xi}) {}", d()));
            }
        }
        let _ = run(|| a.polydiv(&b).map(|(q, rr)| (pbits(&q), pbits(&rr)))); intact(rep, "polydiv");
        let _ = run(|| a.eval(s)); let _ = run(|| pbits(&a.derivative())); let _ = run(|| pbits(&a.derivative_n(2)));
        let _ = run(|| a.derivative_at(s, 1)); let _ = run(|| (a.is_zero(), a.degree(), a.size()));
        let _ = run(|| format!("{:?}", a));
        rep.check(pbits(&a.clone()) == sa, &|| format!("clone differs {}", d()));
        intact(rep, "&self methods");
    }
}

fn b_polynomial_roots(rep: &mut Rep, r: &mut Rng, iters: usize) {
    for it in 0..iters {
        let n = r.below(MAXN) + 2;
        let a = if it % 2 == 0 { small_poly::<f64>(n, r) } else { poly_of::<f64>(n, r) };
        let sa = pbits(&a);
        let _ = run(|| a.roots(it % 3 == 0)); let _ = run(|| format!("{}", a));
        rep.check(pbits(&a) == sa, &|| format!("roots/Display mutated {:?}", a));
        let c = if it % 2 == 0 { small_poly::<Cmplx>(n, r) } else { poly_of::<Cmplx>(n, r) };
        let sc = pbits(&c);
        let _ = run(|| c.roots(it % 3 == 0));
        rep.check(pbits(&c) == sc, &|| format!("roots mutated {:?}", c));
    }
}

macro_rules! b_test {
    ($name:ident, $seed:expr, |$rep:ident, $r:ident| $body:expr) => {
        #[test]
        fn $name() {
            let mut $rep = Rep::new(stringify!($name));
            let mut $r = Rng::new($seed);
            $body;
            $rep.finish();
        }
    };
}
b_test!(b_vector_f64_t, 101, |rep, r| b_vector::<f64>(&mut rep, &mut r, 6000));
b_test!(b_vector_i64_t, 102, |rep, r| b_vector::<i64>(&mut rep, &mut r, 3000));
b_test!(b_vector_cmplx_t, 103, |rep, r| b_vector::<Cmplx>(&mut rep, &mut r, 3000));
b_test!(b_vector_f64_special_t, 104, |rep, r| b_vector_f64(&mut rep, &mut r, 4000));
b_test!(b_matrix_f64_t, 111, |rep, r| b_matrix::<f64>(&mut rep, &mut r, 3000, true));
b_test!(b_matrix_i64_t, 112, |rep, r| b_matrix::<i64>(&mut rep, &mut r, 1500, false));
b_test!(b_matrix_cmplx_t, 113, |rep, r| b_matrix::<Cmplx>(&mut rep, &mut r, 1500, true));
b_test!(b_matrix_f64_special_t, 114, |rep, r| b_matrix_f64(&mut rep, &mut r, 3000));
b_test!(b_banded_f64_t, 121, |rep, r| b_banded::<f64>(&mut rep, &mut r, 3000));
b_test!(b_banded_cmplx_t, 123, |rep, r| b_banded::<Cmplx>(&mut rep, &mut r, 1500));
b_test!(b_tridiagonal_f64_t, 131, |rep, r| b_tridiagonal::<f64>(&mut rep, &mut r, 3000));
b_test!(b_tridiagonal_cmplx_t, 133, |rep, r| b_tridiagonal::<Cmplx>(&mut rep, &mut r, 1500));
b_test!(b_tridiagonal_extra_t, 134, |rep, r| b_tridiagonal_cmplx(&mut rep, &mut r, 2000));
b_test!(b_sparse_f64_t, 141, |rep, r| b_sparse::<f64>(&mut rep, &mut r, 2000));
b_test!(b_sparse_cmplx_t, 143, |rep, r| b_sparse::<Cmplx>(&mut rep, &mut r, 1000));
b_test!(b_sparse_solvers_t, 144, |rep, r| b_sparse_solvers(&mut rep, &mut r, 3000));
b_test!(b_mesh_t, 151, |rep, r| b_mesh(&mut rep, &mut r, 1500));
b_test!(b_polynomial_f64_t, 161, |rep, r| b_polynomial::<f64>(&mut rep, &mut r, 4000));
b_test!(b_polynomial_cmplx_t, 163, |rep, r| b_polynomial::<Cmplx>(&mut rep, &mut r, 2000));
b_test!(b_polynomial_roots_t, 164, |rep, r| b_polynomial_roots(&mut rep, &mut r, 2000));
// ---------------------------------------------------------------- PART C: a clone is independent of its original
// under any interleaving of mutations of either (checked against a replay of each value's own history)

#[derive(Clone)]
struct Op<T> { code: usize, p: [usize; 4], off: isize, vals: Vec<T> }

fn gen_op<T: Elem>(r: &mut Rng, ncodes: usize) -> Op<T> {
    let exact = r.below(2) == 0;
    Op {
        code: r.below(ncodes),
        p: [r.below(8), r.below(8), r.below(8), r.below(8)],
        off: r.int(-4, 4) as isize,
        vals: (0..64).map(|_| if exact { T::small(r) } else { T::gen(r) }).collect(),
    }
}

/// X and Y = X.clone() are mutated in a random interleaving; after every step each must equal the replay of
/// its own history on a freshly built value (which has never been cloned from anything).
fn histories<S, T: Elem>(
    rep: &mut Rep, r: &mut Rng, what: &str, n_hist: usize, len: usize, ncodes: usize,
    build: &dyn Fn(u64) -> S, apply: &dyn Fn(&mut S, &Op<T>), cl: &dyn Fn(&S) -> S, bits: &dyn Fn(&S) -> Vec<u64>,
) {
    for h in 0..n_hist {
        let seed = r.next();
        let mut x = build(seed);
        let mut hx: Vec<Op<T>> = vec![];
        let mut y = cl(&x);
        let mut hy: Vec<Op<T>> = vec![];
        rep.check(bits(&x) == bits(&y), &|| format!("{what}: fresh clone differs (history {h})"));
        for step in 0..len {
            let op = gen_op::<T>(r, ncodes);
            let choice = r.below(10);
            if choice == 0 {
                // re-clone in one direction or the other (the old value is dropped)
                if r.below(2) == 0 { y = cl(&x); hy = hx.clone(); } else { x = cl(&y); hx = hy.clone(); }
            } else if choice == 1 {
                // clone of a clone, original dropped
                let z = cl(&y); y = cl(&z); drop(z);
            } else if choice < 6 {
                let _ = run(|| apply(&mut x, &op)); hx.push(op);
            } else {
                let _ = run(|| apply(&mut y, &op)); hy.push(op);
            }
            let mut fx = build(seed); for o in hx.iter() { let _ = run(|| apply(&mut fx, o)); }
            let mut fy = build(seed); for o in hy.iter() { let _ = run(|| apply(&mut fy, o)); }
            let (bx, by) = (run(|| bits(&x)), run(|| bits(&y)));
            let (bfx, bfy) = (run(|| bits(&fx)), run(|| bits(&fy)));
            let codes = |h: &Vec<Op<T>>| h.iter().map(|o| o.code).collect::<Vec<_>>();
            rep.agree(&|| format!("{what}: original diverged from its own history, seed {seed} step {step} codes {:?} / other {:?}", codes(&hx), codes(&hy)), &bx, &bfx);
            rep.agree(&|| format!("{what}: clone diverged from its own history, seed {seed} step {step} codes {:?} / other {:?}", codes(&hy), codes(&hx)), &by, &bfy);
        }
    }
}

fn vop<T: Elem + Default>(v: &mut Vector<T>, o: &Op<T>) {
    let n = v.size();
    let i = if n > 0 { o.p[0] % (n + 1) } else { o.p[0] };   // sometimes one past the end -> panic in both
    let j = if n > 0 { o.p[1] % n } else { 0 };
    match o.code {
        0 => v[i] = o.vals[0],
        1 => v.push(o.vals[0]),
        2 => v.push_front(o.vals[0]),
        3 => v.insert(i, o.vals[0]),
        4 => { v.pop(); }
        5 => v.swap(i, j),
        6 => v.clear(),
        7 => v.resize(o.p[2]),
        8 => v.assign(o.vals[0]),
        9 => *v += o.vals[0],
        10 => *v -= o.vals[0],
        11 => *v *= o.vals[0],
        12 => *v /= o.vals[0],
        13 => *v += Vector::create(o.vals[..n.min(64)].to_vec()),
        14 => *v -= Vector::create(o.vals[..n.min(64)].to_vec()),
        15 => v.sort_by(|a, b| a.partial_cmp(b).unwrap_or(std::cmp::Ordering::Equal)),
        16 => v.vec.truncate(o.p[2]),
        17 => { let w = -v.clone(); *v = w; }
        _ => v.vec.extend_from_slice(&o.vals[..o.p[3]]),
    }
}

fn mop<T: Elem>(m: &mut Matrix<T>, o: &Op<T>) {
    let (rows, cols) = (m.rows(), m.cols());
    let i = o.p[0] % (rows + 1); let j = o.p[1] % (cols + 1);
    let i2 = o.p[2] % (rows + 1); let j2 = o.p[3] % (cols + 1);
    match o.code {
        0 => if i < rows && j < cols { m[(i, j)] = o.vals[0] },
        1 => m.set_row(i, Vector::create(o.vals[..cols.min(64)].to_vec())),
        2 => m.set_col(j, Vector::create(o.vals[..rows.min(64)].to_vec())),
        3 => m.delete_row(i),
        4 => m.swap_rows(i, i2),
        5 => if i < rows && j < cols && i2 < rows && j2 < cols { m.swap_elem(i, j, i2, j2) },
        6 => m.fill(o.vals[0]),
        7 => m.fill_diag(o.vals[0]),
        8 => m.fill_band(o.off, o.vals[0]),
        9 => m.fill_tridiag(o.vals[0], o.vals[1], o.vals[2]),
        10 => m.fill_row(i, o.vals[0]),
        11 => m.fill_col(j, o.vals[0]),
        12 => m.resize(o.p[2], o.p[3]),
        13 => m.transpose_in_place(),
        14 => m.clear(),
        15 => *m += o.vals[0],
        16 => *m -= o.vals[0],
        17 => *m *= o.vals[0],
        18 => *m /= o.vals[0],
        19 | 20 => {
            let mut other = Matrix::<T>::new(rows, cols, T::zero());
            for a in 0..rows { for b in 0..cols { other[(a, b)] = o.vals[(a * cols + b) % 64]; } }
            if o.code == 19 { *m += &other } else { *m -= other }
        }
        21 => { m.solve_basic(&Vector::create(o.vals[..rows.min(64)].to_vec())); }
        22 => { m.solve_lu(&Vector::create(o.vals[..rows.min(64)].to_vec())); }
        23 => { m.lu_decomp_in_place(); }
        _ => { let t = m.transpose(); *m = t; }
    }
}

fn bop<T: Elem>(b: &mut Banded<T>, o: &Op<T>) {
    let (n, m1, m2) = (b.size(), b.size_below(), b.size_above());
    match o.code {
        0 => { if n > 0 { let i = o.p[0] % n; let j = o.p[1] % n; if in_band(i, j, m1, m2) { b[(i, j)] = o.vals[0]; } } }
        1 => b.fill(o.vals[0]),
        2 => b.fill_band(o.off, o.vals[0]),
        3 => b.resize(o.p[2], o.p[0] % 3, o.p[1] % 3),
        4 => *b += o.vals[0],
        5 => *b -= o.vals[0],
        6 => *b *= o.vals[0],
        7 => *b /= o.vals[0],
        8 | 9 => {
            let mut other = Banded::<T>::new(n, m1, m2, o.vals[1]);
            for i in 0..n { for j in 0..n { if in_band(i, j, m1, m2) { other[(i, j)] = o.vals[(i * n + j) % 64]; } } }
            if o.code == 8 { *b += &other } else { *b -= other }
        }
        _ => { let t = -&*b; *b = t; }
    }
}

fn top<T: Elem>(t: &mut Tridiagonal<T>, o: &Op<T>) {
    let n = t.size();
    match o.code {
        0 => { let i = o.p[0] % (n + 1); let j = (i + o.p[1] % 3).saturating_sub(1); t[(i, j)] = o.vals[0]; }
        1 => t.resize(o.p[2] % 7 + 1),
        2 => t.transpose_in_place(),
        3 => *t += o.vals[0],
        4 => *t -= o.vals[0],
        5 => *t *= o.vals[0],
        6 => *t /= o.vals[0],
        7 => { let u = -t.clone(); *t = u; }
        _ => { let u = t.clone() + t.transpose(); *t = u; }
    }
}

fn pop_<T: Elem>(p: &mut Polynomial<T>, o: &Op<T>) {
    let n = p.size();
    match o.code {
        0 => { let i = o.p[0] % (n + 1); p[i] = o.vals[0]; }
        1 => p.coeffs().push(o.vals[0]),
        2 => { p.coeffs().pop(); }
        3 => p.trim(),
        4 => p.coeffs().clear(),
        5 => { let q = &*p * o.vals[0]; *p = q; }
        _ => { let q = &*p + &Polynomial::new(o.vals[..o.p[1]].to_vec()); *p = q; }
    }
}

b_test!(c_vector_f64_t, 201, |rep, r| histories::<Vector<f64>, f64>(&mut rep, &mut r, "Vector<f64>", 1500, 30, 19,
    &|s| { let mut g = Rng::new(s); let n = g.below(MAXN + 1); vec_of::<f64>(n, &mut g) }, &vop::<f64>, &|v| v.clone(), &|v| vbits(v)));
b_test!(c_vector_i64_t, 202, |rep, r| histories::<Vector<i64>, i64>(&mut rep, &mut r, "Vector<i64>", 800, 30, 19,
    &|s| { let mut g = Rng::new(s); let n = g.below(MAXN + 1); vec_of::<i64>(n, &mut g) }, &vop::<i64>, &|v| v.clone(), &|v| vbits(v)));
b_test!(c_matrix_f64_t, 211, |rep, r| histories::<Matrix<f64>, f64>(&mut rep, &mut r, "Matrix<f64>", 1500, 30, 25,
    &|s| { let mut g = Rng::new(s); let (a, b) = (g.below(MAXN + 1), g.below(MAXN + 1)); mat_of::<f64>(a, b, &mut g) }, &mop::<f64>, &|v| v.clone(), &|v| mbits(v)));
b_test!(c_matrix_cmplx_t, 213, |rep, r| histories::<Matrix<Cmplx>, Cmplx>(&mut rep, &mut r, "Matrix<Cmplx>", 800, 30, 25,
    &|s| { let mut g = Rng::new(s); let (a, b) = (g.below(MAXN + 1), g.below(MAXN + 1)); mat_of::<Cmplx>(a, b, &mut g) }, &mop::<Cmplx>, &|v| v.clone(), &|v| mbits(v)));
b_test!(c_banded_f64_t, 221, |rep, r| histories::<Banded<f64>, f64>(&mut rep, &mut r, "Banded<f64>", 1500, 30, 11,
    &|s| { let mut g = Rng::new(s); let (n, a, b) = (g.below(MAXN + 1), g.below(3), g.below(3)); banded_of::<f64>(n, a, b, &mut g, false) }, &bop::<f64>, &|v| v.clone(), &|v| bbits(v)));
b_test!(c_banded_cmplx_t, 223, |rep, r| histories::<Banded<Cmplx>, Cmplx>(&mut rep, &mut r, "Banded<Cmplx>", 800, 30, 11,
    &|s| { let mut g = Rng::new(s); let (n, a, b) = (g.below(MAXN + 1), g.below(3), g.below(3)); banded_of::<Cmplx>(n, a, b, &mut g, false) }, &bop::<Cmplx>, &|v| v.clone(), &|v| bbits(v)));
b_test!(c_tridiagonal_f64_t, 231, |rep, r| histories::<Tridiagonal<f64>, f64>(&mut rep, &mut r, "Tridiagonal<f64>", 1500, 30, 9,
    &|s| { let mut g = Rng::new(s); let n = g.below(MAXN) + 1; tri_of::<f64>(n, &mut g, false) }, &top::<f64>, &|v| v.clone(), &|v| tbits(v)));
b_test!(c_tridiagonal_cmplx_t, 233, |rep, r| histories::<Tridiagonal<Cmplx>, Cmplx>(&mut rep, &mut r, "Tridiagonal<Cmplx>", 800, 30, 9,
    &|s| { let mut g = Rng::new(s); let n = g.below(MAXN) + 1; tri_of::<Cmplx>(n, &mut g, false) }, &top::<Cmplx>, &|v| v.clone(), &|v| tbits(v)));
b_test!(c_polynomial_f64_t, 241, |rep, r| histories::<Polynomial<f64>, f64>(&mut rep, &mut r, "Polynomial<f64>", 1500, 30, 7,
    &|s| { let mut g = Rng::new(s); let n = g.below(MAXN + 1); poly_of::<f64>(n, &mut g) }, &pop_::<f64>, &|v| v.clone(), &|v| pbits(v)));
b_test!(c_polynomial_cmplx_t, 243, |rep, r| histories::<Polynomial<Cmplx>, Cmplx>(&mut rep, &mut r, "Polynomial<Cmplx>", 800, 30, 7,
    &|s| { let mut g = Rng::new(s); let n = g.below(MAXN + 1); poly_of::<Cmplx>(n, &mut g) }, &pop_::<Cmplx>, &|v| v.clone(), &|v| pbits(v)));

// ---------------------------------------------------------------- EXTRA: entry points next to the listed ones
// (constructors / helpers without a size check, 'var' arguments, degenerate meshes). Each is a separate test.

/// Sparse::from_vecs with vectors whose lengths do not fit together
#[test]
fn x_sparse_from_vecs_mismatched_lengths() {
    let mut rep = Rep::new("x_sparse_from_vecs");
    // (val.len, row_index.len, col_start.len) for a 2x2 matrix; consistent is (k, k, 3) with col_start[2] == k
    for (nv, nr, cs) in [(3usize, 3usize, vec![0usize, 1, 2]), (2, 3, vec![0, 1, 2]), (3, 2, vec![0, 1, 2]), (1, 1, vec![0, 1]),
                         (1, 1, vec![0, 1, 1, 1, 1]), (0, 0, vec![0, 1, 2]), (2, 1, vec![0, 1, 2]), (1, 2, vec![0, 1, 2])] {
        let d = || format!("2x2, val {nv}, row_index {nr}, col_start {:?}", cs);
        rep.must_panic("Sparse from_vecs", &d, || Sparse::<f64>::from_vecs(2, 2, vec![1.5; nv], vec![0; nr], cs.clone()));
    }
    // row index outside the matrix
    rep.must_panic("Sparse from_vecs row", &|| "2x2 row_index [0,5]".to_string(),
        || Sparse::<f64>::from_vecs(2, 2, vec![1.0, 2.0], vec![0, 5], vec![0, 1, 2]));
    rep.finish();
}

/// Sparse::col_start_from_index with a column index vector of the wrong length or with a column == cols
#[test]
fn x_sparse_col_start_from_index() {
    let mut rep = Rep::new("x_sparse_col_start_from_index");
    let mut t = vec![(0usize, 0usize, 1.0f64), (1, 1, 2.0)];
    let s = Sparse::<f64>::from_triplets(2, 2, &mut t);
    rep.must_panic("col_start_from_index longer", &|| "nonzero 2, col_index of size 3".to_string(),
        || s.col_start_from_index(&Vector::create(vec![0usize, 1, 1])));
    rep.must_panic("col_start_from_index shorter", &|| "nonzero 2, col_index of size 1".to_string(),
        || s.col_start_from_index(&Vector::create(vec![0usize])));
    rep.must_panic("col_start_from_index col==cols", &|| "cols 2, col_index [0,2]".to_string(),
        || s.col_start_from_index(&Vector::create(vec![0usize, 2])));
    rep.must_panic("col_start_from_index col>cols", &|| "cols 2, col_index [0,3]".to_string(),
        || s.col_start_from_index(&Vector::create(vec![0usize, 3])));
    rep.finish();
}

/// 'var' arguments of the mesh integrators / apply
#[test]
fn x_mesh_var_arguments() {
    let mut rep = Rep::new("x_mesh_var");
    let mut r = Rng::new(9);
    for n in 0..=MAXN { for nv in 0..=2 {
        let m = mesh1_of::<f64>(n, nv, &mut r);
        for var in beyond(nv) {
            rep.must_panic("Mesh1D trapezium", &|| format!("nodes {n} nvars {nv} var {var}"), || m.trapezium(var));
        }
    } }
    for nx in 0..=3 { for ny in 0..=3 { for nv in 0..=2 {
        let mut m = mesh2_of::<f64>(nx, ny, nv, &mut r);
        for var in beyond(nv) {
            let d = || format!("{nx}x{ny} nvars {nv} var {var}");
            rep.must_panic("Mesh2D trapezium", &d, || m.trapezium(var));
            rep.must_panic("Mesh2D square_trapezium", &d, || m.square_trapezium(var));
            rep.must_panic("Mesh2D apply", &d, || m.apply(&|x, y| x + y, var));
        }
    } } }
    rep.finish();
}

/// Matrix::swap_elem with a column argument outside the matrix (implemented with the raw index operator)
#[test]
fn x_matrix_swap_elem_out_of_range() {
    let mut rep = Rep::new("x_matrix_swap_elem");
    let mut m = Matrix::<f64>::new(2, 3, 0.0);
    for i in 0..2 { for j in 0..3 { m[(i, j)] = (10 * i + j) as f64; } }
    let before = mbits(&m);
    let mut c = m.clone();
    rep.must_panic("Matrix swap_elem", &|| "2x3, swap_elem(0, 4, 1, 0)".to_string(), || c.swap_elem(0, 4, 1, 0));
    rep.check(mbits(&c) == before, &|| format!("swap_elem(0,4,1,0) on 2x3 swapped other entries:\n{:?}", c));
    rep.finish();
}

/// Matrix::jacobian with a function whose output size changes
#[test]
fn x_matrix_jacobian_inconsistent_function() {
    let mut rep = Rep::new("x_matrix_jacobian");
    let calls = std::cell::Cell::new(0usize);
    let f = |x: Vector<f64>| { calls.set(calls.get() + 1); if calls.get() == 1 { Vector::<f64>::new(2, 1.0) } else { Vector::<f64>::new(3, 1.0) } };
    rep.must_panic("Matrix jacobian", &|| "f returns size 2 then size 3".to_string(), || Matrix::<f64>::jacobian(Vector::<f64>::new(2, 0.5), &f, 1e-6));
    rep.finish();
}
