// C18 repro: the perturbed coordinate is "restored" by `state[i] += delta; ...; state[i] -= delta`,
// which is not the identity in floating point.  A coordinate with |x_i| <= delta * 2^-53 is absorbed
// by the addition and comes back as 0, so every later column is a difference quotient between
// f(x) and f evaluated at a DIFFERENT base point.
use ohsl::{Cmplx, Mat64, Matrix, Vec64, Vector};
use std::cell::RefCell;

/// Affine map f(x0, x1) = 2^57 * x0 + x1 (m = 1, n = 2), all data powers of two,
/// point (2^-57, 1) in [-4,4]^2, delta = 2^-4.  Every function value the correct algorithm needs
/// is exactly representable except f(x + delta e_0) (irrelevant for column 1).
#[test]
fn affine_dyadic_tiny_coordinate_not_restored() {
    let big = 2.0f64.powi(57); // 144115188075855872
    let x0 = 2.0f64.powi(-57); // 6.938893903907228e-18
    let delta = 0.0625;
    let calls: RefCell<Vec<(f64, f64)>> = RefCell::new(vec![]);
    let f = |v: Vec64| -> Vec64 {
        calls.borrow_mut().push((v[0], v[1]));
        Vec64::create(vec![big * v[0] + v[1]])
    };
    let jac = Mat64::jacobian(Vec64::create(vec![x0, 1.0]), &f, delta);
    assert_eq!((jac.rows(), jac.cols()), (1, 2));
    // the forward difference quotient of component 0 in coordinate 1, computed from fresh points
    let q = ((big * x0 + (1.0 + delta)) - (big * x0 + 1.0)) / delta;
    assert_eq!(q, 1.0);
    println!("calls = {:?}", calls.borrow());
    println!("J = [{:e}, {:e}]", jac[(0, 0)], jac[(0, 1)]);
    // restore discipline: the third call must be at (x0, 1 + delta)
    assert_eq!(calls.borrow()[2], (x0, 1.0 + delta), "coordinate 0 was not restored");
    // value: exact coefficient is 1, observed -15
    assert_eq!(jac[(0, 1)], 1.0);
}

/// The same for the complex variant: f(z0, z1) = 2^57 * z0 + i * z1, point (2^-57 + 0i, 1 + i).
#[test]
fn affine_dyadic_tiny_coordinate_not_restored_cmplx() {
    let big = 2.0f64.powi(57);
    let x0 = 2.0f64.powi(-57);
    let delta = 0.0625;
    let calls: RefCell<Vec<(Cmplx, Cmplx)>> = RefCell::new(vec![]);
    let f = |v: Vector<Cmplx>| -> Vector<Cmplx> {
        calls.borrow_mut().push((v[0], v[1]));
        let a = Cmplx::new(big * v[0].real, big * v[0].imag);
        let b = Cmplx::new(-v[1].imag, v[1].real); // i * z1
        Vector::<Cmplx>::create(vec![Cmplx::new(a.real + b.real, a.imag + b.imag)])
    };
    let point = Vector::<Cmplx>::create(vec![Cmplx::new(x0, 0.0), Cmplx::new(1.0, 1.0)]);
    let jac = Matrix::<Cmplx>::jacobian_cmplx(point, &f, delta);
    assert_eq!((jac.rows(), jac.cols()), (1, 2));
    println!("calls = {:?}", calls.borrow());
    println!("J = [{:?}, {:?}]", jac[(0, 0)], jac[(0, 1)]);
    assert_eq!(calls.borrow()[2].0.real, x0, "coordinate 0 was not restored");
    // exact coefficient is i = (0, 1); observed (-16, 1)
    assert_eq!((jac[(0, 1)].real, jac[(0, 1)].imag), (0.0, 1.0));
}

/// Smooth nonlinear map without large constants: f(x0, x1) = (ln x0, x1) at (2^-57, 0.5), delta = 2^-4.
/// d f_0 / d x_1 = 0 and its forward difference quotient is exactly 0; observed -inf because the
/// closure is called at x0 = 0 for the second column.
#[test]
fn smooth_ln_map_second_column_non_finite() {
    let x0 = 2.0f64.powi(-57);
    let delta = 0.0625;
    let f = |v: Vec64| -> Vec64 { Vec64::create(vec![v[0].ln(), v[1]]) };
    let jac = Mat64::jacobian(Vec64::create(vec![x0, 0.5]), &f, delta);
    println!("J[0,1] = {:e}, J[1,1] = {:e}", jac[(0, 1)], jac[(1, 1)]);
    assert_eq!(jac[(1, 1)], 1.0);
    assert!(jac[(0, 1)].is_finite(), "J[0,1] = {}", jac[(0, 1)]);
    assert_eq!(jac[(0, 1)], 0.0);
}
