// Adversarial property hunt for C18: finite-difference Jacobian is m x n and equals the
// forward difference quotients (Mat64::jacobian, Matrix::<Cmplx>::jacobian_cmplx).
//
// Public API only.  Own generator, own oracles (exact dyadic arithmetic, fresh-point difference
// quotients, analytic derivatives with explicit truncation / rounding budgets, call traces).
use ohsl::{Cmplx, Mat64, Matrix, Vec64, Vector};
use std::cell::RefCell;
use std::panic::{catch_unwind, AssertUnwindSafe};

const EPS: f64 = f64::EPSILON; // 2^-52

// ------------------------------------------------------------------------------------------------
struct Rng(u64);
impl Rng {
    fn new(seed: u64) -> Self {
        Rng(seed.wrapping_mul(0x9E3779B97F4A7C15) ^ 0xD1B54A32D192ED03)
    }
    fn next(&mut self) -> u64 {
        let mut x = self.0;
        x ^= x >> 12;
        x ^= x << 25;
        x ^= x >> 27;
        self.0 = x;
        x.wrapping_mul(0x2545F4914F6CDD1D)
    }
    fn below(&mut self, n: u64) -> u64 {
        (self.next() >> 11) % n
    }
    fn int(&mut self, lo: i64, hi: i64) -> i64 {
        lo + self.below((hi - lo + 1) as u64) as i64
    }
    fn unit(&mut self) -> f64 {
        (self.next() >> 11) as f64 / (1u64 << 53) as f64
    }
    fn range(&mut self, a: f64, b: f64) -> f64 {
        a + (b - a) * self.unit()
    }
    /// dyadic k / 2^q with |value| <= maxabs
    fn dyadic(&mut self, q: u32, maxabs: i64) -> f64 {
        let s = 1i64 << q;
        self.int(-maxabs * s, maxabs * s) as f64 / s as f64
    }
    fn sign(&mut self) -> f64 {
        if self.below(2) == 0 {
            1.0
        } else {
            -1.0
        }
    }
}

fn pow2(e: i32) -> f64 {
    2.0f64.powi(e)
}

fn deltas() -> Vec<f64> {
    let mut d: Vec<f64> = (4..=26).map(|k| pow2(-k)).collect();
    d.push(1.0e-8);
    d
}

fn is_pow2(d: f64) -> bool {
    d != 1.0e-8
}

fn ulp(x: f64) -> f64 {
    let a = x.abs();
    if a == 0.0 {
        return f64::MIN_POSITIVE * EPS;
    }
    let b = f64::from_bits(a.to_bits() + 1);
    b - a
}

struct Report {
    name: &'static str,
    cases: u64,
    fails: u64,
    msgs: Vec<String>,
}
impl Report {
    fn new(name: &'static str) -> Self {
        Report { name, cases: 0, fails: 0, msgs: vec![] }
    }
    fn fail(&mut self, msg: String) {
        self.fails += 1;
        if self.msgs.len() < 12 {
            self.msgs.push(msg);
        }
    }
    fn finish(self) {
        println!("[{}] cases = {}, failures = {}", self.name, self.cases, self.fails);
        for m in &self.msgs {
            println!("  FAIL: {}", m);
        }
        assert!(self.fails == 0, "{}: {} failures", self.name, self.fails);
    }
}

// ------------------------------------------------------------------------------------------------
// structured generators

fn gen_matrix_dyadic(rng: &mut Rng, m: usize, n: usize, pat: u64) -> Vec<Vec<f64>> {
    let mut a = vec![vec![0.0; n]; m];
    match pat % 9 {
        0 => {
            for i in 0..m {
                for j in 0..n {
                    a[i][j] = rng.dyadic(8, 16);
                }
            }
        }
        1 => {}
        2 => {
            for i in 0..m {
                for j in 0..n {
                    a[i][j] = rng.int(-1, 1) as f64;
                }
            }
        }
        3 => {
            for i in 0..m {
                for j in 0..n {
                    a[i][j] = rng.sign() * pow2(rng.int(-8, 4) as i32);
                }
            }
        }
        4 => {
            for i in 0..m.min(n) {
                a[i][i] = 1.0;
            }
        }
        5 => {
            for i in 0..m {
                for j in i..n {
                    a[i][j] = rng.dyadic(4, 8);
                }
            }
        }
        6 => {
            let u: Vec<f64> = (0..m).map(|_| rng.int(-4, 4) as f64).collect();
            let v: Vec<f64> = (0..n).map(|_| rng.int(-4, 4) as f64 / 4.0).collect();
            for i in 0..m {
                for j in 0..n {
                    a[i][j] = u[i] * v[j];
                }
            }
        }
        7 => {
            // single non-zero in a corner
            let (i, j) = match rng.below(4) {
                0 => (0, 0),
                1 => (0, n - 1),
                2 => (m - 1, 0),
                _ => (m - 1, n - 1),
            };
            a[i][j] = rng.dyadic(8, 16);
        }
        _ => {
            // anti-diagonal / permutation like pattern, banded
            for i in 0..m {
                let j = (n - 1) - (i % n);
                a[i][j] = rng.sign() * (1 + rng.below(3)) as f64;
                if j + 1 < n {
                    a[i][j + 1] = rng.dyadic(2, 2);
                }
            }
        }
    }
    a
}

fn gen_point_dyadic(rng: &mut Rng, n: usize, pat: u64) -> Vec<f64> {
    match pat % 7 {
        0 => (0..n).map(|_| rng.dyadic(20, 4)).collect(),
        1 => vec![0.0; n],
        2 => vec![4.0; n],
        3 => vec![-4.0; n],
        4 => (0..n).map(|k| if k % 2 == 0 { 4.0 } else { -4.0 }).collect(),
        5 => (0..n)
            .map(|_| match rng.below(6) {
                0 => 0.0,
                1 => 4.0,
                2 => -4.0,
                3 => pow2(-20),
                4 => -pow2(-20),
                _ => rng.dyadic(10, 4),
            })
            .collect(),
        _ => {
            // sorted / reverse sorted
            let mut v: Vec<f64> = (0..n).map(|_| rng.dyadic(12, 4)).collect();
            v.sort_by(|a, b| a.partial_cmp(b).unwrap());
            if rng.below(2) == 0 {
                v.reverse();
            }
            v
        }
    }
}

// ------------------------------------------------------------------------------------------------
// helpers: check the trace of calls made by the routine.  Returns the max drift measured in units
// of ulp(|x_k| + delta) over the unperturbed coordinates.
fn check_trace_real(
    rep: &mut Report,
    ctx: &str,
    trace: &[Vec<f64>],
    x: &[f64],
    delta: f64,
    exact: bool,
) -> f64 {
    let n = x.len();
    let mut worst = 0.0f64;
    if trace.len() != n + 1 {
        rep.fail(format!("{}: closure called {} times, expected {}", ctx, trace.len(), n + 1));
        return worst;
    }
    for k in 0..n {
        if trace[0].len() != n || trace[0][k].to_bits() != x[k].to_bits() {
            rep.fail(format!("{}: first call not at the evaluation point", ctx));
            return worst;
        }
    }
    for j in 0..n {
        let p = &trace[j + 1];
        if p.len() != n {
            rep.fail(format!("{}: call {} has wrong dimension", ctx, j + 1));
            return worst;
        }
        for k in 0..n {
            if k == j {
                if p[k].to_bits() != (x[k] + delta).to_bits() {
                    // the perturbed coordinate itself may carry the drift only if it had been
                    // perturbed before -- it has not, so this must be exact.
                    rep.fail(format!(
                        "{}: call {} perturbed coordinate {:e} != fl(x+delta) {:e}",
                        ctx,
                        j + 1,
                        p[k],
                        x[k] + delta
                    ));
                }
            } else {
                let d = (p[k] - x[k]).abs();
                if exact {
                    if p[k].to_bits() != x[k].to_bits() && !(p[k] == 0.0 && x[k] == 0.0) {
                        rep.fail(format!(
                            "{}: call {} coordinate {} is {:e}, point has {:e} (not restored exactly on dyadic data)",
                            ctx, j + 1, k, p[k], x[k]
                        ));
                    }
                }
                let u = d / ulp(x[k].abs() + delta);
                if u > worst {
                    worst = u;
                }
                if k > j && d != 0.0 {
                    rep.fail(format!("{}: call {} changed not-yet-perturbed coordinate {}", ctx, j + 1, k));
                }
            }
        }
    }
    worst
}

fn run_real(
    x: &[f64],
    delta: f64,
    f: &dyn Fn(&[f64]) -> Vec<f64>,
) -> (Mat64, Vec<Vec<f64>>) {
    let trace: RefCell<Vec<Vec<f64>>> = RefCell::new(vec![]);
    let func = |v: Vec64| -> Vec64 {
        let p: Vec<f64> = (0..v.size()).map(|k| v[k]).collect();
        trace.borrow_mut().push(p.clone());
        Vec64::create(f(&p))
    };
    let jac = Mat64::jacobian(Vec64::create(x.to_vec()), &func, delta);
    let t = trace.borrow().clone();
    (jac, t)
}

fn run_cmplx(
    z: &[Cmplx],
    delta: f64,
    f: &dyn Fn(&[Cmplx]) -> Vec<Cmplx>,
) -> (Matrix<Cmplx>, Vec<Vec<Cmplx>>) {
    let trace: RefCell<Vec<Vec<Cmplx>>> = RefCell::new(vec![]);
    let func = |v: Vector<Cmplx>| -> Vector<Cmplx> {
        let p: Vec<Cmplx> = (0..v.size()).map(|k| v[k]).collect();
        trace.borrow_mut().push(p.clone());
        Vector::<Cmplx>::create(f(&p))
    };
    let jac = Matrix::<Cmplx>::jacobian_cmplx(Vector::<Cmplx>::create(z.to_vec()), &func, delta);
    let t = trace.borrow().clone();
    (jac, t)
}

fn shape_ok_real(rep: &mut Report, ctx: &str, j: &Mat64, m: usize, n: usize) -> bool {
    if j.rows() != m || j.cols() != n {
        rep.fail(format!("{}: shape {}x{} expected {}x{}", ctx, j.rows(), j.cols(), m, n));
        return false;
    }
    // read-only views agree with the shape
    if j.get_row(m - 1).size() != n || j.get_col(n - 1).size() != m {
        rep.fail(format!("{}: row/col views disagree with shape", ctx));
        return false;
    }
    true
}

fn shape_ok_cmplx(rep: &mut Report, ctx: &str, j: &Matrix<Cmplx>, m: usize, n: usize) -> bool {
    if j.rows() != m || j.cols() != n {
        rep.fail(format!("{}: shape {}x{} expected {}x{}", ctx, j.rows(), j.cols(), m, n));
        return false;
    }
    if j.get_row(m - 1).size() != n || j.get_col(n - 1).size() != m {
        rep.fail(format!("{}: row/col views disagree with shape", ctx));
        return false;
    }
    true
}

// ------------------------------------------------------------------------------------------------
// A. real affine maps, dyadic data: exactness, shape, call discipline
#[test]
fn a_affine_dyadic_real() {
    let mut rep = Report::new("a_affine_dyadic_real");
    let mut rng = Rng::new(1801);
    const T: u64 = 126;
    for m in 1..=6usize {
        for n in 1..=6usize {
            for &delta in &deltas() {
                for t in 0..T {
                    let a = gen_matrix_dyadic(&mut rng, m, n, t);
                    let x = gen_point_dyadic(&mut rng, n, t / 9);
                    let c: Vec<f64> = if t % 3 == 0 {
                        vec![0.0; m]
                    } else {
                        (0..m).map(|_| rng.dyadic(8, 32)).collect()
                    };
                    let f = |p: &[f64]| -> Vec<f64> {
                        (0..m)
                            .map(|i| {
                                let mut s = c[i];
                                for k in 0..n {
                                    s += a[i][k] * p[k];
                                }
                                s
                            })
                            .collect()
                    };
                    let ctx = format!("m={} n={} delta={:e} t={} x={:?}", m, n, delta, t, x);
                    let (jac, trace) = run_real(&x, delta, &f);
                    rep.cases += 1;
                    if !shape_ok_real(&mut rep, &ctx, &jac, m, n) {
                        continue;
                    }
                    let drift = check_trace_real(&mut rep, &ctx, &trace, &x, delta, is_pow2(delta));
                    if drift > 1.0 {
                        rep.fail(format!("{}: restore drift {} ulp", ctx, drift));
                    }
                    for i in 0..m {
                        let fbound: f64 =
                            c[i].abs() + (0..n).map(|k| a[i][k].abs() * (x[k].abs() + delta)).sum::<f64>();
                        for j in 0..n {
                            let got = jac[(i, j)];
                            if is_pow2(delta) {
                                if got != a[i][j] {
                                    rep.fail(format!(
                                        "{}: J[{},{}] = {:e}, exact coefficient {:e}",
                                        ctx, i, j, got, a[i][j]
                                    ));
                                }
                            } else {
                                let tol = 16.0 * EPS * (fbound + a[i][j].abs()) / delta;
                                if !((got - a[i][j]).abs() <= tol) {
                                    rep.fail(format!(
                                        "{}: J[{},{}] = {:e}, coefficient {:e}, tol {:e}",
                                        ctx, i, j, got, a[i][j], tol
                                    ));
                                }
                            }
                        }
                    }
                }
            }
        }
    }
    rep.finish();
}

// ------------------------------------------------------------------------------------------------
// B. complex affine maps, dyadic data
fn cmul(a: Cmplx, b: Cmplx) -> Cmplx {
    Cmplx::new(a.real * b.real - a.imag * b.imag, a.real * b.imag + a.imag * b.real)
}
fn cadd(a: Cmplx, b: Cmplx) -> Cmplx {
    Cmplx::new(a.real + b.real, a.imag + b.imag)
}
fn cabs1(a: Cmplx) -> f64 {
    a.real.abs() + a.imag.abs()
}

fn check_trace_cmplx(
    rep: &mut Report,
    ctx: &str,
    trace: &[Vec<Cmplx>],
    z: &[Cmplx],
    delta: f64,
    exact: bool,
) -> f64 {
    let n = z.len();
    let mut worst = 0.0f64;
    if trace.len() != n + 1 {
        rep.fail(format!("{}: closure called {} times, expected {}", ctx, trace.len(), n + 1));
        return worst;
    }
    for k in 0..n {
        if trace[0].len() != n
            || trace[0][k].real.to_bits() != z[k].real.to_bits()
            || trace[0][k].imag.to_bits() != z[k].imag.to_bits()
        {
            rep.fail(format!("{}: first call not at the evaluation point", ctx));
            return worst;
        }
    }
    for j in 0..n {
        let p = &trace[j + 1];
        if p.len() != n {
            rep.fail(format!("{}: call {} has wrong dimension", ctx, j + 1));
            return worst;
        }
        for k in 0..n {
            // imaginary parts: x + 0.0 - 0.0 must be unchanged (up to the sign of zero)
            if p[k].imag != z[k].imag {
                rep.fail(format!("{}: call {} imaginary part of coordinate {} changed", ctx, j + 1, k));
            }
            if k == j {
                if p[k].real.to_bits() != (z[k].real + delta).to_bits() {
                    rep.fail(format!("{}: call {} perturbed coordinate wrong", ctx, j + 1));
                }
            } else {
                let d = (p[k].real - z[k].real).abs();
                if exact && d != 0.0 {
                    rep.fail(format!(
                        "{}: call {} coordinate {} re {:e} vs {:e} (not restored exactly on dyadic data)",
                        ctx, j + 1, k, p[k].real, z[k].real
                    ));
                }
                let u = d / ulp(z[k].real.abs() + delta);
                if u > worst {
                    worst = u;
                }
                if k > j && d != 0.0 {
                    rep.fail(format!("{}: call {} changed not-yet-perturbed coordinate {}", ctx, j + 1, k));
                }
            }
        }
    }
    worst
}

#[test]
fn b_affine_dyadic_cmplx() {
    let mut rep = Report::new("b_affine_dyadic_cmplx");
    let mut rng = Rng::new(1802);
    const T: u64 = 126;
    for m in 1..=6usize {
        for n in 1..=6usize {
            for &delta in &deltas() {
                for t in 0..T {
                    let ar = gen_matrix_dyadic(&mut rng, m, n, t);
                    let ai = match t % 4 {
                        0 => vec![vec![0.0; n]; m], // purely real coefficients
                        _ => gen_matrix_dyadic(&mut rng, m, n, t / 4),
                    };
                    let ar = if t % 4 == 1 { vec![vec![0.0; n]; m] } else { ar }; // purely imaginary
                    let xr = gen_point_dyadic(&mut rng, n, t / 9);
                    let xi = match (t / 5) % 3 {
                        0 => vec![0.0; n],
                        _ => gen_point_dyadic(&mut rng, n, t / 3),
                    };
                    let xr = if (t / 5) % 3 == 1 { vec![0.0; n] } else { xr };
                    let z: Vec<Cmplx> = (0..n).map(|k| Cmplx::new(xr[k], xi[k])).collect();
                    let c: Vec<Cmplx> = (0..m)
                        .map(|_| {
                            if t % 3 == 0 {
                                Cmplx::new(0.0, 0.0)
                            } else {
                                Cmplx::new(rng.dyadic(8, 32), rng.dyadic(8, 32))
                            }
                        })
                        .collect();
                    let a: Vec<Vec<Cmplx>> =
                        (0..m).map(|i| (0..n).map(|j| Cmplx::new(ar[i][j], ai[i][j])).collect()).collect();
                    // alternate between own arithmetic and the crate's operators in the program
                    let use_crate_ops = t % 2 == 0;
                    let f = |p: &[Cmplx]| -> Vec<Cmplx> {
                        (0..m)
                            .map(|i| {
                                let mut s = c[i];
                                for k in 0..n {
                                    if use_crate_ops {
                                        s += a[i][k] * p[k];
                                    } else {
                                        s = cadd(s, cmul(a[i][k], p[k]));
                                    }
                                }
                                s
                            })
                            .collect()
                    };
                    let ctx = format!("m={} n={} delta={:e} t={} z={:?}", m, n, delta, t, z);
                    let (jac, trace) = run_cmplx(&z, delta, &f);
                    rep.cases += 1;
                    if !shape_ok_cmplx(&mut rep, &ctx, &jac, m, n) {
                        continue;
                    }
                    let drift = check_trace_cmplx(&mut rep, &ctx, &trace, &z, delta, is_pow2(delta));
                    if drift > 1.0 {
                        rep.fail(format!("{}: restore drift {} ulp", ctx, drift));
                    }
                    for i in 0..m {
                        let fbound: f64 = cabs1(c[i])
                            + (0..n).map(|k| cabs1(a[i][k]) * (cabs1(z[k]) + delta)).sum::<f64>();
                        for j in 0..n {
                            let got = jac[(i, j)];
                            if is_pow2(delta) {
                                if got.real != a[i][j].real || got.imag != a[i][j].imag {
                                    rep.fail(format!(
                                        "{}: J[{},{}] = {:?}, exact coefficient {:?}",
                                        ctx, i, j, got, a[i][j]
                                    ));
                                }
                            } else {
                                let tol = 16.0 * EPS * (fbound + cabs1(a[i][j])) / delta;
                                let err = (got.real - a[i][j].real).abs().max((got.imag - a[i][j].imag).abs());
                                if !(err <= tol) {
                                    rep.fail(format!(
                                        "{}: J[{},{}] = {:?}, coefficient {:?}, tol {:e}",
                                        ctx, i, j, got, a[i][j], tol
                                    ));
                                }
                            }
                        }
                    }
                }
            }
        }
    }
    rep.finish();
}

// ------------------------------------------------------------------------------------------------
// C. real affine maps with arbitrary double data of moderate magnitude: the (i,j) entry against the
// forward difference quotient computed from FRESH points by the test, and against the coefficient.
#[test]
fn c_affine_general_real() {
    let mut rep = Report::new("c_affine_general_real");
    let mut rng = Rng::new(1803);
    let mut worst_drift = 0.0f64;
    let mut bit_mismatch = 0u64;
    let mut entries = 0u64;
    const T: u64 = 60;
    for m in 1..=6usize {
        for n in 1..=6usize {
            for &delta in &deltas() {
                for t in 0..T {
                    let a: Vec<Vec<f64>> = (0..m)
                        .map(|_| {
                            (0..n)
                                .map(|_| match t % 3 {
                                    0 => rng.range(-10.0, 10.0),
                                    1 => rng.sign() * pow2(rng.int(-10, 10) as i32) * rng.range(1.0, 2.0),
                                    _ => {
                                        if rng.below(3) == 0 {
                                            0.0
                                        } else {
                                            rng.range(-1.0, 1.0)
                                        }
                                    }
                                })
                                .collect()
                        })
                        .collect();
                    let x: Vec<f64> = (0..n)
                        .map(|_| match (t / 3) % 4 {
                            0 => rng.range(-4.0, 4.0),
                            1 => rng.sign() * (4.0 - rng.below(4) as f64 * ulp(3.9)),
                            2 => rng.sign() * pow2(rng.int(-30, 1) as i32) * rng.range(1.0, 2.0),
                            _ => rng.range(-4.0, 4.0) * rng.below(2) as f64,
                        })
                        .collect();
                    let c: Vec<f64> = (0..m).map(|_| rng.range(-10.0, 10.0)).collect();
                    let f = |p: &[f64]| -> Vec<f64> {
                        (0..m)
                            .map(|i| {
                                let mut s = c[i];
                                for k in 0..n {
                                    s += a[i][k] * p[k];
                                }
                                s
                            })
                            .collect()
                    };
                    let ctx = format!("m={} n={} delta={:e} t={} x={:?}", m, n, delta, t, x);
                    let (jac, trace) = run_real(&x, delta, &f);
                    rep.cases += 1;
                    if !shape_ok_real(&mut rep, &ctx, &jac, m, n) {
                        continue;
                    }
                    let drift = check_trace_real(&mut rep, &ctx, &trace, &x, delta, false);
                    worst_drift = worst_drift.max(drift);
                    if drift > 1.0 {
                        rep.fail(format!("{}: restore drift {} ulp(|x|+delta)", ctx, drift));
                    }
                    let f0 = f(&x);
                    for j in 0..n {
                        let mut xp = x.clone();
                        xp[j] += delta;
                        let f1 = f(&xp);
                        for i in 0..m {
                            let q = (f1[i] - f0[i]) / delta;
                            let got = jac[(i, j)];
                            entries += 1;
                            if got.to_bits() != q.to_bits() {
                                bit_mismatch += 1;
                            }
                            let fbound: f64 =
                                c[i].abs() + (0..n).map(|k| a[i][k].abs() * (x[k].abs() + delta)).sum::<f64>();
                            let tol = 16.0 * EPS * fbound / delta;
                            if !((got - q).abs() <= tol) {
                                rep.fail(format!(
                                    "{}: J[{},{}] = {:e} but fresh difference quotient {:e} (tol {:e})",
                                    ctx, i, j, got, q, tol
                                ));
                            }
                            if !((got - a[i][j]).abs() <= tol + 4.0 * EPS * a[i][j].abs()) {
                                rep.fail(format!(
                                    "{}: J[{},{}] = {:e} but coefficient {:e} (tol {:e})",
                                    ctx, i, j, got, a[i][j], tol
                                ));
                            }
                        }
                    }
                }
            }
        }
    }
    println!(
        "[c] worst restore drift = {} ulp(|x|+delta); entries not bit-identical to the fresh quotient: {} of {}",
        worst_drift, bit_mismatch, entries
    );
    rep.finish();
}

// ------------------------------------------------------------------------------------------------
// D. smooth nonlinear real maps with analytic derivatives
struct NlReal {
    m: usize,
    n: usize,
    c: Vec<f64>,
    a: Vec<Vec<f64>>,
    w: Vec<Vec<f64>>,
    p: Vec<Vec<f64>>,
    b: Vec<Vec<f64>>,
    e: Vec<Vec<f64>>,
    s: Vec<Vec<f64>>,
    g: Vec<f64>,
    gp: Vec<usize>,
    gq: Vec<usize>,
    h: Vec<f64>,
    hr: Vec<usize>,
    t: Vec<f64>,
    tu: Vec<usize>,
}

impl NlReal {
    fn gen(rng: &mut Rng, m: usize, n: usize, sparse: bool) -> Self {
        let mut coef = |rng: &mut Rng, lo: f64, hi: f64| -> f64 {
            if sparse && rng.below(2) == 0 {
                0.0
            } else {
                rng.range(lo, hi)
            }
        };
        let mat = |rng: &mut Rng, lo: f64, hi: f64, coef: &mut dyn FnMut(&mut Rng, f64, f64) -> f64| {
            (0..m).map(|_| (0..n).map(|_| coef(rng, lo, hi)).collect::<Vec<f64>>()).collect::<Vec<_>>()
        };
        let a = mat(rng, -2.0, 2.0, &mut coef);
        let w = mat(rng, -3.0, 3.0, &mut coef);
        let p = mat(rng, -3.0, 3.0, &mut coef);
        let b = mat(rng, -2.0, 2.0, &mut coef);
        let e = mat(rng, -1.0, 1.0, &mut coef);
        let s = mat(rng, -4.0, 4.0, &mut coef);
        NlReal {
            m,
            n,
            c: (0..m).map(|_| rng.range(-5.0, 5.0)).collect(),
            a,
            w,
            p,
            b,
            e,
            s,
            g: (0..m).map(|_| rng.range(-1.0, 1.0)).collect(),
            gp: (0..m).map(|_| rng.below(n as u64) as usize).collect(),
            gq: (0..m).map(|_| rng.below(n as u64) as usize).collect(),
            h: (0..m).map(|_| rng.range(-3.0, 3.0)).collect(),
            hr: (0..m).map(|_| rng.below(n as u64) as usize).collect(),
            t: (0..m).map(|_| rng.range(-1.0, 1.0)).collect(),
            tu: (0..m).map(|_| rng.below(n as u64) as usize).collect(),
        }
    }
    fn eval(&self, x: &[f64]) -> Vec<f64> {
        (0..self.m)
            .map(|i| {
                let mut v = self.c[i];
                for j in 0..self.n {
                    v += self.a[i][j] * (self.w[i][j] * x[j] + self.p[i][j]).sin();
                    v += self.b[i][j] * x[j] * x[j] / 4.0;
                    v += self.e[i][j] * (self.s[i][j] * x[j] / 4.0).exp();
                }
                v += self.g[i] * x[self.gp[i]] * x[self.gq[i]];
                v += self.h[i] / (1.0 + x[self.hr[i]] * x[self.hr[i]]);
                let u = x[self.tu[i]];
                v += self.t[i] * u * u * u / 16.0;
                v
            })
            .collect()
    }
    fn deriv(&self, x: &[f64], i: usize, j: usize) -> f64 {
        let mut d = self.a[i][j] * self.w[i][j] * (self.w[i][j] * x[j] + self.p[i][j]).cos();
        d += self.b[i][j] * x[j] / 2.0;
        d += self.e[i][j] * self.s[i][j] / 4.0 * (self.s[i][j] * x[j] / 4.0).exp();
        if self.gp[i] == j {
            d += self.g[i] * x[self.gq[i]];
        }
        if self.gq[i] == j {
            d += self.g[i] * x[self.gp[i]];
        }
        if self.hr[i] == j {
            let q = 1.0 + x[j] * x[j];
            d += -2.0 * self.h[i] * x[j] / (q * q);
        }
        if self.tu[i] == j {
            d += 3.0 * self.t[i] * x[j] * x[j] / 16.0;
        }
        d
    }
    /// bound of |d^2 f_i / dx_j^2| on |x_j| <= 4.07
    fn second_bound(&self, i: usize, j: usize) -> f64 {
        let mut s2 = self.a[i][j].abs() * self.w[i][j] * self.w[i][j];
        s2 += self.b[i][j].abs() / 2.0;
        s2 += self.e[i][j].abs() * self.s[i][j] * self.s[i][j] / 16.0 * (self.s[i][j].abs() * 4.07 / 4.0).exp();
        if self.gp[i] == j && self.gq[i] == j {
            s2 += 2.0 * self.g[i].abs();
        }
        if self.hr[i] == j {
            s2 += 2.0 * self.h[i].abs();
        }
        if self.tu[i] == j {
            s2 += 6.0 * self.t[i].abs() * 4.07 / 16.0;
        }
        s2
    }
    /// bound of the sum of the magnitudes of the terms of f_i on the box
    fn mag_bound(&self, i: usize) -> f64 {
        let mut f = self.c[i].abs();
        for j in 0..self.n {
            f += self.a[i][j].abs() * (1.0 + self.w[i][j].abs() * 4.07 + self.p[i][j].abs());
            f += self.b[i][j].abs() * 4.2;
            f += self.e[i][j].abs() * (self.s[i][j].abs() * 1.02).exp() * (1.0 + self.s[i][j].abs());
        }
        f += self.g[i].abs() * 16.6 + self.h[i].abs() * 9.0 + self.t[i].abs() * 4.3;
        f
    }
}

#[test]
fn d_smooth_real() {
    let mut rep = Report::new("d_smooth_real");
    let mut rng = Rng::new(1804);
    let mut worst_ratio = 0.0f64;
    const T: u64 = 60;
    for m in 1..=6usize {
        for n in 1..=6usize {
            for &delta in &deltas() {
                for t in 0..T {
                    let map = NlReal::gen(&mut rng, m, n, t % 2 == 1);
                    let x: Vec<f64> = match (t / 2) % 5 {
                        0 => (0..n).map(|_| rng.range(-4.0, 4.0)).collect(),
                        1 => gen_point_dyadic(&mut rng, n, t),
                        2 => (0..n).map(|_| rng.sign() * 4.0).collect(),
                        3 => (0..n).map(|_| rng.range(-1.0, 1.0) * pow2(rng.int(-40, 0) as i32)).collect(),
                        _ => (0..n).map(|_| (rng.int(-4, 4)) as f64).collect(),
                    };
                    let f = |p: &[f64]| map.eval(p);
                    let ctx = format!("m={} n={} delta={:e} t={} x={:?}", m, n, delta, t, x);
                    let (jac, trace) = run_real(&x, delta, &f);
                    rep.cases += 1;
                    if !shape_ok_real(&mut rep, &ctx, &jac, m, n) {
                        continue;
                    }
                    let drift = check_trace_real(&mut rep, &ctx, &trace, &x, delta, false);
                    if drift > 1.0 {
                        rep.fail(format!("{}: restore drift {} ulp", ctx, drift));
                    }
                    let f0 = map.eval(&x);
                    for j in 0..n {
                        let mut xp = x.clone();
                        xp[j] += delta;
                        let f1 = map.eval(&xp);
                        for i in 0..m {
                            let got = jac[(i, j)];
                            let fb = map.mag_bound(i);
                            let round = 64.0 * EPS * fb / delta;
                            let q = (f1[i] - f0[i]) / delta;
                            if !((got - q).abs() <= round) {
                                rep.fail(format!(
                                    "{}: J[{},{}] = {:e} but fresh difference quotient {:e} (rounding budget {:e})",
                                    ctx, i, j, got, q, round
                                ));
                            }
                            let exact = map.deriv(&x, i, j);
                            let tol = delta * map.second_bound(i, j) + round;
                            let err = (got - exact).abs();
                            if !(err <= tol) {
                                rep.fail(format!(
                                    "{}: J[{},{}] = {:e} analytic {:e} err {:e} tol {:e}",
                                    ctx, i, j, got, exact, err, tol
                                ));
                            }
                            if tol > 0.0 {
                                worst_ratio = worst_ratio.max(err / tol);
                            }
                        }
                    }
                }
            }
        }
    }
    println!("[d] worst err/tol = {}", worst_ratio);
    rep.finish();
}

// ------------------------------------------------------------------------------------------------
// E. smooth complex maps (holomorphic terms plus a conj term whose x-partial is known)
fn cexp(z: Cmplx) -> Cmplx {
    let r = z.real.exp();
    Cmplx::new(r * z.imag.cos(), r * z.imag.sin())
}
fn csin(z: Cmplx) -> Cmplx {
    Cmplx::new(z.real.sin() * z.imag.cosh(), z.real.cos() * z.imag.sinh())
}
fn ccos(z: Cmplx) -> Cmplx {
    Cmplx::new(z.real.cos() * z.imag.cosh(), -(z.real.sin() * z.imag.sinh()))
}
fn cscale(z: Cmplx, r: f64) -> Cmplx {
    Cmplx::new(z.real * r, z.imag * r)
}
fn cmod(z: Cmplx) -> f64 {
    z.real.hypot(z.imag)
}

struct NlCmplx {
    m: usize,
    n: usize,
    c: Vec<Cmplx>,
    a: Vec<Vec<Cmplx>>,
    b: Vec<Vec<Cmplx>>,
    s: Vec<Vec<Cmplx>>,
    d: Vec<Vec<Cmplx>>,
    g: Vec<Cmplx>,
    gp: Vec<usize>,
    gq: Vec<usize>,
    k: Vec<Cmplx>,
    kr: Vec<usize>,
}

impl NlCmplx {
    fn gen(rng: &mut Rng, m: usize, n: usize, sparse: bool, flavour: u64) -> Self {
        let coef = |rng: &mut Rng, r: f64| -> Cmplx {
            if sparse && rng.below(2) == 0 {
                return Cmplx::new(0.0, 0.0);
            }
            match flavour % 3 {
                0 => Cmplx::new(rng.range(-r, r), rng.range(-r, r)),
                1 => Cmplx::new(rng.range(-r, r), 0.0),
                _ => Cmplx::new(0.0, rng.range(-r, r)),
            }
        };
        let mat = |rng: &mut Rng, r: f64| -> Vec<Vec<Cmplx>> {
            (0..m).map(|_| (0..n).map(|_| coef(rng, r)).collect()).collect()
        };
        let a = mat(rng, 2.0);
        let b = mat(rng, 1.0);
        let s = mat(rng, 2.0);
        let d = mat(rng, 2.0);
        NlCmplx {
            m,
            n,
            c: (0..m).map(|_| Cmplx::new(rng.range(-5.0, 5.0), rng.range(-5.0, 5.0))).collect(),
            a,
            b,
            s,
            d,
            g: (0..m).map(|_| Cmplx::new(rng.range(-1.0, 1.0), rng.range(-1.0, 1.0))).collect(),
            gp: (0..m).map(|_| rng.below(n as u64) as usize).collect(),
            gq: (0..m).map(|_| rng.below(n as u64) as usize).collect(),
            k: (0..m).map(|_| Cmplx::new(rng.range(-1.0, 1.0), rng.range(-1.0, 1.0))).collect(),
            kr: (0..m).map(|_| rng.below(n as u64) as usize).collect(),
        }
    }
    fn eval(&self, z: &[Cmplx]) -> Vec<Cmplx> {
        (0..self.m)
            .map(|i| {
                let mut v = self.c[i];
                for j in 0..self.n {
                    v = cadd(v, cscale(cmul(self.a[i][j], cmul(z[j], z[j])), 0.25));
                    v = cadd(v, cmul(self.b[i][j], cexp(cscale(cmul(self.s[i][j], z[j]), 0.25))));
                    v = cadd(v, cmul(self.d[i][j], csin(cscale(z[j], 0.5))));
                }
                v = cadd(v, cmul(self.g[i], cmul(z[self.gp[i]], z[self.gq[i]])));
                let zr = z[self.kr[i]];
                v = cadd(v, cmul(self.k[i], Cmplx::new(zr.real, -zr.imag)));
                v
            })
            .collect()
    }
    /// partial derivative with respect to Re z_j
    fn deriv(&self, z: &[Cmplx], i: usize, j: usize) -> Cmplx {
        let mut d = cscale(cmul(self.a[i][j], z[j]), 0.5);
        d = cadd(
            d,
            cmul(
                cscale(cmul(self.b[i][j], self.s[i][j]), 0.25),
                cexp(cscale(cmul(self.s[i][j], z[j]), 0.25)),
            ),
        );
        d = cadd(d, cscale(cmul(self.d[i][j], ccos(cscale(z[j], 0.5))), 0.5));
        if self.gp[i] == j {
            d = cadd(d, cmul(self.g[i], z[self.gq[i]]));
        }
        if self.gq[i] == j {
            d = cadd(d, cmul(self.g[i], z[self.gp[i]]));
        }
        if self.kr[i] == j {
            d = cadd(d, self.k[i]);
        }
        d
    }
    fn second_bound(&self, i: usize, j: usize) -> f64 {
        let zmax = 4.07 * 2.0f64.sqrt();
        let sm = cmod(self.s[i][j]);
        let mut s2 = cmod(self.a[i][j]) / 2.0;
        s2 += cmod(self.b[i][j]) * sm * sm / 16.0 * (sm * zmax / 4.0).exp();
        s2 += cmod(self.d[i][j]) / 4.0 * (2.04f64).cosh();
        if self.gp[i] == j && self.gq[i] == j {
            s2 += 2.0 * cmod(self.g[i]);
        }
        s2
    }
    fn mag_bound(&self, i: usize) -> f64 {
        let zmax = 4.07 * 2.0f64.sqrt();
        let mut f = cabs1(self.c[i]);
        for j in 0..self.n {
            let sm = cmod(self.s[i][j]);
            f += cmod(self.a[i][j]) * zmax * zmax / 2.0;
            f += cmod(self.b[i][j]) * (sm * zmax / 4.0).exp() * (2.0 + sm * zmax);
            f += cmod(self.d[i][j]) * (2.04f64).cosh() * 4.0;
        }
        f += cmod(self.g[i]) * zmax * zmax * 2.0 + cmod(self.k[i]) * zmax * 2.0;
        f
    }
}

#[test]
fn e_smooth_cmplx() {
    let mut rep = Report::new("e_smooth_cmplx");
    let mut rng = Rng::new(1805);
    let mut worst_ratio = 0.0f64;
    const T: u64 = 50;
    for m in 1..=6usize {
        for n in 1..=6usize {
            for &delta in &deltas() {
                for t in 0..T {
                    let map = NlCmplx::gen(&mut rng, m, n, t % 2 == 1, t / 2);
                    let z: Vec<Cmplx> = (0..n)
                        .map(|_| match (t / 6) % 5 {
                            0 => Cmplx::new(rng.range(-4.0, 4.0), rng.range(-4.0, 4.0)),
                            1 => Cmplx::new(rng.range(-4.0, 4.0), 0.0),
                            2 => Cmplx::new(0.0, rng.range(-4.0, 4.0)),
                            3 => Cmplx::new(rng.sign() * 4.0, rng.sign() * 4.0),
                            _ => Cmplx::new(rng.dyadic(6, 4), rng.dyadic(6, 4)),
                        })
                        .collect();
                    let f = |p: &[Cmplx]| map.eval(p);
                    let ctx = format!("m={} n={} delta={:e} t={} z={:?}", m, n, delta, t, z);
                    let (jac, trace) = run_cmplx(&z, delta, &f);
                    rep.cases += 1;
                    if !shape_ok_cmplx(&mut rep, &ctx, &jac, m, n) {
                        continue;
                    }
                    let drift = check_trace_cmplx(&mut rep, &ctx, &trace, &z, delta, false);
                    if drift > 1.0 {
                        rep.fail(format!("{}: restore drift {} ulp", ctx, drift));
                    }
                    let f0 = map.eval(&z);
                    for j in 0..n {
                        let mut zp = z.clone();
                        zp[j] = Cmplx::new(zp[j].real + delta, zp[j].imag);
                        let f1 = map.eval(&zp);
                        for i in 0..m {
                            let got = jac[(i, j)];
                            let fb = map.mag_bound(i);
                            let round = 64.0 * EPS * fb / delta;
                            let q = Cmplx::new((f1[i].real - f0[i].real) / delta, (f1[i].imag - f0[i].imag) / delta);
                            let eq = (got.real - q.real).abs().max((got.imag - q.imag).abs());
                            if !(eq <= round) {
                                rep.fail(format!(
                                    "{}: J[{},{}] = {:?} but fresh difference quotient {:?} (rounding budget {:e})",
                                    ctx, i, j, got, q, round
                                ));
                            }
                            let exact = map.deriv(&z, i, j);
                            let tol = delta * map.second_bound(i, j) + round;
                            let err = cmod(Cmplx::new(got.real - exact.real, got.imag - exact.imag));
                            if !(err <= 1.5 * tol) {
                                rep.fail(format!(
                                    "{}: J[{},{}] = {:?} analytic {:?} err {:e} tol {:e}",
                                    ctx, i, j, got, exact, err, tol
                                ));
                            }
                            if tol > 0.0 {
                                worst_ratio = worst_ratio.max(err / tol);
                            }
                        }
                    }
                }
            }
        }
    }
    println!("[e] worst err/tol = {}", worst_ratio);
    rep.finish();
}

// ------------------------------------------------------------------------------------------------
// W. affine maps on dyadic data of widely mixed magnitude (all data are powers of two, every
// coordinate inside [-4,4]): the entry must still be the forward difference quotient at the
// evaluation point, and hence the coefficient up to rounding of the computed function values.
#[test]
fn w_affine_dyadic_wide() {
    let mut rep = Report::new("w_affine_dyadic_wide");
    let mut rng = Rng::new(1806);
    const T: u64 = 60;
    for m in 1..=6usize {
        for n in 1..=6usize {
            for &delta in &deltas() {
                for t in 0..T {
                    let emax = [8, 20, 40, 60][(t % 4) as usize];
                    let x: Vec<f64> = (0..n).map(|_| rng.sign() * pow2(rng.int(-emax - 10, 2) as i32)).collect();
                    let a: Vec<Vec<f64>> = (0..m)
                        .map(|_| (0..n).map(|_| rng.sign() * pow2(rng.int(-emax, emax) as i32)).collect())
                        .collect();
                    let c: Vec<f64> = (0..m).map(|_| if t % 2 == 0 { 0.0 } else { rng.dyadic(4, 4) }).collect();
                    let f = |p: &[f64]| -> Vec<f64> {
                        (0..m)
                            .map(|i| {
                                let mut s = c[i];
                                for k in 0..n {
                                    s += a[i][k] * p[k];
                                }
                                s
                            })
                            .collect()
                    };
                    let ctx = format!("m={} n={} delta={:e} x={:?} A={:?} c={:?}", m, n, delta, x, a, c);
                    let (jac, _trace) = run_real(&x, delta, &f);
                    rep.cases += 1;
                    if !shape_ok_real(&mut rep, &ctx, &jac, m, n) {
                        continue;
                    }
                    let f0 = f(&x);
                    for j in 0..n {
                        let mut xp = x.clone();
                        xp[j] += delta;
                        let f1 = f(&xp);
                        for i in 0..m {
                            let q = (f1[i] - f0[i]) / delta;
                            let got = jac[(i, j)];
                            // magnitude of the terms of f_i at the two points that define column j
                            let fbound: f64 = c[i].abs()
                                + (0..n).map(|k| a[i][k].abs() * x[k].abs()).sum::<f64>()
                                + a[i][j].abs() * delta;
                            let tol = 64.0 * EPS * fbound / delta;
                            if !((got - q).abs() <= tol) {
                                rep.fail(format!(
                                    "{}: J[{},{}] = {:e} but fresh difference quotient {:e} (rounding budget {:e})",
                                    ctx, i, j, got, q, tol
                                ));
                            }
                        }
                    }
                }
            }
        }
    }
    rep.finish();
}

// ------------------------------------------------------------------------------------------------
// WC. the same for the complex variant (real parts of widely mixed magnitude)
#[test]
fn w_affine_dyadic_wide_cmplx() {
    let mut rep = Report::new("w_affine_dyadic_wide_cmplx");
    let mut rng = Rng::new(1807);
    const T: u64 = 30;
    for m in 1..=6usize {
        for n in 1..=6usize {
            for &delta in &deltas() {
                for t in 0..T {
                    let emax = [8, 20, 40, 60][(t % 4) as usize];
                    let z: Vec<Cmplx> = (0..n)
                        .map(|_| {
                            Cmplx::new(
                                rng.sign() * pow2(rng.int(-emax - 10, 2) as i32),
                                rng.sign() * pow2(rng.int(-emax - 10, 2) as i32),
                            )
                        })
                        .collect();
                    let a: Vec<Vec<Cmplx>> = (0..m)
                        .map(|_| {
                            (0..n)
                                .map(|_| {
                                    let v = rng.sign() * pow2(rng.int(-emax, emax) as i32);
                                    if rng.below(2) == 0 {
                                        Cmplx::new(v, 0.0)
                                    } else {
                                        Cmplx::new(0.0, v)
                                    }
                                })
                                .collect()
                        })
                        .collect();
                    let f = |p: &[Cmplx]| -> Vec<Cmplx> {
                        (0..m)
                            .map(|i| {
                                let mut s = Cmplx::new(0.0, 0.0);
                                for k in 0..n {
                                    s = cadd(s, cmul(a[i][k], p[k]));
                                }
                                s
                            })
                            .collect()
                    };
                    let ctx = format!("m={} n={} delta={:e} z={:?} A={:?}", m, n, delta, z, a);
                    let (jac, _trace) = run_cmplx(&z, delta, &f);
                    rep.cases += 1;
                    if !shape_ok_cmplx(&mut rep, &ctx, &jac, m, n) {
                        continue;
                    }
                    let f0 = f(&z);
                    for j in 0..n {
                        let mut zp = z.clone();
                        zp[j] = Cmplx::new(zp[j].real + delta, zp[j].imag);
                        let f1 = f(&zp);
                        for i in 0..m {
                            let q = Cmplx::new((f1[i].real - f0[i].real) / delta, (f1[i].imag - f0[i].imag) / delta);
                            let got = jac[(i, j)];
                            let fbound: f64 = (0..n).map(|k| cabs1(a[i][k]) * cabs1(z[k])).sum::<f64>()
                                + cabs1(a[i][j]) * delta;
                            let tol = 64.0 * EPS * fbound / delta;
                            let e = (got.real - q.real).abs().max((got.imag - q.imag).abs());
                            if !(e <= tol) {
                                rep.fail(format!(
                                    "{}: J[{},{}] = {:?} but fresh difference quotient {:?} (rounding budget {:e})",
                                    ctx, i, j, got, q, tol
                                ));
                            }
                        }
                    }
                }
            }
        }
    }
    rep.finish();
}

// ------------------------------------------------------------------------------------------------
// N. smooth maps without any large constants, evaluated at points with one tiny positive
// coordinate: f(x) = ( ln x_0 , x_1 , ... ) and g(x) = ( x_1 / x_0 , ... ).  The columns j >= 1 have
// exactly known derivatives (0, 1, 1/x_0) and their forward difference quotients are exact too.
#[test]
fn n_smooth_tiny_coordinate() {
    let mut rep = Report::new("n_smooth_tiny_coordinate");
    let mut rng = Rng::new(1808);
    for &delta in &deltas() {
        for e in [-20, -40, -56, -57, -58, -60, -70, -80, -90, -100, -300, -1000, -1074] {
            for n in 2..=6usize {
                let x0 = pow2(e);
                let mut x = vec![x0];
                for _ in 1..n {
                    x.push(rng.dyadic(6, 4));
                }
                let f = |p: &[f64]| -> Vec<f64> {
                    let mut v = vec![p[0].ln()];
                    for k in 1..n {
                        v.push(p[k]);
                    }
                    v
                };
                let ctx = format!("ln-map n={} delta={:e} x={:?}", n, delta, x);
                let (jac, trace) = run_real(&x, delta, &f);
                rep.cases += 1;
                if !shape_ok_real(&mut rep, &ctx, &jac, n, n) {
                    continue;
                }
                for j in 1..n {
                    if trace[j + 1][0] != x0 {
                        let lost = ((trace[j + 1][0] - x0) / x0).abs();
                        if lost > 1e-3 {
                            rep.fail(format!(
                                "{}: call {} made with x_0 = {:e} instead of {:e}",
                                ctx,
                                j + 1,
                                trace[j + 1][0],
                                x0
                            ));
                        }
                    }
                    let got = jac[(0, j)];
                    if !(got.abs() <= 1e-3) {
                        rep.fail(format!("{}: J[0,{}] = {:e}, d(ln x_0)/dx_{} = 0", ctx, j, got, j));
                    }
                    for i in 1..n {
                        let want = if i == j { 1.0 } else { 0.0 };
                        if !((jac[(i, j)] - want).abs() <= 1e-6) {
                            rep.fail(format!("{}: J[{},{}] = {:e}, expected {}", ctx, i, j, jac[(i, j)], want));
                        }
                    }
                }
            }
        }
    }
    rep.finish();
}

// ------------------------------------------------------------------------------------------------
// S. shapes: every (m, n) in 1..=6 with a map whose output does not depend on the input at all,
// one that depends on one coordinate only, and maps given as fn items / boxed closures.
#[test]
fn s_shapes_and_programs() {
    let mut rep = Report::new("s_shapes_and_programs");
    for m in 1..=6usize {
        for n in 1..=6usize {
            for &delta in &deltas() {
                // constant map
                let f = |_p: &[f64]| -> Vec<f64> { (0..m).map(|i| i as f64 - 2.5).collect() };
                let x = vec![1.5; n];
                let r = catch_unwind(AssertUnwindSafe(|| run_real(&x, delta, &f)));
                rep.cases += 1;
                match r {
                    Err(_) => rep.fail(format!("constant map m={} n={} panicked", m, n)),
                    Ok((jac, _)) => {
                        if shape_ok_real(&mut rep, "constant", &jac, m, n) {
                            for i in 0..m {
                                for j in 0..n {
                                    if jac[(i, j)] != 0.0 {
                                        rep.fail(format!("constant map entry ({},{}) = {:e}", i, j, jac[(i, j)]));
                                    }
                                }
                            }
                        }
                    }
                }
                // one coordinate -> one component (last -> first)
                let f = |p: &[f64]| -> Vec<f64> {
                    let mut v = vec![0.0; m];
                    v[0] = 3.0 * p[n - 1];
                    v[m - 1] += p[0];
                    v
                };
                let x: Vec<f64> = (0..n).map(|k| k as f64 * 0.5 - 1.0).collect();
                let r = catch_unwind(AssertUnwindSafe(|| run_real(&x, delta, &f)));
                rep.cases += 1;
                match r {
                    Err(_) => rep.fail(format!("corner map m={} n={} panicked", m, n)),
                    Ok((jac, _)) => {
                        if shape_ok_real(&mut rep, "corner", &jac, m, n) {
                            for i in 0..m {
                                for j in 0..n {
                                    let mut want = 0.0;
                                    if i == 0 && j == n - 1 {
                                        want += 3.0;
                                    }
                                    if i == m - 1 && j == 0 {
                                        want += 1.0;
                                    }
                                    let tol = if is_pow2(delta) { 0.0 } else { 1e-6 };
                                    if (jac[(i, j)] - want).abs() > tol {
                                        rep.fail(format!(
                                            "corner map m={} n={} delta={:e} entry ({},{}) = {:e} want {:e}",
                                            m, n, delta, i, j, jac[(i, j)], want
                                        ));
                                    }
                                }
                            }
                        }
                    }
                }
                // complex constant + corner
                let fc = |p: &[Cmplx]| -> Vec<Cmplx> {
                    let mut v = vec![Cmplx::new(1.0, -1.0); m];
                    v[0] = cadd(v[0], cmul(Cmplx::new(0.0, 2.0), p[n - 1]));
                    v
                };
                let z: Vec<Cmplx> = (0..n).map(|k| Cmplx::new(k as f64 * 0.5 - 1.0, 1.0 - k as f64 * 0.25)).collect();
                let r = catch_unwind(AssertUnwindSafe(|| run_cmplx(&z, delta, &fc)));
                rep.cases += 1;
                match r {
                    Err(_) => rep.fail(format!("complex corner map m={} n={} panicked", m, n)),
                    Ok((jac, _)) => {
                        if shape_ok_cmplx(&mut rep, "ccorner", &jac, m, n) {
                            for i in 0..m {
                                for j in 0..n {
                                    let want = if i == 0 && j == n - 1 { Cmplx::new(0.0, 2.0) } else { Cmplx::new(0.0, 0.0) };
                                    let tol = if is_pow2(delta) { 0.0 } else { 1e-6 };
                                    let e = (jac[(i, j)].real - want.real).abs().max((jac[(i, j)].imag - want.imag).abs());
                                    if e > tol {
                                        rep.fail(format!(
                                            "complex corner map m={} n={} delta={:e} entry ({},{}) = {:?}",
                                            m, n, delta, i, j, jac[(i, j)]
                                        ));
                                    }
                                }
                            }
                        }
                    }
                }
            }
        }
    }
    rep.finish();
}

// Side remark only (outside 1 <= m, n): degenerate sizes.  Prints, never fails.
#[test]
fn z_side_remark_degenerate_sizes() {
    for (m, n) in [(0usize, 0usize), (0, 3), (3, 0), (1, 12), (12, 1), (9, 11)] {
        let f = |_p: &[f64]| -> Vec<f64> { vec![0.0; m] };
        let x = vec![0.5; n];
        let r = catch_unwind(AssertUnwindSafe(|| run_real(&x, 0.0625, &f)));
        match r {
            Err(_) => println!("[side] m={} n={}: panic", m, n),
            Ok((jac, _)) => println!("[side] m={} n={}: shape {}x{}", m, n, jac.rows(), jac.cols()),
        }
    }
}
