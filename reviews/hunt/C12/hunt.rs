// Adversarial property hunt for C12: polynomial division u = q*v + r, deg r < deg v.
// Public API only. Independent oracles: exact rationals on i128, double-double residuals for floats.

use ohsl::{Cmplx, Number, One, Polynomial, Signed, Zero};
use std::cell::Cell;
use std::fmt::Debug;
use std::ops::{Add, AddAssign, Div, DivAssign, Mul, MulAssign, Neg, Sub, SubAssign};
use std::panic::{catch_unwind, AssertUnwindSafe};

// ---------------------------------------------------------------- RNG
struct Rng(Cell<u64>);
impl Rng {
    fn new(seed: u64) -> Self {
        let seed = seed + 7919 * std::env::var("HUNT_SEED").ok().and_then(|x| x.parse::<u64>().ok()).unwrap_or(0);
        Rng(Cell::new(seed.wrapping_mul(0x9E3779B97F4A7C15) ^ 0xD1B54A32D192ED03))
    }
    fn next(&self) -> u64 {
        let mut x = self.0.get();
        x ^= x << 13;
        x ^= x >> 7;
        x ^= x << 17;
        self.0.set(x);
        x.wrapping_mul(0x2545F4914F6CDD1D)
    }
    fn below(&self, n: u64) -> u64 {
        (self.next() >> 11) % n
    }
    fn range(&self, lo: i64, hi: i64) -> i64 {
        lo + self.below((hi - lo + 1) as u64) as i64
    }
    fn unit(&self) -> f64 {
        (self.next() >> 11) as f64 / (1u64 << 53) as f64
    }
    fn sign(&self) -> f64 {
        if self.next() & 1 == 0 { 1.0 } else { -1.0 }
    }
}

// ---------------------------------------------------------------- exact rational on i128
thread_local! { static OVF: Cell<bool> = Cell::new(false); }
fn ovf_set() { OVF.with(|c| c.set(true)); }
fn ovf_take() -> bool { OVF.with(|c| c.replace(false)) }

#[derive(Clone, Copy, Debug)]
struct Q { n: i128, d: i128 }

fn gcd(mut a: i128, mut b: i128) -> i128 {
    if a < 0 { a = -a; }
    if b < 0 { b = -b; }
    while b != 0 { let t = a % b; a = b; b = t; }
    a
}
impl Q {
    fn new(n: i128, d: i128) -> Q {
        if d == 0 { ovf_set(); return Q { n: 0, d: 1 }; }
        let g = gcd(n, d);
        let (mut n, mut d) = if g == 0 { (0, 1) } else { (n / g, d / g) };
        if d < 0 { n = -n; d = -d; }
        Q { n, d }
    }
    fn int(n: i128) -> Q { Q { n, d: 1 } }
}
fn cm(a: i128, b: i128) -> i128 { match a.checked_mul(b) { Some(x) => x, None => { ovf_set(); 0 } } }
fn ca(a: i128, b: i128) -> i128 { match a.checked_add(b) { Some(x) => x, None => { ovf_set(); 0 } } }
impl PartialEq for Q { fn eq(&self, o: &Q) -> bool { self.n == o.n && self.d == o.d } }
impl Add for Q { type Output = Q; fn add(self, o: Q) -> Q {
    let g = gcd(self.d, o.d);
    let l = o.d / g; let m = self.d / g;
    Q::new(ca(cm(self.n, l), cm(o.n, m)), cm(self.d, l))
} }
impl Neg for Q { type Output = Q; fn neg(self) -> Q { Q { n: -self.n, d: self.d } } }
impl Sub for Q { type Output = Q; fn sub(self, o: Q) -> Q { self + (-o) } }
impl Mul for Q { type Output = Q; fn mul(self, o: Q) -> Q {
    let g1 = gcd(self.n, o.d); let g2 = gcd(o.n, self.d);
    let (g1, g2) = (if g1 == 0 { 1 } else { g1 }, if g2 == 0 { 1 } else { g2 });
    Q::new(cm(self.n / g1, o.n / g2), cm(self.d / g2, o.d / g1))
} }
impl Div for Q { type Output = Q; fn div(self, o: Q) -> Q {
    if o.n == 0 { ovf_set(); return Q::int(0); }
    self * Q::new(o.d, o.n)
} }
impl AddAssign for Q { fn add_assign(&mut self, o: Q) { *self = *self + o; } }
impl SubAssign for Q { fn sub_assign(&mut self, o: Q) { *self = *self - o; } }
impl MulAssign for Q { fn mul_assign(&mut self, o: Q) { *self = *self * o; } }
impl DivAssign for Q { fn div_assign(&mut self, o: Q) { *self = *self / o; } }
impl Zero for Q { fn zero() -> Q { Q::int(0) } }
impl One for Q { fn one() -> Q { Q::int(1) } }
impl Number for Q {}
impl Signed for Q { fn abs(&self) -> Q { Q { n: self.n.abs(), d: self.d } } }

// ---------------------------------------------------------------- helpers
fn cv<T: Copy>(p: &Polynomial<T>) -> Vec<T> { (0..p.size()).map(|i| p[i]).collect() }

fn true_deg<T: PartialEq + Zero>(c: &[T]) -> Option<usize> {
    let z = T::zero();
    (0..c.len()).rev().find(|&i| c[i] != z)
}

#[derive(Default)]
struct Stats { cases: u64, fails: Vec<String>, max_ratio: f64, skipped: u64, q_empty: u64, r_padded: u64 }
impl Stats {
    fn fail(&mut self, s: String) { if self.fails.len() < 25 { self.fails.push(s); } else { self.fails.push(String::new()); self.fails.truncate(26); } }
    fn finish(self, name: &str) {
        println!("[{}] cases={} skipped={} max_ratio={:.3} q_empty={} r_padded={} fails={}",
                 name, self.cases, self.skipped, self.max_ratio, self.q_empty, self.r_padded, self.fails.len());
        for f in &self.fails { println!("FAIL {}", f); }
        assert!(self.fails.is_empty(), "{} failures in {}", self.fails.len(), name);
    }
}

fn call<T>(u: &[T], v: &[T]) -> Result<Result<(Vec<T>, Vec<T>), &'static str>, String>
where T: Copy + Number + Signed + Debug {
    let pu = Polynomial::new(u.to_vec());
    let pv = Polynomial::new(v.to_vec());
    let res = catch_unwind(AssertUnwindSafe(|| pu.polydiv(&pv)));
    // inputs must be untouched
    let (u2, v2) = (cv(&pu), cv(&pv));
    if u2.len() != u.len() || v2.len() != v.len() { return Err("input size mutated".into()); }
    match res {
        Err(_) => Err("PANIC".into()),
        Ok(Err(e)) => Ok(Err(e)),
        Ok(Ok((q, r))) => Ok(Ok((cv(&q), cv(&r)))),
    }
}

// ---------------------------------------------------------------- exact check
fn check_q(st: &mut Stats, u: &[Q], v: &[Q]) {
    st.cases += 1;
    ovf_take();
    let out = call(u, v);
    if ovf_take() { st.skipped += 1; return; }
    let (q, r) = match out {
        Err(e) => { st.fail(format!("{} u={:?} v={:?}", e, u, v)); return; }
        Ok(Err(e)) => { st.fail(format!("Err({}) u={:?} v={:?}", e, u, v)); return; }
        Ok(Ok(x)) => x,
    };
    if q.is_empty() { st.q_empty += 1; }
    // identity
    let n = u.len().max(r.len()).max(if q.is_empty() { 0 } else { q.len() + v.len() - 1 });
    let mut s = vec![Q::int(0); n];
    for (i, a) in q.iter().enumerate() { for (j, b) in v.iter().enumerate() { s[i + j] = s[i + j] + *a * *b; } }
    for (i, a) in r.iter().enumerate() { s[i] = s[i] + *a; }
    for (i, a) in u.iter().enumerate() { s[i] = s[i] - *a; }
    if ovf_take() { st.skipped += 1; return; }
    if s.iter().any(|x| x.n != 0) {
        st.fail(format!("IDENTITY u={:?} v={:?} q={:?} r={:?}", u, v, q, r));
        return;
    }
    let dv = true_deg(v).unwrap();
    match true_deg(&r) {
        None => {}
        Some(dr) => if dr >= dv { st.fail(format!("DEGREE u={:?} v={:?} q={:?} r={:?}", u, v, q, r)); return; }
    }
    if let Some(_) = true_deg(&r) { if r.len() - 1 >= dv.max(1) && r.len() > 1 { st.r_padded += 1; } }
    // quotient degree (uniqueness)
    match (true_deg(u), true_deg(&q)) {
        (Some(du), Some(dq)) if du >= dv => if dq != du - dv { st.fail(format!("QDEG u={:?} v={:?} q={:?}", u, v, q)); },
        (Some(du), None) if du >= dv => st.fail(format!("QDEG0 u={:?} v={:?} q={:?}", u, v, q)),
        (Some(du), Some(_)) if du < dv => st.fail(format!("QNONZERO u={:?} v={:?} q={:?}", u, v, q)),
        _ => {}
    }
}

fn rq(rng: &Rng, nmax: i64, dmax: i64) -> Q { Q::new(rng.range(-nmax, nmax) as i128, rng.range(1, dmax) as i128) }
fn rq_nz(rng: &Rng, nmax: i64, dmax: i64) -> Q { loop { let x = rq(rng, nmax, dmax); if x.n != 0 { return x; } } }

fn gen_q(rng: &Rng, len: usize, nmax: i64, dmax: i64, style: u64, lead_nz: bool) -> Vec<Q> {
    let mut c: Vec<Q> = (0..len).map(|_| match style {
        0 => rq(rng, nmax, dmax),
        1 => if rng.below(3) == 0 { rq(rng, nmax, dmax) } else { Q::int(0) },   // sparse
        2 => Q::int(rng.range(-1, 1) as i128),                                    // 0, +-1
        3 => Q::int(rng.range(-nmax, nmax) as i128),                              // integers
        _ => Q::new(1, 1 << rng.below(5)) * Q::int(rng.range(-3, 3) as i128),     // dyadic
    }).collect();
    if lead_nz && len > 0 && c[len - 1].n == 0 { c[len - 1] = rq_nz(rng, nmax, dmax); }
    c
}

fn mulq(a: &[Q], b: &[Q]) -> Vec<Q> {
    if a.is_empty() || b.is_empty() { return vec![]; }
    let mut s = vec![Q::int(0); a.len() + b.len() - 1];
    for (i, x) in a.iter().enumerate() { for (j, y) in b.iter().enumerate() { s[i + j] = s[i + j] + *x * *y; } }
    s
}

#[test]
fn rational_exhaustive_sizes_random() {
    let mut st = Stats::default();
    let rng = Rng::new(1201);
    for du in 0..=10usize { for dv in 0..=6usize {
        for rep in 0..2500 {
            let style_u = rng.below(5); let style_v = rng.below(5);
            let (nmax, dmax) = match rep % 4 { 0 => (3, 2), 1 => (9, 5), 2 => (50, 12), _ => (1000, 1) };
            let u = gen_q(&rng, du + 1, nmax, dmax, style_u, rng.below(4) != 0);
            let v = gen_q(&rng, dv + 1, nmax, dmax, style_v, true);
            check_q(&mut st, &u, &v);
        }
    } }
    st.finish("rational_random");
}

#[test]
fn rational_structured() {
    let mut st = Stats::default();
    let rng = Rng::new(1202);
    for du in 0..=10usize { for dv in 0..=6usize {
        for _ in 0..400 {
            let v = gen_q(&rng, dv + 1, 9, 4, rng.below(5), true);
            // exact multiples u = w*v (+ s with deg s < deg v)
            if du >= dv {
                let w = gen_q(&rng, du - dv + 1, 9, 4, rng.below(5), true);
                let mut u = mulq(&w, &v);
                check_q(&mut st, &u, &v);
                if dv > 0 {
                    let s = gen_q(&rng, dv, 9, 4, rng.below(5), false);
                    for (i, x) in s.iter().enumerate() { u[i] = u[i] + *x; }
                    check_q(&mut st, &u, &v);
                }
            }
            // monomials and sparse specials
            let mut xn = vec![Q::int(0); du + 1]; xn[du] = Q::int(1);
            check_q(&mut st, &xn, &v);
            let mut xm = vec![Q::int(0); dv + 1]; xm[dv] = rq_nz(&rng, 9, 4);
            let u = gen_q(&rng, du + 1, 9, 4, rng.below(5), true);
            check_q(&mut st, &u, &xm);
            let mut xn1 = xn.clone(); xn1[0] = xn1[0] - Q::int(1);
            check_q(&mut st, &xn1, &v);
            // u with stored leading zeros, all-zero u
            let mut uz = u.clone(); let k = rng.below(du as u64 + 1) as usize; for i in k..=du { uz[i] = Q::int(0); }
            check_q(&mut st, &uz, &v);
            // u = c*v padded / u = v
            if du == dv { check_q(&mut st, &v, &v); let c = rq_nz(&rng, 9, 4); let cvv: Vec<Q> = v.iter().map(|x| *x * c).collect(); check_q(&mut st, &cvv, &v); }
            // v = (x - a)^dv
            let a = rq(&rng, 3, 2); let mut p = vec![Q::int(1)]; for _ in 0..dv { p = mulq(&p, &[-a, Q::int(1)]); }
            let lead = rq_nz(&rng, 5, 3); let p: Vec<Q> = p.iter().map(|x| *x * lead).collect();
            check_q(&mut st, &u, &p);
        }
    } }
    st.finish("rational_structured");
}

#[test]
fn rational_small_exhaustive() {
    // all u with len<=4 and v with len<=3 over {-2..2}/1 and halves at the lead
    let mut st = Stats::default();
    let vals: Vec<Q> = vec![Q::int(0), Q::int(1), Q::int(-1), Q::int(2), Q::new(-1, 2), Q::new(2, 3)];
    let k = vals.len();
    for lu in 1..=4usize { for lv in 1..=3usize {
        let nu = k.pow(lu as u32); let nv = k.pow(lv as u32);
        for iu in 0..nu { for iv in 0..nv {
            let mut u = vec![]; let mut t = iu; for _ in 0..lu { u.push(vals[t % k]); t /= k; }
            let mut v = vec![]; let mut t = iv; for _ in 0..lv { v.push(vals[t % k]); t /= k; }
            if v[lv - 1].n == 0 { continue; }
            check_q(&mut st, &u, &v);
        } }
    } }
    st.finish("rational_small_exhaustive");
}

// ---------------------------------------------------------------- float checks
trait Fl: Copy + Number + Signed + Debug {
    fn parts(&self) -> (f64, f64);
    fn modulus(&self) -> f64 { let (a, b) = self.parts(); a.hypot(b) }
    fn fin(&self) -> bool { let (a, b) = self.parts(); a.is_finite() && b.is_finite() }
}
impl Fl for f64 { fn parts(&self) -> (f64, f64) { (*self, 0.0) } }
impl Fl for Cmplx { fn parts(&self) -> (f64, f64) { (self.real, self.imag) } }

#[derive(Clone, Copy)]
struct DD(f64, f64);
fn two_sum(a: f64, b: f64) -> (f64, f64) { let s = a + b; let bb = s - a; (s, (a - (s - bb)) + (b - bb)) }
impl DD {
    fn add_f(&mut self, x: f64) { let (s, e) = two_sum(self.0, x); let lo = self.1 + e; let (h, l) = two_sum(s, lo); self.0 = h; self.1 = l; }
    fn add_prod(&mut self, a: f64, b: f64) { let p = a * b; let e = a.mul_add(b, -p); self.add_f(p); self.add_f(e); }
    fn val(&self) -> f64 { self.0 + self.1 }
}

const TOL: f64 = 64.0;

/// returns max ratio residual/(eps*scale) over coefficients
fn residual<T: Fl>(u: &[T], v: &[T], q: &[T], r: &[T]) -> f64 {
    let n = u.len().max(r.len()).max(if q.is_empty() { 0 } else { q.len() + v.len() - 1 });
    let mut worst = 0.0f64;
    for k in 0..n {
        let mut re = DD(0.0, 0.0); let mut im = DD(0.0, 0.0); let mut scale = 0.0f64;
        if k < u.len() { let (a, b) = u[k].parts(); re.add_f(a); im.add_f(b); scale += u[k].modulus(); }
        if k < r.len() { let (a, b) = r[k].parts(); re.add_f(-a); im.add_f(-b); scale += r[k].modulus(); }
        for i in 0..q.len() {
            if k < i { break; }
            let j = k - i; if j >= v.len() { continue; }
            let (a, b) = q[i].parts(); let (c, d) = v[j].parts();
            re.add_prod(-a, c); re.add_prod(b, d); im.add_prod(-a, d); im.add_prod(-b, c);
            scale += q[i].modulus() * v[j].modulus();
        }
        let res = re.val().hypot(im.val());
        if res == 0.0 { continue; }
        let ratio = res / (f64::EPSILON * scale);
        if !(ratio <= worst) { worst = if ratio.is_nan() { f64::INFINITY } else { ratio }; }
    }
    worst
}

fn check_f<T: Fl>(st: &mut Stats, u: &[T], v: &[T], exact: bool) {
    st.cases += 1;
    let (q, r) = match call(u, v) {
        Err(e) => { st.fail(format!("{} u={:?} v={:?}", e, u, v)); return; }
        Ok(Err(e)) => { st.fail(format!("Err({}) u={:?} v={:?}", e, u, v)); return; }
        Ok(Ok(x)) => x,
    };
    if q.is_empty() { st.q_empty += 1; }
    if q.iter().chain(r.iter()).any(|x| !x.fin()) { st.fail(format!("NONFINITE u={:?} v={:?} q={:?} r={:?}", u, v, q, r)); return; }
    let ratio = residual(u, v, &q, &r);
    if ratio > st.max_ratio { st.max_ratio = ratio; }
    if ratio > TOL || (exact && ratio != 0.0) {
        st.fail(format!("IDENTITY ratio={:e} exact={} u={:?} v={:?} q={:?} r={:?}", ratio, exact, u, v, q, r));
        return;
    }
    let dv = true_deg(v).unwrap();
    if let Some(dr) = true_deg(&r) {
        if dr >= dv { st.fail(format!("DEGREE u={:?} v={:?} q={:?} r={:?}", u, v, q, r)); return; }
        if r.len() - 1 >= dv.max(1) { st.r_padded += 1; }
    }
    match (true_deg(u), true_deg(&q)) {
        (Some(du), Some(dq)) if du >= dv => if dq != du - dv { st.fail(format!("QDEG u={:?} v={:?} q={:?}", u, v, q)); },
        (Some(du), None) if du >= dv => st.fail(format!("QDEG0 u={:?} v={:?} q={:?}", u, v, q)),
        (Some(du), Some(_)) if du < dv => st.fail(format!("QNONZERO u={:?} v={:?} q={:?}", u, v, q)),
        _ => {}
    }
    // determinism
    if st.cases % 64 == 0 {
        if let Ok(Ok((q2, r2))) = call(u, v) {
            let same = q2.len() == q.len() && r2.len() == r.len()
                && q2.iter().zip(q.iter()).all(|(a, b)| a.parts().0.to_bits() == b.parts().0.to_bits() && a.parts().1.to_bits() == b.parts().1.to_bits())
                && r2.iter().zip(r.iter()).all(|(a, b)| a.parts().0.to_bits() == b.parts().0.to_bits() && a.parts().1.to_bits() == b.parts().1.to_bits());
            if !same { st.fail(format!("NONDETERMINISTIC u={:?} v={:?}", u, v)); }
        }
    }
}

// magnitude within [1, 1e6] * base scale
fn mag(rng: &Rng, style: u64) -> f64 {
    match style {
        0 => 10f64.powf(6.0 * rng.unit()),                       // log-uniform over the ratio
        1 => 1.0 + rng.unit(),                                   // O(1)
        2 => if rng.next() & 1 == 0 { 1.0 } else { 1e6 },        // extremes of the ratio
        3 => (1u64 << rng.below(20)) as f64,                     // powers of two up to 2^19 < 1e6
        4 => [1.0 / 3.0, 0.1, 0.7, 1.0 / 7.0, std::f64::consts::PI, 1e-3 * 999.0][rng.below(6) as usize] * 3.0,
        _ => 1.0 + rng.unit() * 1e-6 * (rng.below(1000) as f64), // clustered near 1
    }
}
fn gen_f(rng: &Rng, len: usize, style: u64, zeros: u64, scale: f64, lead_nz: bool) -> Vec<f64> {
    let mut c: Vec<f64> = (0..len).map(|_| {
        if zeros > 0 && rng.below(zeros) == 0 { if rng.next() & 1 == 0 { 0.0 } else { -0.0 } } else { rng.sign() * mag(rng, style) * scale }
    }).collect();
    if lead_nz && len > 0 && c[len - 1] == 0.0 { c[len - 1] = rng.sign() * mag(rng, style) * scale; }
    c
}
fn gen_int(rng: &Rng, len: usize, m: i64, zeros: u64, lead_nz: bool) -> Vec<f64> {
    let mut c: Vec<f64> = (0..len).map(|_| if zeros > 0 && rng.below(zeros) == 0 { 0.0 } else { rng.range(-m, m) as f64 }).collect();
    if lead_nz && len > 0 && c[len - 1] == 0.0 { c[len - 1] = if rng.next() & 1 == 0 { 1.0 } else { -(rng.range(1, m) as f64) }; }
    c
}
fn mulf(a: &[f64], b: &[f64]) -> Vec<f64> {
    if a.is_empty() || b.is_empty() { return vec![]; }
    let mut s = vec![0.0; a.len() + b.len() - 1];
    for (i, x) in a.iter().enumerate() { for (j, y) in b.iter().enumerate() { s[i + j] += x * y; } }
    s
}

#[test]
fn f64_integer_valued() {
    let mut st = Stats::default();
    let rng = Rng::new(1203);
    for du in 0..=10usize { for dv in 0..=6usize {
        for rep in 0..1500 {
            let m = [1, 2, 9, 100, 1000, 1_000_000][rep % 6];
            let zeros = [0, 2, 4][rep % 3];
            let u = gen_int(&rng, du + 1, m, zeros, rng.below(5) != 0);
            let v = gen_int(&rng, dv + 1, m, zeros, true);
            check_f(&mut st, &u, &v, false);
            // monic / power-of-two lead and small entries: every intermediate is exact -> identity must be exact
            let mut vm = gen_int(&rng, dv + 1, 3, zeros, true);
            vm[dv] = [1.0, -1.0, 2.0, -4.0, 0.5][rng.below(5) as usize];
            let us = gen_int(&rng, du + 1, 9, zeros, true);
            check_f(&mut st, &us, &vm, vm[dv].abs() == 1.0);
            // exact product
            if du >= dv {
                let w = gen_int(&rng, du - dv + 1, 9, zeros, true);
                let vv = gen_int(&rng, dv + 1, 9, zeros, true);
                let mut uu = mulf(&w, &vv);
                check_f(&mut st, &uu, &vv, false);
                if dv > 0 { let s = gen_int(&rng, dv, 9, zeros, false); for (i, x) in s.iter().enumerate() { uu[i] += x; } check_f(&mut st, &uu, &vv, false); }
            }
        }
    } }
    st.finish("f64_integer_valued");
}

#[test]
fn f64_general() {
    let mut st = Stats::default();
    let rng = Rng::new(1204);
    for du in 0..=10usize { for dv in 0..=6usize {
        for rep in 0..3000 {
            let su = rng.below(6); let sv = rng.below(6);
            let zeros = [0, 0, 3, 6][rep % 4];
            let scale = match rep % 5 { 0 => 1.0, 1 => 1e-6, 2 => 2f64.powi(rng.range(-40, 40) as i32), 3 => 1e-3, _ => 1.0 };
            let u = gen_f(&rng, du + 1, su, zeros, scale, rng.below(6) != 0);
            let v = gen_f(&rng, dv + 1, sv, zeros, scale, true);
            check_f(&mut st, &u, &v, false);
        }
    } }
    st.finish("f64_general");
}

#[test]
fn f64_structured() {
    let mut st = Stats::default();
    let rng = Rng::new(1205);
    for du in 0..=10usize { for dv in 0..=6usize {
        for _ in 0..500 {
            let sv = rng.below(6);
            let v = gen_f(&rng, dv + 1, sv, 0, 1.0, true);
            let u = gen_f(&rng, du + 1, rng.below(6), 0, 1.0, true);
            // tiny / huge leading coefficient of v within ratio 1e6
            let mut vt = v.clone(); for x in vt.iter_mut() { *x = x.signum() * (1.0 + rng.unit()) * 1e6; } vt[dv] = rng.sign() * 1.0;
            check_f(&mut st, &u, &vt, false);
            let mut vh = v.clone(); for x in vh.iter_mut() { *x = x.signum() * (1.0 + rng.unit()); } vh[dv] = rng.sign() * 1e6;
            check_f(&mut st, &u, &vh, false);
            // non-representable ratios of leads
            let mut v3 = v.clone(); v3[dv] = [3.0, 0.1, 7.0, 0.3, 1.0 / 3.0, 49.0][rng.below(6) as usize] * rng.sign();
            check_f(&mut st, &u, &v3, false);
            // product u = w*v rounded (near-exact division), plus tiny perturbation
            if du >= dv {
                let w = gen_f(&rng, du - dv + 1, rng.below(6), 0, 1.0, true);
                let mut uu = mulf(&w, &v);
                check_f(&mut st, &uu, &v, false);
                let k = rng.below(uu.len() as u64) as usize; uu[k] *= 1.0 + f64::EPSILON * (rng.range(-4, 4) as f64);
                check_f(&mut st, &uu, &v, false);
            }
            // clustered roots v = c (x - a)^dv
            let a = rng.sign() * (0.5 + rng.unit()); let mut p = vec![1.0]; for _ in 0..dv { p = mulf(&p, &[-a, 1.0]); }
            check_f(&mut st, &u, &p, false);
            // monomials, x^n - 1, palindromes
            let mut xn = vec![0.0; du + 1]; xn[du] = rng.sign() * mag(&rng, 0);
            check_f(&mut st, &xn, &v, false);
            let mut xm = vec![0.0; dv + 1]; xm[dv] = rng.sign() * mag(&rng, 0);
            check_f(&mut st, &u, &xm, false);
            let mut xn1 = xn.clone(); xn1[0] -= 1.0; check_f(&mut st, &xn1, &v, false);
            let mut pal = u.clone(); for i in 0..=du { pal[i] = u[i.min(du - i)]; } check_f(&mut st, &pal, &v, false);
            // u with stored leading zeros (+0 / -0) and all-zero u
            let mut uz = u.clone(); let k = rng.below(du as u64 + 1) as usize; for i in k..=du { uz[i] = if rng.next() & 1 == 0 { 0.0 } else { -0.0 }; }
            check_f(&mut st, &uz, &v, false);
            // u = v, u = -v, u = c*v, equal lead
            if du == dv { check_f(&mut st, &v, &v, false); let nv: Vec<f64> = v.iter().map(|x| -x).collect(); check_f(&mut st, &nv, &v, false);
                let c = mag(&rng, 4); let cvv: Vec<f64> = v.iter().map(|x| x * c).collect(); check_f(&mut st, &cvv, &v, false); }
            // sorted / reverse sorted magnitudes
            let mut us = u.clone(); us.sort_by(|a, b| a.abs().partial_cmp(&b.abs()).unwrap()); check_f(&mut st, &us, &v, false);
            us.reverse(); if us[du] != 0.0 { check_f(&mut st, &us, &v, false); }
            let mut vs = v.clone(); vs.sort_by(|a, b| a.abs().partial_cmp(&b.abs()).unwrap()); check_f(&mut st, &u, &vs, false);
            vs.reverse(); check_f(&mut st, &u, &vs, false);
        }
    } }
    st.finish("f64_structured");
}

fn zipc(a: &[f64], b: &[f64]) -> Vec<Cmplx> { a.iter().zip(b.iter()).map(|(x, y)| Cmplx::new(*x, *y)).collect() }
fn fix_lead(rng: &Rng, c: &mut Vec<Cmplx>) { let n = c.len(); if c[n - 1] == Cmplx::new(0.0, 0.0) { c[n - 1] = if rng.next() & 1 == 0 { Cmplx::new(0.0, rng.sign()) } else { Cmplx::new(rng.sign() * 2.0, 0.0) }; } }

#[test]
fn complex_general() {
    let mut st = Stats::default();
    let rng = Rng::new(1206);
    for du in 0..=10usize { for dv in 0..=6usize {
        for rep in 0..2500 {
            let zeros = [0, 3, 2, 6][rep % 4];
            let kind = rep % 7;
            let scale = if rep % 3 == 0 { 2f64.powi(rng.range(-30, 30) as i32) } else { 1.0 };
            let (mut u, mut v) = match kind {
                0 | 1 | 2 => {
                    let su = rng.below(6); let sv = rng.below(6);
                    (zipc(&gen_f(&rng, du + 1, su, zeros, scale, false), &gen_f(&rng, du + 1, su, zeros, scale, false)),
                     zipc(&gen_f(&rng, dv + 1, sv, zeros, scale, false), &gen_f(&rng, dv + 1, sv, zeros, scale, false)))
                }
                3 => { // purely real
                    (zipc(&gen_f(&rng, du + 1, 0, zeros, scale, false), &vec![0.0; du + 1]), zipc(&gen_f(&rng, dv + 1, 0, zeros, scale, false), &vec![0.0; dv + 1]))
                }
                4 => { // purely imaginary divisor, general dividend
                    (zipc(&gen_f(&rng, du + 1, 1, zeros, scale, false), &gen_f(&rng, du + 1, 1, zeros, scale, false)), zipc(&vec![0.0; dv + 1], &gen_f(&rng, dv + 1, 0, zeros, scale, false)))
                }
                5 => { // integer valued Gaussian integers
                    (zipc(&gen_int(&rng, du + 1, 9, zeros, false), &gen_int(&rng, du + 1, 9, zeros, false)), zipc(&gen_int(&rng, dv + 1, 9, zeros, false), &gen_int(&rng, dv + 1, 9, zeros, false)))
                }
                _ => { // lead of v with one tiny and one big component
                    let mut v = zipc(&gen_f(&rng, dv + 1, 0, 0, scale, false), &gen_f(&rng, dv + 1, 0, 0, scale, false));
                    v[dv] = if rng.next() & 1 == 0 { Cmplx::new(scale * 1e6 * rng.sign(), scale * rng.sign()) } else { Cmplx::new(scale * rng.sign(), scale * 1e6 * rng.sign()) };
                    (zipc(&gen_f(&rng, du + 1, 0, zeros, scale, false), &gen_f(&rng, du + 1, 0, zeros, scale, false)), v)
                }
            };
            fix_lead(&rng, &mut v);
            if rng.below(6) != 0 { fix_lead(&rng, &mut u); }
            check_f(&mut st, &u, &v, false);
        }
    } }
    st.finish("complex_general");
}

#[test]
fn complex_structured() {
    let mut st = Stats::default();
    let rng = Rng::new(1207);
    let units = [Cmplx::new(1.0, 0.0), Cmplx::new(-1.0, 0.0), Cmplx::new(0.0, 1.0), Cmplx::new(0.0, -1.0)];
    for du in 0..=10usize { for dv in 0..=6usize {
        for _ in 0..300 {
            // Gaussian-integer dividend, divisor with unit lead: every step exact
            let u = zipc(&gen_int(&rng, du + 1, 9, 3, false), &gen_int(&rng, du + 1, 9, 3, false));
            let mut v = zipc(&gen_int(&rng, dv + 1, 3, 3, false), &gen_int(&rng, dv + 1, 3, 3, false));
            v[dv] = units[rng.below(4) as usize];
            check_f(&mut st, &u, &v, true);
            // exact product of Gaussian-integer polynomials
            if du >= dv {
                let w = zipc(&gen_int(&rng, du - dv + 1, 5, 3, true), &gen_int(&rng, du - dv + 1, 5, 3, false));
                let mut vv = zipc(&gen_int(&rng, dv + 1, 5, 3, false), &gen_int(&rng, dv + 1, 5, 3, false));
                fix_lead(&rng, &mut vv);
                let mut uu = vec![Cmplx::new(0.0, 0.0); du + 1];
                for (i, a) in w.iter().enumerate() { for (j, b) in vv.iter().enumerate() { uu[i + j] = uu[i + j] + *a * *b; } }
                check_f(&mut st, &uu, &vv, false);
            }
            // roots of unity divisor x^dv - w, monomial dividends
            let mut xv = vec![Cmplx::new(0.0, 0.0); dv + 1]; xv[dv] = units[rng.below(4) as usize]; if dv > 0 { xv[0] = Cmplx::new(rng.sign() * mag(&rng, 0), rng.sign() * mag(&rng, 0)); }
            let mut xu = vec![Cmplx::new(0.0, 0.0); du + 1]; xu[du] = Cmplx::new(rng.sign() * mag(&rng, 0), rng.sign() * mag(&rng, 0));
            check_f(&mut st, &xu, &xv, false);
            check_f(&mut st, &u, &xv, false);
            // stored leading zeros of u, with signed zeros
            let mut uz = u.clone(); let k = rng.below(du as u64 + 1) as usize; for i in k..=du { uz[i] = Cmplx::new(if rng.next() & 1 == 0 { 0.0 } else { -0.0 }, if rng.next() & 1 == 0 { 0.0 } else { -0.0 }); }
            check_f(&mut st, &uz, &v, false);
            if du == dv { check_f(&mut st, &v, &v, false); }
        }
    } }
    st.finish("complex_structured");
}

// ---------------------------------------------------------------- rejection of zero / empty divisors
fn expect_err<T: Copy + Number + Signed + Debug>(fails: &mut Vec<String>, u: &[T], v: &[T]) {
    match call(u, v) {
        Ok(Err(_)) => {}
        Ok(Ok((q, r))) => fails.push(format!("accepted zero divisor u={:?} v={:?} q={:?} r={:?}", u, v, q, r)),
        Err(e) => fails.push(format!("{} u={:?} v={:?}", e, u, v)),
    }
}

#[test]
fn zero_and_empty_divisors_rejected() {
    let mut fails = vec![];
    let rng = Rng::new(1208);
    let mut n = 0u64;
    for lu in 0..=11usize { for lv in 0..=7usize {
        for rep in 0..40 {
            let uf = if rep == 0 { vec![0.0; lu] } else { gen_f(&rng, lu, 0, 4, 1.0, false) };
            let vf: Vec<f64> = (0..lv).map(|_| if rng.next() & 1 == 0 { 0.0 } else { -0.0 }).collect();
            expect_err(&mut fails, &uf, &vf);
            let uc = zipc(&uf, &gen_f(&rng, lu, 0, 4, 1.0, false));
            let vc = zipc(&vf, &(0..lv).map(|_| if rng.next() & 1 == 0 { 0.0 } else { -0.0 }).collect::<Vec<f64>>());
            expect_err(&mut fails, &uc, &vc);
            let uq = gen_q(&rng, lu, 9, 4, 0, false);
            let vq = vec![Q::int(0); lv];
            expect_err(&mut fails, &uq, &vq);
            n += 3;
        }
    } }
    println!("[zero_divisors] cases={} fails={}", n, fails.len());
    for f in &fails { println!("FAIL {}", f); }
    assert!(fails.is_empty());
}

// ---------------------------------------------------------------- side remark probes (outside the quantified domain): no panic for empty u
#[test]
fn side_empty_dividend_no_panic() {
    let e: Vec<f64> = vec![];
    let r = call(&e, &[1.0, 2.0]);
    println!("[side] empty dividend -> {:?}", r);
    assert!(r.is_ok());
    let eq: Vec<Q> = vec![];
    let r = call(&eq, &[Q::int(1), Q::int(2)]);
    println!("[side] empty rational dividend -> {:?}", r);
    assert!(r.is_ok());
}

// ---------------------------------------------------------------- side probes, OUTSIDE the quantified domain (printed only, never fail)
#[test]
fn side_out_of_domain_probes() {
    // (a) extreme absolute scale for Complex: |lead(v)|^2 underflows / overflows in the naive complex division
    for &s in &[1e-170f64, 1e-160, 1e160, 1e170] {
        let u = vec![Cmplx::new(1.0 * s, 2.0 * s), Cmplx::new(3.0 * s, -1.0 * s), Cmplx::new(2.0 * s, 1.0 * s)];
        let v = vec![Cmplx::new(1.0 * s, 1.0 * s), Cmplx::new(2.0 * s, -3.0 * s)];
        println!("[side] complex scale {:e}: {:?}", s, call(&u, &v));
    }
    // (b) extreme absolute scale for f64
    for &s in &[1e-300f64, 1e-320, 1e300] {
        let u = vec![1.0 * s, 2.0 * s, 3.0 * s];
        let v = vec![1.0 * s, 3.0 * s];
        println!("[side] f64 scale {:e}: {:?}", s, call(&u, &v));
    }
    // (c) machine integers (truncating division): x^2 / (2x)
    println!("[side] i64 x^2 / 2x: {:?}", call(&[0i64, 0, 1], &[0i64, 2]));
    // (d) divisor with a stored zero leading coefficient but not all-zero
    println!("[side] f64 v=[1,1,0]: {:?}", call(&[1.0, 2.0, 3.0], &[1.0, 1.0, 0.0]));
}

// ---------------------------------------------------------------- oracle self-test: the residual oracle must see a 1e-12 relative corruption
#[test]
fn oracle_self_test() {
    let u = [1.0, -3.5, 2.25, 7.0, 0.3];
    let v = [0.7, -1.1, 3.0];
    let (q, r) = call(&u[..], &v[..]).unwrap().unwrap();
    assert!(residual(&u, &v, &q, &r) <= TOL);
    let mut qb = q.clone(); qb[1] *= 1.0 + 1e-12;
    assert!(residual(&u, &v, &qb, &r) > 1000.0);
    let mut rb = r.clone(); rb[0] += 1e-11;
    assert!(residual(&u, &v, &q, &rb) > 1000.0);
    // exact oracle
    let mut st = Stats::default();
    check_q(&mut st, &[Q::int(1), Q::int(1), Q::int(1)], &[Q::int(1), Q::int(2)]);
    assert!(st.fails.is_empty());
}
