// Adversarial property hunt for C03: dense matrix algebra / editing follow their textbook
// definitions for every shape (0..=8 exhaustively) and every history of editing operations.
//
// Oracle: an independent naive reference model R<T> (Vec<Vec<T>> + explicit shape) written here,
// over five element types: exact rationals on i128 (Q), the prime field GF(2^61-1) (Fp, exact,
// never overflows, polynomial identities are decided by Schwartz-Zippel), i64, f64 (dyadic values,
// all arithmetic exact) and Complex<f64> (Gaussian dyadic values, exact).
#![allow(clippy::needless_range_loop)]

use ohsl::{Complex, Matrix, Number, One, Signed, Vector, Zero};
use std::fmt::Debug;
use std::ops::{Add, AddAssign, Div, DivAssign, Mul, MulAssign, Neg, Sub, SubAssign};
use std::panic::{catch_unwind, AssertUnwindSafe};
use std::sync::atomic::{AtomicUsize, Ordering};
use std::sync::Once;

static CASES: AtomicUsize = AtomicUsize::new(0);
static HSTEPS: AtomicUsize = AtomicUsize::new(0);
static HNONEMPTY: AtomicUsize = AtomicUsize::new(0);
static HWIDE: AtomicUsize = AtomicUsize::new(0);
static HTALL: AtomicUsize = AtomicUsize::new(0);
fn tick(n: usize) {
    CASES.fetch_add(n, Ordering::Relaxed);
}
fn report(name: &str) {
    eprintln!("[hunt] after {:<28} cumulative cases = {}", name, CASES.load(Ordering::Relaxed));
}

static QUIET: Once = Once::new();
fn quiet() {
    QUIET.call_once(|| {
        let prev = std::panic::take_hook();
        std::panic::set_hook(Box::new(move |info| {
            let msg = if let Some(s) = info.payload().downcast_ref::<&str>() {
                s.to_string()
            } else if let Some(s) = info.payload().downcast_ref::<String>() {
                s.clone()
            } else {
                String::new()
            };
            if msg.starts_with("Matrix") || msg.starts_with("Vector") || msg.starts_with("index out of bounds")
                || msg.starts_with("range end index") || msg.starts_with("slice index") || msg.starts_with("range start")
            {
                return;
            }
            prev(info)
        }));
    });
}

// ------------------------------------------------------------------------------------------ RNG
struct Rng(u64);
impl Rng {
    fn new(seed: u64) -> Self {
        let mut r = Rng(seed.wrapping_mul(0x9E3779B97F4A7C15) ^ 0xD1B54A32D192ED03);
        if r.0 == 0 {
            r.0 = 0x1234567;
        }
        for _ in 0..4 {
            r.next();
        }
        r
    }
    fn next(&mut self) -> u64 {
        let mut x = self.0;
        x ^= x >> 12;
        x ^= x << 25;
        x ^= x >> 27;
        self.0 = x;
        x.wrapping_mul(0x2545F4914F6CDD1D)
    }
    fn below(&mut self, n: usize) -> usize {
        if n == 0 {
            0
        } else {
            ((self.next() >> 11) % (n as u64)) as usize
        }
    }
    fn range(&mut self, lo: i64, hi: i64) -> i64 {
        lo + self.below((hi - lo + 1) as usize) as i64
    }
}

// ------------------------------------------------------------------------------------ exact Q
fn gcd(a: i128, b: i128) -> i128 {
    let (mut a, mut b) = (a.abs(), b.abs());
    while b != 0 {
        let t = a % b;
        a = b;
        b = t;
    }
    a
}
#[derive(Clone, Copy, PartialEq, Debug)]
struct Q {
    n: i128,
    d: i128,
}
impl Q {
    fn new(n: i128, d: i128) -> Q {
        assert!(d != 0, "Q: zero denominator");
        let g = gcd(n, d);
        let (mut n, mut d) = if g == 0 { (0, 1) } else { (n / g, d / g) };
        if d < 0 {
            n = -n;
            d = -d;
        }
        Q { n, d }
    }
}
fn cm(a: i128, b: i128) -> i128 {
    a.checked_mul(b).expect("Q overflow (test harness, not the library)")
}
impl Add for Q {
    type Output = Q;
    fn add(self, o: Q) -> Q {
        let g = gcd(self.d, o.d);
        let l = cm(self.d / g, o.d);
        Q::new(cm(self.n, l / self.d).checked_add(cm(o.n, l / o.d)).expect("Q overflow"), l)
    }
}
impl Sub for Q {
    type Output = Q;
    fn sub(self, o: Q) -> Q {
        self + Q { n: -o.n, d: o.d }
    }
}
impl Mul for Q {
    type Output = Q;
    fn mul(self, o: Q) -> Q {
        Q::new(cm(self.n, o.n), cm(self.d, o.d))
    }
}
impl Div for Q {
    type Output = Q;
    fn div(self, o: Q) -> Q {
        assert!(o.n != 0, "Q division by zero (harness)");
        Q::new(cm(self.n, o.d), cm(self.d, o.n))
    }
}
impl Neg for Q {
    type Output = Q;
    fn neg(self) -> Q {
        Q { n: -self.n, d: self.d }
    }
}
impl AddAssign for Q {
    fn add_assign(&mut self, o: Q) {
        *self = *self + o
    }
}
impl SubAssign for Q {
    fn sub_assign(&mut self, o: Q) {
        *self = *self - o
    }
}
impl MulAssign for Q {
    fn mul_assign(&mut self, o: Q) {
        *self = *self * o
    }
}
impl DivAssign for Q {
    fn div_assign(&mut self, o: Q) {
        *self = *self / o
    }
}
impl Zero for Q {
    fn zero() -> Q {
        Q { n: 0, d: 1 }
    }
}
impl One for Q {
    fn one() -> Q {
        Q { n: 1, d: 1 }
    }
}
impl Number for Q {}
impl Signed for Q {
    fn abs(&self) -> Q {
        Q { n: self.n.abs(), d: self.d }
    }
}

// ------------------------------------------------------------------------------- prime field
const P: u64 = (1u64 << 61) - 1;
#[derive(Clone, Copy, PartialEq, Debug)]
struct Fp(u64);
fn fmul(a: u64, b: u64) -> u64 {
    ((a as u128 * b as u128) % (P as u128)) as u64
}
fn fpow(mut a: u64, mut e: u64) -> u64 {
    let mut r = 1u64;
    while e > 0 {
        if e & 1 == 1 {
            r = fmul(r, a);
        }
        a = fmul(a, a);
        e >>= 1;
    }
    r
}
impl Fp {
    fn from_i(n: i64) -> Fp {
        let m = (n as i128).rem_euclid(P as i128) as u64;
        Fp(m)
    }
}
impl Add for Fp {
    type Output = Fp;
    fn add(self, o: Fp) -> Fp {
        Fp((self.0 + o.0) % P)
    }
}
impl Sub for Fp {
    type Output = Fp;
    fn sub(self, o: Fp) -> Fp {
        Fp((self.0 + P - o.0) % P)
    }
}
impl Mul for Fp {
    type Output = Fp;
    fn mul(self, o: Fp) -> Fp {
        Fp(fmul(self.0, o.0))
    }
}
impl Div for Fp {
    type Output = Fp;
    fn div(self, o: Fp) -> Fp {
        assert!(o.0 != 0, "Fp division by zero (harness)");
        Fp(fmul(self.0, fpow(o.0, P - 2)))
    }
}
impl Neg for Fp {
    type Output = Fp;
    fn neg(self) -> Fp {
        Fp((P - self.0) % P)
    }
}
impl AddAssign for Fp {
    fn add_assign(&mut self, o: Fp) {
        *self = *self + o
    }
}
impl SubAssign for Fp {
    fn sub_assign(&mut self, o: Fp) {
        *self = *self - o
    }
}
impl MulAssign for Fp {
    fn mul_assign(&mut self, o: Fp) {
        *self = *self * o
    }
}
impl DivAssign for Fp {
    fn div_assign(&mut self, o: Fp) {
        *self = *self / o
    }
}
impl Zero for Fp {
    fn zero() -> Fp {
        Fp(0)
    }
}
impl One for Fp {
    fn one() -> Fp {
        Fp(1)
    }
}
impl Number for Fp {}
impl Signed for Fp {
    fn abs(&self) -> Fp {
        *self
    }
}

// ---------------------------------------------------------------------------- element trait
// (n, a, b) describes the value n / (2^a 3^b); types that cannot hold thirds ignore b, integers ignore a too.
fn draw(g: &mut Rng, class: usize) -> (i64, u32, u32) {
    match class % 6 {
        0 => (g.range(-9, 9), 0, 0),
        1 => (g.range(-1, 1), 0, 0),
        2 => {
            if g.below(10) < 7 {
                (0, 0, 0)
            } else {
                (g.range(-3, 3), 0, 0)
            }
        }
        3 => {
            let k = g.below(11) as u32;
            (if g.below(2) == 0 { 1i64 << k } else { -(1i64 << k) }, 0, 0)
        }
        4 => (g.range(-20, 20), g.below(3) as u32, g.below(3) as u32),
        _ => (g.range(-1000, 1000), 0, 0),
    }
}
trait E: Copy + Signed + Debug + PartialEq + 'static {
    const NAME: &'static str;
    fn mk(n: i64, a: u32, b: u32) -> Self;
    fn gen(g: &mut Rng, class: usize) -> Self {
        let (n, a, b) = draw(g, class);
        Self::mk(n, a, b)
    }
    fn divisor(g: &mut Rng) -> Self;
    fn big(&self) -> bool;
    fn int(n: i64) -> Self {
        Self::mk(n, 0, 0)
    }
}
impl E for Q {
    const NAME: &'static str = "Q";
    fn mk(n: i64, a: u32, b: u32) -> Q {
        Q::new(n as i128, (1i128 << a) * 3i128.pow(b))
    }
    fn divisor(g: &mut Rng) -> Q {
        let s = if g.below(2) == 0 { 1 } else { -1 };
        let n = (1i128 << g.below(3)) * 3i128.pow(g.below(2) as u32);
        let d = (1i128 << g.below(3)) * 3i128.pow(g.below(2) as u32);
        Q::new(s * n, d)
    }
    fn big(&self) -> bool {
        self.n.abs() > (1 << 14) || self.d > (1 << 12)
    }
}
impl E for Fp {
    const NAME: &'static str = "Fp";
    fn mk(n: i64, a: u32, b: u32) -> Fp {
        Fp::from_i(n) / Fp::from_i((1i64 << a) * 3i64.pow(b))
    }
    fn gen(g: &mut Rng, class: usize) -> Fp {
        if class % 6 == 5 {
            Fp(g.next() % P)
        } else {
            let (n, a, b) = draw(g, class);
            Fp::mk(n, a, b)
        }
    }
    fn divisor(g: &mut Rng) -> Fp {
        loop {
            let v = if g.below(2) == 0 { Fp(g.next() % P) } else { Fp::from_i(g.range(-6, 6)) };
            if v.0 != 0 {
                return v;
            }
        }
    }
    fn big(&self) -> bool {
        false
    }
}
impl E for i64 {
    const NAME: &'static str = "i64";
    fn mk(n: i64, _a: u32, _b: u32) -> i64 {
        n
    }
    fn divisor(g: &mut Rng) -> i64 {
        loop {
            let v = g.range(-4, 4);
            if v != 0 {
                return v;
            }
        }
    }
    fn big(&self) -> bool {
        self.abs() > (1 << 24)
    }
}
impl E for f64 {
    const NAME: &'static str = "f64";
    fn mk(n: i64, a: u32, _b: u32) -> f64 {
        n as f64 / (1u64 << a) as f64
    }
    fn divisor(g: &mut Rng) -> f64 {
        let s = if g.below(2) == 0 { 1.0 } else { -1.0 };
        s * (2.0f64).powi(g.range(-2, 2) as i32)
    }
    fn big(&self) -> bool {
        let a = f64::abs(*self);
        a > 4096.0 || (a != 0.0 && a < 1.0 / 1024.0) || (a * 1024.0).fract() != 0.0
    }
}
impl E for Complex<f64> {
    const NAME: &'static str = "Complex<f64>";
    fn mk(n: i64, a: u32, _b: u32) -> Self {
        Complex::new(n as f64 / (1u64 << a) as f64, 0.0)
    }
    fn gen(g: &mut Rng, class: usize) -> Self {
        let (n, a, _) = draw(g, class);
        let (m, b, _) = draw(g, class);
        let re = n as f64 / (1u64 << a) as f64;
        let im = m as f64 / (1u64 << b) as f64;
        match g.below(6) {
            0 => Complex::new(re, 0.0),
            1 => Complex::new(0.0, im),
            _ => Complex::new(re, im),
        }
    }
    fn divisor(g: &mut Rng) -> Self {
        let s = if g.below(2) == 0 { 1.0 } else { -1.0 };
        let v = s * (2.0f64).powi(g.range(-2, 2) as i32);
        if g.below(2) == 0 {
            Complex::new(v, 0.0)
        } else {
            Complex::new(0.0, v)
        }
    }
    fn big(&self) -> bool {
        self.real.big() || self.imag.big()
    }
}

// -------------------------------------------------------------------------- reference model
#[derive(Clone, Debug, PartialEq)]
struct R<T> {
    r: usize,
    c: usize,
    d: Vec<Vec<T>>,
}
impl<T: E> R<T> {
    fn from_fn(r: usize, c: usize, mut f: impl FnMut(usize, usize) -> T) -> Self {
        let mut d = Vec::new();
        for i in 0..r {
            let mut row = Vec::new();
            for j in 0..c {
                row.push(f(i, j));
            }
            d.push(row);
        }
        R { r, c, d }
    }
    fn new(r: usize, c: usize, e: T) -> Self {
        Self::from_fn(r, c, |_, _| e)
    }
    fn to_m(&self) -> Matrix<T> {
        let mut m = Matrix::<T>::new(self.r, self.c, T::zero());
        for i in 0..self.r {
            for j in 0..self.c {
                m[(i, j)] = self.d[i][j];
            }
        }
        m
    }
    fn t(&self) -> R<T> {
        R::from_fn(self.c, self.r, |i, j| self.d[j][i])
    }
    fn map(&self, f: impl Fn(T) -> T) -> R<T> {
        R::from_fn(self.r, self.c, |i, j| f(self.d[i][j]))
    }
    fn zip(&self, o: &R<T>, f: impl Fn(T, T) -> T) -> R<T> {
        assert!(self.r == o.r && self.c == o.c);
        R::from_fn(self.r, self.c, |i, j| f(self.d[i][j], o.d[i][j]))
    }
    fn mul(&self, o: &R<T>) -> R<T> {
        assert!(self.c == o.r);
        R::from_fn(self.r, o.c, |i, j| {
            let mut s = T::zero();
            for k in 0..self.c {
                s += self.d[i][k] * o.d[k][j];
            }
            s
        })
    }
    fn mulv(&self, v: &[T]) -> Vec<T> {
        assert!(self.c == v.len());
        (0..self.r)
            .map(|i| {
                let mut s = T::zero();
                for k in 0..self.c {
                    s += self.d[i][k] * v[k];
                }
                s
            })
            .collect()
    }
    fn col(&self, j: usize) -> Vec<T> {
        (0..self.r).map(|i| self.d[i][j]).collect()
    }
    fn resize(&self, nr: usize, nc: usize) -> R<T> {
        R::from_fn(nr, nc, |i, j| if i < self.r && j < self.c { self.d[i][j] } else { T::zero() })
    }
    fn any_big(&self) -> bool {
        self.d.iter().any(|row| row.iter().any(|x| x.big()))
    }
    fn fmt_expected(&self) -> String {
        let mut s = String::new();
        for i in 0..self.r {
            for j in 0..self.c {
                s.push_str(&format!("\t{:?}", self.d[i][j]));
            }
            if i + 1 < self.r {
                s.push('\n');
            }
        }
        s
    }
}

const NPAT: usize = 20;
fn gen_pat<T: E>(g: &mut Rng, r: usize, c: usize, pat: usize) -> R<T> {
    let n = if r < c { r } else { c };
    match pat % NPAT {
        0 => R::from_fn(r, c, |_, _| T::gen(g, 0)),
        1 => R::from_fn(r, c, |i, j| T::int((1 + i * c + j) as i64)),
        2 => R::new(r, c, T::zero()),
        3 => R::from_fn(r, c, |i, j| if i == j { T::one() } else { T::zero() }),
        4 => {
            // partial permutation
            let mut perm: Vec<usize> = (0..c.max(r)).collect();
            for i in (1..perm.len()).rev() {
                let j = g.below(i + 1);
                perm.swap(i, j);
            }
            R::from_fn(r, c, |i, j| if perm[i] == j { T::one() } else { T::zero() })
        }
        5 => R::from_fn(r, c, |i, j| if j >= i { T::gen(g, 0) } else { T::zero() }),
        6 => R::from_fn(r, c, |i, j| if j <= i { T::gen(g, 0) } else { T::zero() }),
        7 => R::from_fn(r, c, |i, j| if (i as i64 - j as i64).abs() <= 1 { T::gen(g, 0) } else { T::zero() }),
        8 => {
            let vals: Vec<T> = (0..81).map(|_| T::gen(g, 0)).collect();
            R::from_fn(r, c, |i, j| vals[i.min(j) * 9 + i.max(j)])
        }
        9 => {
            let u: Vec<T> = (0..r).map(|_| T::gen(g, 0)).collect();
            let v: Vec<T> = (0..c).map(|_| T::gen(g, 0)).collect();
            R::from_fn(r, c, |i, j| u[i] * v[j])
        }
        10 => {
            let e = T::gen(g, 0);
            R::new(r, c, e)
        }
        11 => {
            // single non-zero at a corner / first / last position
            let (pi, pj) = match g.below(5) {
                0 => (0, 0),
                1 => (0, c.saturating_sub(1)),
                2 => (r.saturating_sub(1), 0),
                3 => (r.saturating_sub(1), c.saturating_sub(1)),
                _ => (g.below(r), g.below(c)),
            };
            let e = T::gen(g, 3);
            R::from_fn(r, c, |i, j| if (i, j) == (pi, pj) { e } else { T::zero() })
        }
        12 => R::from_fn(r, c, |_, _| T::gen(g, 4)),
        13 => R::from_fn(r, c, |_, _| T::gen(g, 2)),
        14 => R::from_fn(r, c, |_, _| T::gen(g, 3)),
        15 => R::from_fn(r, c, |_, _| T::gen(g, 5)),
        16 => {
            // a zero row and a zero column in special places
            let zi = [0, r.saturating_sub(1), g.below(r)][g.below(3)];
            let zj = [0, c.saturating_sub(1), g.below(c)][g.below(3)];
            R::from_fn(r, c, |i, j| if i == zi || j == zj { T::zero() } else { T::gen(g, 0) })
        }
        17 => R::from_fn(r, c, |i, j| T::int((r * c) as i64 - (i * c + j) as i64)),
        18 => R::from_fn(r, c, |_, _| T::gen(g, 1)),
        _ => {
            // anti-diagonal
            R::from_fn(r, c, |i, j| if i + j + 1 == n { T::gen(g, 3) } else { T::zero() })
        }
    }
}

// ----------------------------------------------------------------------------- the checker
fn check<T: E>(m: &Matrix<T>, r: &R<T>, deep: bool) -> Option<String> {
    if m.rows() != r.r || m.cols() != r.c {
        return Some(format!("shape {}x{} expected {}x{}", m.rows(), m.cols(), r.r, r.c));
    }
    if m.numel() != r.r * r.c {
        return Some(format!("numel {} expected {}", m.numel(), r.r * r.c));
    }
    for i in 0..r.r {
        for j in 0..r.c {
            if m[(i, j)] != r.d[i][j] {
                return Some(format!("entry ({},{}) = {:?} expected {:?}", i, j, m[(i, j)], r.d[i][j]));
            }
        }
    }
    // buffer invariant len == rows*cols is observable through the derived PartialEq
    let fresh = r.to_m();
    if !(*m == fresh) || !(fresh == *m) {
        return Some("PartialEq with a freshly built matrix of the same shape and entries is false (buffer length?)".into());
    }
    if deep {
        for i in 0..r.r {
            let row = m.get_row(i);
            if row.vec != r.d[i] {
                return Some(format!("get_row({}) = {:?} expected {:?}", i, row.vec, r.d[i]));
            }
        }
        for j in 0..r.c {
            let col = m.get_col(j);
            if col.vec != r.col(j) {
                return Some(format!("get_col({}) = {:?} expected {:?}", j, col.vec, r.col(j)));
            }
        }
        let t = m.transpose();
        let rt = r.t();
        if t.rows() != rt.r || t.cols() != rt.c {
            return Some(format!("transpose shape {}x{} expected {}x{}", t.rows(), t.cols(), rt.r, rt.c));
        }
        for i in 0..rt.r {
            for j in 0..rt.c {
                if t[(i, j)] != rt.d[i][j] {
                    return Some(format!("transpose entry ({},{})", i, j));
                }
            }
        }
        if !(t == rt.to_m()) {
            return Some("transpose() != fresh transposed".into());
        }
        let c = m.clone();
        if !(c == *m) {
            return Some("clone != self".into());
        }
        let s = format!("{:?}", m);
        if s != r.fmt_expected() {
            return Some(format!("Debug output {:?} expected {:?}", s, r.fmt_expected()));
        }
        let s = format!("{}", m);
        if s != r.fmt_expected() {
            return Some(format!("Display output {:?} expected {:?}", s, r.fmt_expected()));
        }
    }
    None
}
macro_rules! chk {
    ($m:expr, $r:expr, $deep:expr, $($arg:tt)*) => {
        if let Some(e) = check($m, $r, $deep) {
            panic!("MISMATCH [{}]: {} :: {}", T::NAME, e, format!($($arg)*));
        }
    };
}
fn vecof<T: E>(v: &[T]) -> Vector<T> {
    Vector::create(v.to_vec())
}
fn must_panic<F: FnOnce()>(f: F, what: &str) {
    let r = catch_unwind(AssertUnwindSafe(f));
    if r.is_ok() {
        panic!("NO-REJECTION: {} returned normally", what);
    }
}

// ------------------------------------------------------------------------------- products
fn products<T: E>(seed: u64, pairs: usize) {
    quiet();
    let mut g = Rng::new(seed);
    for r in 0..=8usize {
        for k in 0..=8usize {
            for c in 0..=8usize {
                for rep in 0..pairs {
                    let (pa, pb) = if rep < 2 { (1, 1 + 16 * rep) } else { (g.below(NPAT), g.below(NPAT)) };
                    let ra = gen_pat::<T>(&mut g, r, k, pa);
                    let rb = gen_pat::<T>(&mut g, k, c, pb);
                    let a = ra.to_m();
                    let b = rb.to_m();
                    let want = ra.mul(&rb);
                    let p1 = &a * &b;
                    chk!(&p1, &want, rep < 4, "&A*&B {}x{} * {}x{} pats {},{} A={:?} B={:?}", r, k, k, c, pa, pb, ra.d, rb.d);
                    chk!(&a, &ra, false, "A changed by &A*&B");
                    chk!(&b, &rb, false, "B changed by &A*&B");
                    let p2 = a.clone() * b.clone();
                    chk!(&p2, &want, false, "A*B (by value) {}x{} * {}x{} pats {},{} A={:?} B={:?}", r, k, k, c, pa, pb, ra.d, rb.d);
                    // (AB)^T = B^T A^T through the library only
                    let lhs = p1.transpose();
                    let rhs = &b.transpose() * &a.transpose();
                    if !(lhs == rhs) {
                        panic!("MISMATCH [{}]: (AB)^T != B^T A^T for A={:?} B={:?}", T::NAME, ra.d, rb.d);
                    }
                    chk!(&rhs, &want.t(), false, "B^T A^T A={:?} B={:?}", ra.d, rb.d);
                    tick(3);
                    // matrix-vector, all three forms, on every column of B and on one fresh vector
                    let mut vs: Vec<Vec<T>> = (0..c).map(|j| rb.col(j)).collect();
                    vs.push((0..k).map(|_| T::gen(&mut g, rep)).collect());
                    if rep >= 3 {
                        vs.truncate(1.min(vs.len()));
                        if vs.is_empty() {
                            vs.push((0..k).map(|_| T::gen(&mut g, rep)).collect());
                        }
                    }
                    for v in vs.iter() {
                        let wv = ra.mulv(v);
                        let x = vecof(v);
                        let y1 = &a * &x;
                        let y2 = a.clone() * x.clone();
                        let y3 = a.multiply(&x);
                        if y1.vec != wv || y2.vec != wv || y3.vec != wv {
                            panic!(
                                "MISMATCH [{}]: mat-vec A={:?} ({}x{}) v={:?}: &A*&v={:?} A*v={:?} multiply={:?} expected {:?}",
                                T::NAME, ra.d, r, k, v, y1.vec, y2.vec, y3.vec, wv
                            );
                        }
                        if x.vec != *v {
                            panic!("vector changed by product");
                        }
                        tick(1);
                    }
                    // identities: A*I = A, I*A = A, A*0 = 0
                    if rep == 0 {
                        let i_k = Matrix::<T>::eye(k);
                        let i_r = Matrix::<T>::eye(r);
                        chk!(&(&a * &i_k), &ra, false, "A*I A={:?}", ra.d);
                        chk!(&(&i_r * &a), &ra, false, "I*A A={:?}", ra.d);
                        let z = Matrix::<T>::new(k, c, T::zero());
                        chk!(&(&a * &z), &R::new(r, c, T::zero()), false, "A*0 {}x{}x{}", r, k, c);
                        tick(3);
                    }
                }
                // non-conformable products are rejected (outside the quantified domain; checked as an extra)
                if k < 8 {
                    let a = Matrix::<T>::new(r, k, T::one());
                    let b = Matrix::<T>::new(k + 1, c, T::one());
                    must_panic(|| { let _ = &a * &b; }, "non-conformable &A*&B");
                    let v = Vector::<T>::new(k + 1, T::one());
                    must_panic(|| { let _ = a.multiply(&v); }, "non-conformable multiply");
                    must_panic(|| { let _ = &a * &v; }, "non-conformable &A*&v");
                }
            }
        }
    }
    report(&format!("products<{}>", T::NAME));
}

// unit matrices E_ij * E_jl = E_il and E_ij * E_ml = 0 (j != m), exhaustively for all shapes
fn unit_products<T: E>() {
    quiet();
    for r in 0..=8usize {
        for k in 0..=8usize {
            for c in 0..=8usize {
                for i in 0..r {
                    for j in 0..k {
                        for l in 0..c {
                            let mut a = Matrix::<T>::new(r, k, T::zero());
                            a[(i, j)] = T::int(3);
                            for m2 in [j, (j + 1) % k] {
                                let mut b = Matrix::<T>::new(k, c, T::zero());
                                b[(m2, l)] = T::int(5);
                                let p = &a * &b;
                                let want = R::from_fn(r, c, |x, y| if x == i && y == l && m2 == j { T::int(15) } else { T::zero() });
                                chk!(&p, &want, false, "E_{}{} ({}x{}) * E_{}{} ({}x{})", i, j, r, k, m2, l, k, c);
                                tick(1);
                            }
                        }
                    }
                }
            }
        }
    }
    report(&format!("unit_products<{}>", T::NAME));
}

// ---------------------------------------------------------------------------- element-wise
fn elementwise<T: E>(seed: u64, reps: usize) {
    quiet();
    let mut g = Rng::new(seed);
    for r in 0..=8usize {
        for c in 0..=8usize {
            for rep in 0..reps {
                let (pa, pb) = (g.below(NPAT), g.below(NPAT));
                let ra = gen_pat::<T>(&mut g, r, c, pa);
                let rb = if rep % 7 == 3 { ra.clone() } else { gen_pat::<T>(&mut g, r, c, pb) };
                let a = ra.to_m();
                let b = rb.to_m();
                let s = T::gen(&mut g, rep);
                let dv = T::divisor(&mut g);
                let ctx = format!("{}x{} A={:?} B={:?} s={:?} d={:?}", r, c, ra.d, rb.d, s, dv);
                let deep = rep < 3;
                chk!(&(&a + &b), &ra.zip(&rb, |x, y| x + y), deep, "&A+&B {}", ctx);
                chk!(&(a.clone() + b.clone()), &ra.zip(&rb, |x, y| x + y), false, "A+B {}", ctx);
                chk!(&(&a - &b), &ra.zip(&rb, |x, y| x - y), deep, "&A-&B {}", ctx);
                chk!(&(a.clone() - b.clone()), &ra.zip(&rb, |x, y| x - y), false, "A-B {}", ctx);
                chk!(&(-&a), &ra.map(|x| -x), deep, "-&A {}", ctx);
                chk!(&(-a.clone()), &ra.map(|x| -x), false, "-A {}", ctx);
                chk!(&(&a * s), &ra.map(|x| x * s), deep, "&A*s {}", ctx);
                chk!(&(a.clone() * s), &ra.map(|x| x * s), false, "A*s {}", ctx);
                chk!(&(&a / dv), &ra.map(|x| x / dv), deep, "&A/d {}", ctx);
                chk!(&(a.clone() / dv), &ra.map(|x| x / dv), false, "A/d {}", ctx);
                chk!(&a, &ra, false, "A changed by a by-reference operator {}", ctx);
                chk!(&b, &rb, false, "B changed by a by-reference operator {}", ctx);
                let mut m = a.clone();
                m += &b;
                chk!(&m, &ra.zip(&rb, |x, y| x + y), deep, "A+=&B {}", ctx);
                let mut m = a.clone();
                m += b.clone();
                chk!(&m, &ra.zip(&rb, |x, y| x + y), false, "A+=B {}", ctx);
                let mut m = a.clone();
                m -= &b;
                chk!(&m, &ra.zip(&rb, |x, y| x - y), deep, "A-=&B {}", ctx);
                let mut m = a.clone();
                m -= b.clone();
                chk!(&m, &ra.zip(&rb, |x, y| x - y), false, "A-=B {}", ctx);
                let mut m = a.clone();
                m *= s;
                chk!(&m, &ra.map(|x| x * s), deep, "A*=s {}", ctx);
                let mut m = a.clone();
                m /= dv;
                chk!(&m, &ra.map(|x| x / dv), deep, "A/=d {}", ctx);
                let mut m = a.clone();
                m += s;
                chk!(&m, &ra.map(|x| x + s), deep, "A+=s {}", ctx);
                let mut m = a.clone();
                m -= s;
                chk!(&m, &ra.map(|x| x - s), deep, "A-=s {}", ctx);
                // algebraic identities through the library only
                let z = &(&a + &b) - &b;
                chk!(&z, &ra, false, "(A+B)-B {}", ctx);
                let z = &a + &(-&a);
                chk!(&z, &R::new(r, c, T::zero()), false, "A+(-A) {}", ctx);
                // transposes
                let mut t = a.clone();
                t.transpose_in_place();
                chk!(&t, &ra.t(), deep, "transpose_in_place {}", ctx);
                t.transpose_in_place();
                chk!(&t, &ra, false, "transpose_in_place twice {}", ctx);
                chk!(&a.transpose(), &ra.t(), false, "transpose {}", ctx);
                chk!(&(&a.transpose() + &b.transpose()), &ra.zip(&rb, |x, y| x + y).t(), false, "A^T+B^T {}", ctx);
                tick(26);
            }
            // non-conformable sums are rejected (extra)
            let a = Matrix::<T>::new(r, c, T::one());
            for (r2, c2) in [(r + 1, c), (r, c + 1), (c, r)] {
                if (r2, c2) == (r, c) {
                    continue;
                }
                let b = Matrix::<T>::new(r2, c2, T::one());
                must_panic(|| { let _ = &a + &b; }, "non-conformable +");
                must_panic(|| { let _ = &a - &b; }, "non-conformable -");
                must_panic(|| { let mut m = a.clone(); m += &b; }, "non-conformable +=");
                must_panic(|| { let mut m = a.clone(); m -= &b; }, "non-conformable -=");
            }
        }
    }
    report(&format!("elementwise<{}>", T::NAME));
}

// ------------------------------------------------------------------- single editing operations
fn edits<T: E>(seed: u64, reps: usize) {
    quiet();
    let mut g = Rng::new(seed);
    // constructors
    let e: Matrix<T> = Matrix::empty();
    chk!(&e, &R::new(0, 0, T::zero()), true, "empty()");
    for n in 0..=8usize {
        chk!(&Matrix::<T>::eye(n), &R::from_fn(n, n, |i, j| if i == j { T::one() } else { T::zero() }), true, "eye({})", n);
        tick(1);
    }
    for r in 0..=8usize {
        for c in 0..=8usize {
            let e = T::gen(&mut g, 0);
            chk!(&Matrix::<T>::new(r, c, e), &R::new(r, c, e), true, "new({},{},{:?})", r, c, e);
            for rep in 0..reps {
                let pa = if rep == 0 { 1 } else { g.below(NPAT) };
                let ra = gen_pat::<T>(&mut g, r, c, pa);
                let a = ra.to_m();
                chk!(&a, &ra, true, "build {}x{}", r, c);
                // IndexMut on every position
                if rep == 0 {
                    for i in 0..r {
                        for j in 0..c {
                            let mut m = a.clone();
                            let v = T::int(-77);
                            m[(i, j)] = v;
                            let mut w = ra.clone();
                            w.d[i][j] = v;
                            chk!(&m, &w, false, "m[({},{})]=v on {}x{}", i, j, r, c);
                            tick(1);
                        }
                    }
                }
                // rows
                for i in 0..r {
                    let v: Vec<T> = (0..c).map(|_| T::gen(&mut g, rep)).collect();
                    let mut m = a.clone();
                    m.set_row(i, vecof(&v));
                    let mut w = ra.clone();
                    w.d[i] = v.clone();
                    chk!(&m, &w, rep == 0, "set_row({}) on {}x{} A={:?} v={:?}", i, r, c, ra.d, v);
                    let mut m = a.clone();
                    m.delete_row(i);
                    let mut w = ra.clone();
                    w.d.remove(i);
                    w.r -= 1;
                    chk!(&m, &w, rep == 0, "delete_row({}) on {}x{} A={:?}", i, r, c, ra.d);
                    // resize after delete
                    let (nr, nc) = (g.below(9), g.below(9));
                    m.resize(nr, nc);
                    chk!(&m, &w.resize(nr, nc), false, "delete_row({}) then resize({},{}) on {}x{} A={:?}", i, nr, nc, r, c, ra.d);
                    let e = T::gen(&mut g, rep);
                    let mut m = a.clone();
                    m.fill_row(i, e);
                    let mut w = ra.clone();
                    for j in 0..c {
                        w.d[i][j] = e;
                    }
                    chk!(&m, &w, false, "fill_row({}) on {}x{}", i, r, c);
                    for i2 in 0..r {
                        let mut m = a.clone();
                        m.swap_rows(i, i2);
                        let mut w = ra.clone();
                        w.d.swap(i, i2);
                        chk!(&m, &w, false, "swap_rows({},{}) on {}x{} A={:?}", i, i2, r, c, ra.d);
                        tick(1);
                    }
                    tick(4);
                }
                // cols
                for j in 0..c {
                    let v: Vec<T> = (0..r).map(|_| T::gen(&mut g, rep)).collect();
                    let mut m = a.clone();
                    m.set_col(j, vecof(&v));
                    let mut w = ra.clone();
                    for i in 0..r {
                        w.d[i][j] = v[i];
                    }
                    chk!(&m, &w, rep == 0, "set_col({}) on {}x{} A={:?} v={:?}", j, r, c, ra.d, v);
                    let e = T::gen(&mut g, rep);
                    let mut m = a.clone();
                    m.fill_col(j, e);
                    let mut w = ra.clone();
                    for i in 0..r {
                        w.d[i][j] = e;
                    }
                    chk!(&m, &w, false, "fill_col({}) on {}x{}", j, r, c);
                    tick(2);
                }
                // swap_elem
                if r > 0 && c > 0 {
                    for _ in 0..4 {
                        let (i1, j1, i2, j2) = (g.below(r), g.below(c), g.below(r), g.below(c));
                        let mut m = a.clone();
                        m.swap_elem(i1, j1, i2, j2);
                        let mut w = ra.clone();
                        let t = w.d[i1][j1];
                        w.d[i1][j1] = w.d[i2][j2];
                        w.d[i2][j2] = t;
                        chk!(&m, &w, false, "swap_elem({},{},{},{}) on {}x{}", i1, j1, i2, j2, r, c);
                        tick(1);
                    }
                }
                // fills
                let e = T::gen(&mut g, rep);
                let mut m = a.clone();
                m.fill(e);
                chk!(&m, &R::new(r, c, e), false, "fill on {}x{}", r, c);
                let mut m = a.clone();
                m.fill_diag(e);
                chk!(&m, &R::from_fn(r, c, |i, j| if i == j { e } else { ra.d[i][j] }), rep == 0, "fill_diag on {}x{}", r, c);
                for off in -10isize..=10 {
                    let mut m = a.clone();
                    m.fill_band(off, e);
                    chk!(
                        &m,
                        &R::from_fn(r, c, |i, j| if j as isize - i as isize == off { e } else { ra.d[i][j] }),
                        false,
                        "fill_band({}) on {}x{}", off, r, c
                    );
                    tick(1);
                }
                let (lo, di, up) = (T::gen(&mut g, 0), T::gen(&mut g, 0), T::gen(&mut g, 0));
                let mut m = a.clone();
                m.fill_tridiag(lo, di, up);
                chk!(
                    &m,
                    &R::from_fn(r, c, |i, j| match j as isize - i as isize {
                        -1 => lo,
                        0 => di,
                        1 => up,
                        _ => ra.d[i][j],
                    }),
                    rep == 0,
                    "fill_tridiag on {}x{}", r, c
                );
                let mut m = a.clone();
                m.clear();
                chk!(&m, &R::new(0, 0, T::zero()), false, "clear on {}x{}", r, c);
                if !(m == Matrix::<T>::empty()) {
                    panic!("clear() != empty()");
                }
                tick(5);
                // out-of-range rejections; the matrix must stay intact
                if rep == 0 {
                    for extra in 0..3usize {
                        let mut m = a.clone();
                        must_panic(|| { let _ = m.get_row(r + extra); }, "get_row out of range");
                        must_panic(|| { let _ = m.get_col(c + extra); }, "get_col out of range");
                        must_panic(|| m.set_row(r + extra, Vector::new(c, T::one())), "set_row out of range");
                        must_panic(|| m.set_col(c + extra, Vector::new(r, T::one())), "set_col out of range");
                        must_panic(|| m.delete_row(r + extra), "delete_row out of range");
                        must_panic(|| m.fill_row(r + extra, T::one()), "fill_row out of range");
                        must_panic(|| m.fill_col(c + extra, T::one()), "fill_col out of range");
                        must_panic(|| m.swap_rows(0, r + extra), "swap_rows out of range");
                        must_panic(|| m.swap_rows(r + extra, 0), "swap_rows out of range");
                        if r > 0 {
                            must_panic(|| m.set_row(0, Vector::new(c + 1 + extra, T::one())), "set_row wrong length");
                        }
                        if c > 0 {
                            must_panic(|| m.set_col(0, Vector::new(r + 1 + extra, T::one())), "set_col wrong length");
                        }
                        chk!(&m, &ra, false, "matrix changed by a rejected call on {}x{}", r, c);
                        tick(9);
                    }
                }
            }
        }
    }
    report(&format!("edits<{}>", T::NAME));
}

fn resizes<T: E>(seed: u64, reps: usize) {
    quiet();
    let mut g = Rng::new(seed);
    for r in 0..=8usize {
        for c in 0..=8usize {
            for nr in 0..=9usize {
                for nc in 0..=9usize {
                    for rep in 0..reps {
                        let pa = if rep == 0 { 1 } else { g.below(NPAT) };
                        let ra = gen_pat::<T>(&mut g, r, c, pa);
                        let mut m = ra.to_m();
                        m.resize(nr, nc);
                        let w = ra.resize(nr, nc);
                        chk!(&m, &w, rep == 0, "resize {}x{} -> {}x{} A={:?}", r, c, nr, nc, ra.d);
                        // and back
                        m.resize(r, c);
                        chk!(&m, &w.resize(r, c), false, "resize {}x{} -> {}x{} -> back A={:?}", r, c, nr, nc, ra.d);
                        tick(2);
                    }
                }
            }
        }
    }
    report(&format!("resizes<{}>", T::NAME));
}

// -------------------------------------------------------------------------------- histories
const NOPS: usize = 40;
fn history<T: E>(seed: u64, steps: usize) {
    let mut g = Rng::new(seed);
    let (r0, c0) = (g.below(9), g.below(9));
    let p0 = g.below(NPAT);
    let mut rf = gen_pat::<T>(&mut g, r0, c0, p0);
    let mut m = rf.to_m();
    let favour_small = g.below(3) == 0;
    let dim = |g: &mut Rng| if favour_small { g.below(4) } else { g.below(9) };
    for step in 0..steps {
        let op = g.below(NOPS);
        let (r, c) = (rf.r, rf.c);
        let cls = g.below(5);
        match op {
            0 => {
                if r > 0 && c > 0 {
                    let (i, j) = (g.below(r), g.below(c));
                    let e = T::gen(&mut g, cls);
                    m[(i, j)] = e;
                    rf.d[i][j] = e;
                }
            }
            1 => {
                if r > 0 {
                    let i = [0, r - 1, g.below(r)][g.below(3)];
                    let v: Vec<T> = (0..c).map(|_| T::gen(&mut g, cls)).collect();
                    m.set_row(i, vecof(&v));
                    rf.d[i] = v;
                }
            }
            2 => {
                if c > 0 {
                    let j = [0, c - 1, g.below(c)][g.below(3)];
                    let v: Vec<T> = (0..r).map(|_| T::gen(&mut g, cls)).collect();
                    m.set_col(j, vecof(&v));
                    for i in 0..r {
                        rf.d[i][j] = v[i];
                    }
                }
            }
            3 => {
                if r > 0 {
                    let (i, j) = (g.below(r), g.below(r));
                    m.swap_rows(i, j);
                    rf.d.swap(i, j);
                }
            }
            4 => {
                if r > 0 && c > 0 {
                    let (i1, j1, i2, j2) = (g.below(r), g.below(c), g.below(r), g.below(c));
                    m.swap_elem(i1, j1, i2, j2);
                    let t = rf.d[i1][j1];
                    rf.d[i1][j1] = rf.d[i2][j2];
                    rf.d[i2][j2] = t;
                }
            }
            5 | 6 => {
                if r > 0 {
                    let i = [0, r - 1, g.below(r)][g.below(3)];
                    m.delete_row(i);
                    rf.d.remove(i);
                    rf.r -= 1;
                }
            }
            7 | 8 => {
                m.transpose_in_place();
                rf = rf.t();
            }
            9 => {
                m = m.transpose();
                rf = rf.t();
            }
            10 | 11 | 12 => {
                let (nr, nc) = (dim(&mut g), dim(&mut g));
                m.resize(nr, nc);
                rf = rf.resize(nr, nc);
            }
            13 => {
                let e = T::gen(&mut g, cls);
                m.fill(e);
                rf = R::new(r, c, e);
            }
            14 => {
                let e = T::gen(&mut g, cls);
                m.fill_diag(e);
                for i in 0..r.min(c) {
                    rf.d[i][i] = e;
                }
            }
            15 => {
                let e = T::gen(&mut g, cls);
                let off = g.range(-9, 9) as isize;
                m.fill_band(off, e);
                for i in 0..r {
                    for j in 0..c {
                        if j as isize - i as isize == off {
                            rf.d[i][j] = e;
                        }
                    }
                }
            }
            16 => {
                let (lo, di, up) = (T::gen(&mut g, cls), T::gen(&mut g, cls), T::gen(&mut g, cls));
                m.fill_tridiag(lo, di, up);
                for i in 0..r {
                    for j in 0..c {
                        match j as isize - i as isize {
                            -1 => rf.d[i][j] = lo,
                            0 => rf.d[i][j] = di,
                            1 => rf.d[i][j] = up,
                            _ => {}
                        }
                    }
                }
            }
            17 => {
                if r > 0 {
                    let i = g.below(r);
                    let e = T::gen(&mut g, cls);
                    m.fill_row(i, e);
                    for j in 0..c {
                        rf.d[i][j] = e;
                    }
                }
            }
            18 => {
                if c > 0 {
                    let j = g.below(c);
                    let e = T::gen(&mut g, cls);
                    m.fill_col(j, e);
                    for i in 0..r {
                        rf.d[i][j] = e;
                    }
                }
            }
            19 => {
                let s = T::gen(&mut g, cls);
                match g.below(4) {
                    0 => {
                        m += s;
                        rf = rf.map(|x| x + s);
                    }
                    1 => {
                        m -= s;
                        rf = rf.map(|x| x - s);
                    }
                    2 => {
                        m *= s;
                        rf = rf.map(|x| x * s);
                    }
                    _ => {
                        let d = T::divisor(&mut g);
                        m /= d;
                        rf = rf.map(|x| x / d);
                    }
                }
            }
            20 | 21 => {
                let ro = if g.below(4) == 0 { rf.clone() } else { let p = g.below(NPAT); gen_pat::<T>(&mut g, r, c, p) };
                let o = ro.to_m();
                match g.below(8) {
                    0 => {
                        m += &o;
                        rf = rf.zip(&ro, |x, y| x + y);
                    }
                    1 => {
                        m += o;
                        rf = rf.zip(&ro, |x, y| x + y);
                    }
                    2 => {
                        m -= &o;
                        rf = rf.zip(&ro, |x, y| x - y);
                    }
                    3 => {
                        m -= o;
                        rf = rf.zip(&ro, |x, y| x - y);
                    }
                    4 => {
                        m = &m + &o;
                        rf = rf.zip(&ro, |x, y| x + y);
                    }
                    5 => {
                        m = m + o;
                        rf = rf.zip(&ro, |x, y| x + y);
                    }
                    6 => {
                        m = &o - &m;
                        rf = ro.zip(&rf, |x, y| x - y);
                    }
                    _ => {
                        m = m - o;
                        rf = rf.zip(&ro, |x, y| x - y);
                    }
                }
            }
            22 => {
                if g.below(2) == 0 {
                    m = -&m;
                } else {
                    m = -m;
                }
                rf = rf.map(|x| -x);
            }
            23 => {
                let s = T::gen(&mut g, cls);
                let d = T::divisor(&mut g);
                match g.below(4) {
                    0 => {
                        m = &m * s;
                        rf = rf.map(|x| x * s);
                    }
                    1 => {
                        m = m * s;
                        rf = rf.map(|x| x * s);
                    }
                    2 => {
                        m = &m / d;
                        rf = rf.map(|x| x / d);
                    }
                    _ => {
                        m = m / d;
                        rf = rf.map(|x| x / d);
                    }
                }
            }
            24 | 25 => {
                // post-multiply
                let c2 = dim(&mut g);
                let p = g.below(NPAT);
                let ro = gen_pat::<T>(&mut g, c, c2, p);
                let o = ro.to_m();
                if g.below(2) == 0 {
                    m = &m * &o;
                } else {
                    m = m * o;
                }
                rf = rf.mul(&ro);
            }
            26 | 27 => {
                // pre-multiply
                let r2 = dim(&mut g);
                let p = g.below(NPAT);
                let ro = gen_pat::<T>(&mut g, r2, r, p);
                let o = ro.to_m();
                if g.below(2) == 0 {
                    m = &o * &m;
                } else {
                    m = o * m;
                }
                rf = ro.mul(&rf);
            }
            28 => {
                // Gram products with its own transpose
                if g.below(2) == 0 {
                    m = &m * &m.transpose();
                    rf = rf.mul(&rf.t());
                } else {
                    m = &m.transpose() * &m;
                    rf = rf.t().mul(&rf);
                }
            }
            29 => {
                if r == c {
                    m = &m * &m;
                    rf = rf.mul(&rf);
                }
            }
            30 => {
                m.clear();
                rf = R::new(0, 0, T::zero());
            }
            31 => match g.below(3) {
                0 => {
                    let n = dim(&mut g);
                    m = Matrix::eye(n);
                    rf = R::from_fn(n, n, |i, j| if i == j { T::one() } else { T::zero() });
                }
                1 => {
                    let (nr, nc) = (dim(&mut g), dim(&mut g));
                    let e = T::gen(&mut g, cls);
                    m = Matrix::new(nr, nc, e);
                    rf = R::new(nr, nc, e);
                }
                _ => {
                    m = Matrix::empty();
                    rf = R::new(0, 0, T::zero());
                }
            },
            32 | 33 => {
                // a view: matrix-vector products, all forms
                let v: Vec<T> = (0..c).map(|_| T::gen(&mut g, cls)).collect();
                let x = vecof(&v);
                let want = rf.mulv(&v);
                let y1 = &m * &x;
                let y2 = m.clone() * x.clone();
                let y3 = m.multiply(&x);
                if y1.vec != want || y2.vec != want || y3.vec != want {
                    panic!("MISMATCH [{}]: history seed {} step {}: mat-vec on {:?} with {:?}: {:?} {:?} {:?} expected {:?}",
                        T::NAME, seed, step, rf.d, v, y1.vec, y2.vec, y3.vec, want);
                }
            }
            34 => {
                // rejected calls leave the state alone
                let which = g.below(7);
                let res = catch_unwind(AssertUnwindSafe(|| match which {
                    0 => m.set_row(r, Vector::new(c, T::one())),
                    1 => m.set_col(c, Vector::new(r, T::one())),
                    2 => m.delete_row(r),
                    3 => m.swap_rows(0, r),
                    4 => m.fill_row(r, T::one()),
                    5 => m.fill_col(c, T::one()),
                    _ => {
                        let _ = m.get_col(c);
                    }
                }));
                if res.is_ok() {
                    panic!("NO-REJECTION [{}]: history seed {} step {} which {} on {}x{}", T::NAME, seed, step, which, r, c);
                }
            }
            35 => {
                // grow by one row / one column then fill it (the usual "append" idiom)
                if r < 8 && c < 8 {
                    if g.below(2) == 0 {
                        m.resize(r + 1, c);
                        rf = rf.resize(r + 1, c);
                        let v: Vec<T> = (0..c).map(|_| T::gen(&mut g, cls)).collect();
                        m.set_row(r, vecof(&v));
                        rf.d[r] = v;
                    } else {
                        m.resize(r, c + 1);
                        rf = rf.resize(r, c + 1);
                        let v: Vec<T> = (0..r).map(|_| T::gen(&mut g, cls)).collect();
                        m.set_col(c, vecof(&v));
                        for i in 0..r {
                            rf.d[i][c] = v[i];
                        }
                    }
                }
            }
            36 => {
                // clone and continue on the clone
                let cl = m.clone();
                m = cl;
            }
            37 => {
                // row copied to another row via get_row / set_row; column likewise
                if r > 0 && c > 0 {
                    if g.below(2) == 0 {
                        let (i, j) = (g.below(r), g.below(r));
                        let row = m.get_row(i);
                        m.set_row(j, row);
                        rf.d[j] = rf.d[i].clone();
                    } else {
                        let (i, j) = (g.below(c), g.below(c));
                        let col = m.get_col(i);
                        m.set_col(j, col);
                        for k in 0..r {
                            rf.d[k][j] = rf.d[k][i];
                        }
                    }
                }
            }
            38 => {
                // delete all rows one by one from the front or the back, checking each time
                let front = g.below(2) == 0;
                while rf.r > 0 {
                    let i = if front { 0 } else { rf.r - 1 };
                    m.delete_row(i);
                    rf.d.remove(i);
                    rf.r -= 1;
                    if let Some(e) = check(&m, &rf, true) {
                        panic!("MISMATCH [{}]: history seed {} step {} (delete all rows): {}", T::NAME, seed, step, e);
                    }
                }
            }
            _ => {
                // sum with own transpose when square
                if r == c {
                    m = &m + &m.transpose();
                    rf = rf.zip(&rf.t(), |x, y| x + y);
                }
            }
        }
        if let Some(e) = check(&m, &rf, true) {
            panic!("MISMATCH [{}]: history seed {} step {} op {}: {} ; expected state {:?}", T::NAME, seed, step, op, e, rf);
        }
        HSTEPS.fetch_add(1, Ordering::Relaxed);
        if rf.r * rf.c > 0 {
            HNONEMPTY.fetch_add(1, Ordering::Relaxed);
        }
        if rf.c > rf.r {
            HWIDE.fetch_add(1, Ordering::Relaxed);
        }
        if rf.r > rf.c {
            HTALL.fetch_add(1, Ordering::Relaxed);
        }
        if rf.any_big() {
            // legitimate operation too: bring the magnitudes back so that the harness types do not overflow
            let e = T::gen(&mut g, 0);
            m.fill(e);
            rf = R::new(rf.r, rf.c, e);
        }
        tick(1);
    }
}
fn histories<T: E>(seed0: u64, count: usize, steps: usize) {
    quiet();
    for h in 0..count {
        history::<T>(seed0 + h as u64, steps);
    }
    report(&format!("histories<{}>", T::NAME));
    eprintln!(
        "[hunt] history steps so far {} (non-empty state {}, wide {}, tall {})",
        HSTEPS.load(Ordering::Relaxed), HNONEMPTY.load(Ordering::Relaxed), HWIDE.load(Ordering::Relaxed), HTALL.load(Ordering::Relaxed)
    );
}

// ------------------------------------------------------------------------------- test entry
macro_rules! tests_for {
    ($modname:ident, $t:ty, $seed:expr) => {
        mod $modname {
            use super::*;
            #[test]
            fn products_all_shapes() {
                products::<$t>($seed + 1, 14);
            }
            #[test]
            fn unit_matrix_products() {
                unit_products::<$t>();
            }
            #[test]
            fn elementwise_all_shapes() {
                elementwise::<$t>($seed + 2, 40);
            }
            #[test]
            fn single_edits_all_shapes() {
                edits::<$t>($seed + 3, 6);
            }
            #[test]
            fn resize_all_pairs() {
                resizes::<$t>($seed + 4, 2);
            }
            #[test]
            fn histories_long() {
                histories::<$t>($seed * 1000 + 5, 6000, 60);
            }
            #[test]
            fn histories_short_many() {
                histories::<$t>($seed * 1000 + 500_000, 30000, 8);
            }
        }
    };
}
tests_for!(q, Q, 11);
tests_for!(fp, Fp, 22);
tests_for!(int64, i64, 33);
tests_for!(float64, f64, 44);
tests_for!(cmplx, Complex<f64>, 55);

// ------------------------------------------------------------------------------------ norms
fn ref_norm_1(r: &R<f64>) -> f64 {
    let mut best = 0.0f64;
    for j in 0..r.c {
        let mut s = 0.0;
        for i in 0..r.r {
            s += f64::abs(r.d[i][j]);
        }
        if s > best {
            best = s;
        }
    }
    best
}
fn ref_norm_inf(r: &R<f64>) -> f64 {
    let mut best = 0.0f64;
    for i in 0..r.r {
        let mut s = 0.0;
        for j in 0..r.c {
            s += f64::abs(r.d[i][j]);
        }
        if s > best {
            best = s;
        }
    }
    best
}
fn ref_norm_max(r: &R<f64>) -> f64 {
    let mut best = 0.0f64;
    for row in &r.d {
        for x in row {
            if f64::abs(*x) > best {
                best = f64::abs(*x);
            }
        }
    }
    best
}
fn ref_norm_p(r: &R<f64>, p: f64) -> f64 {
    // scaled evaluation, independent of the library's direct sum
    let mx = ref_norm_max(r);
    if mx == 0.0 {
        return 0.0;
    }
    let mut s = 0.0;
    for row in &r.d {
        for x in row {
            s += (f64::abs(*x) / mx).powf(p);
        }
    }
    mx * s.powf(1.0 / p)
}
fn close(a: f64, b: f64, tol: f64) -> bool {
    if a == b {
        return true;
    }
    a.is_finite() && b.is_finite() && f64::abs(a - b) <= tol * f64::abs(a).max(f64::abs(b))
}

#[test]
fn norms_all_shapes() {
    quiet();
    let mut g = Rng::new(777);
    for r in 0..=8usize {
        for c in 0..=8usize {
            for rep in 0..400usize {
                let pat = if rep < NPAT { rep } else { g.below(NPAT) };
                let mut rf = gen_pat::<f64>(&mut g, r, c, pat);
                // non-dyadic and mixed-magnitude values too
                if rep % 5 == 4 {
                    rf = rf.map(|x| x * 0.1 + 0.3);
                }
                if rep % 11 == 10 {
                    rf = R::from_fn(r, c, |_, _| {
                        let m = (g.next() >> 11) as f64 / (1u64 << 53) as f64 - 0.5;
                        m * (10.0f64).powi(g.range(-3, 3) as i32)
                    });
                }
                if rep % 13 == 12 {
                    rf = rf.map(|x| if x == 0.0 { -0.0 } else { x });
                }
                let m = rf.to_m();
                let ctx = format!("{}x{} {:?}", r, c, rf.d);
                let (n1, ni, nm, nf) = (m.norm_1(), m.norm_inf(), m.norm_max(), m.norm_frob());
                assert!(n1 == ref_norm_1(&rf), "norm_1 {} expected {} :: {}", n1, ref_norm_1(&rf), ctx);
                assert!(ni == ref_norm_inf(&rf), "norm_inf {} expected {} :: {}", ni, ref_norm_inf(&rf), ctx);
                assert!(nm == ref_norm_max(&rf), "norm_max {} expected {} :: {}", nm, ref_norm_max(&rf), ctx);
                assert!(close(nf, ref_norm_p(&rf, 2.0), 1e-13), "norm_frob {} expected {} :: {}", nf, ref_norm_p(&rf, 2.0), ctx);
                // second method for Frobenius: sqrt of the sum of squares
                let mut ss = 0.0;
                for row in &rf.d {
                    for x in row {
                        ss += x * x;
                    }
                }
                assert!(close(nf, ss.sqrt(), 1e-13), "norm_frob {} expected {} :: {}", nf, ss.sqrt(), ctx);
                for p in [1.0, 1.5, 2.0, 3.0, 4.0, 7.0] {
                    let np = m.norm_p(p);
                    assert!(close(np, ref_norm_p(&rf, p), 1e-12), "norm_p({}) {} expected {} :: {}", p, np, ref_norm_p(&rf, p), ctx);
                }
                // norm relations: transpose swaps 1 and inf; sign flips do not matter; max <= frob <= sqrt(rc) max
                let t = m.transpose();
                assert!(t.norm_1() == ni && t.norm_inf() == n1 && t.norm_max() == nm, "transpose norms :: {}", ctx);
                assert!(close(t.norm_frob(), nf, 1e-13), "transpose frob :: {}", ctx);
                let neg = -&m;
                assert!(neg.norm_1() == n1 && neg.norm_inf() == ni && neg.norm_max() == nm && neg.norm_frob() == nf, "negation norms :: {}", ctx);
                assert!(nm <= nf * (1.0 + 1e-13) && nf <= ((r * c) as f64).sqrt() * nm * (1.0 + 1e-13), "norm ordering :: {}", ctx);
                if r * c == 0 {
                    assert!(n1 == 0.0 && ni == 0.0 && nm == 0.0 && nf == 0.0, "empty matrix norms :: {}", ctx);
                }
                tick(12);
            }
        }
    }
    report("norms");
}

// equality is "same shape and same entries": same row-major data under another shape is a different matrix
#[test]
fn equality_semantics() {
    quiet();
    let mut g = Rng::new(99);
    let shapes: Vec<(usize, usize)> = (0..=8).flat_map(|r| (0..=8).map(move |c| (r, c))).collect();
    for &(r1, c1) in &shapes {
        let a = gen_pat::<i64>(&mut g, r1, c1, 1);
        let ma = a.to_m();
        for &(r2, c2) in &shapes {
            // same row-major sequence 1,2,3,... in another shape
            let b = gen_pat::<i64>(&mut g, r2, c2, 1);
            let mb = b.to_m();
            let same = (r1, c1) == (r2, c2);
            assert!((ma == mb) == same, "{}x{} == {}x{} gave {}", r1, c1, r2, c2, ma == mb);
            assert!((ma != mb) != same);
            tick(1);
        }
        for i in 0..r1 {
            for j in 0..c1 {
                let mut mb = ma.clone();
                mb[(i, j)] += 1;
                assert!(ma != mb && !(ma == mb), "one differing entry not seen by == at ({},{}) of {}x{}", i, j, r1, c1);
                tick(1);
            }
        }
        // reached through different histories
        let mut h = Matrix::<i64>::new(8, 8, 9);
        h.resize(r1, c1);
        h.fill(0);
        let mut k = Matrix::<i64>::empty();
        k.resize(c1, r1);
        k.transpose_in_place();
        assert!(h == k, "history dependence of == on {}x{}", r1, c1);
        let mut d = Matrix::<i64>::new(r1 + 2, c1, 0);
        d.delete_row(0);
        d.delete_row(r1);
        assert!(d == k, "history dependence (delete) of == on {}x{}", r1, c1);
    }
    report("equality");
}

// f64 * Matrix<f64> (the only left-scalar form)
#[test]
fn left_scalar_f64() {
    quiet();
    let mut g = Rng::new(4242);
    for r in 0..=8usize {
        for c in 0..=8usize {
            for rep in 0..60 {
                let p = g.below(NPAT);
                let rf = gen_pat::<f64>(&mut g, r, c, p);
                let s = <f64 as E>::gen(&mut g, rep);
                let m = rf.to_m();
                let got = s * m.clone();
                if let Some(e) = check(&got, &rf.map(|x| x * s), true) {
                    panic!("MISMATCH f64*M: {} :: {}x{} {:?} s={}", e, r, c, rf.d, s);
                }
                tick(1);
            }
        }
    }
    report("left_scalar_f64");
}

// Side probe (documentation claim on norm_p: "p=inf is max norm"); printed, not asserted here.
#[test]
fn probe_norm_p_infinity() {
    let mut m = Matrix::<f64>::new(2, 2, 0.0);
    m[(0, 0)] = 3.0;
    m[(0, 1)] = -4.0;
    m[(1, 0)] = 0.5;
    m[(1, 1)] = 1.0;
    eprintln!("[probe] norm_p(inf) = {} ; norm_max = {}", m.norm_p(f64::INFINITY), m.norm_max());
    let z = Matrix::<f64>::new(2, 2, 0.25);
    eprintln!("[probe] all 0.25: norm_p(inf) = {} ; norm_max = {}", z.norm_p(f64::INFINITY), z.norm_max());
}

// Side probe: Index with a column index >= cols (no textbook definition; outside the domain)
#[test]
fn probe_index_column_out_of_range() {
    quiet();
    let rf = gen_pat::<i64>(&mut Rng::new(1), 3, 2, 1);
    let m = rf.to_m();
    let res = catch_unwind(AssertUnwindSafe(|| m[(0, 2)]));
    eprintln!("[probe] 3x2 matrix, m[(0,2)] -> {:?} (m[(1,0)] = {})", res.as_ref().ok(), m[(1, 0)]);
}
